(** Proofs/Markup_proofs.v — theorems about Kernels/Markup.v (C04).

    Part A  characters: cp / tagged / mk / untag1
    Part B  Clean (= not Tainted) is preserved by the string primitives
    Part C  every filter preserves [safe_inv] (the per-filter dataflow obligation)
    Part D  what an output statement writes is Clean
    Part E  chains, template strings, captures: [autoescape_sound]
    Part F  tag transparency: the tagged run is the real run
    Part G  the process-wide cache of [date] (refuted / guarded) *)
From LQ Require Import Base.Str Kernels.Markup.
Local Open Scope N_scope.

(** * Part A — characters *)

Lemma TAG_nz : TAG <> 0. Proof. discriminate. Qed.

Lemma cp_lt c : cp c < TAG.
Proof. apply N.mod_lt, TAG_nz. Qed.

Lemma cp_small n : n < TAG -> cp n = n.
Proof. apply N.mod_small. Qed.

Lemma tagged_small n : n < TAG -> tagged n = false.
Proof. intro H. unfold tagged. rewrite N.div_small by exact H. reflexivity. Qed.

Lemma cp_cp c : cp (cp c) = cp c.
Proof. apply cp_small, cp_lt. Qed.

Lemma tagged_cp c : tagged (cp c) = false.
Proof. apply tagged_small, cp_lt. Qed.

Lemma cp_mk t n : n < TAG -> cp (mk t n) = n.
Proof.
  intro H. destruct t; simpl; [|apply cp_small, H].
  unfold cp. replace (n + TAG) with (n + 1 * TAG) by (rewrite N.mul_1_l; reflexivity).
  rewrite N.mod_add by exact TAG_nz. apply N.mod_small, H.
Qed.

Lemma tagged_mk t n : n < TAG -> tagged (mk t n) = t.
Proof.
  intro H. destruct t; simpl; [|apply tagged_small, H].
  unfold tagged. replace (n + TAG) with (n + 1 * TAG) by (rewrite N.mul_1_l; reflexivity).
  rewrite N.div_add by exact TAG_nz. rewrite N.div_small by exact H. reflexivity.
Qed.

Lemma cp_untag1 c : cp (untag1 c) = cp c.
Proof. apply cp_cp. Qed.

Lemma tagged_untag1 c : tagged (untag1 c) = false.
Proof. apply tagged_cp. Qed.

Lemma untag1_small n : n < TAG -> untag1 n = n.
Proof. apply cp_small. Qed.

Lemma untag1_idem c : untag1 (untag1 c) = untag1 c.
Proof. apply cp_cp. Qed.

Lemma untag1_mk t n : n < TAG -> untag1 (mk t n) = n.
Proof. apply cp_mk. Qed.

Lemma cp_tag1 c : cp (tag1 c) = cp c.
Proof. apply cp_mk, cp_lt. Qed.

Lemma tagged_tag1 c : tagged (tag1 c) = true.
Proof. apply tagged_mk, cp_lt. Qed.

Lemma special_untag1 c : special (untag1 c) = special c.
Proof. unfold special. rewrite cp_untag1. reflexivity. Qed.

Lemma is_ws_untag1 c : is_ws (untag1 c) = is_ws c.
Proof. unfold is_ws. rewrite cp_untag1. reflexivity. Qed.

Lemma is_surrogate_untag1 c : is_surrogate (untag1 c) = is_surrogate c.
Proof. unfold is_surrogate. rewrite cp_untag1. reflexivity. Qed.

Lemma bad_untagged c : tagged c = false -> bad c = false.
Proof. unfold bad. intros ->. reflexivity. Qed.

Lemma bad_not_special c : special c = false -> bad c = false.
Proof. unfold bad. intros ->. apply andb_false_r. Qed.

(** Strings all of whose characters are untagged code points. *)
Definition small (s : str) : Prop := Forall (fun c => c < TAG) s.

Lemma untag_small s : small s -> untag s = s.
Proof.
  induction 1 as [|c s H _ IH]; [reflexivity|].
  unfold untag in *. simpl. rewrite IH, untag1_small by exact H. reflexivity.
Qed.

Lemma small_app a b : small a -> small b -> small (a ++ b).
Proof. intros. apply Forall_app; split; assumption. Qed.

Lemma untag_app a b : untag (a ++ b) = untag a ++ untag b.
Proof. apply map_app. Qed.

Lemma untag_length s : length (untag s) = length s.
Proof. apply map_length. Qed.

Lemma untag_idem s : untag (untag s) = untag s.
Proof. unfold untag. rewrite map_map. apply map_ext, untag1_idem. Qed.

Lemma small_untag s : small (untag s).
Proof. induction s; constructor; [apply cp_lt|assumption]. Qed.

(** * Part B — Clean *)

Lemma Clean_nil : Clean []. Proof. reflexivity. Qed.

Lemma Clean_cons c s : Clean (c :: s) <-> bad c = false /\ Clean s.
Proof.
  unfold Clean. simpl. rewrite andb_true_iff, negb_true_iff. tauto.
Qed.

Lemma Clean_app a b : Clean (a ++ b) <-> Clean a /\ Clean b.
Proof. unfold Clean, cleanb. rewrite forallb_app, andb_true_iff. tauto. Qed.

Lemma Clean_forall s : Clean s <-> forall c, In c s -> bad c = false.
Proof.
  unfold Clean, cleanb. rewrite forallb_forall.
  split; intros H c Hc; specialize (H c Hc); [apply negb_true_iff|apply negb_true_iff]; exact H.
Qed.

Lemma Clean_incl s t : incl t s -> Clean s -> Clean t.
Proof. rewrite !Clean_forall. intros Hi H c Hc. apply H, Hi, Hc. Qed.

Lemma Clean_not_tainted s : Clean s <-> ~ Tainted s.
Proof.
  rewrite Clean_forall. unfold Tainted, bad. split.
  - intros H (c & Hc & Ht & Hs). specialize (H c Hc). rewrite Ht, Hs in H. discriminate.
  - intros H c Hc. destruct (tagged c) eqn:Ht, (special c) eqn:Hs; try reflexivity.
    exfalso. apply H. exists c. auto.
Qed.

Lemma small_Clean s : small s -> Clean s.
Proof.
  intro H. apply Clean_forall. intros c Hc.
  apply bad_untagged, tagged_small. unfold small in H. rewrite Forall_forall in H. apply H, Hc.
Qed.

Lemma Clean_rev s : Clean (rev s) <-> Clean s.
Proof.
  rewrite !Clean_forall. split; intros H c Hc; apply H; [apply -> in_rev|apply in_rev]; exact Hc.
Qed.

Lemma Clean_flat_map (f : char -> str) s :
  (forall c, In c s -> Clean (f c)) -> Clean (flat_map f s).
Proof.
  induction s as [|c s IH]; intro H; simpl; [reflexivity|].
  apply Clean_app; split; [apply H; left; reflexivity|apply IH; intros; apply H; right; assumption].
Qed.

Lemma Clean_concat (l : list str) : (forall s, In s l -> Clean s) -> Clean (concat l).
Proof.
  induction l as [|x l IH]; intro H; simpl; [reflexivity|].
  apply Clean_app; split; [apply H; left; reflexivity|apply IH; intros; apply H; right; assumption].
Qed.

Ltac small_const := repeat constructor.

Lemma small_amp : small [38; 97; 109; 112; 59]. Proof. small_const. Qed.
Lemma small_lt : small [38; 108; 116; 59]. Proof. small_const. Qed.
Lemma small_gt : small [38; 103; 116; 59]. Proof. small_const. Qed.
Lemma small_apos : small [38; 35; 51; 57; 59]. Proof. small_const. Qed.
Lemma small_quot : small [38; 35; 51; 52; 59]. Proof. small_const. Qed.
Lemma small_true : small s_true. Proof. small_const. Qed.
Lemma small_false : small s_false. Proof. small_const. Qed.
Lemma small_True : small s_True. Proof. small_const. Qed.
Lemma small_False : small s_False. Proof. small_const. Qed.
Lemma small_None : small s_None. Proof. small_const. Qed.
Lemma small_dots : small s_dots. Proof. small_const. Qed.
Lemma small_br : small s_br. Proof. small_const. Qed.

(** ** T1: escape removes every taint *)

Lemma esc1_cases c :
  (special c = true /\ small (esc1 c)) \/ (special c = false /\ esc1 c = [c]).
Proof.
  unfold esc1, special.
  destruct (cp c =? 38) eqn:E1; [left; split; [reflexivity|apply small_amp]|].
  destruct (cp c =? 60) eqn:E2; [left; split; [reflexivity|apply small_lt]|].
  destruct (cp c =? 62) eqn:E3; [left; split; [reflexivity|apply small_gt]|].
  destruct (cp c =? 39) eqn:E4; [left; split; [reflexivity|apply small_apos]|].
  destruct (cp c =? 34) eqn:E5; [left; split; [reflexivity|apply small_quot]|].
  right. split; reflexivity.
Qed.

Lemma esc1_Clean c : Clean (esc1 c).
Proof.
  destruct (esc1_cases c) as [[_ H]|[Hs ->]]; [apply small_Clean, H|].
  apply Clean_cons; split; [apply bad_not_special, Hs|reflexivity].
Qed.

Lemma escape_Clean s : Clean (escape s).
Proof. apply Clean_flat_map. intros. apply esc1_Clean. Qed.

Theorem escape_untaints : forall s, ~ Tainted (escape s).
Proof. intro s. apply Clean_not_tainted, escape_Clean. Qed.

(** ** case mapping, strip *)

Lemma upper1_bad c : bad c = false -> bad (upper1 c) = false.
Proof.
  intro H. unfold upper1.
  destruct ((97 <=? cp c) && (cp c <=? 122)) eqn:E; [|exact H].
  apply andb_true_iff in E as [E1 E2]. apply N.leb_le in E1, E2.
  assert (Hlt : cp c - 32 < TAG) by (pose proof (cp_lt c); lia).
  apply bad_not_special. unfold special. rewrite cp_mk by exact Hlt.
  repeat (apply orb_false_iff; split); apply N.eqb_neq; lia.
Qed.

Lemma lower1_bad c : bad c = false -> bad (lower1 c) = false.
Proof.
  intro H. unfold lower1.
  destruct ((65 <=? cp c) && (cp c <=? 90)) eqn:E; [|exact H].
  apply andb_true_iff in E as [E1 E2]. apply N.leb_le in E1, E2.
  assert (Hlt : cp c + 32 < TAG) by (unfold TAG; lia).
  apply bad_not_special. unfold special. rewrite cp_mk by exact Hlt.
  repeat (apply orb_false_iff; split); apply N.eqb_neq; lia.
Qed.

Lemma Clean_map (f : char -> char) s :
  (forall c, bad c = false -> bad (f c) = false) -> Clean s -> Clean (map f s).
Proof.
  intros Hf. induction s as [|c s IH]; intro H; [reflexivity|].
  apply Clean_cons in H as [H1 H2]. simpl. apply Clean_cons; split; [apply Hf, H1|apply IH, H2].
Qed.

Lemma upper_Clean s : Clean s -> Clean (upper s).
Proof. apply Clean_map, upper1_bad. Qed.
Lemma lower_Clean s : Clean s -> Clean (lower s).
Proof. apply Clean_map, lower1_bad. Qed.
Lemma capitalize_Clean s : Clean s -> Clean (capitalize s).
Proof.
  destruct s as [|c s]; [reflexivity|]. intro H. apply Clean_cons in H as [H1 H2].
  simpl. apply Clean_cons; split; [apply upper1_bad, H1|apply lower_Clean, H2].
Qed.

Lemma dropwhile_incl p s : incl (dropwhile p s) s.
Proof.
  induction s as [|c s IH]; simpl; [apply incl_refl|].
  destruct (p c); [apply incl_tl, IH|apply incl_refl].
Qed.

Lemma lstrip_incl s : incl (lstrip s) s.
Proof. apply dropwhile_incl. Qed.
Lemma rstrip_incl s : incl (rstrip s) s.
Proof.
  unfold rstrip. intros c Hc. apply in_rev in Hc. apply dropwhile_incl in Hc.
  apply in_rev. exact Hc.
Qed.
Lemma strip_incl s : incl (strip s) s.
Proof. unfold strip. eapply incl_tran; [apply rstrip_incl|apply lstrip_incl]. Qed.

(** ** replace *)

Lemma repl_incl old new s skip cnt : incl (repl old new s skip cnt) (s ++ new).
Proof.
  revert skip cnt. induction s as [|c s IH]; intros skip cnt; simpl; [intros x []|].
  destruct skip as [|k].
  - destruct (cnt_pos cnt && starts old (c :: s)).
    + intros x Hx. apply in_app_or in Hx as [Hx|Hx].
      * right. apply in_or_app. right. exact Hx.
      * right. apply (IH _ _ x Hx).
    + intros x [<-|Hx]; [left; reflexivity|right; apply (IH _ _ x Hx)].
  - intros x Hx. right. apply (IH _ _ x Hx).
Qed.

Lemma inter_incl new s cnt : incl (inter new s cnt) (s ++ new).
Proof.
  revert cnt. induction s as [|c s IH]; intro cnt; simpl.
  - destruct (cnt_pos cnt); [rewrite app_nil_r; apply incl_refl|intros x []].
  - destruct (cnt_pos cnt).
    + intros x Hx. apply in_app_or in Hx as [Hx|[<-|Hx]].
      * right. apply in_or_app. right. exact Hx.
      * left. reflexivity.
      * right. apply (IH _ x Hx).
    + intros x [<-|Hx]; [left; reflexivity|right; apply in_or_app; left; exact Hx].
Qed.

Lemma replace_incl s old new cnt : incl (replace s old new cnt) (s ++ new).
Proof. destruct old; [apply inter_incl|apply repl_incl]. Qed.

Lemma replace_Clean s old new cnt : Clean s -> Clean new -> Clean (replace s old new cnt).
Proof.
  intros Hs Hn. eapply Clean_incl; [apply replace_incl|]. apply Clean_app; split; assumption.
Qed.

(** ** find / rpartition / split *)

Lemma skipn_incl {A} n (l : list A) : incl (skipn n l) l.
Proof.
  revert l. induction n as [|n IH]; intros [|x l]; simpl; try apply incl_refl.
  apply incl_tl, IH.
Qed.
Lemma firstn_incl {A} n (l : list A) : incl (firstn n l) l.
Proof.
  revert l. induction n as [|n IH]; intros [|x l]; simpl.
  - apply incl_refl.
  - intros z [].
  - apply incl_refl.
  - intros z [<-|Hz]; [left; reflexivity|right; apply (IH l z Hz)].
Qed.

Lemma find_first_incl p s a b : find_first p s = Some (a, b) -> incl a s /\ incl b s.
Proof.
  revert a b. induction s as [|c s IH]; intros a b; simpl.
  - destruct (starts p []); [|discriminate]. intros [= <- <-].
    split; [apply incl_refl|apply skipn_incl].
  - destruct (starts p (c :: s)).
    + intros [= <- <-]. split; [intros x []|apply skipn_incl].
    + destruct (find_first p s) as [[a' b']|] eqn:E; [|discriminate].
      intros [= <- <-]. destruct (IH _ _ eq_refl) as [Ha Hb].
      split; [intros x [<-|Hx]; [left; reflexivity|right; apply Ha, Hx]|apply incl_tl, Hb].
Qed.

Lemma rpartition_incl s sep b a : rpartition s sep = Some (b, a) -> incl b s /\ incl a s.
Proof.
  unfold rpartition. destruct (find_first (rev sep) (rev s)) as [[x y]|] eqn:E; [|discriminate].
  intros [= <- <-]. apply find_first_incl in E as [Hx Hy].
  split; intros c Hc; apply in_rev in Hc; apply in_rev; [apply Hy|apply Hx]; exact Hc.
Qed.

Lemma split_go_incl sep s skip cur :
  Forall (fun p => incl p (rev cur ++ s)) (split_go sep s skip cur).
Proof.
  revert skip cur. induction s as [|c s IH]; intros skip cur; simpl.
  - constructor; [rewrite app_nil_r; apply incl_refl|constructor].
  - destruct skip as [|k].
    + destruct (starts sep (c :: s)).
      * constructor; [apply incl_appl, incl_refl|].
        eapply Forall_impl; [|apply IH]. simpl. intros p Hp. apply incl_appr, incl_tl, Hp.
      * eapply Forall_impl; [|apply IH]. simpl. intros p Hp. rewrite <- app_assoc in Hp. exact Hp.
    + eapply Forall_impl; [|apply IH]. intros p Hp x Hx. apply Hp in Hx.
      apply in_app_or in Hx as [Hx|Hx]; apply in_or_app; [left|right; right]; exact Hx.
Qed.

Lemma split_on_incl s sep : Forall (fun p => incl p s) (split_on s sep).
Proof. apply (split_go_incl sep s O []). Qed.

Lemma wsplit_incl s cur : Forall (fun p => incl p (rev cur ++ s)) (wsplit s cur).
Proof.
  revert cur. induction s as [|c s IH]; intro cur; simpl.
  - destruct cur; constructor; [rewrite app_nil_r; apply incl_refl|constructor].
  - destruct (is_ws c).
    + destruct cur as [|d cur].
      * eapply Forall_impl; [|apply (IH [])]. simpl. intros p Hp. apply incl_tl, Hp.
      * constructor; [apply incl_appl, incl_refl|].
        eapply Forall_impl; [|apply (IH [])]. simpl. intros p Hp. apply incl_appr, incl_tl, Hp.
    + eapply Forall_impl; [|apply IH]. simpl. intros p Hp. rewrite <- app_assoc in Hp. exact Hp.
Qed.

Lemma py_slice_incl {A} (l : list A) a b : incl (py_slice l a b) l.
Proof.
  unfold py_slice. destruct (_ <? _)%Z; [|intros x []].
  eapply incl_tran; [apply firstn_incl|apply skipn_incl].
Qed.

Lemma join_with_incl sep items : incl (join_with sep items) (sep ++ concat items).
Proof.
  induction items as [|x r IH]; [intros y []|].
  destruct r as [|x' r'].
  - simpl. rewrite app_nil_r. apply incl_appr, incl_refl.
  - change (join_with sep (x :: x' :: r')) with (x ++ sep ++ join_with sep (x' :: r')).
    intros y Hy. apply in_app_or in Hy as [Hy|Hy].
    + apply in_or_app. right. simpl. apply in_or_app. left. exact Hy.
    + apply in_app_or in Hy as [Hy|Hy]; [apply in_or_app; left; exact Hy|].
      apply IH in Hy. apply in_app_or in Hy as [Hy|Hy]; apply in_or_app; [left; exact Hy|].
      right. change (concat (x :: x' :: r')) with (x ++ concat (x' :: r')).
      apply in_or_app. right. exact Hy.
Qed.

Lemma join_with_Clean sep items :
  Clean sep -> (forall s, In s items -> Clean s) -> Clean (join_with sep items).
Proof.
  intros Hs Hi. eapply Clean_incl; [apply join_with_incl|].
  apply Clean_app; split; [exact Hs|apply Clean_concat, Hi].
Qed.

(** ** line terminators, quote_plus, plus_to_space *)

Lemma lt_sub_Clean rep s : Clean rep -> Clean s -> Clean (lt_sub rep s).
Proof.
  intro Hr. induction s as [|c s IH]; intro H; [reflexivity|].
  apply Clean_cons in H as [H1 H2]. simpl.
  destruct (cp c =? 10); [apply Clean_app; split; [exact Hr|apply IH, H2]|].
  destruct ((cp c =? 13) && next_is_lf s); [apply IH, H2|].
  apply Clean_cons; split; [exact H1|apply IH, H2].
Qed.

Lemma hexd_lt n : hexd n < TAG.
Proof.
  unfold hexd. pose proof (N.mod_lt n 16 ltac:(discriminate)).
  destruct (n mod 16 <? 10); unfold TAG; lia.
Qed.

Lemma small_pct b : small (pct b).
Proof. unfold pct. repeat constructor; apply hexd_lt. Qed.

Lemma small_flat_map_pct l : small (flat_map pct l).
Proof. induction l; cbn [flat_map]; [apply Forall_nil|apply small_app; [apply small_pct|assumption]]. Qed.

Lemma unreserved_not_special c : unreserved (cp c) = true -> special c = false.
Proof.
  unfold unreserved, special. intro H.
  repeat (apply orb_false_iff; split); apply N.eqb_neq; intro E; rewrite E in H; discriminate.
Qed.

Lemma quote1_Clean c : Clean (quote1 c).
Proof.
  unfold quote1. destruct (unreserved (cp c)) eqn:E.
  - apply Clean_cons; split; [apply bad_not_special, unreserved_not_special, E|reflexivity].
  - destruct (cp c =? 32); [reflexivity|apply small_Clean, small_flat_map_pct].
Qed.

Lemma quote_plus_Clean s : Clean (quote_plus s).
Proof. apply Clean_flat_map. intros. apply quote1_Clean. Qed.

Lemma plus_to_space_Clean s : Clean s -> Clean (plus_to_space s).
Proof.
  apply Clean_map. intros c H. destruct (cp c =? 43); [reflexivity|exact H].
Qed.

(** ** numbers *)

Lemma small_uint_digits u : small (uint_digits u).
Proof. induction u; simpl; constructor; try assumption; reflexivity. Qed.

Lemma small_Z_to_str z : small (Z_to_str z).
Proof.
  destruct z; simpl; [repeat constructor|apply small_uint_digits|].
  constructor; [reflexivity|apply small_uint_digits].
Qed.

(** * Part C — every filter preserves the invariant *)

Section val_induction.
  Variable P : val -> Prop.
  Hypothesis Hs : forall sf s, P (VStr sf s).
  Hypothesis Hi : forall z, P (VInt z).
  Hypothesis Hb : forall b, P (VBool b).
  Hypothesis Hn : P VNil.
  Hypothesis Hl : forall l, Forall P l -> P (VList l).
  Fixpoint val_ind' (v : val) : P v :=
    match v with
    | VStr sf s => Hs sf s
    | VInt z => Hi z
    | VBool b => Hb b
    | VNil => Hn
    | VList l =>
      Hl l ((fix go (l : list val) : Forall P l :=
               match l with
               | [] => Forall_nil P
               | x :: r => Forall_cons x (val_ind' x) (go r)
               end) l)
    end.
End val_induction.

Definition m_ok (m : mstr) : bool := if fst m then cleanb (snd m) else true.

Lemma safe_ok_vstr m : safe_ok (vstr m) = m_ok m.
Proof. destruct m as [[|] s]; reflexivity. Qed.

Lemma m_ok_plain s : m_ok (false, s) = true.
Proof. reflexivity. Qed.

Lemma m_ok_safe s : Clean s -> m_ok (true, s) = true.
Proof. intro H. exact H. Qed.

Lemma m_ok_keep (m : mstr) s' :
  m_ok m = true -> (Clean (snd m) -> Clean s') -> m_ok (fst m, s') = true.
Proof. destruct m as [[|] s]; simpl; intros H1 H2; [apply H2, H1|reflexivity]. Qed.

Lemma safe_ok_keep (m : mstr) s' :
  m_ok m = true -> (Clean (snd m) -> Clean s') -> safe_ok (VStr (fst m) s') = true.
Proof. intros. change (VStr (fst m) s') with (vstr (fst m, s')). rewrite safe_ok_vstr. apply m_ok_keep; assumption. Qed.

Lemma soft_Clean m : m_ok m = true -> Clean (soft m).
Proof. destruct m as [[|] s]; simpl; intro H; [exact H|apply escape_Clean]. Qed.

Lemma str_add_ok a b : m_ok a = true -> m_ok b = true -> m_ok (str_add a b) = true.
Proof.
  intros Ha Hb. unfold str_add. destruct (fst a || fst b); [|reflexivity].
  apply m_ok_safe, Clean_app. split; apply soft_Clean; assumption.
Qed.

Lemma tls_plain_ok v : safe_ok v = true -> m_ok (tls_plain v) = true.
Proof. destruct v as [[|] s| | | |]; simpl; intro H; try reflexivity. exact H. Qed.

Lemma arg_tls_ok a : arg_ok a = true -> m_ok (arg_tls a) = true.
Proof. intro H. apply tls_plain_ok, H. Qed.

Lemma opt_end_ok e : opt_arg_ok e = true -> m_ok (opt_end e) = true.
Proof. destruct e as [a|]; intro H; [apply arg_tls_ok, H|reflexivity]. Qed.

Lemma opt_sep_ok e : opt_arg_ok e = true -> m_ok (opt_sep e) = true.
Proof. destruct e as [a|]; intro H; [apply arg_tls_ok, H|reflexivity]. Qed.

Lemma forallb_flat_map {A B} (p : B -> bool) (f : A -> list B) l :
  (forall x, In x l -> forallb p (f x) = true) -> forallb p (flat_map f l) = true.
Proof.
  induction l as [|x l IH]; intro H; simpl; [reflexivity|].
  rewrite forallb_app, H by (left; reflexivity). apply IH. intros; apply H; right; assumption.
Qed.

Lemma forallb_incl {A} (p : A -> bool) l l' :
  incl l' l -> forallb p l = true -> forallb p l' = true.
Proof. rewrite !forallb_forall. intros Hi H x Hx. apply H, Hi, Hx. Qed.

Lemma forallb_single (v : val) : forallb safe_ok [v] = safe_ok v.
Proof. cbn [forallb]. apply andb_true_r. Qed.

Lemma flat_val_ok k v : safe_ok v = true -> forallb safe_ok (flat_val k v) = true.
Proof.
  revert k. induction v as [sf s|z|b| |l IH] using val_ind'; intros k H.
  1-4: destruct k; cbn [flat_val]; rewrite forallb_single; exact H.
  destruct k as [|k]; [cbn [flat_val]; rewrite forallb_single; exact H|].
  cbn [flat_val]. apply forallb_flat_map. intros x Hx.
  rewrite Forall_forall in IH. apply IH; [exact Hx|].
  cbn [safe_ok] in H. rewrite forallb_forall in H. apply H, Hx.
Qed.

Lemma chars_of_ok s : forallb safe_ok (chars_of s) = true.
Proof. unfold chars_of. induction s; simpl; [reflexivity|assumption]. Qed.

Lemma sequence_arg_ok v : safe_ok v = true -> forallb safe_ok (sequence_arg v) = true.
Proof.
  destruct v as [sf s| | | |l]; intro H; cbn [sequence_arg];
    try (rewrite forallb_single; exact H).
  - apply chars_of_ok.
  - apply forallb_flat_map. intros x Hx. apply flat_val_ok.
    cbn [safe_ok] in H. rewrite forallb_forall in H. apply H, Hx.
Qed.

Lemma str_eq_cp_space s : str_eq_cp s [32] = true -> Clean s.
Proof.
  destruct s as [|c [|d s]]; simpl; try discriminate.
  - rewrite andb_true_r. intro H. apply N.eqb_eq in H. change (cp 32) with 32 in H.
    apply Clean_cons; split; [|reflexivity].
    apply bad_not_special. unfold special. rewrite H. reflexivity.
  - rewrite andb_false_r. discriminate.
Qed.

Lemma str_join_ok sep items :
  m_ok sep = true -> forallb m_ok items = true -> m_ok (str_join sep items) = true.
Proof.
  intros Hs Hi. unfold str_join. destruct sep as [[|] s]; [|reflexivity].
  apply m_ok_safe, join_with_Clean; [exact Hs|].
  intros x Hx. apply in_map_iff in Hx as (m & <- & Hm). apply soft_Clean.
  rewrite forallb_forall in Hi. apply Hi, Hm.
Qed.

Lemma f_replace_ok v old new cnt :
  m_ok v = true -> m_ok new = true -> m_ok (f_replace v old new cnt) = true.
Proof.
  intros Hv Hn. unfold f_replace. destruct v as [[|] s]; [|reflexivity].
  apply m_ok_safe, replace_Clean; [exact Hv|apply soft_Clean, Hn].
Qed.

Lemma last_ok l : forallb safe_ok l = true -> safe_ok (last l VNil) = true.
Proof.
  induction l as [|x [|y l] IH]; intro H; [reflexivity| |].
  - rewrite forallb_single in H. exact H.
  - change (last (x :: y :: l) VNil) with (last (y :: l) VNil). apply IH.
    cbn [forallb] in H. apply andb_true_iff in H as [_ H]. exact H.
Qed.

Lemma f_slice_ok v st ln : safe_ok v = true -> safe_ok (f_slice v st ln) = true.
Proof.
  destruct v as [[|] s| | | |l]; intro H; unfold f_slice; try reflexivity.
  - destruct (_ <? - _)%Z; [reflexivity|].
    cbn [safe_ok]. eapply Clean_incl; [apply py_slice_incl|exact H].
  - destruct (_ <? - _)%Z; reflexivity.
  - destruct (_ <? - _)%Z; [reflexivity|].
    cbn [safe_ok] in *. eapply forallb_incl; [apply py_slice_incl|exact H].
Qed.

(** What the theorems assume about the abstract library functions. *)
Record lib_ok (L : lib) : Prop := {
  strip_tags_clean : forall s, Clean s -> Clean (strip_tags_fn L s);
  strip_tags_tr : forall s, untag (strip_tags_fn L s) = strip_tags_fn L (untag s);
  html_unescape_tr : forall s, untag (html_unescape_fn L s) = html_unescape_fn L (untag s);
  unquote_tr : forall s, untag (unquote_fn L s) = unquote_fn L (untag s);
  json_tr : forall v, untag (json_fn L v) = json_fn L (untag_val v);
}.

Ltac ok_inj H := injection H as <-.

Lemma eval_filter_safe L f v r :
  (forall s, Clean s -> Clean (strip_tags_fn L s)) ->
  filter_ok f = true -> safe_ok v = true -> eval_filter L f v = Ok r -> safe_ok r = true.
Proof.
  intros HL Hf Hv He.
  pose proof (tls_plain_ok v Hv) as Hsv.
  destruct f; cbn [filter_ok] in Hf; cbn [eval_filter] in He.
  - (* append *) ok_inj He. rewrite safe_ok_vstr. apply str_add_ok; [exact Hsv|apply arg_tls_ok, Hf].
  - (* prepend *) ok_inj He. rewrite safe_ok_vstr. apply str_add_ok; [apply arg_tls_ok, Hf|exact Hsv].
  - ok_inj He. apply safe_ok_keep; [exact Hsv|apply upper_Clean].
  - ok_inj He. apply safe_ok_keep; [exact Hsv|apply lower_Clean].
  - ok_inj He. apply safe_ok_keep; [exact Hsv|apply capitalize_Clean].
  - ok_inj He. apply safe_ok_keep; [exact Hsv|apply Clean_incl, strip_incl].
  - ok_inj He. apply safe_ok_keep; [exact Hsv|apply Clean_incl, lstrip_incl].
  - ok_inj He. apply safe_ok_keep; [exact Hsv|apply Clean_incl, rstrip_incl].
  - (* replace *) apply andb_true_iff in Hf as [_ Hb]. ok_inj He. rewrite safe_ok_vstr.
    apply f_replace_ok; [exact Hsv|apply arg_tls_ok, Hb].
  - apply andb_true_iff in Hf as [_ Hb]. ok_inj He. rewrite safe_ok_vstr.
    apply f_replace_ok; [exact Hsv|apply arg_tls_ok, Hb].
  - (* replace_last *) apply andb_true_iff in Hf as [_ Hb]. apply arg_tls_ok in Hb.
    destruct (snd (arg_tls a)) as [|c0 sep0].
    + ok_inj He. rewrite safe_ok_vstr. apply str_add_ok; assumption.
    + destruct (rpartition (snd (tls_plain v)) (c0 :: sep0)) as [[before after]|] eqn:E.
      * apply rpartition_incl in E as [Hbf Haf].
        destruct (fix_rpartition_found L || negb (is_nil before)).
        -- ok_inj He. rewrite safe_ok_vstr. apply str_add_ok; [apply str_add_ok|].
           ++ apply m_ok_keep; [exact Hsv|apply Clean_incl, Hbf].
           ++ exact Hb.
           ++ apply m_ok_keep; [exact Hsv|apply Clean_incl, Haf].
        -- ok_inj He. rewrite safe_ok_vstr. exact Hsv.
      * ok_inj He. rewrite safe_ok_vstr. exact Hsv.
  - (* remove *) ok_inj He. rewrite safe_ok_vstr. apply f_replace_ok; [exact Hsv|reflexivity].
  - ok_inj He. rewrite safe_ok_vstr. apply f_replace_ok; [exact Hsv|reflexivity].
  - (* remove_last *)
    destruct (snd (arg_tls a)) as [|c0 sep0].
    + ok_inj He. rewrite safe_ok_vstr. exact Hsv.
    + destruct (rpartition (snd (tls_plain v)) (c0 :: sep0)) as [[before after]|] eqn:E.
      * apply rpartition_incl in E as [Hbf Haf].
        destruct (fix_rpartition_found L || negb (is_nil before)).
        -- ok_inj He. rewrite safe_ok_vstr. apply str_add_ok.
           ++ apply m_ok_keep; [exact Hsv|apply Clean_incl, Hbf].
           ++ apply m_ok_keep; [exact Hsv|apply Clean_incl, Haf].
        -- ok_inj He. rewrite safe_ok_vstr. exact Hsv.
      * ok_inj He. rewrite safe_ok_vstr. exact Hsv.
  - (* slice *) ok_inj He. apply f_slice_ok, Hv.
  - (* split *)
    destruct (arg_falsy a); [ok_inj He; cbn [safe_ok]; apply chars_of_ok|].
    destruct (snd (tls_plain v)) as [|c0 s0] eqn:Es; [ok_inj He; reflexivity|].
    destruct (str_eq_cp (c0 :: s0) (snd (arg_tls a))); [ok_inj He; reflexivity|].
    ok_inj He. cbn [safe_ok]. apply forallb_forall. intros x Hx.
    apply in_map_iff in Hx as (p & <- & Hp).
    pose proof (split_on_incl (c0 :: s0) (snd (arg_tls a))) as Hi.
    rewrite Forall_forall in Hi. specialize (Hi p Hp).
    apply safe_ok_keep; [exact Hsv|]. rewrite Es. apply Clean_incl, Hi.
  - (* join *) ok_inj He. rewrite safe_ok_vstr. apply str_join_ok.
    + set (sp := opt_sep sep).
      assert (Hsp : m_ok sp = true) by (apply opt_sep_ok, Hf).
      destruct (str_eq_cp (snd sp) [32]) eqn:E; [apply m_ok_safe, str_eq_cp_space, E|exact Hsp].
    + apply forallb_forall. intros m Hm. apply in_map_iff in Hm as (x & <- & Hx).
      apply tls_plain_ok. pose proof (sequence_arg_ok v Hv) as Hq.
      rewrite forallb_forall in Hq. apply Hq, Hx.
  - (* first *) destruct v as [| | | |[|x l]]; ok_inj He; try reflexivity.
    cbn [safe_ok forallb] in Hv. apply andb_true_iff in Hv as [Hx _]. exact Hx.
  - (* last *) destruct v as [| | | |l]; ok_inj He; try reflexivity. apply last_ok, Hv.
  - (* concat *) ok_inj He. cbn [safe_ok]. rewrite forallb_app, sequence_arg_ok by exact Hv. exact Hf.
  - (* reverse *) ok_inj He. cbn [safe_ok]. eapply forallb_incl; [|apply sequence_arg_ok, Hv].
    intros x Hx. apply in_rev, Hx.
  - (* newline_to_br *) ok_inj He. cbn [safe_ok]. apply lt_sub_Clean; [apply small_Clean, small_br|apply soft_Clean, Hsv].
  - ok_inj He. cbn [safe_ok]. apply lt_sub_Clean; [reflexivity|apply soft_Clean, Hsv].
  - (* url_encode *) destruct (existsb is_surrogate (snd (tls_plain v))); [discriminate|].
    ok_inj He. apply quote_plus_Clean.
  - (* url_decode *) destruct (has_cp 37 (plus_to_space (snd (tls_plain v)))); ok_inj He; [reflexivity|].
    apply safe_ok_keep; [exact Hsv|apply plus_to_space_Clean].
  - (* escape *) ok_inj He. apply escape_Clean.
  - ok_inj He. reflexivity.
  - (* truncate *)
    destruct (Z.of_nat _ <=? _)%Z; ok_inj He; [rewrite safe_ok_vstr; exact Hsv|reflexivity].
  - (* truncatewords *)
    destruct (MAX_TRUNC_WORDS <=? _)%Z; [ok_inj He; rewrite safe_ok_vstr; exact Hsv|].
    destruct (Z.of_nat _ <=? _)%Z; ok_inj He; [reflexivity|].
    rewrite safe_ok_vstr. apply str_add_ok; [reflexivity|apply opt_end_ok, Hf].
  - (* default *)
    destruct v as [sf s|z|[|]| |l]; cbn [is_empty_val] in He.
    + destruct s; ok_inj He; [exact Hf|exact Hv].
    + ok_inj He. reflexivity.
    + ok_inj He. reflexivity.
    + destruct allow_false; ok_inj He; [reflexivity|exact Hf].
    + ok_inj He. exact Hf.
    + destruct l; ok_inj He; [exact Hf|exact Hv].
  - (* size *) destruct v; ok_inj He; reflexivity.
  - ok_inj He. reflexivity.
  - (* strip_html *) ok_inj He. apply safe_ok_keep; [exact Hsv|apply HL].
  - discriminate.
Qed.

(** * Part D — output *)

Lemma tls_ae_Clean v : safe_ok v = true -> Clean (tls_ae v).
Proof.
  induction v as [[|] s|z|b| |l IH] using val_ind'; intro H; cbn [tls_ae];
    try apply escape_Clean.
  - exact H.
  - induction l as [|x l IHl]; [reflexivity|].
    cbn [safe_ok forallb] in H. apply andb_true_iff in H as [Hx Hl].
    inversion IH as [|? ? Px Pl]; subst.
    cbn [flat_map]. apply Clean_app; split; [apply Px, Hx|apply IHl; assumption].
Qed.

(** * Part E — chains, template strings, captures *)

Lemma eval_chain_safe L ch v r :
  (forall s, Clean s -> Clean (strip_tags_fn L s)) ->
  forallb filter_ok ch = true -> safe_ok v = true -> eval_chain L ch v = Ok r -> safe_ok r = true.
Proof.
  intro HL. revert v. induction ch as [|f ch IH]; intros v Hc Hv He; simpl in He.
  - injection He as <-. exact Hv.
  - cbn [forallb] in Hc. apply andb_true_iff in Hc as [Hf Hc].
    destruct (eval_filter L f v) as [v'| | |] eqn:E; try discriminate. simpl in He.
    eapply IH; [exact Hc| |exact He]. eapply eval_filter_safe; eassumption.
Qed.

Section left_induction.
  Variable P : left -> Prop.
  Hypothesis Hlit : forall s, P (LLit s).
  Hypothesis Hval : forall v, P (LVal v).
  Hypothesis Htmpl : forall ps, Forall (fun p => P (fst p)) ps -> P (LTmpl ps).
  Hypothesis Hcap : forall ps, Forall (fun p => P (fst p)) ps -> P (LCapture ps).
  Fixpoint left_ind' (e : left) : P e :=
    let go :=
      fix go (ps : list (left * list lfilter)) : Forall (fun p => P (fst p)) ps :=
        match ps with
        | [] => Forall_nil _
        | p :: r => Forall_cons p (left_ind' (fst p)) (go r)
        end in
    match e with
    | LLit s => Hlit s
    | LVal v => Hval v
    | LTmpl ps => Htmpl ps (go ps)
    | LCapture ps => Hcap ps (go ps)
    end.
End left_induction.

Definition capture_go (L : lib) :=
  fix go (bs : list (left * list lfilter)) : res str :=
    match bs with
    | [] => Ok []
    | (e, ch) :: bs' =>
      do v <- eval_left L e ;;
      do w <- eval_chain L ch v ;;
      do r <- go bs' ;;
      Ok (tls_ae w ++ r)
    end.

Lemma eval_left_capture L body :
  eval_left L (LCapture body) = do r <- capture_go L body ;; Ok (VStr true r).
Proof. reflexivity. Qed.

(** A template string evaluates like a capture of its pieces (fix 611e27a). *)
Lemma eval_left_tmpl L ps :
  eval_left L (LTmpl ps) = do r <- capture_go L ps ;; Ok (VStr true r).
Proof. reflexivity. Qed.

Lemma capture_go_Clean L ps r :
  (forall s, Clean s -> Clean (strip_tags_fn L s)) ->
  Forall (fun p => forall v, left_ok (fst p) = true -> eval_left L (fst p) = Ok v -> safe_ok v = true) ps ->
  forallb (fun p => left_ok (fst p) && forallb filter_ok (snd p)) ps = true ->
  capture_go L ps = Ok r -> Clean r.
Proof.
  intros HL IH Hok. revert r. induction ps as [|[e ch] ps IHps]; intros r E.
  - injection E as <-. reflexivity.
  - cbn [capture_go] in E. fold (capture_go L) in E.
    inversion IH as [|? ? Pe Pps]; subst. cbn [fst] in Pe.
    cbn [forallb fst snd] in Hok. apply andb_true_iff in Hok as [Hp Hps].
    apply andb_true_iff in Hp as [He Hch].
    destruct (eval_left L e) as [v| | |] eqn:E1; try discriminate. cbn [bind] in E.
    destruct (eval_chain L ch v) as [w| | |] eqn:E2; try discriminate. cbn [bind] in E.
    destruct (capture_go L ps) as [r'| | |] eqn:E3; try discriminate. cbn [bind] in E.
    injection E as <-. apply Clean_app; split.
    + apply tls_ae_Clean. eapply eval_chain_safe; [exact HL|exact Hch| |exact E2].
      apply Pe; [exact He|reflexivity].
    + apply (IHps Pps Hps _ eq_refl).
Qed.

Lemma eval_left_safe L e v :
  (forall s, Clean s -> Clean (strip_tags_fn L s)) ->
  left_ok e = true -> eval_left L e = Ok v -> safe_ok v = true.
Proof.
  intro HL. revert v. induction e as [s|w|ps IH|ps IH] using left_ind'; intros v Hok He.
  - injection He as <-. exact Hok.
  - injection He as <-. exact Hok.
  - rewrite eval_left_tmpl in He.
    destruct (capture_go L ps) as [r| | |] eqn:E; try discriminate. injection He as <-.
    cbn [safe_ok]. cbn [left_ok] in Hok. eapply capture_go_Clean; eassumption.
  - rewrite eval_left_capture in He.
    destruct (capture_go L ps) as [r| | |] eqn:E; try discriminate. injection He as <-.
    cbn [safe_ok]. cbn [left_ok] in Hok. eapply capture_go_Clean; eassumption.
Qed.

(** ** T2 at kernel level: whatever [{{ left | chain }}] writes is untainted. *)
Theorem autoescape_sound : forall L e ch out,
  lib_ok L -> left_ok e = true -> forallb filter_ok ch = true ->
  output L e ch = Ok out -> ~ Tainted out.
Proof.
  intros L e ch out HL He Hc Ho. apply Clean_not_tainted.
  unfold output in Ho.
  destruct (eval_left L e) as [v| | |] eqn:E1; try discriminate. cbn [bind] in Ho.
  destruct (eval_chain L ch v) as [w| | |] eqn:E2; try discriminate. cbn [bind] in Ho.
  injection Ho as <-. apply tls_ae_Clean.
  eapply eval_chain_safe; [apply (strip_tags_clean L HL)|exact Hc| |exact E2].
  eapply eval_left_safe; [apply (strip_tags_clean L HL)|exact He|exact E1].
Qed.

(** * Part F — tag transparency: tags never influence behaviour *)

Definition untag_m (m : mstr) : mstr := (fst m, untag (snd m)).

Lemma flat_map_untag (f : char -> str) s :
  (forall c, f (untag1 c) = untag (f c)) -> flat_map f (untag s) = untag (flat_map f s).
Proof.
  intro H. induction s as [|c s IH]; [reflexivity|].
  cbn [untag map flat_map]. fold (untag s). rewrite H, IH, untag_app. reflexivity.
Qed.

Lemma esc1_untag c : esc1 (untag1 c) = untag (esc1 c).
Proof.
  unfold esc1. rewrite cp_untag1.
  destruct (cp c =? 38); [symmetry; apply untag_small, small_amp|].
  destruct (cp c =? 60); [symmetry; apply untag_small, small_lt|].
  destruct (cp c =? 62); [symmetry; apply untag_small, small_gt|].
  destruct (cp c =? 39); [symmetry; apply untag_small, small_apos|].
  destruct (cp c =? 34); [symmetry; apply untag_small, small_quot|].
  reflexivity.
Qed.

Lemma escape_untag s : escape (untag s) = untag (escape s).
Proof. apply flat_map_untag, esc1_untag. Qed.

Lemma upper1_untag c : upper1 (untag1 c) = untag1 (upper1 c).
Proof.
  unfold upper1. rewrite cp_untag1, tagged_untag1.
  destruct ((97 <=? cp c) && (cp c <=? 122)) eqn:E; [|reflexivity].
  apply andb_true_iff in E as [E1 E2]. apply N.leb_le in E1, E2.
  assert (Hlt : cp c - 32 < TAG) by (pose proof (cp_lt c); lia).
  rewrite untag1_mk by exact Hlt. reflexivity.
Qed.

Lemma lower1_untag c : lower1 (untag1 c) = untag1 (lower1 c).
Proof.
  unfold lower1. rewrite cp_untag1, tagged_untag1.
  destruct ((65 <=? cp c) && (cp c <=? 90)) eqn:E; [|reflexivity].
  apply andb_true_iff in E as [E1 E2]. apply N.leb_le in E1, E2.
  assert (Hlt : cp c + 32 < TAG) by (unfold TAG; lia).
  rewrite untag1_mk by exact Hlt. reflexivity.
Qed.

Lemma map_untag (f : char -> char) s :
  (forall c, f (untag1 c) = untag1 (f c)) -> map f (untag s) = untag (map f s).
Proof. intro H. unfold untag. rewrite !map_map. apply map_ext, H. Qed.

Lemma upper_untag s : upper (untag s) = untag (upper s).
Proof. apply map_untag, upper1_untag. Qed.
Lemma lower_untag s : lower (untag s) = untag (lower s).
Proof. apply map_untag, lower1_untag. Qed.
Lemma capitalize_untag s : capitalize (untag s) = untag (capitalize s).
Proof.
  destruct s as [|c s]; [reflexivity|]. cbn [untag map capitalize]. fold (untag s).
  rewrite upper1_untag, lower_untag. reflexivity.
Qed.

Lemma dropwhile_untag p s :
  (forall c, p (untag1 c) = p c) -> dropwhile p (untag s) = untag (dropwhile p s).
Proof.
  intro H. induction s as [|c s IH]; [reflexivity|].
  cbn [untag map dropwhile]. fold (untag s). rewrite H. destruct (p c); [exact IH|reflexivity].
Qed.

Lemma rev_untag s : rev (untag s) = untag (rev s).
Proof. symmetry. apply map_rev. Qed.

Lemma lstrip_untag s : lstrip (untag s) = untag (lstrip s).
Proof. apply dropwhile_untag, is_ws_untag1. Qed.
Lemma rstrip_untag s : rstrip (untag s) = untag (rstrip s).
Proof.
  unfold rstrip. rewrite rev_untag, dropwhile_untag by apply is_ws_untag1. apply rev_untag.
Qed.
Lemma strip_untag s : strip (untag s) = untag (strip s).
Proof. unfold strip. rewrite lstrip_untag, rstrip_untag. reflexivity. Qed.

Lemma starts_untag p s : starts (untag p) (untag s) = starts p s.
Proof.
  revert s. induction p as [|a p IH]; intros [|b s]; try reflexivity.
  cbn [untag map starts]. fold (untag p) (untag s). rewrite !cp_untag1, IH. reflexivity.
Qed.

Lemma str_eq_cp_untag a b : str_eq_cp (untag a) (untag b) = str_eq_cp a b.
Proof.
  revert b. induction a as [|x a IH]; intros [|y b]; try reflexivity.
  cbn [untag map str_eq_cp]. fold (untag a) (untag b). rewrite !cp_untag1, IH. reflexivity.
Qed.

Lemma repl_untag old new s skip cnt :
  repl (untag old) (untag new) (untag s) skip cnt = untag (repl old new s skip cnt).
Proof.
  revert skip cnt. induction s as [|c s IH]; intros skip cnt; [reflexivity|].
  cbn [untag map repl]. fold (untag s).
  destruct skip as [|k]; [|apply IH].
  change (untag1 c :: untag s) with (untag (c :: s)).
  rewrite starts_untag, untag_length.
  destruct (cnt_pos cnt && starts old (c :: s)).
  - rewrite untag_app, IH. reflexivity.
  - cbn [untag map]. fold (untag (repl old new s 0 cnt)). rewrite IH. reflexivity.
Qed.

Lemma inter_untag new s cnt : inter (untag new) (untag s) cnt = untag (inter new s cnt).
Proof.
  revert cnt. induction s as [|c s IH]; intro cnt.
  - cbn [untag map inter]. destruct (cnt_pos cnt); [|reflexivity].
    rewrite !app_nil_r. reflexivity.
  - cbn [untag map inter]. fold (untag s) (untag new). destruct (cnt_pos cnt); [|reflexivity].
    rewrite untag_app. cbn [untag map]. fold (untag (inter new s (cnt_dec cnt))).
    rewrite IH. reflexivity.
Qed.

Lemma replace_untag s old new cnt :
  replace (untag s) (untag old) (untag new) cnt = untag (replace s old new cnt).
Proof.
  unfold replace. destruct old as [|o old]; [apply inter_untag|].
  change (untag (o :: old)) with (untag1 o :: untag old).
  change (untag1 o :: untag old) with (untag (o :: old)). apply repl_untag.
Qed.

Definition untag_pair (p : str * str) : str * str := (untag (fst p), untag (snd p)).

Lemma skipn_untag n s : skipn n (untag s) = untag (skipn n s).
Proof. apply skipn_map. Qed.
Lemma firstn_untag n s : firstn n (untag s) = untag (firstn n s).
Proof. apply firstn_map. Qed.

Lemma find_first_untag p s :
  find_first (untag p) (untag s) = option_map untag_pair (find_first p s).
Proof.
  induction s as [|c s IH].
  - destruct p; reflexivity.
  - cbn [find_first]. change (untag (c :: s)) with (untag1 c :: untag s).
    cbn [find_first]. change (untag1 c :: untag s) with (untag (c :: s)).
    rewrite starts_untag. destruct (starts p (c :: s)).
    + cbn [option_map untag_pair fst snd]. rewrite untag_length, skipn_untag. reflexivity.
    + rewrite IH. destruct (find_first p s) as [[a b]|]; reflexivity.
Qed.

Lemma rpartition_untag s sep :
  rpartition (untag s) (untag sep) = option_map untag_pair (rpartition s sep).
Proof.
  unfold rpartition. rewrite !rev_untag, find_first_untag.
  destruct (find_first (rev sep) (rev s)) as [[a b]|]; [|reflexivity].
  cbn [option_map untag_pair fst snd]. rewrite !rev_untag. reflexivity.
Qed.

Lemma split_go_untag sep s skip cur :
  split_go (untag sep) (untag s) skip (untag cur) = map untag (split_go sep s skip cur).
Proof.
  revert skip cur. induction s as [|c s IH]; intros skip cur.
  - cbn [untag map split_go]. fold (untag cur). rewrite rev_untag. reflexivity.
  - cbn [split_go]. change (untag (c :: s)) with (untag1 c :: untag s). cbn [split_go].
    destruct skip as [|k]; [|apply IH].
    change (untag1 c :: untag s) with (untag (c :: s)). rewrite starts_untag, untag_length.
    destruct (starts sep (c :: s)).
    + cbn [map]. rewrite rev_untag. change (@nil N) with (untag []) at 1. rewrite IH. reflexivity.
    + change (untag1 c :: untag cur) with (untag (c :: cur)). apply IH.
Qed.

Lemma split_on_untag s sep : split_on (untag s) (untag sep) = map untag (split_on s sep).
Proof. unfold split_on. change (@nil N) with (untag []) at 1. apply split_go_untag. Qed.

Lemma wsplit_untag s cur : wsplit (untag s) (untag cur) = map untag (wsplit s cur).
Proof.
  revert cur. induction s as [|c s IH]; intro cur.
  - destruct cur as [|d cur]; [reflexivity|].
    cbn [untag map wsplit]. fold (untag cur).
    change (untag1 d :: untag cur) with (untag (d :: cur)). rewrite rev_untag. reflexivity.
  - cbn [untag map wsplit]. fold (untag s). rewrite is_ws_untag1. destruct (is_ws c).
    + destruct cur as [|d cur].
      * apply (IH []).
      * cbn [untag map]. fold (untag cur) (untag s).
        change (rev (untag1 d :: untag cur)) with (rev (untag (d :: cur))).
        rewrite rev_untag. f_equal. apply (IH []).
    + fold (untag cur). change (untag1 c :: untag cur) with (untag (c :: cur)). apply IH.
Qed.

Lemma py_slice_map {A B} (f : A -> B) l a b : py_slice (map f l) a b = map f (py_slice l a b).
Proof.
  unfold py_slice. rewrite map_length. destruct (_ <? _)%Z; [|reflexivity].
  rewrite skipn_map, firstn_map. reflexivity.
Qed.

Lemma py_slice_untag s a b : py_slice (untag s) a b = untag (py_slice s a b).
Proof. apply py_slice_map. Qed.

Lemma next_is_lf_untag s : next_is_lf (untag s) = next_is_lf s.
Proof. destruct s; [reflexivity|]. cbn [untag map next_is_lf]. apply f_equal2; [apply cp_untag1|reflexivity]. Qed.

Lemma lt_sub_untag rep s : lt_sub (untag rep) (untag s) = untag (lt_sub rep s).
Proof.
  induction s as [|c s IH]; [reflexivity|].
  cbn [untag map lt_sub]. fold (untag s) (untag rep). rewrite cp_untag1, next_is_lf_untag.
  destruct (cp c =? 10); [rewrite untag_app, IH; reflexivity|].
  destruct ((cp c =? 13) && next_is_lf s); [exact IH|].
  cbn [untag map]. fold (untag (lt_sub rep s)). rewrite IH. reflexivity.
Qed.

Lemma quote1_untag c : quote1 (untag1 c) = untag (quote1 c).
Proof.
  unfold quote1. rewrite cp_untag1. destruct (unreserved (cp c)); [reflexivity|].
  destruct (cp c =? 32); [reflexivity|]. symmetry. apply untag_small, small_flat_map_pct.
Qed.

Lemma quote_plus_untag s : quote_plus (untag s) = untag (quote_plus s).
Proof. apply flat_map_untag, quote1_untag. Qed.

Lemma plus_to_space_untag s : plus_to_space (untag s) = untag (plus_to_space s).
Proof.
  apply map_untag. intro c. rewrite cp_untag1. destruct (cp c =? 43); reflexivity.
Qed.

Lemma existsb_untag p s : (forall c, p (untag1 c) = p c) -> existsb p (untag s) = existsb p s.
Proof.
  intro H. induction s as [|c s IH]; [reflexivity|].
  cbn [untag map existsb]. fold (untag s). rewrite H, IH. reflexivity.
Qed.

Lemma has_cp_untag n s : has_cp n (untag s) = has_cp n s.
Proof. apply existsb_untag. intro c. rewrite cp_untag1. reflexivity. Qed.

Lemma join_with_untag sep items :
  join_with (untag sep) (map untag items) = untag (join_with sep items).
Proof.
  induction items as [|x r IH]; [reflexivity|]. destruct r as [|y r].
  - reflexivity.
  - change (map untag (x :: y :: r)) with (untag x :: map untag (y :: r)).
    change (join_with sep (x :: y :: r)) with (x ++ sep ++ join_with sep (y :: r)).
    change (map untag (y :: r)) with (untag y :: map untag r) at 1.
    change (join_with (untag sep) (untag x :: untag y :: map untag r))
      with (untag x ++ untag sep ++ join_with (untag sep) (untag y :: map untag r)).
    change (untag y :: map untag r) with (map untag (y :: r)).
    rewrite IH, !untag_app. reflexivity.
Qed.

Lemma Z_to_str_untag z : untag (Z_to_str z) = Z_to_str z.
Proof. apply untag_small, small_Z_to_str. Qed.

(** ** values *)

Lemma tls_text_untag v : tls_text (untag_val v) = untag (tls_text v).
Proof.
  induction v as [sf s|z|b| |l IH] using val_ind'; cbn [untag_val tls_text].
  - reflexivity.
  - symmetry. apply Z_to_str_untag.
  - destruct b; symmetry; apply untag_small; [apply small_true|apply small_false].
  - reflexivity.
  - induction l as [|x l IHl]; [reflexivity|].
    inversion IH as [|? ? Px Pl]; subst. cbn [map flat_map].
    rewrite Px, IHl by assumption. symmetry. apply untag_app.
Qed.

Lemma tls_plain_untag v : tls_plain (untag_val v) = untag_m (tls_plain v).
Proof.
  destruct v as [sf s|z|b| |l]; try reflexivity; unfold tls_plain, untag_m; cbn [fst snd].
  - change (untag_val (VInt z)) with (VInt z). rewrite <- tls_text_untag. reflexivity.
  - change (untag_val (VBool b)) with (VBool b). rewrite <- tls_text_untag. reflexivity.
  - rewrite <- tls_text_untag. reflexivity.
Qed.

Lemma tls_ae_untag v : tls_ae (untag_val v) = untag (tls_ae v).
Proof.
  induction v as [[|] s|z|b| |l IH] using val_ind'; cbn [untag_val tls_ae].
  - reflexivity.
  - apply escape_untag.
  - rewrite <- escape_untag, Z_to_str_untag. reflexivity.
  - rewrite <- escape_untag. destruct b; rewrite untag_small; try reflexivity; [apply small_true|apply small_false].
  - reflexivity.
  - induction l as [|x l IHl]; [reflexivity|].
    inversion IH as [|? ? Px Pl]; subst. cbn [map flat_map].
    rewrite Px, IHl by assumption. symmetry. apply untag_app.
Qed.

Lemma arg_val_untag a : arg_val (untag_arg a) = untag_val (arg_val a).
Proof. destruct a; reflexivity. Qed.

Lemma arg_tls_untag a : arg_tls (untag_arg a) = untag_m (arg_tls a).
Proof. unfold arg_tls. rewrite arg_val_untag. apply tls_plain_untag. Qed.

Lemma opt_end_untag e : opt_end (option_map untag_arg e) = untag_m (opt_end e).
Proof. destruct e as [a|]; [apply arg_tls_untag|reflexivity]. Qed.

Lemma opt_sep_untag e : opt_sep (option_map untag_arg e) = untag_m (opt_sep e).
Proof. destruct e as [a|]; [apply arg_tls_untag|reflexivity]. Qed.

Lemma arg_falsy_untag a : arg_falsy (untag_arg a) = arg_falsy a.
Proof. destruct a as [sf [|c s]| | |]; reflexivity. Qed.

Lemma soft_untag m : soft (untag_m m) = untag (soft m).
Proof. destruct m as [[|] s]; unfold soft, untag_m; cbn [fst snd]; [reflexivity|apply escape_untag]. Qed.

Lemma str_add_untag a b : str_add (untag_m a) (untag_m b) = untag_m (str_add a b).
Proof.
  unfold str_add. change (fst (untag_m a)) with (fst a). change (fst (untag_m b)) with (fst b).
  destruct (fst a || fst b).
  - rewrite !soft_untag. unfold untag_m. cbn [fst snd]. rewrite untag_app. reflexivity.
  - unfold untag_m. cbn [fst snd]. rewrite untag_app. reflexivity.
Qed.

Lemma str_join_untag sep items :
  str_join (untag_m sep) (map untag_m items) = untag_m (str_join sep items).
Proof.
  unfold str_join. change (fst (untag_m sep)) with (fst sep). change (snd (untag_m sep)) with (untag (snd sep)).
  destruct (fst sep).
  - unfold untag_m at 2. cbn [fst snd]. rewrite <- join_with_untag, !map_map.
    f_equal. f_equal. apply map_ext. intro m. apply soft_untag.
  - unfold untag_m at 2. cbn [fst snd]. rewrite <- join_with_untag, !map_map. reflexivity.
Qed.

Lemma vstr_untag m : vstr (untag_m m) = untag_val (vstr m).
Proof. reflexivity. Qed.

Lemma f_replace_untag v old new cnt :
  f_replace (untag_m v) (untag_m old) (untag_m new) cnt = untag_m (f_replace v old new cnt).
Proof.
  unfold f_replace. change (fst (untag_m v)) with (fst v).
  change (snd (untag_m v)) with (untag (snd v)). change (snd (untag_m old)) with (untag (snd old)).
  change (snd (untag_m new)) with (untag (snd new)).
  destruct (fst v).
  - rewrite soft_untag, replace_untag. reflexivity.
  - rewrite replace_untag. reflexivity.
Qed.

Lemma f_slice_untag v st ln : f_slice (untag_val v) st ln = untag_val (f_slice v st ln).
Proof.
  destruct v as [sf s|z|b| |l]; unfold f_slice; cbn [untag_val].
  - rewrite untag_length. destruct (_ <? - _)%Z; [reflexivity|].
    cbn [untag_val]. rewrite py_slice_untag. reflexivity.
  - destruct (_ <? - _)%Z; [reflexivity|]. cbn [untag_val].
    rewrite <- py_slice_untag, Z_to_str_untag. reflexivity.
  - destruct (_ <? - _)%Z; [reflexivity|]. cbn [untag_val]. rewrite <- py_slice_untag.
    rewrite untag_small; [reflexivity|destruct b; [apply small_True|apply small_False]].
  - destruct (_ <? - _)%Z; [reflexivity|]. cbn [untag_val]. rewrite <- py_slice_untag.
    rewrite untag_small by apply small_None. reflexivity.
  - rewrite map_length. destruct (_ <? - _)%Z; [reflexivity|].
    cbn [untag_val]. rewrite py_slice_map. reflexivity.
Qed.

Lemma flat_map_map {A B C} (f : B -> list C) (g : A -> B) l :
  flat_map f (map g l) = flat_map (fun x => f (g x)) l.
Proof. induction l; simpl; [reflexivity|rewrite IHl; reflexivity]. Qed.

Lemma map_flat_map {A B C} (g : B -> C) (f : A -> list B) l :
  map g (flat_map f l) = flat_map (fun x => map g (f x)) l.
Proof. induction l; simpl; [reflexivity|rewrite map_app, IHl; reflexivity]. Qed.

Lemma flat_map_ext_in {A B} (f g : A -> list B) l :
  (forall x, In x l -> f x = g x) -> flat_map f l = flat_map g l.
Proof.
  induction l as [|x l IH]; intro H; simpl; [reflexivity|].
  rewrite H by (left; reflexivity). rewrite IH; [reflexivity|]. intros; apply H; right; assumption.
Qed.

Lemma flat_val_untag k v : flat_val k (untag_val v) = map untag_val (flat_val k v).
Proof.
  revert k. induction v as [sf s|z|b| |l IH] using val_ind'; intro k; try (destruct k; reflexivity).
  destruct k as [|k]; [reflexivity|].
  cbn [untag_val flat_val]. rewrite flat_map_map, map_flat_map.
  apply flat_map_ext_in. intros x Hx. rewrite Forall_forall in IH. apply IH, Hx.
Qed.

Lemma chars_of_untag s : chars_of (untag s) = map untag_val (chars_of s).
Proof. unfold chars_of, untag. rewrite !map_map. reflexivity. Qed.

Lemma sequence_arg_untag v : sequence_arg (untag_val v) = map untag_val (sequence_arg v).
Proof.
  destruct v as [sf s|z|b| |l]; try reflexivity; cbn [untag_val sequence_arg].
  - apply chars_of_untag.
  - rewrite flat_map_map, map_flat_map. apply flat_map_ext_in. intros; apply flat_val_untag.
Qed.

Lemma is_empty_val_untag v : is_empty_val (untag_val v) = is_empty_val v.
Proof. destruct v as [sf [|c s]| | | |[|x l]]; reflexivity. Qed.

Lemma untag_m_fst m : fst (untag_m m) = fst m. Proof. reflexivity. Qed.
Lemma untag_m_snd m : snd (untag_m m) = untag (snd m). Proof. reflexivity. Qed.

Lemma last_untag l : last (map untag_val l) VNil = untag_val (last l VNil).
Proof.
  induction l as [|x [|y l] IH]; try reflexivity.
  change (last (map untag_val (x :: y :: l)) VNil) with (last (map untag_val (y :: l)) VNil).
  exact IH.
Qed.

Lemma is_nil_untag s : is_nil (untag s) = is_nil s.
Proof. destruct s; reflexivity. Qed.

Lemma untag_nil_iff s : untag s = [] <-> s = [].
Proof. destruct s; split; intro H; try reflexivity; discriminate. Qed.

Lemma eval_filter_untag L f v :
  lib_ok L ->
  eval_filter L (untag_filter f) (untag_val v) = res_map untag_val (eval_filter L f v).
Proof.
  intro HL.
  destruct f; cbn [untag_filter eval_filter res_map];
    rewrite ?tls_plain_untag, ?arg_tls_untag, ?opt_end_untag, ?opt_sep_untag, ?untag_m_fst, ?untag_m_snd.
  - (* append *) rewrite str_add_untag. reflexivity.
  - rewrite str_add_untag. reflexivity.
  - rewrite upper_untag. reflexivity.
  - rewrite lower_untag. reflexivity.
  - rewrite capitalize_untag. reflexivity.
  - rewrite strip_untag. reflexivity.
  - rewrite lstrip_untag. reflexivity.
  - rewrite rstrip_untag. reflexivity.
  - rewrite f_replace_untag. reflexivity.
  - rewrite f_replace_untag. reflexivity.
  - (* replace_last *)
    destruct (snd (arg_tls a)) as [|c0 sep0] eqn:Es.
    + cbn [untag map]. rewrite str_add_untag. reflexivity.
    + cbn [untag map]. change (untag1 c0 :: map untag1 sep0) with (untag (c0 :: sep0)).
      fold (untag (snd (tls_plain v))). rewrite rpartition_untag.
      destruct (rpartition (snd (tls_plain v)) (c0 :: sep0)) as [[before after]|]; [|reflexivity].
      cbn [option_map untag_pair fst snd]. rewrite is_nil_untag.
      destruct (fix_rpartition_found L || negb (is_nil before)); [|reflexivity].
      change (fst (tls_plain v), untag before) with (untag_m (fst (tls_plain v), before)).
      change (fst (tls_plain v), untag after) with (untag_m (fst (tls_plain v), after)).
      rewrite !str_add_untag. reflexivity.
  - change (false, @nil N) with (untag_m (false, [])). rewrite f_replace_untag. reflexivity.
  - change (false, @nil N) with (untag_m (false, [])). rewrite f_replace_untag. reflexivity.
  - (* remove_last *)
    destruct (snd (arg_tls a)) as [|c0 sep0] eqn:Es.
    + reflexivity.
    + cbn [untag map]. change (untag1 c0 :: map untag1 sep0) with (untag (c0 :: sep0)).
      fold (untag (snd (tls_plain v))). rewrite rpartition_untag.
      destruct (rpartition (snd (tls_plain v)) (c0 :: sep0)) as [[before after]|]; [|reflexivity].
      cbn [option_map untag_pair fst snd]. rewrite is_nil_untag.
      destruct (fix_rpartition_found L || negb (is_nil before)); [|reflexivity].
      change (fst (tls_plain v), untag before) with (untag_m (fst (tls_plain v), before)).
      change (fst (tls_plain v), untag after) with (untag_m (fst (tls_plain v), after)).
      rewrite !str_add_untag. reflexivity.
  - (* slice *) rewrite f_slice_untag. reflexivity.
  - (* split *)
    rewrite arg_falsy_untag. destruct (arg_falsy a).
    + rewrite chars_of_untag. reflexivity.
    + destruct (snd (tls_plain v)) as [|c0 s0]; [reflexivity|].
      cbn [untag map]. change (untag1 c0 :: map untag1 s0) with (untag (c0 :: s0)).
      fold (untag (snd (arg_tls a))). rewrite str_eq_cp_untag. destruct (str_eq_cp (c0 :: s0) (snd (arg_tls a))); [reflexivity|].
      rewrite split_on_untag. cbn [res_map untag_val]. rewrite !map_map. reflexivity.
  - (* join *)
    set (sp := opt_sep sep).
    change [32] with (untag [32]) at 1 2. rewrite str_eq_cp_untag.
    rewrite sequence_arg_untag, map_map.
    assert (E2 : map (fun x => tls_plain (untag_val x)) (sequence_arg v)
                 = map untag_m (map tls_plain (sequence_arg v))).
    { rewrite map_map. apply map_ext. intro x. apply tls_plain_untag. }
    rewrite E2. change (untag [32]) with [32].
    destruct (str_eq_cp (snd sp) [32]).
    + change (true, untag (snd sp)) with (untag_m (true, snd sp)). rewrite str_join_untag. reflexivity.
    + rewrite str_join_untag. reflexivity.
  - (* first *) destruct v as [| | | |[|x l]]; reflexivity.
  - (* last *) destruct v as [| | | |l]; try reflexivity. cbn [untag_val]. rewrite last_untag. reflexivity.
  - (* concat *) rewrite sequence_arg_untag, <- map_app. reflexivity.
  - (* reverse *) rewrite sequence_arg_untag, <- map_rev. reflexivity.
  - (* newline_to_br *) rewrite soft_untag. change s_br with (untag s_br) at 1. rewrite lt_sub_untag. reflexivity.
  - rewrite soft_untag. change (@nil N) with (untag []) at 1. rewrite lt_sub_untag. reflexivity.
  - (* url_encode *) rewrite existsb_untag by apply is_surrogate_untag1.
    destruct (existsb is_surrogate (snd (tls_plain v))); [reflexivity|].
    rewrite quote_plus_untag. reflexivity.
  - (* url_decode *) rewrite plus_to_space_untag, has_cp_untag.
    destruct (has_cp 37 (plus_to_space (snd (tls_plain v)))); [|reflexivity].
    cbn [res_map untag_val]. rewrite (unquote_tr L HL). reflexivity.
  - (* escape *) rewrite escape_untag. reflexivity.
  - cbn [untag_val]. rewrite (html_unescape_tr L HL). reflexivity.
  - (* truncate *)
    rewrite !untag_length.
    destruct (Z.of_nat _ <=? _)%Z; [reflexivity|].
    cbn [res_map untag_val]. rewrite py_slice_untag, untag_app. reflexivity.
  - (* truncatewords *)
    assert (Hw : wsplit (untag (snd (tls_plain v))) [] = map untag (wsplit (snd (tls_plain v)) []))
      by apply (wsplit_untag _ []).
    assert (Hj : forall l, join_with [32] (map untag l) = untag (join_with [32] l))
      by (intro l; apply (join_with_untag [32])).
    rewrite Hw, !map_length.
    destruct (MAX_TRUNC_WORDS <=? _)%Z; [reflexivity|].
    destruct (Z.of_nat _ <=? _)%Z; cbn [res_map].
    + cbn [untag_val]. rewrite Hj. reflexivity.
    + rewrite firstn_map, Hj.
      match goal with |- context [(false, untag ?x)] => change (false, untag x) with (untag_m (false, x)) end.
      rewrite str_add_untag. reflexivity.
  - (* default *)
    destruct v as [sf s|z|[|]| |l]; try reflexivity.
    + change (untag_val (VStr sf s)) with (VStr sf (untag s)).
      destruct s as [|c s]; reflexivity.
    + destruct allow_false; reflexivity.
    + destruct l as [|x l]; reflexivity.
  - (* size *) destruct v as [sf s|z|b| |l]; try reflexivity; cbn [untag_val].
    + rewrite untag_length. reflexivity.
    + rewrite map_length. reflexivity.
  - (* json *) cbn [untag_val]. rewrite (json_tr L HL). reflexivity.
  - (* strip_html *) cbn [untag_val]. rewrite (strip_tags_tr L HL). reflexivity.
  - reflexivity.
Qed.

Lemma eval_chain_untag L ch v :
  lib_ok L ->
  eval_chain L (map untag_filter ch) (untag_val v) = res_map untag_val (eval_chain L ch v).
Proof.
  intro HL. revert v. induction ch as [|f ch IH]; intro v; [reflexivity|].
  cbn [map eval_chain]. rewrite eval_filter_untag by exact HL.
  destruct (eval_filter L f v) as [v'| | |]; try reflexivity. cbn [res_map bind]. apply IH.
Qed.

Definition untag_part (p : left * list lfilter) : left * list lfilter :=
  (untag_left (fst p), map untag_filter (snd p)).

Lemma untag_left_tmpl ps : untag_left (LTmpl ps) = LTmpl (map untag_part ps).
Proof. reflexivity. Qed.
Lemma untag_left_capture ps : untag_left (LCapture ps) = LCapture (map untag_part ps).
Proof. reflexivity. Qed.

Lemma capture_go_untag L ps :
  lib_ok L ->
  Forall (fun p => eval_left L (untag_left (fst p)) = res_map untag_val (eval_left L (fst p))) ps ->
  capture_go L (map untag_part ps) = res_map untag (capture_go L ps).
Proof.
  intros HL IH. induction ps as [|[e ch] ps IHps]; [reflexivity|].
  inversion IH as [|? ? Pe Pps]; subst. cbn [fst] in Pe.
  cbn [map untag_part fst snd capture_go]. fold (capture_go L). rewrite Pe.
  destruct (eval_left L e) as [v| | |]; try reflexivity. cbn [res_map bind].
  rewrite eval_chain_untag by exact HL.
  destruct (eval_chain L ch v) as [w| | |]; try reflexivity. cbn [res_map bind].
  rewrite (IHps Pps). destruct (capture_go L ps) as [r| | |]; try reflexivity.
  cbn [res_map bind]. rewrite tls_ae_untag, untag_app. reflexivity.
Qed.

Lemma eval_left_untag L e :
  lib_ok L -> eval_left L (untag_left e) = res_map untag_val (eval_left L e).
Proof.
  intro HL. induction e as [s|w|ps IH|ps IH] using left_ind'; try reflexivity.
  - rewrite untag_left_tmpl, !eval_left_tmpl, (capture_go_untag L ps HL IH).
    destruct (capture_go L ps); reflexivity.
  - rewrite untag_left_capture, !eval_left_capture, (capture_go_untag L ps HL IH).
    destruct (capture_go L ps); reflexivity.
Qed.

(** ** The tagged run IS the real run: erasing the tags from the inputs erases
    them from the outcome and changes nothing else (same error, same text). *)
Theorem tag_transparent_output : forall L e ch,
  lib_ok L ->
  output L (untag_left e) (map untag_filter ch) = res_map untag (output L e ch).
Proof.
  intros L e ch HL. unfold output. rewrite eval_left_untag by exact HL.
  destruct (eval_left L e) as [v| | |]; try reflexivity. cbn [res_map bind].
  rewrite eval_chain_untag by exact HL.
  destruct (eval_chain L ch v) as [w| | |]; try reflexivity. cbn [res_map bind].
  rewrite tls_ae_untag. reflexivity.
Qed.

Theorem tag_transparent_filter : forall L f v,
  lib_ok L ->
  eval_filter L (untag_filter f) (untag_val v) = res_map untag_val (eval_filter L f v).
Proof. intros. apply eval_filter_untag. assumption. Qed.

(** ** data: [tag_all] marks every character and drops nothing else *)

Fixpoint val_small (v : val) : Prop :=
  match v with
  | VStr _ s => small s
  | VList l => (fix go (l : list val) : Prop :=
                  match l with [] => True | x :: r => val_small x /\ go r end) l
  | _ => True
  end.

(** render-context data has no Markup strings (the property excludes them) *)
Fixpoint val_plain (v : val) : Prop :=
  match v with
  | VStr sf _ => sf = false
  | VList l => (fix go (l : list val) : Prop :=
                  match l with [] => True | x :: r => val_plain x /\ go r end) l
  | _ => True
  end.

Lemma untag_tag_str s : small s -> untag (tag_str s) = s.
Proof.
  induction 1 as [|c s H _ IH]; [reflexivity|].
  cbn [tag_str untag map]. fold (tag_str s) (untag (tag_str s)). rewrite IH.
  unfold untag1. rewrite cp_tag1, cp_small by exact H. reflexivity.
Qed.

Lemma untag_tag_all d : val_small d -> val_plain d -> untag_val (tag_all d) = d.
Proof.
  induction d as [sf s|z|b| |l IH] using val_ind'; intros Hs Hp; try reflexivity.
  - cbn [tag_all untag_val]. cbn in Hs, Hp. subst sf. rewrite untag_tag_str by exact Hs. reflexivity.
  - cbn [tag_all untag_val]. f_equal. induction l as [|x l IHl]; [reflexivity|].
    inversion IH as [|? ? Px Pl]; subst. destruct Hs as [Hs1 Hs2]. destruct Hp as [Hp1 Hp2].
    cbn [map]. rewrite Px, IHl by assumption. reflexivity.
Qed.

Lemma tag_all_safe_ok d : safe_ok (tag_all d) = true.
Proof.
  induction d as [sf s|z|b| |l IH] using val_ind'; try reflexivity.
  cbn [tag_all safe_ok]. induction l as [|x l IHl]; [reflexivity|].
  inversion IH as [|? ? Px Pl]; subst. cbn [map forallb]. rewrite Px. apply IHl, Pl.
Qed.

Lemma tag_str_tagged s c : In c (tag_str s) -> tagged c = true.
Proof. intro H. apply in_map_iff in H as (x & <- & _). apply tagged_tag1. Qed.

(** A template literal: Markup whose characters are all untagged. *)
Lemma literal_arg_ok s : small s -> arg_ok (AStr true s) = true.
Proof. intro H. apply small_Clean, H. Qed.
Lemma data_arg_ok s : arg_ok (AStr false s) = true.
Proof. reflexivity. Qed.
Lemma literal_left_ok s : small s -> left_ok (LLit s) = true.
Proof. intro H. apply small_Clean, H. Qed.

(** ** The statement of the property on the kernel: for ALL data values [d]
    (strings saturated with the five characters included, nested in lists),
    any chain of admitted filters whose arguments satisfy the invariant
    (literals; data, tagged), the text written by [{{ d | chain }}] has no
    HTML-significant character of data origin. *)
Theorem autoescape_sound_chain : forall L ch d out,
  lib_ok L -> forallb filter_ok ch = true ->
  output L (LVal (tag_all d)) ch = Ok out -> ~ Tainted out.
Proof.
  intros L ch d out HL Hc Ho. eapply autoescape_sound; [exact HL| |exact Hc|exact Ho].
  apply tag_all_safe_ok.
Qed.

(** ... and that tagged run is the real one: the real (untagged) render of the
    same chain on the same data writes exactly the same text. *)
Theorem autoescape_real_run : forall L ch d out,
  lib_ok L -> val_small d -> val_plain d ->
  output L (LVal (tag_all d)) ch = Ok out ->
  output L (LVal d) (map untag_filter ch) = Ok (untag out).
Proof.
  intros L ch d out HL Hs Hp Ho.
  pose proof (tag_transparent_output L (LVal (tag_all d)) ch HL) as H.
  cbn [untag_left] in H. rewrite untag_tag_all in H by assumption.
  rewrite H, Ho. reflexivity.
Qed.

(** The per-filter dataflow obligation, as a theorem for every modelled filter. *)
Theorem filter_preserves_safe_inv : forall L f v r,
  lib_ok L -> filter_ok f = true -> safe_inv v -> eval_filter L f v = Ok r -> safe_inv r.
Proof.
  intros L f v r HL. apply eval_filter_safe. apply (strip_tags_clean L HL).
Qed.

(** ** Non-vacuity *)

(** [lib_ok] is satisfiable. *)
Definition lib_id : lib :=
  {| strip_tags_fn := fun s => s; html_unescape_fn := fun s => s;
     unquote_fn := fun s => s; json_fn := tls_text;
     fix_truncate_clamp := false; fix_rpartition_found := false |}.
Example lib_id_ok : lib_ok lib_id.
Proof.
  constructor; try reflexivity.
  - intros s H. exact H.
  - intro v. symmetry. apply tls_text_untag.
Qed.

(** A saturated data string through a chain with a literal and a data
    argument renders, and what it renders is what the theorem says. *)
Example sound_chain_example :
  let d := VStr false [60; 62; 38; 39; 34] in
  let ch := [FAppend (AStr true [60; 98; 62]); FUpcase; FReplace (AStr false (tag_str [66])) (AStr false (tag_str [60]))] in
  forallb filter_ok ch = true /\
  output lib_id (LVal (tag_all d)) ch
  = Ok ([38; 76; 84; 59; 38; 71; 84; 59; 38; 65; 77; 80; 59; 38; 35; 51; 57; 59; 38; 35; 51; 52; 59;
         60; 38; 108; 116; 59; 62]).
Proof. split; vm_compute; reflexivity. Qed.

(** Excluding [safe] is necessary: with it the statement is false. *)
Theorem safe_filter_refuted :
  exists d out, output lib_id (LVal (tag_all d)) [FSafe] = Ok out /\ Tainted out.
Proof.
  exists (VStr false [60]), [tag1 60]. split; [vm_compute; reflexivity|].
  exists (tag1 60). split; [left; reflexivity|split; vm_compute; reflexivity].
Qed.

(** A mutant of [escape] that wraps without escaping breaks T1 — the
    obligation is not vacuous. *)
Example unescaped_markup_is_tainted : Tainted (tag_str [60]).
Proof. exists (tag1 60). split; [left; reflexivity|split; vm_compute; reflexivity]. Qed.

(** * Part G — the [date] filter *)

(** Current code: a data format is always escaped on output, whatever the date
    library does ... *)
Theorem date_data_format_escaped_now : forall strftime dat fmt,
  fst fmt = false -> ~ Tainted (tls_ae (vstr (date_filter strftime dat fmt))).
Proof.
  intros st dat [sf f] Hf. cbn [fst] in Hf. subst sf. apply Clean_not_tainted.
  unfold date_filter. cbn [fst snd]. destruct (st dat f); apply escape_Clean.
Qed.

(** ... and a literal format yields Markup made of the format's characters and
    of what strftime adds (explicit premise: strftime maps an untainted format
    to an untainted text). *)
Theorem date_preserves_safe_inv : forall strftime dat fmt,
  (forall d f r, Clean f -> strftime d f = Some r -> Clean r) ->
  m_ok fmt = true -> m_ok (date_filter strftime dat fmt) = true.
Proof.
  intros st dat [[|] f] Hst Hf; unfold date_filter; cbn [fst snd] in *.
  - destruct (st dat f) as [r|] eqn:E; [|reflexivity]. apply m_ok_safe. apply (Hst dat f r Hf E).
  - destruct (st dat f); reflexivity.
Qed.

(** ** HISTORICAL: the lru_cache that wrapped [date] before fix c40f103 *)

(** What an uncached [date] returns: Markup exactly when the format is Markup
    (misc.py:113-115). *)
Definition date_spec (strftime : str -> str -> str) (dat : str) (fmt : mstr) : mstr :=
  (fst fmt, strftime dat (snd fmt)).

(** A later call whose format is DATA may be answered with the Markup result
    that an earlier call computed for the equal LITERAL format: the call then
    returns, marked safe, character for character the text that the data
    format denotes — a tainted text — and [to_liquid_string] lets it through. *)
Theorem date_cache_refuted :
  exists (strftime : str -> str -> str) dat f,
    let c1 := snd (date_call strftime [] dat (true, f)) in
    let r2 := fst (date_call strftime c1 dat (false, tag_str f)) in
    let want := date_spec strftime dat (false, tag_str f) in
    fst r2 = true /\ fst want = false
    /\ untag (snd r2) = untag (snd want) /\ Tainted (snd want)
    /\ tls_ae (vstr r2) = snd r2.
Proof.
  exists (fun _ f => f), [50; 48; 50; 48], [60; 98; 62; 37; 89].
  repeat split; try (vm_compute; reflexivity).
  exists (tag1 60). split; [left; reflexivity|split; vm_compute; reflexivity].
Qed.

(** Under the exact guard that excludes the defect — every cached entry for
    this key was filled by a call whose format had the same Markup bit — the
    call returns Markup only for a Markup format ... *)
Theorem date_call_partial : forall strftime c dat fmt,
  (forall r, cache_find (dat, snd fmt) c = Some r -> fst r = fst fmt) ->
  fst (fst (date_call strftime c dat fmt)) = fst fmt.
Proof.
  intros st c dat fmt H. unfold date_call.
  destruct (cache_find (dat, snd fmt) c) as [r|] eqn:E; [apply H; reflexivity|reflexivity].
Qed.

(** ... so a data format is always escaped on output, whatever strftime does. *)
Theorem date_data_format_escaped : forall strftime c dat fmt,
  (forall r, cache_find (dat, snd fmt) c = Some r -> fst r = fst fmt) ->
  fst fmt = false ->
  ~ Tainted (tls_ae (vstr (fst (date_call strftime c dat fmt)))).
Proof.
  intros st c dat fmt H Hf. apply Clean_not_tainted.
  pose proof (date_call_partial st c dat fmt H) as E. rewrite Hf in E.
  destruct (fst (date_call st c dat fmt)) as [sf s]. cbn [fst] in E. subst sf.
  apply escape_Clean.
Qed.

(** The guard is satisfiable by a non-trivial state: a cache filled by a data
    format serves the same data format. *)
Example date_guard_example :
  let st := fun (_ f : str) => f in
  let c := snd (date_call st [] [50] (false, tag_str [60; 37; 89])) in
  (forall r, cache_find ([50], tag_str [60; 37; 89]) c = Some r -> fst r = false) /\ c <> [].
Proof.
  split; [|discriminate]. intros r H. vm_compute in H. injection H as <-. reflexivity.
Qed.
