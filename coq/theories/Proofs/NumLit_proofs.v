(** Proofs/NumLit_proofs.v — numeric literals: every INT spelling denotes
    exactly [m * 10^e]; spellings are classified FLOAT / INT as the regexes of
    the lexer do, and a FLOAT spelling is handed to [float()] as the exact
    decimal it spells. *)
From LQ Require Import Base.Str Kernels.NumLit.
Local Open Scope N_scope.

Definition all_digits (ds : str) : Prop := forallb is_digit ds = true.
Definition hd_not_digit (r : str) : Prop :=
  match r with c :: _ => is_digit c = false | [] => True end.

Lemma span_digits_app ds r : all_digits ds -> hd_not_digit r -> span_digits (ds ++ r) = (ds, r).
Proof.
  unfold all_digits. induction ds as [|d ds IH]; intros Hd Hr.
  - destruct r as [|c r']; [reflexivity|]. cbn [app span_digits]. cbn in Hr. rewrite Hr. reflexivity.
  - cbn [forallb] in Hd. apply andb_true_iff in Hd as [H1 H2].
    cbn [app span_digits]. rewrite H1, (IH H2 Hr). reflexivity.
Qed.

Lemma span_digits_spec s ds r : span_digits s = (ds, r) ->
  s = ds ++ r /\ all_digits ds /\ hd_not_digit r.
Proof.
  revert ds r. induction s as [|c s IH]; intros ds r H.
  - inversion H; subst. repeat split.
  - cbn [span_digits] in H. destruct (is_digit c) eqn:Ec.
    + destruct (span_digits s) as [ds' r'] eqn:Es. inversion H; subst.
      destruct (IH ds' r eq_refl) as (H1 & H2 & H3). subst s.
      repeat split; [|assumption]. unfold all_digits. cbn [forallb]. rewrite Ec. exact H2.
    + inversion H; subst. repeat split. exact Ec.
Qed.

Lemma digit_facts d : is_digit d = true ->
  d <> MINUS /\ d <> PLUS /\ d <> DOT /\ is_e d = false /\ lower d = d /\ d <> CH_e.
Proof.
  unfold is_digit, MINUS, PLUS, DOT, is_e, lower, CH_e, CH_E.
  rewrite andb_true_iff, !N.leb_le. intros [H1 H2].
  repeat split; try lia.
  - destruct (N.eqb_spec d 101); [lia|]. destruct (N.eqb_spec d 69); [lia|]. reflexivity.
  - destruct (N.leb_spec 65 d), (N.leb_spec d 90); cbn [andb]; try reflexivity; lia.
Qed.

Lemma all_digits_hd ds : all_digits ds -> ds <> [] -> exists d t, ds = d :: t /\ is_digit d = true /\ all_digits t.
Proof.
  intros H Hn. destruct ds as [|d t]; [congruence|]. unfold all_digits in *. cbn [forallb] in H.
  apply andb_true_iff in H as [H1 H2]. exists d, t. repeat split; assumption.
Qed.

Lemma digits_value_acc_nonneg ds : forall acc, (0 <= acc)%Z -> (0 <= digits_value_acc ds acc)%Z.
Proof. induction ds as [|d ds IH]; intros acc H; [exact H|]. cbn [digits_value_acc]. apply IH. lia. Qed.

Lemma digits_value_nonneg ds : (0 <= digits_value ds)%Z.
Proof. apply digits_value_acc_nonneg. lia. Qed.

Lemma map_lower_digits ds : all_digits ds -> map lower ds = ds.
Proof.
  unfold all_digits. induction ds as [|d ds IH]; [reflexivity|]. cbn [forallb map].
  rewrite andb_true_iff. intros [H1 H2]. apply digit_facts in H1 as (_ & _ & _ & _ & -> & _).
  rewrite (IH H2). reflexivity.
Qed.

Lemma partition_e_digits ds r : all_digits ds ->
  partition_e (ds ++ r) = let '(a, b) := partition_e r in (ds ++ a, b).
Proof.
  unfold all_digits. induction ds as [|d ds IH]; intros H.
  - cbn [app]. destruct (partition_e r); reflexivity.
  - cbn [forallb] in H. apply andb_true_iff in H as [H1 H2].
    apply digit_facts in H1 as (_ & _ & _ & _ & _ & H1). apply N.eqb_neq in H1.
    cbn [app partition_e]. rewrite H1, (IH H2). destruct (partition_e r); reflexivity.
Qed.

Lemma py_int_of_str_digits ds : all_digits ds -> ds <> [] -> py_int_of_str ds = Ok (digits_value ds).
Proof.
  intros H Hn. destruct (all_digits_hd ds H Hn) as (d & t & -> & Hd & Ht).
  apply digit_facts in Hd as (H1 & H2 & _). apply N.eqb_neq in H1, H2.
  unfold py_int_of_str. rewrite H1, H2. unfold all_digits in H. rewrite H. reflexivity.
Qed.

Lemma py_int_of_str_minus ds : all_digits ds -> ds <> [] ->
  py_int_of_str (MINUS :: ds) = Ok (- digits_value ds)%Z.
Proof.
  intros H Hn. unfold py_int_of_str. rewrite N.eqb_refl.
  destruct ds as [|d t]; [congruence|]. unfold all_digits in H. rewrite H. reflexivity.
Qed.

Lemma py_int_of_str_plus ds : all_digits ds -> ds <> [] ->
  py_int_of_str (PLUS :: ds) = Ok (digits_value ds).
Proof.
  intros H Hn. unfold py_int_of_str. change (PLUS =? MINUS) with false. rewrite N.eqb_refl.
  destruct ds as [|d t]; [congruence|]. unfold all_digits in H. rewrite H. reflexivity.
Qed.

(** * INT spellings *)

Record intsp := { i_neg : bool; i_ds : str; i_exp : option (N * bool * str) }.

Definition sign_src (neg : bool) : str := if neg then [MINUS] else [].
Definition plus_src (plus : bool) : str := if plus then [PLUS] else [].

Definition intsp_wf (sp : intsp) : Prop :=
  all_digits (i_ds sp) /\ i_ds sp <> [] /\
  match i_exp sp with
  | None => True
  | Some (e, _, xs) => is_e e = true /\ all_digits xs /\ xs <> []
  end.

(** [-?[0-9]+([eE]\+?[0-9]+)?] *)
Definition intsp_src (sp : intsp) : str :=
  sign_src (i_neg sp) ++ i_ds sp ++
  match i_exp sp with None => [] | Some (e, plus, xs) => e :: plus_src plus ++ xs end.

(** The number written: [(+|-) digits * 10 ^ exponent]. *)
Definition intsp_value (sp : intsp) : Z :=
  ((if i_neg sp then -1 else 1) * digits_value (i_ds sp)
   * 10 ^ match i_exp sp with None => 0 | Some (_, _, xs) => digits_value xs end)%Z.

(** The digit limit of [to_int] / fix 0001, on the spelling. *)
Definition intsp_within (limit : N) (sp : intsp) : bool :=
  let lm := N.of_nat (length (sign_src (i_neg sp) ++ i_ds sp)) in
  (limit =? 0) ||
  match i_exp sp with
  | None => lm <=? limit
  | Some (_, plus, xs) =>
      (N.of_nat (length (plus_src plus ++ xs)) <=? limit)
      && (Z.of_N lm + digits_value xs <=? Z.of_N limit)%Z
      && (lm <=? limit)
  end.

Lemma to_int_str_mant limit neg ds : all_digits ds -> ds <> [] ->
  to_int_str limit (sign_src neg ++ ds) =
  if negb (limit =? 0) && (limit <? N.of_nat (length (sign_src neg ++ ds)))
  then LErr LiquidValueError None
  else Ok ((if neg then -1 else 1) * digits_value ds)%Z.
Proof.
  intros H Hn. unfold to_int_str. destruct (_ && _); [reflexivity|].
  destruct neg; cbn [sign_src app].
  - rewrite py_int_of_str_minus by assumption. f_equal; lia.
  - rewrite py_int_of_str_digits by assumption. f_equal; lia.
Qed.

Lemma to_int_str_exp limit plus xs : all_digits xs -> xs <> [] ->
  to_int_str limit (plus_src plus ++ xs) =
  if negb (limit =? 0) && (limit <? N.of_nat (length (plus_src plus ++ xs)))
  then LErr LiquidValueError None
  else Ok (digits_value xs).
Proof.
  intros H Hn. unfold to_int_str. destruct (_ && _); [reflexivity|].
  destruct plus; cbn [plus_src app].
  - apply py_int_of_str_plus; assumption.
  - apply py_int_of_str_digits; assumption.
Qed.

Lemma lower_e e : is_e e = true -> lower e = CH_e.
Proof.
  unfold is_e. rewrite orb_true_iff, !N.eqb_eq. intros [->| ->]; reflexivity.
Qed.

Lemma partition_e_src sp : intsp_wf sp ->
  partition_e (map lower (intsp_src sp)) =
  (sign_src (i_neg sp) ++ i_ds sp,
   match i_exp sp with None => [] | Some (_, plus, xs) => plus_src plus ++ xs end).
Proof.
  intros (Hd & Hn & He). unfold intsp_src. rewrite !map_app, (map_lower_digits _ Hd).
  assert (Hs : map lower (sign_src (i_neg sp)) = sign_src (i_neg sp)) by (destruct (i_neg sp); reflexivity).
  rewrite Hs.
  assert (Hp : forall r, partition_e (sign_src (i_neg sp) ++ r) =
                         let '(a, b) := partition_e r in (sign_src (i_neg sp) ++ a, b)).
  { intros r. destruct (i_neg sp); cbn [sign_src app]; [|destruct (partition_e r); reflexivity].
    cbn [partition_e]. change (MINUS =? CH_e) with false. cbn. destruct (partition_e r); reflexivity. }
  rewrite Hp, (partition_e_digits _ _ Hd).
  destruct (i_exp sp) as [[[e plus] xs]|].
  - destruct He as (He & Hx & Hxn). cbn [map partition_e]. rewrite (lower_e _ He), N.eqb_refl.
    rewrite app_nil_r. rewrite map_app, (map_lower_digits _ Hx).
    destruct plus; reflexivity.
  - cbn [map partition_e]. rewrite !app_nil_r. reflexivity.
Qed.

(** Every INT spelling denotes exactly the integer written (any magnitude),
    or is rejected with LiquidValueError when it exceeds the digit limit. *)
Theorem int_literal_exact limit sp : intsp_wf sp ->
  parse_integer_literal limit (intsp_src sp) =
  if intsp_within limit sp then Ok (intsp_value sp) else LErr LiquidValueError None.
Proof.
  intros Hwf. unfold parse_integer_literal. rewrite (partition_e_src sp Hwf).
  destruct Hwf as (Hd & Hn & He). unfold intsp_within, intsp_value.
  destruct (i_exp sp) as [[[e plus] xs]|].
  - destruct He as (He & Hx & Hxn).
    destruct (plus_src plus ++ xs) as [|y t] eqn:Ep.
    { destruct plus; cbn in Ep; [discriminate|congruence]. }
    rewrite <- Ep. rewrite (to_int_str_exp limit plus xs Hx Hxn).
    rewrite (to_int_str_mant limit (i_neg sp) (i_ds sp) Hd Hn).
    set (lm := N.of_nat (length (sign_src (i_neg sp) ++ i_ds sp))).
    set (lx := N.of_nat (length (plus_src plus ++ xs))).
    replace (Z.of_nat (length (sign_src (i_neg sp) ++ i_ds sp))) with (Z.of_N lm)
      by (unfold lm; lia).
    pose proof (digits_value_nonneg xs) as Hnn.
    assert (Hlt : (digits_value xs <? 0)%Z = false) by (apply Z.ltb_ge; assumption).
    destruct (limit =? 0); cbn [negb andb orb bind].
    { rewrite Hlt. reflexivity. }
    rewrite (N.ltb_antisym lx limit).
    destruct (lx <=? limit); cbn [negb andb bind]; [|reflexivity].
    rewrite Z.ltb_antisym.
    destruct (Z.of_N lm + digits_value xs <=? Z.of_N limit)%Z; cbn [negb andb bind]; [|reflexivity].
    rewrite (N.ltb_antisym lm limit).
    destruct (lm <=? limit); cbn [negb andb bind]; [|reflexivity].
    rewrite Hlt. reflexivity.
  - rewrite (to_int_str_mant limit (i_neg sp) (i_ds sp) Hd Hn).
    set (lm := N.of_nat (length (sign_src (i_neg sp) ++ i_ds sp))).
    rewrite N.ltb_antisym. change (10 ^ 0)%Z with 1%Z. rewrite Z.mul_1_r.
    destruct (limit =? 0); cbn [negb andb orb]; [reflexivity|].
    destruct (lm <=? limit); reflexivity.
Qed.

Corollary int_literal_exact_unlimited sp : intsp_wf sp ->
  parse_integer_literal 0 (intsp_src sp) = Ok (intsp_value sp).
Proof. intros H. rewrite (int_literal_exact 0 sp H). reflexivity. Qed.

(** * Classification *)

Lemma opt_minus_sign neg ds r : all_digits ds -> ds <> [] ->
  opt_minus (sign_src neg ++ ds ++ r) = (sign_src neg, ds ++ r).
Proof.
  intros H Hn. destruct neg; cbn [sign_src app opt_minus]; [rewrite N.eqb_refl; reflexivity|].
  destruct (all_digits_hd ds H Hn) as (d & t & -> & Hd & _).
  apply digit_facts in Hd as (H1 & _). apply N.eqb_neq in H1. cbn [app opt_minus]. rewrite H1. reflexivity.
Qed.

Lemma hd_not_digit_e e r : is_e e = true -> hd_not_digit (e :: r).
Proof.
  unfold is_e, hd_not_digit, is_digit. rewrite orb_true_iff, !N.eqb_eq. intros [->| ->]; reflexivity.
Qed.

Lemma match_exp_plus e plus xs : is_e e = true -> all_digits xs -> xs <> [] ->
  match_exp true false (e :: plus_src plus ++ xs) = Some (e :: plus_src plus ++ xs, []).
Proof.
  intros He Hx Hn. unfold match_exp. rewrite He.
  destruct (all_digits_hd xs Hx Hn) as (d & t & -> & Hd & Ht).
  destruct plus; cbn [plus_src app].
  - rewrite N.eqb_refl. cbn [andb orb].
    rewrite <- (app_nil_r (d :: t)) at 1. rewrite (span_digits_app _ [] Hx I). reflexivity.
  - pose proof Hd as Hd'. apply digit_facts in Hd' as (_ & H2 & _). apply N.eqb_neq in H2.
    rewrite H2. cbn [andb orb].
    rewrite <- (app_nil_r (d :: t)) at 1. rewrite (span_digits_app _ [] Hx I). reflexivity.
Qed.

Lemma match_exp_minus_plus e plus xs : all_digits xs -> xs <> [] ->
  match_exp_minus (e :: plus_src plus ++ xs) = None.
Proof.
  intros Hx Hn. unfold match_exp_minus.
  destruct (all_digits_hd xs Hx Hn) as (d & t & -> & Hd & Ht).
  destruct plus; cbn [plus_src app].
  - change (PLUS =? MINUS) with false. rewrite andb_false_r. reflexivity.
  - apply digit_facts in Hd as (H1 & _). apply N.eqb_neq in H1. rewrite H1, andb_false_r. reflexivity.
Qed.

(** An INT spelling is not a FLOAT and is matched whole by the INT rule. *)
Theorem int_classified sp : intsp_wf sp ->
  num_token (intsp_src sp) = Some (KInt, intsp_src sp, []).
Proof.
  intros (Hd & Hn & He). unfold num_token, match_float, match_int, intsp_src.
  rewrite (opt_minus_sign _ _ _ Hd Hn).
  destruct (i_exp sp) as [[[e plus] xs]|].
  - destruct He as (He & Hx & Hxn).
    rewrite (span_digits_app _ _ Hd (hd_not_digit_e e _ He)).
    destruct (i_ds sp) as [|d0 t0] eqn:Eds; [congruence|]. rewrite <- Eds.
    rewrite (match_exp_minus_plus e plus xs Hx Hxn).
    assert (Hdot : (e =? DOT) = false).
    { unfold is_e in He. apply orb_true_iff in He. rewrite !N.eqb_eq in He.
      destruct He as [->| ->]; reflexivity. }
    rewrite Hdot. rewrite (match_exp_plus e plus xs He Hx Hxn). reflexivity.
  - rewrite (span_digits_app _ [] Hd I).
    destruct (i_ds sp) as [|d0 t0] eqn:Eds; [congruence|].
    cbn [match_exp_minus match_exp]. rewrite app_nil_r. reflexivity.
Qed.

(** * FLOAT spellings: [-?D+.D+([eE][+-]?D+)?] or [-?D+[eE]-D+] *)

Inductive expsign := ENone | EPlus | EMinus.
Definition expsign_src (s : expsign) : str :=
  match s with ENone => [] | EPlus => [PLUS] | EMinus => [MINUS] end.

Record floatsp := { f_neg : bool; f_ds : str; f_frac : option str;
                    f_exp : option (N * expsign * str) }.

Definition floatsp_wf (sp : floatsp) : Prop :=
  all_digits (f_ds sp) /\ f_ds sp <> [] /\
  match f_frac sp with
  | Some fs => all_digits fs /\ fs <> [] /\
               match f_exp sp with
               | None => True
               | Some (e, _, xs) => is_e e = true /\ all_digits xs /\ xs <> []
               end
  | None => match f_exp sp with
            | Some (e, EMinus, xs) => is_e e = true /\ all_digits xs /\ xs <> []
            | _ => False
            end
  end.

Definition floatsp_src (sp : floatsp) : str :=
  sign_src (f_neg sp) ++ f_ds sp
  ++ match f_frac sp with Some fs => DOT :: fs | None => [] end
  ++ match f_exp sp with Some (e, sg, xs) => e :: expsign_src sg ++ xs | None => [] end.

(** The exact decimal written: mantissa and power of ten. *)
Definition floatsp_decimal (sp : floatsp) : Z * Z :=
  let fs := match f_frac sp with Some fs => fs | None => [] end in
  let mag := digits_value (f_ds sp ++ fs) in
  let x := match f_exp sp with
           | None => 0%Z
           | Some (_, EMinus, xs) => (- digits_value xs)%Z
           | Some (_, _, xs) => digits_value xs
           end in
  ((if f_neg sp then - mag else mag)%Z, (x - Z.of_nat (length fs))%Z).

Lemma match_exp_any e sg xs : is_e e = true -> all_digits xs -> xs <> [] ->
  match_exp true true (e :: expsign_src sg ++ xs) = Some (e :: expsign_src sg ++ xs, []).
Proof.
  intros He Hx Hn. unfold match_exp. rewrite He.
  destruct (all_digits_hd xs Hx Hn) as (d & t & -> & Hd & Ht).
  destruct sg; cbn [expsign_src app].
  - pose proof Hd as Hd'. apply digit_facts in Hd' as (H1 & H2 & _). apply N.eqb_neq in H1, H2.
    rewrite H1, H2. cbn [andb orb].
    rewrite <- (app_nil_r (d :: t)) at 1. rewrite (span_digits_app _ [] Hx I). reflexivity.
  - rewrite N.eqb_refl. cbn [andb orb].
    rewrite <- (app_nil_r (d :: t)) at 1. rewrite (span_digits_app _ [] Hx I). reflexivity.
  - rewrite N.eqb_refl. change (MINUS =? PLUS) with false. cbn [andb orb].
    rewrite <- (app_nil_r (d :: t)) at 1. rewrite (span_digits_app _ [] Hx I). reflexivity.
Qed.

Lemma py_int_of_str_exp sg xs : all_digits xs -> xs <> [] ->
  py_int_of_str (expsign_src sg ++ xs) =
  Ok (match sg with EMinus => - digits_value xs | _ => digits_value xs end)%Z.
Proof.
  intros Hx Hn. destruct sg; cbn [expsign_src app].
  - apply py_int_of_str_digits; assumption.
  - apply py_int_of_str_plus; assumption.
  - apply py_int_of_str_minus; assumption.
Qed.

(** A FLOAT spelling is matched whole by the FLOAT rule, and the decimal that
    reaches [float()] is exactly the one written. *)
Lemma match_ne {A B} (l : list A) (x y : B) :
  l <> [] -> match l with [] => x | _ :: _ => y end = y.
Proof. destruct l; [congruence|reflexivity]. Qed.

Theorem float_classified sp : floatsp_wf sp ->
  num_token (floatsp_src sp) = Some (KFloat, floatsp_src sp, [])
  /\ float_decimal (floatsp_src sp) = Some (floatsp_decimal sp).
Proof.
  intros (Hd & Hn & Hf). unfold num_token, match_float, float_decimal, floatsp_src, floatsp_decimal.
  rewrite !(opt_minus_sign _ _ _ Hd Hn).
  assert (Hneg : match sign_src (f_neg sp) with [] => false | _ => true end = f_neg sp)
    by (destruct (f_neg sp); reflexivity).
  rewrite Hneg.
  destruct (f_frac sp) as [fs|].
  - destruct Hf as (Hfs & Hfn & He).
    rewrite (span_digits_app (f_ds sp) _ Hd) by reflexivity.
    rewrite !(match_ne (f_ds sp)) by assumption.
    cbn [app]. rewrite N.eqb_refl.
    destruct (f_exp sp) as [[[e sg] xs]|].
    + destruct He as (He & Hx & Hxn).
      rewrite (span_digits_app fs _ Hfs (hd_not_digit_e e _ He)).
      rewrite (match_exp_any e sg xs He Hx Hxn).
      rewrite He, (py_int_of_str_exp sg xs Hx Hxn).
      destruct fs as [|f0 ft]; [congruence|].
      split; [reflexivity|]. destruct sg; rewrite (match_ne (f_ds sp)) by assumption; reflexivity.
    + rewrite !app_nil_r.
      assert (Hsp : span_digits fs = (fs, []))
        by (rewrite <- (app_nil_r fs) at 1; apply span_digits_app; [assumption|exact I]).
      rewrite !Hsp. rewrite !(match_ne (f_ds sp)) by assumption.
      destruct fs as [|f0 ft]; [congruence|].
      cbn [match_exp]. split; reflexivity.
  - destruct (f_exp sp) as [[[e sg] xs]|]; [|contradiction].
    destruct sg; try contradiction. destruct Hf as (He & Hx & Hxn).
    cbn [app expsign_src].
    rewrite (span_digits_app (f_ds sp) _ Hd (hd_not_digit_e e _ He)).
    rewrite !(match_ne (f_ds sp)) by assumption.
    assert (Hdot : (e =? DOT) = false).
    { unfold is_e in He. apply orb_true_iff in He. rewrite !N.eqb_eq in He.
      destruct He as [->| ->]; reflexivity. }
    rewrite Hdot. unfold match_exp_minus. rewrite He, N.eqb_refl. cbn [andb].
    rewrite <- (app_nil_r xs) at 1. rewrite (span_digits_app xs [] Hx I).
    rewrite (py_int_of_str_minus xs Hx Hxn).
    destruct xs as [|x0 xt]; [congruence|].
    split; [reflexivity|]. rewrite (match_ne (f_ds sp)) by assumption. rewrite app_nil_r. reflexivity.
Qed.

(** * Non-vacuity *)

(** [9007199254740993] (2^53 + 1, not representable in binary64). *)
Example int_example_2_53 :
  let sp := {| i_neg := false; i_ds := [57;48;48;55;49;57;57;50;53;52;55;52;48;57;57;51]; i_exp := None |} in
  intsp_wf sp /\ parse_integer_literal 4300 (intsp_src sp) = Ok 9007199254740993%Z.
Proof. split; [repeat split; discriminate|vm_compute; reflexivity]. Qed.

(** [-1E+3] *)
Example int_example_exp :
  let sp := {| i_neg := true; i_ds := [49]; i_exp := Some (CH_E, true, [51]) |} in
  intsp_wf sp /\ intsp_src sp = [45;49;69;43;51] /\ intsp_value sp = (-1000)%Z
  /\ intsp_within 4300 sp = true.
Proof. repeat split; try discriminate. Qed.

(** [1e400] is ten to the 400 (float() gives inf). *)
Example int_example_1e400 :
  parse_integer_literal 4300 [49;101;52;48;48] = Ok (10 ^ 400)%Z.
Proof. vm_compute. reflexivity. Qed.

(** [1e5000] exceeds the digit limit. *)
Example int_example_limit :
  parse_integer_literal 4300 [49;101;53;48;48;48] = LErr LiquidValueError None.
Proof. vm_compute. reflexivity. Qed.

(** [-1.50e-3] is [-150 * 10^-5]; [1e-3] is a FLOAT by the second alternative. *)
Example float_example :
  let sp := {| f_neg := true; f_ds := [49]; f_frac := Some [53;48]; f_exp := Some (CH_e, EMinus, [51]) |} in
  floatsp_wf sp /\ floatsp_src sp = [45;49;46;53;48;101;45;51]
  /\ floatsp_decimal sp = ((-150)%Z, (-5)%Z).
Proof. repeat split; try discriminate. Qed.

Example float_example_alt2 :
  let sp := {| f_neg := false; f_ds := [49]; f_frac := None; f_exp := Some (CH_e, EMinus, [51]) |} in
  floatsp_wf sp /\ floatsp_src sp = [49;101;45;51] /\ floatsp_decimal sp = (1%Z, (-3)%Z).
Proof. repeat split; try discriminate. Qed.

(** * Soundness of the classification: what [num_token] returns is a spelling
    of that kind, and the token is a prefix of the text. *)

Lemma opt_minus_spec s m r0 : opt_minus s = (m, r0) -> exists neg, m = sign_src neg /\ s = m ++ r0.
Proof.
  unfold opt_minus. destruct s as [|c r]; [intros H; inversion H; exists false; split; reflexivity|].
  destruct (N.eqb_spec c MINUS) as [->|_]; intros H; inversion H; subst.
  - exists true. split; reflexivity.
  - exists false. split; reflexivity.
Qed.

Lemma match_exp_spec plus minus s v r : match_exp plus minus s = Some (v, r) ->
  exists e sg xs, v = e :: expsign_src sg ++ xs /\ s = v ++ r /\ is_e e = true
    /\ all_digits xs /\ xs <> [] /\ (sg = EPlus -> plus = true) /\ (sg = EMinus -> minus = true).
Proof.
  unfold match_exp. destruct s as [|e r0]; [discriminate|].
  destruct (is_e e) eqn:He; [|discriminate].
  assert (Hgen : forall sg r1, r0 = expsign_src sg ++ r1 ->
            (sg = EPlus -> plus = true) -> (sg = EMinus -> minus = true) ->
            (let '(ds, r2) := span_digits r1 in
             match ds with [] => None | _ :: _ => Some (e :: expsign_src sg ++ ds, r2) end) = Some (v, r) ->
            exists e' sg' xs, v = e' :: expsign_src sg' ++ xs /\ e :: r0 = v ++ r /\ is_e e' = true
              /\ all_digits xs /\ xs <> [] /\ (sg' = EPlus -> plus = true) /\ (sg' = EMinus -> minus = true)).
  { intros sg r1 Er Hp Hm H. destruct (span_digits r1) as [ds r2] eqn:Es.
    apply span_digits_spec in Es as (E1 & E2 & _).
    destruct ds as [|d t]; [discriminate|]. inversion H; subst.
    exists e, sg, (d :: t). repeat split; try assumption; try discriminate.
    cbn [app]. rewrite <- app_assoc. reflexivity. }
  destruct r0 as [|c r'].
  - intros H. apply (Hgen ENone []); try reflexivity; try discriminate; try exact H.
  - destruct (plus && (c =? PLUS)) eqn:Ep; [|destruct (minus && (c =? MINUS)) eqn:Em].
    + apply andb_true_iff in Ep as [Ep1 Ep2]. apply N.eqb_eq in Ep2; subst c. cbn [orb].
      intros H. apply (Hgen EPlus r'); try reflexivity; try discriminate; try exact H; try (intros _; assumption).
    + apply andb_true_iff in Em as [Em1 Em2]. apply N.eqb_eq in Em2; subst c. cbn [orb].
      intros H. apply (Hgen EMinus r'); try reflexivity; try discriminate; try exact H; try (intros _; assumption).
    + cbn [orb]. intros H. apply (Hgen ENone (c :: r')); try reflexivity; try discriminate; try exact H.
Qed.

Lemma match_exp_minus_spec s v r : match_exp_minus s = Some (v, r) ->
  exists e xs, v = e :: MINUS :: xs /\ s = v ++ r /\ is_e e = true /\ all_digits xs /\ xs <> [].
Proof.
  unfold match_exp_minus. destruct s as [|e [|c r1]]; try discriminate.
  destruct (is_e e) eqn:He; [|discriminate]. destruct (N.eqb_spec c MINUS) as [->|_]; [|discriminate].
  cbn [andb]. destruct (span_digits r1) as [ds r2] eqn:Es.
  apply span_digits_spec in Es as (E1 & E2 & _). destruct ds as [|d t]; [discriminate|].
  intros H; inversion H; subst. exists e, (d :: t). repeat split; try assumption; discriminate.
Qed.

Ltac app_norm := repeat first [rewrite <- app_assoc | rewrite app_nil_r | progress cbn [app]].

Theorem num_token_sound s k v r : num_token s = Some (k, v, r) ->
  s = v ++ r /\
  match k with
  | KInt => exists sp, intsp_wf sp /\ v = intsp_src sp
  | KFloat => exists sp, floatsp_wf sp /\ v = floatsp_src sp
  end.
Proof.
  unfold num_token. destruct (match_float s) as [[fv fr]|] eqn:Ef.
  - intros H; inversion H; subst. unfold match_float in Ef.
    destruct (opt_minus s) as [m r0] eqn:Em. apply opt_minus_spec in Em as (neg & -> & ->).
    destruct (span_digits r0) as [ds r1] eqn:Es. apply span_digits_spec in Es as (-> & Hd & _).
    destruct ds as [|d0 t0]; [discriminate|]. set (ds := d0 :: t0) in *.
    assert (Hn : ds <> []) by (unfold ds; discriminate).
    assert (Alt2 : match match_exp_minus r1 with
                   | Some (ex, r2) => Some (sign_src neg ++ ds ++ ex, r2) | None => None end = Some (v, r) ->
                   sign_src neg ++ ds ++ r1 = v ++ r /\ exists sp, floatsp_wf sp /\ v = floatsp_src sp).
    { destruct (match_exp_minus r1) as [[ex r2]|] eqn:E2; [|discriminate].
      apply match_exp_minus_spec in E2 as (e & xs & -> & -> & He & Hx & Hxn).
      intros H'; inversion H'; subst. split; [app_norm; reflexivity|].
      exists {| f_neg := neg; f_ds := ds; f_frac := None; f_exp := Some (e, EMinus, xs) |}.
      split; [repeat split; assumption|]. unfold floatsp_src; cbn [f_neg f_ds f_frac f_exp expsign_src]; app_norm; reflexivity. }
    destruct r1 as [|c r2]; [apply Alt2; exact Ef|].
    destruct (N.eqb_spec c DOT) as [->|_]; [|apply Alt2; exact Ef].
    destruct (span_digits r2) as [fs r3] eqn:Es2. apply span_digits_spec in Es2 as (-> & Hfs & _).
    destruct fs as [|f0 ft]; [apply Alt2; exact Ef|]. set (fs := f0 :: ft) in *.
    assert (Hfn : fs <> []) by (unfold fs; discriminate).
    destruct (match_exp true true r3) as [[ex r4]|] eqn:E3.
    + apply match_exp_spec in E3 as (e & sg & xs & -> & -> & He & Hx & Hxn & _).
      inversion Ef; subst. split; [app_norm; reflexivity|].
      exists {| f_neg := neg; f_ds := ds; f_frac := Some fs; f_exp := Some (e, sg, xs) |}.
      split; [repeat split; assumption|]. unfold floatsp_src; cbn [f_neg f_ds f_frac f_exp]; app_norm; reflexivity.
    + inversion Ef; subst. split; [app_norm; reflexivity|].
      exists {| f_neg := neg; f_ds := ds; f_frac := Some fs; f_exp := None |}.
      split; [repeat split; assumption|]. unfold floatsp_src; cbn [f_neg f_ds f_frac f_exp]; app_norm; reflexivity.
  - destruct (match_int s) as [[iv ir]|] eqn:Ei; [|discriminate].
    intros H; inversion H; subst. unfold match_int in Ei.
    destruct (opt_minus s) as [m r0] eqn:Em. apply opt_minus_spec in Em as (neg & -> & ->).
    destruct (span_digits r0) as [ds r1] eqn:Es. apply span_digits_spec in Es as (-> & Hd & _).
    destruct ds as [|d0 t0]; [discriminate|]. set (ds := d0 :: t0) in *.
    assert (Hn : ds <> []) by (unfold ds; discriminate).
    destruct (match_exp true false r1) as [[ex r2]|] eqn:E3.
    + apply match_exp_spec in E3 as (e & sg & xs & -> & -> & He & Hx & Hxn & _ & Hm).
      inversion Ei; subst. split; [app_norm; reflexivity|].
      destruct sg; [| |discriminate (Hm eq_refl)].
      * exists {| i_neg := neg; i_ds := ds; i_exp := Some (e, false, xs) |}.
        split; [repeat split; assumption|unfold intsp_src; cbn [i_neg i_ds i_exp plus_src expsign_src]; app_norm; reflexivity].
      * exists {| i_neg := neg; i_ds := ds; i_exp := Some (e, true, xs) |}.
        split; [repeat split; assumption|unfold intsp_src; cbn [i_neg i_ds i_exp plus_src expsign_src]; app_norm; reflexivity].
    + inversion Ei; subst. split; [app_norm; reflexivity|].
      exists {| i_neg := neg; i_ds := ds; i_exp := None |}.
      split; [repeat split; assumption|]. unfold intsp_src; cbn [i_neg i_ds i_exp]; app_norm; reflexivity.
Qed.
