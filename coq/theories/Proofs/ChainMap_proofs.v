(** Proofs/ChainMap_proofs.v — C10: lookup precedence, writes land in locals /
    counters only, merging allocates, extend is balanced.  Model:
    Kernels/ChainMap.v. *)
From LQ Require Import Base.Str Kernels.ChainMap.
From Coq Require Import Lia.

Section Proofs.
Context {D : Type}.
Notation value := (value D).
Notation dict := (dict D).
Notation store := (store D).
Notation state := (state D).
Notation world := (world D).
Notation astate := (astate D).
Notation op := (op D).
Notation obs := (obs D).
Notation layers := (layers D).

(** * Store *)

Lemma length_write (s : store) a d : length (write s a d) = length s.
Proof. revert a; induction s as [|x s IH]; intros [|a]; simpl; auto. Qed.

Lemma read_write_same (s : store) a d : a < length s -> read (write s a d) a = d.
Proof.
  unfold read. revert a; induction s as [|x s IH]; intros [|a] H; simpl in *; try lia; auto.
  apply IH; lia.
Qed.

Lemma read_write_other (s : store) a a' d : a <> a' -> read (write s a d) a' = read s a'.
Proof.
  unfold read. revert a a'; induction s as [|x s IH]; intros [|a] [|a'] H; simpl; auto; try congruence.
Qed.

Lemma write_oob (s : store) a d : length s <= a -> write s a d = s.
Proof.
  revert a; induction s as [|x s IH]; intros [|a] H; simpl in *; auto; try lia.
  f_equal. apply IH. lia.
Qed.

Lemma read_app_lt (s t : store) a : a < length s -> read (s ++ t) a = read s a.
Proof. intro H. unfold read. apply app_nth1. exact H. Qed.

Lemma read_app_new (s : store) d : read (s ++ [d]) (length s) = d.
Proof. unfold read. rewrite app_nth2, Nat.sub_diag by lia. reflexivity. Qed.

Lemma firstn_write_ge (s : store) n a d : n <= a -> firstn n (write s a d) = firstn n s.
Proof.
  revert n a; induction s as [|x s IH]; intros [|n] [|a] H; simpl; auto; try lia.
  f_equal. apply IH. lia.
Qed.

Lemma firstn_app_le (s t : store) n : n <= length s -> firstn n (s ++ t) = firstn n s.
Proof.
  intro H. rewrite firstn_app. replace (n - length s) with 0 by lia.
  simpl. apply app_nil_r.
Qed.

Lemma firstn_len_ge (s : store) n (l : store) : firstn n s = l -> length l = n -> n <= length s.
Proof.
  intros H Hl. subst l. rewrite firstn_length in Hl. lia.
Qed.

(** * Dicts *)

Lemma str_eqb_sym (a b : str) : str_eqb a b = str_eqb b a.
Proof.
  destruct (str_eqb a b) eqn:E; symmetry.
  - apply str_eqb_eq in E. subst. apply str_eqb_refl.
  - apply str_eqb_neq in E. apply str_eqb_neq. congruence.
Qed.

Lemma assoc_dict_set_same (k : str) (v : value) (d : dict) : assoc k (dict_set k v d) = Some v.
Proof.
  induction d as [|[k' v'] d IH]; simpl.
  - rewrite str_eqb_refl. reflexivity.
  - destruct (str_eqb k k') eqn:E; simpl.
    + rewrite str_eqb_refl. reflexivity.
    + rewrite E. exact IH.
Qed.

Lemma assoc_dict_set_other (k k' : str) (v : value) (d : dict) :
  k' <> k -> assoc k' (dict_set k v d) = assoc k' d.
Proof.
  intro N. apply str_eqb_neq in N.
  induction d as [|[k0 v0] d IH]; simpl.
  - rewrite N. reflexivity.
  - destruct (str_eqb k k0) eqn:E; simpl.
    + apply str_eqb_eq in E. subst k0. rewrite N. reflexivity.
    + destruct (str_eqb k' k0); auto.
Qed.

Lemma assoc_none_not_in (k : str) (d : dict) : ~ In k (keys d) -> assoc k d = None.
Proof.
  induction d as [|[k' v'] d IH]; simpl; auto. intro H.
  destruct (str_eqb k k') eqn:E.
  - apply str_eqb_eq in E. subst. tauto.
  - apply IH. tauto.
Qed.

(** [{**a, **b}]: a key of [b] wins, else [a]'s binding (keys of a dict are unique). *)
Lemma assoc_merge (a b : dict) (k : str) :
  NoDup (keys b) ->
  assoc k (dict_merge a b) = match assoc k b with Some v => Some v | None => assoc k a end.
Proof.
  unfold dict_merge. revert a. induction b as [|[k1 v1] b IH]; intros a ND; simpl; auto.
  inversion ND as [|x l Hnin ND']; subst. rewrite IH by assumption.
  destruct (str_eqb k k1) eqn:E.
  - apply str_eqb_eq in E. subst k1.
    rewrite (assoc_none_not_in k b Hnin). apply assoc_dict_set_same.
  - destruct (assoc k b); auto.
    apply assoc_dict_set_other. apply str_eqb_neq. exact E.
Qed.

(** * first_some *)

Lemma first_some_app {A} (l1 l2 : list (option A)) :
  first_some (l1 ++ l2) = match first_some l1 with Some v => Some v | None => first_some l2 end.
Proof. induction l1 as [|[v|] l1 IH]; simpl; auto. Qed.

(** * Mapping references *)

Lemma mref_ind' (P : mref -> Prop) :
  (forall a, P (RDict a)) -> P RBuiltin ->
  (forall ms, Forall P ms -> P (RChain ms)) ->
  forall m, P m.
Proof.
  intros Hd Hb Hc. fix IH 1. intros [a| |ms]; [apply Hd|apply Hb|].
  apply Hc. induction ms as [|m ms IHms]; constructor; [apply IH|exact IHms].
Qed.

Fixpoint maddrs (m : mref) : list addr :=
  match m with
  | RDict a => [a]
  | RBuiltin => []
  | RChain ms =>
      (fix go (l : list mref) : list addr :=
         match l with [] => [] | m' :: l' => maddrs m' ++ go l' end) ms
  end.

Lemma maddrs_chain ms : maddrs (RChain ms) = flat_map maddrs ms.
Proof. induction ms as [|m ms IH]; simpl; auto; simpl in IH; rewrite IH; reflexivity. Qed.

Lemma mget_chain (s : store) ms k :
  mget s (RChain ms) k = first_some (map (fun m => mget s m k) ms).
Proof.
  induction ms as [|m ms IH]; simpl; auto; simpl in IH;
  destruct (mget s m k); auto.
Qed.

Lemma mlen_chain (s : store) ms :
  mlen s (RChain ms) = list_sum (map (mlen s) ms).
Proof. induction ms as [|m ms IH]; simpl; auto. Qed.

(** Lookup depends only on the dicts a mapping refers to. *)
Lemma mget_frame (s s' : store) k : forall m,
  (forall a, In a (maddrs m) -> read s' a = read s a) -> mget s' m k = mget s m k.
Proof.
  induction m as [a| |ms IH] using mref_ind'; intro H.
  - simpl. rewrite H; simpl; auto.
  - reflexivity.
  - rewrite !mget_chain. f_equal. rewrite maddrs_chain in H.
    induction IH as [|m ms Hm _ IHms]; simpl; auto.
    simpl in H. f_equal.
    + apply Hm. intros a Ha. apply H. apply in_or_app; auto.
    + apply IHms. intros a Ha. apply H. apply in_or_app; auto.
Qed.

(** A falsy (length 0) mapping has no key. *)
Lemma mlen_zero_none (s : store) k : forall m, mlen s m = 0 -> mget s m k = None.
Proof.
  induction m as [a| |ms IH] using mref_ind'; intro H.
  - simpl in *. destruct (read s a); simpl in *; [reflexivity|discriminate].
  - simpl in H. discriminate.
  - rewrite mget_chain. rewrite mlen_chain in H.
    induction IH as [|m ms Hm _ IHms]; simpl in *; auto.
    rewrite Hm by lia. apply IHms. lia.
Qed.

(** ReadOnlyChainMap.__getitem__ is "the first mapping that has the key". *)
Lemma cm_getitem_first (s : store) (c : chain) k :
  cm_getitem s c k = first_some (map (fun m => mget s m k) c).
Proof. apply mget_chain. Qed.

Lemma cm_get_default (s : store) (c : chain) k dflt :
  cm_get s c k dflt = match cm_getitem s c k with Some v => Some v | None => dflt end.
Proof. reflexivity. Qed.

Lemma cm_pop_push (c : chain) m : cm_pop (cm_push c m) = Ok (m, c).
Proof. reflexivity. Qed.

Lemma cm_size_push (c : chain) m : cm_size (cm_push c m) = S (cm_size c).
Proof. reflexivity. Qed.

(** * The invariant relating a context to its eight layers *)

Definition glookup (w : world) (k : str) : option value :=
  first_some [assoc k (w_args w); assoc k (w_matter w); assoc k (w_tg w); assoc k (w_eg w)].

Definition merged (eg tg : dict) : dict :=
  match tg with [] => eg | _ :: _ => dict_merge eg tg end.

Definition glookup_m (w : world) (k : str) : option value :=
  first_some [assoc k (w_args w); assoc k (w_matter w); assoc k (merged (w_eg w) (w_tg w))].

Definition spec_lookup_g (gl : str -> option value) (a : astate) (k : str) : option value :=
  first_some (map (assoc k) (a_blocks a) ++
              [assoc k (a_locals a); gl k; builtin_get k; assoc k (a_counters a)]).

Lemma spec_lookup_flat w a k : spec_lookup w a k = spec_lookup_g (glookup w) a k.
Proof.
  unfold spec_lookup, spec_lookup_g, glookup. rewrite !first_some_app.
  destruct (first_some (map (assoc k) (a_blocks a))); auto. simpl.
  destruct (assoc k (a_locals a)); auto. destruct (assoc k (w_args w)); auto.
  destruct (assoc k (w_matter w)); auto. destruct (assoc k (w_tg w)); auto.
  destruct (assoc k (w_eg w)); auto.
Qed.

(** [Rg w gl st a]: [st] is a render context over the caller's mappings [w];
    its scope chain is (block scopes) ++ [locals; globals; builtin; counters];
    block scopes, locals and counters hold the contents [a]; looking a name up
    in [self.globals] gives [gl]; the caller's four mappings sit unchanged at
    the bottom of the store and every dict the context writes to (locals,
    counters) or has allocated (block scopes) is a different object from them
    and from every dict reachable through [self.globals]. *)
Definition Rg (w : world) (gl : str -> option value) (st : state) (a : astate) : Prop :=
  exists bl,
    scope st = map RDict bl ++ [RDict (locals_a st); globals_r st; RBuiltin; RDict (counters_a st)]
    /\ map (read (store_of st)) bl = a_blocks a
    /\ read (store_of st) (locals_a st) = a_locals a
    /\ read (store_of st) (counters_a st) = a_counters a
    /\ firstn n_caller (store_of st) = caller_store w
    /\ (forall k, mget (store_of st) (globals_r st) k = gl k)
    /\ (forall x, In x (maddrs (globals_r st)) -> x < locals_a st)
    /\ n_caller <= locals_a st
    /\ locals_a st < counters_a st
    /\ counters_a st < length (store_of st)
    /\ Forall (fun b => counters_a st < b /\ b < length (store_of st)) bl
    /\ (forall k, mget (store_of st) (root_r st) k = glookup_m w k)
    /\ (forall x, In x (maddrs (root_r st)) -> x < locals_a st).

Lemma Rg_lookup w gl st a k : Rg w gl st a -> st_lookup st k = spec_lookup_g gl a k.
Proof.
  intros (bl & Hsc & Hb & Hl & Hc & _ & Hg & _).
  unfold st_lookup. rewrite cm_getitem_first, Hsc, map_app, map_map. simpl.
  unfold spec_lookup_g. rewrite <- Hb, map_map, <- Hl, <- Hc, Hg. reflexivity.
Qed.

Lemma Rg_locals w gl st a : Rg w gl st a -> read (store_of st) (locals_a st) = a_locals a.
Proof. intros (bl & _ & _ & Hl & _). exact Hl. Qed.

Lemma Rg_counters w gl st a : Rg w gl st a -> read (store_of st) (counters_a st) = a_counters a.
Proof. intros (bl & _ & _ & _ & Hc & _). exact Hc. Qed.

Lemma Rg_caller w gl st a : Rg w gl st a -> firstn n_caller (store_of st) = caller_store w.
Proof. intros (bl & _ & _ & _ & _ & Hf & _). exact Hf. Qed.

Lemma Rg_size w gl st a : Rg w gl st a -> cm_size (scope st) = length (a_blocks a) + 4.
Proof.
  intros (bl & Hsc & Hb & _). unfold cm_size. rewrite Hsc, app_length, <- Hb, !map_length.
  reflexivity.
Qed.

Lemma Rg_ext w gl gl' st a : (forall k, gl k = gl' k) -> Rg w gl st a -> Rg w gl' st a.
Proof.
  intros E (bl & Hsc & Hb & Hl & Hc & Hf & Hg & Hrest). exists bl.
  repeat (split; [assumption|]). split; [|exact Hrest].
  intro k. rewrite Hg. apply E.
Qed.

Lemma Rg_write_locals w gl st a d : Rg w gl st a ->
  Rg w gl (with_store st (write (store_of st) (locals_a st) d))
     {| a_blocks := a_blocks a; a_locals := d; a_counters := a_counters a |}.
Proof.
  intros (bl & Hsc & Hb & Hl & Hc & Hf & Hg & Hm & H4 & Hlc & Hcl & Hbl & Hrl & Hrm).
  pose proof Hbl as Hbl'. rewrite Forall_forall in Hbl'.
  exists bl. unfold with_store. cbn [store_of scope locals_a counters_a globals_r a_blocks a_locals a_counters]. rewrite length_write.
  split; [exact Hsc|]. split.
  { rewrite <- Hb. apply map_ext_in. intros b Hin. apply read_write_other.
    specialize (Hbl' b Hin). lia. }
  split; [apply read_write_same; lia|].
  split; [rewrite read_write_other by lia; exact Hc|].
  split; [rewrite firstn_write_ge by exact H4; exact Hf|].
  split.
  { intro k. rewrite <- Hg. apply mget_frame. intros x Hx. apply read_write_other.
    specialize (Hm x Hx). lia. }
  split; [exact Hm|]. split; [exact H4|]. split; [exact Hlc|]. split; [exact Hcl|]. split; [exact Hbl|].
  split; [|exact Hrm].
  intro k. rewrite <- Hrl. apply mget_frame. intros x Hx. apply read_write_other.
  specialize (Hrm x Hx). lia.
Qed.

Lemma Rg_write_counters w gl st a d : Rg w gl st a ->
  Rg w gl (with_store st (write (store_of st) (counters_a st) d))
     {| a_blocks := a_blocks a; a_locals := a_locals a; a_counters := d |}.
Proof.
  intros (bl & Hsc & Hb & Hl & Hc & Hf & Hg & Hm & H4 & Hlc & Hcl & Hbl & Hrl & Hrm).
  pose proof Hbl as Hbl'. rewrite Forall_forall in Hbl'.
  exists bl. unfold with_store. cbn [store_of scope locals_a counters_a globals_r a_blocks a_locals a_counters]. rewrite length_write.
  split; [exact Hsc|]. split.
  { rewrite <- Hb. apply map_ext_in. intros b Hin. apply read_write_other.
    specialize (Hbl' b Hin). lia. }
  split; [rewrite read_write_other by lia; exact Hl|].
  split; [apply read_write_same; lia|].
  split; [rewrite firstn_write_ge by (unfold n_caller in *; lia); exact Hf|].
  split.
  { intro k. rewrite <- Hg. apply mget_frame. intros x Hx. apply read_write_other.
    specialize (Hm x Hx). lia. }
  split; [exact Hm|]. split; [exact H4|]. split; [exact Hlc|]. split; [exact Hcl|]. split; [exact Hbl|].
  split; [|exact Hrm].
  intro k. rewrite <- Hrl. apply mget_frame. intros x Hx. apply read_write_other.
  specialize (Hrm x Hx). lia.
Qed.

Lemma st_push_eq (st : state) ns :
  st_push st ns =
  {| store_of := store_of st ++ [ns]; scope := RDict (length (store_of st)) :: scope st;
     locals_a := locals_a st; counters_a := counters_a st; globals_r := globals_r st;
     root_r := root_r st |}.
Proof. reflexivity. Qed.

Lemma Rg_push w gl st a ns : Rg w gl st a ->
  Rg w gl (st_push st ns)
     {| a_blocks := ns :: a_blocks a; a_locals := a_locals a; a_counters := a_counters a |}.
Proof.
  intros (bl & Hsc & Hb & Hl & Hc & Hf & Hg & Hm & H4 & Hlc & Hcl & Hbl & Hrl & Hrm).
  pose proof Hbl as Hbl'. rewrite Forall_forall in Hbl'.
  rewrite st_push_eq. exists (length (store_of st) :: bl).
  cbn [store_of scope locals_a counters_a globals_r map a_blocks a_locals a_counters]. rewrite app_length. cbn [length].
  split; [rewrite Hsc; reflexivity|]. split.
  { rewrite read_app_new. f_equal. rewrite <- Hb. apply map_ext_in. intros b Hin.
    apply read_app_lt. specialize (Hbl' b Hin). lia. }
  split; [rewrite read_app_lt by lia; exact Hl|].
  split; [rewrite read_app_lt by lia; exact Hc|].
  split; [rewrite firstn_app_le by (unfold n_caller in *; lia); exact Hf|].
  split.
  { intro k. rewrite <- Hg. apply mget_frame. intros x Hx. apply read_app_lt.
    specialize (Hm x Hx). lia. }
  split; [exact Hm|]. split; [exact H4|]. split; [exact Hlc|]. split; [lia|].
  split; [constructor; [lia|]; eapply Forall_impl; [|exact Hbl]; simpl; intros b Hb0; lia|].
  split; [|exact Hrm].
  intro k. rewrite <- Hrl. apply mget_frame. intros x Hx. apply read_app_lt.
  specialize (Hrm x Hx). lia.
Qed.

Lemma Rg_pop w gl st a ns bs : Rg w gl st a -> a_blocks a = ns :: bs ->
  exists m c', cm_pop (scope st) = Ok (m, c')
    /\ Rg w gl (with_scope st c')
          {| a_blocks := bs; a_locals := a_locals a; a_counters := a_counters a |}.
Proof.
  intros (bl & Hsc & Hb & Hl & Hc & Hf & Hg & Hm & H4 & Hlc & Hcl & Hbl & Hrl & Hrm) Ha.
  destruct bl as [|b bl]; [rewrite Ha in Hb; discriminate|].
  rewrite Hsc. simpl. eexists. eexists. split; [reflexivity|].
  exists bl. simpl. rewrite Ha in Hb. simpl in Hb. inversion Hb; subst.
  split; [reflexivity|]. split; [reflexivity|].
  repeat (split; [assumption|]). split; [inversion Hbl; assumption|]. split; assumption.
Qed.

(** * Unfolding [exec] over a block *)

Lemma op_ind' (P : op -> Prop) :
  (forall k, P (Lookup k)) -> (forall k v, P (Assign k v)) ->
  (forall k, P (Incr k)) -> (forall k, P (Decr k)) ->
  (forall ns, P (Push ns)) -> P Pop ->
  (forall ns body, Forall P body -> P (Extend ns body)) ->
  forall o, P o.
Proof.
  intros H1 H2 H3 H4 H5 H6 H7. fix IH 1.
  intros [k|k v|k|k|ns| |ns body];
    [apply H1|apply H2|apply H3|apply H4|apply H5|apply H6|].
  apply H7. induction body as [|o body IHb]; constructor; [apply IH|exact IHb].
Qed.

Lemma exec_Extend lim ns body (st : state) :
  exec lim (Extend ns body) st =
  if Nat.ltb lim (cm_size (scope st)) then (st, [], LErr ContextDepthError None)
  else
    let '(st2, tr, r) := exec_list lim body (st_push st ns) in
    match cm_pop (scope st2) with
    | Ok (_, c') => (with_scope st2 c', tr, r)
    | _ => (st2, tr, PyExc IndexError)
    end.
Proof.
  simpl. destruct (Nat.ltb lim (cm_size (scope st))); [reflexivity|].
  match goal with
  | |- context [?f body (st_push st ns)] =>
      assert (E : forall l s0, f l s0 = exec_list lim l s0)
  end.
  { induction l as [|o l IHl]; intro s0; simpl; [reflexivity|].
    destruct (exec lim o s0) as [[s1 t1] r1]. destruct r1; try reflexivity.
    rewrite IHl. reflexivity. }
  rewrite E. reflexivity.
Qed.

Lemma spec_exec_Extend lim w ns body (a : astate) :
  spec_exec lim w (Extend ns body) a =
  if Nat.ltb lim (length (a_blocks a) + 4) then (a, [], LErr ContextDepthError None)
  else
    let '(a2, tr, r) :=
      spec_exec_list lim w body
        {| a_blocks := ns :: a_blocks a; a_locals := a_locals a; a_counters := a_counters a |} in
    ({| a_blocks := tl (a_blocks a2); a_locals := a_locals a2; a_counters := a_counters a2 |}, tr, r).
Proof.
  simpl. destruct (Nat.ltb lim (length (a_blocks a) + 4)); [reflexivity|].
  match goal with
  | |- context [?f body {| a_blocks := ns :: a_blocks a; a_locals := a_locals a; a_counters := a_counters a |}] =>
      assert (E : forall l s0, f l s0 = spec_exec_list lim w l s0)
  end.
  { induction l as [|o l IHl]; intro s0; simpl; [reflexivity|].
    destruct (spec_exec lim w o s0) as [[s1 t1] r1]. destruct r1; try reflexivity.
    rewrite IHl. reflexivity. }
  rewrite E. reflexivity.
Qed.

Lemma scoped_Extend ns (body : list op) : scoped (Extend ns body) = forallb scoped body.
Proof. induction body as [|o body IH]; simpl; auto; simpl in IH; rewrite IH; reflexivity. Qed.

Lemma writes_Extend k ns (body : list op) : writes k (Extend ns body) = existsb (writes k) body.
Proof. induction body as [|o body IH]; simpl; auto; simpl in IH; rewrite IH; reflexivity. Qed.

(** * Every operation a template can perform refines the eight-layer specification *)

Definition sim_goal (w : world) (a : astate)
  (x : state * list obs * res unit) (y : astate * list obs * res unit) : Prop :=
  trace_of x = trace_of y /\ status_of x = status_of y
  /\ Rg w (glookup w) (state_of x) (state_of y)
  /\ a_blocks (state_of y) = a_blocks a.

Ltac prj := unfold sim_goal, state_of, trace_of, status_of in *; cbn [fst snd] in *.

Definition sim_op lim w (o : op) : Prop :=
  scoped o = true -> forall st a, Rg w (glookup w) st a ->
  sim_goal w a (exec lim o st) (spec_exec lim w o a).

Lemma exec_list_sim lim w body :
  Forall (sim_op lim w) body -> forallb scoped body = true ->
  forall st a, Rg w (glookup w) st a ->
  sim_goal w a (exec_list lim body st) (spec_exec_list lim w body a).
Proof.
  induction 1 as [|o body Ho _ IH]; intros Hs st a HR.
  - simpl. prj. auto.
  - simpl in Hs. apply andb_true_iff in Hs as [Hso Hsb].
    specialize (Ho Hso st a HR). simpl.
    destruct (exec lim o st) as [[s1 t1] r1].
    destruct (spec_exec lim w o a) as [[a1 t1'] r1'].
    prj. destruct Ho as (Et & Er & HR1 & Hb1). subst t1' r1'.
    destruct r1 as [[]| | |]; try (prj; auto; fail).
    specialize (IH Hsb s1 a1 HR1).
    destruct (exec_list lim body s1) as [[s2 t2] r2].
    destruct (spec_exec_list lim w body a1) as [[a2 t2'] r2'].
    prj. destruct IH as (Et & Er & HR2 & Hb2). subst.
    repeat split; auto. congruence.
Qed.

Lemma exec_sim lim w : forall o, sim_op lim w o.
Proof.
  induction o as [k|k v|k|k|ns| |ns body IH] using op_ind'; intros Hs st a HR;
    try discriminate Hs.
  - simpl. prj. rewrite (Rg_lookup _ _ _ _ k HR), spec_lookup_flat. auto.
  - simpl. prj. repeat split; auto.
    unfold st_assign. rewrite (Rg_locals _ _ _ _ HR). apply Rg_write_locals. exact HR.
  - simpl. prj. rewrite (Rg_counters _ _ _ _ HR). repeat split; auto.
    apply Rg_write_counters. exact HR.
  - simpl. prj. rewrite (Rg_counters _ _ _ _ HR). repeat split; auto.
    apply Rg_write_counters. exact HR.
  - rewrite exec_Extend, spec_exec_Extend, (Rg_size _ _ _ _ HR).
    destruct (Nat.ltb lim (length (a_blocks a) + 4)); [prj; auto|].
    rewrite scoped_Extend in Hs.
    pose proof (exec_list_sim lim w body IH Hs _ _ (Rg_push _ _ _ _ ns HR)) as HL.
    destruct (exec_list lim body (st_push st ns)) as [[st2 tr] r].
    destruct (spec_exec_list lim w body _) as [[a2 tr'] r'].
    prj. destruct HL as (Et & Er & HR2 & Hb2). subst tr' r'.
    destruct (Rg_pop _ _ _ _ _ _ HR2 Hb2) as (m & c' & Hp & HR3).
    rewrite Hp. prj. rewrite Hb2. cbn [tl]. auto.
Qed.

(** * The construction establishes the invariant *)

Definition ext (s0 s : store) : Prop := exists t, s = s0 ++ t.

Lemma ext_refl s : ext s s.
Proof. exists []. symmetry. apply app_nil_r. Qed.

Lemma ext_trans s0 s1 s2 : ext s0 s1 -> ext s1 s2 -> ext s0 s2.
Proof. intros [t1 ->] [t2 ->]. exists (t1 ++ t2). symmetry. apply app_assoc. Qed.

Lemma ext_app s0 s t : ext s0 s -> ext s0 (s ++ t).
Proof. intro H. eapply ext_trans; [exact H|]. exists t. reflexivity. Qed.

Lemma ext_len s0 s : ext s0 s -> length s0 <= length s.
Proof. intros [t ->]. rewrite app_length. lia. Qed.

Lemma ext_read s0 s a : ext s0 s -> a < length s0 -> read s a = read s0 a.
Proof. intros [t ->] H. apply read_app_lt. exact H. Qed.

Lemma ext_firstn s0 s : ext s0 s -> firstn (length s0) s = s0.
Proof. intros [t ->]. rewrite firstn_app_le by lia. apply firstn_all. Qed.

Lemma or_empty_spec (s : store) a s' a' :
  a < length s -> or_empty s a = (s', a') ->
  ext s s' /\ a' < length s' /\ read s' a' = read s a.
Proof.
  unfold or_empty, alloc. intros Ha. destruct (read s a) eqn:E; intro H; inversion H; subst.
  - split; [exists [[]]; reflexivity|]. rewrite app_length. simpl.
    split; [lia|]. apply read_app_new.
  - split; [apply ext_refl|]. split; [exact Ha|exact E].
Qed.

Lemma env_make_globals_eq (s : store) eg tg :
  env_make_globals s eg tg = (s ++ [merged (read s eg) (read s tg)], length s).
Proof. unfold env_make_globals, merged, alloc. destruct (read s tg); reflexivity. Qed.

Lemma assoc_merged (eg tg : dict) k : NoDup (keys tg) ->
  assoc k (merged eg tg) = match assoc k tg with Some v => Some v | None => assoc k eg end.
Proof.
  intro ND. unfold merged. destruct tg as [|p tg]; [reflexivity|]. apply assoc_merge. exact ND.
Qed.

Definition empty_astate : astate := {| a_blocks := []; a_locals := []; a_counters := [] |}.

Ltac len := rewrite ?app_length; cbn [length]; unfold n_caller in *; lia.

Lemma ctx_init_Rg w gl (s : store) g root :
  firstn n_caller s = caller_store w ->
  (forall x, In x (maddrs g) -> x < length s) ->
  (forall k, mget s g k = gl k) ->
  match root with
  | Some r => (forall x, In x (maddrs r) -> x < length s) /\ (forall k, mget s r k = glookup_m w k)
  | None => forall k, gl k = glookup_m w k
  end ->
  Rg w gl (ctx_init s g root) empty_astate.
Proof.
  intros Hf Hm Hg Hroot.
  assert (H4 : n_caller <= length s) by (eapply firstn_len_ge; [exact Hf|reflexivity]).
  unfold ctx_init, alloc. exists (@nil addr).
  cbn [store_of scope locals_a counters_a globals_r root_r a_blocks a_locals a_counters map app empty_astate].
  assert (G0 : forall k, mget ((s ++ [[]]) ++ [[]]) g k = gl k).
  { intro k. rewrite <- Hg. apply mget_frame. intros x Hx. specialize (Hm x Hx).
    rewrite !read_app_lt by len. reflexivity. }
  split; [reflexivity|]. split; [reflexivity|].
  split. { rewrite read_app_lt by len. apply read_app_new. }
  split. { apply read_app_new. }
  split. { rewrite !firstn_app_le by len. exact Hf. }
  split; [exact G0|].
  split; [exact Hm|].
  split; [len|]. split; [len|]. split; [len|]. split; [constructor|].
  destruct root as [r|].
  - destruct Hroot as [Hr1 Hr2]. split.
    + intro k. rewrite <- Hr2. apply mget_frame. intros x Hx. specialize (Hr1 x Hx).
      rewrite !read_app_lt by len. reflexivity.
    + intros x Hx. specialize (Hr1 x Hx). len.
  - split; [intro k; rewrite G0; apply Hroot|]. exact Hm.
Qed.

Lemma glookup_m_eq w k : NoDup (keys (w_tg w)) -> glookup_m w k = glookup w k.
Proof.
  intro ND. unfold glookup_m, glookup. simpl. rewrite (assoc_merged _ _ k ND).
  destruct (assoc k (w_args w)); auto; destruct (assoc k (w_matter w)); auto;
  destruct (assoc k (w_tg w)); auto; destruct (assoc k (w_eg w)); auto.
Qed.

Lemma build_base_Rg_m w : Rg w (glookup_m w) (build_base w) empty_astate.
Proof.
  unfold build_base. set (s0 := caller_store w).
  assert (L0 : length s0 = 4) by reflexivity.
  destruct (or_empty s0 0) as [s1 eg] eqn:E1.
  apply or_empty_spec in E1; [|rewrite L0; lia]. destruct E1 as (X1 & Heg & Req).
  rewrite env_make_globals_eq.
  set (M := merged (read s1 eg) (read s1 1)).
  assert (X2 : ext s0 (s1 ++ [M])) by (apply ext_app; exact X1).
  destruct (or_empty (s1 ++ [M]) (length s1)) as [s3 gd] eqn:E3.
  apply or_empty_spec in E3; [|rewrite app_length; simpl; lia].
  destruct E3 as (X3 & Hgd & Rgd). rewrite read_app_new in Rgd.
  assert (X3' : ext s0 s3) by (eapply ext_trans; eassumption).
  destruct (or_empty s3 2) as [s4 ov] eqn:E4.
  apply or_empty_spec in E4; [|pose proof (ext_len _ _ X3'); lia].
  destruct E4 as (X4 & Hov & Rov).
  assert (X4' : ext s0 s4) by (eapply ext_trans; eassumption).
  unfold template_make_globals, alloc.
  apply ctx_init_Rg.
  - change n_caller with (length s0). apply ext_firstn. apply ext_app. exact X4'.
  - rewrite app_length. simpl. intros x [<-|[<-|[<-|[]]]]; try lia.
    pose proof (ext_len _ _ X4). lia.
  - intro k. unfold glookup_m. simpl.
    rewrite read_app_new.
    rewrite (read_app_lt s4 _ ov) by exact Hov.
    rewrite (read_app_lt s4 _ gd) by (pose proof (ext_len _ _ X4); lia).
    rewrite Rov. rewrite (ext_read _ _ gd X4 Hgd). rewrite Rgd.
    rewrite (ext_read s0 s4 3 X4') by (rewrite L0; lia).
    rewrite (ext_read s0 s3 2 X3') by (rewrite L0; lia).
    unfold M. rewrite Req. rewrite (ext_read s0 s1 1 X1) by (rewrite L0; lia).
    unfold s0, caller_store, read. simpl.
    destruct (assoc k (w_args w)); auto; destruct (assoc k (w_matter w)); auto;
    destruct (assoc k (merged (w_eg w) (w_tg w))); auto.
  - intro k. reflexivity.
Qed.

Lemma build_base_Rg w : NoDup (keys (w_tg w)) -> Rg w (glookup w) (build_base w) empty_astate.
Proof.
  intro ND. eapply Rg_ext; [|apply build_base_Rg_m]. intro k. apply glookup_m_eq. exact ND.
Qed.

Definition astate_of (L : layers) : astate :=
  {| a_blocks := l_blocks L; a_locals := l_locals L; a_counters := l_counters L |}.

Lemma Rg_pushes w gl bs : forall st a, Rg w gl st a ->
  Rg w gl (fold_right (fun ns st => st_push st ns) st bs)
     {| a_blocks := bs ++ a_blocks a; a_locals := a_locals a; a_counters := a_counters a |}.
Proof.
  induction bs as [|b bs IH]; intros st a H; simpl.
  - destruct a; exact H.
  - exact (Rg_push w gl _ _ b (IH st a H)).
Qed.

Lemma build_Rg_m L : Rg (l_world L) (glookup_m (l_world L)) (build L) (astate_of L).
Proof.
  unfold build.
  pose proof (Rg_pushes _ _ (l_blocks L) _ _
    (Rg_write_counters _ _ _ _ (l_counters L)
      (Rg_write_locals _ _ _ _ (l_locals L) (build_base_Rg_m (l_world L))))) as H0.
  cbn [a_blocks a_locals a_counters empty_astate with_store store_of locals_a counters_a] in H0.
  rewrite app_nil_r in H0. exact H0.
Qed.

Lemma build_Rg L : NoDup (keys (w_tg (l_world L))) ->
  Rg (l_world L) (glookup (l_world L)) (build L) (astate_of L).
Proof.
  intro ND. eapply Rg_ext; [|apply build_Rg_m]. intro k. apply glookup_m_eq. exact ND.
Qed.

(** * Theorems *)

(** Precedence, for all contents of all eight layers. *)
Theorem lookup_precedence (L : layers) k :
  NoDup (keys (w_tg (l_world L))) ->
  st_lookup (build L) k =
  first_some (map (assoc k) (l_blocks L) ++
              [assoc k (l_locals L);
               assoc k (w_args (l_world L));
               assoc k (w_matter (l_world L));
               assoc k (w_tg (l_world L));
               assoc k (w_eg (l_world L));
               builtin_get k;
               assoc k (l_counters L)]).
Proof.
  intro ND. rewrite (Rg_lookup _ _ _ _ k (build_Rg L ND)), <- spec_lookup_flat. reflexivity.
Qed.

(** Every lookup any template-reachable program performs, at any nesting
    depth, after any assignments and counter updates, successful or failing,
    is the lookup of the eight-layer specification; and the caller's four
    mappings are what they were. *)
Theorem render_refines_spec lim (w : world) prog :
  NoDup (keys (w_tg w)) -> forallb scoped prog = true ->
  trace_of (render lim w prog) = trace_of (spec_render lim w prog)
  /\ status_of (render lim w prog) = status_of (spec_render lim w prog)
  /\ firstn n_caller (store_of (state_of (render lim w prog))) = caller_store w.
Proof.
  intros ND Hs. unfold render, spec_render.
  assert (Hs' : scoped (Extend [] prog) = true) by (rewrite scoped_Extend; exact Hs).
  pose proof (exec_sim lim w _ Hs' _ _ (build_base_Rg w ND)) as H.
  unfold sim_goal, empty_astate in H. destruct H as (Ht & Hr & HR & _).
  split; [exact Ht|]. split; [exact Hr|]. eapply Rg_caller. exact HR.
Qed.

(** ** Caller data: no operation at all writes to it *)

Definition J (w : world) (st : state) : Prop :=
  firstn n_caller (store_of st) = caller_store w
  /\ n_caller <= locals_a st /\ n_caller <= counters_a st.

Lemma J_scope w st c : J w st -> J w (with_scope st c).
Proof. intro H. exact H. Qed.

Lemma J_write w st a d : J w st -> n_caller <= a -> J w (with_store st (write (store_of st) a d)).
Proof.
  intros (Hf & Hl & Hc) Ha. unfold J, with_store. cbn [store_of locals_a counters_a].
  rewrite firstn_write_ge by exact Ha. auto.
Qed.

Lemma J_push w st ns : J w st -> J w (st_push st ns).
Proof.
  intros (Hf & Hl & Hc). rewrite st_push_eq. unfold J. cbn [store_of locals_a counters_a].
  rewrite firstn_app_le; auto. eapply firstn_len_ge; [exact Hf|reflexivity].
Qed.

Definition J_op lim w (o : op) : Prop := forall st, J w st -> J w (state_of (exec lim o st)).

Lemma exec_list_J lim w body : Forall (J_op lim w) body ->
  forall st, J w st -> J w (state_of (exec_list lim body st)).
Proof.
  induction 1 as [|o body Ho _ IH]; intros st HJ; simpl; [exact HJ|].
  specialize (Ho st HJ). destruct (exec lim o st) as [[s1 t1] r1]. prj.
  destruct r1 as [[]| | |]; try exact Ho.
  specialize (IH s1 Ho). destruct (exec_list lim body s1) as [[s2 t2] r2]. exact IH.
Qed.

Lemma exec_J lim w : forall o, J_op lim w o.
Proof.
  induction o as [k|k v|k|k|ns| |ns body IH] using op_ind'; intros st HJ.
  - exact HJ.
  - simpl. prj. apply J_write; [exact HJ|apply HJ].
  - simpl. prj. apply J_write; [exact HJ|apply HJ].
  - simpl. prj. apply J_write; [exact HJ|apply HJ].
  - simpl. prj. apply J_push. exact HJ.
  - simpl. destruct (cm_pop (scope st)) as [[m c']| | |]; prj; exact HJ.
  - rewrite exec_Extend. destruct (Nat.ltb lim (cm_size (scope st))); [exact HJ|].
    pose proof (exec_list_J lim w body IH _ (J_push _ _ ns HJ)) as H2.
    destruct (exec_list lim body (st_push st ns)) as [[st2 tr] r]. prj.
    destruct (cm_pop (scope st2)) as [[m c']| | |]; exact H2.
Qed.

Lemma build_base_J w : J w (build_base w).
Proof.
  destruct (build_base_Rg_m w) as (bl & _ & _ & _ & _ & Hf & _ & _ & H4 & Hlc & _).
  unfold J. split; [exact Hf|]. split; [exact H4|]. lia.
Qed.

(** For ANY sequence of operations (raw pushes and pops included), run from
    the construction over ANY caller data, completed or aborted by an
    exception: the caller's four mappings are bit-for-bit what they were.
    (This covers the context machinery and the top-level mappings only: values
    are opaque tokens, so what filters and tags do to the inside of a list or
    dict value is outside the model — decided by the tie.) *)
Theorem data_unchanged lim (w : world) prog :
  firstn n_caller (store_of (state_of (exec_list lim prog (build_base w)))) = caller_store w.
Proof.
  apply (exec_list_J lim w prog); [|apply build_base_J].
  apply Forall_forall. intros o _. apply exec_J.
Qed.

Theorem data_unchanged_render lim (w : world) prog :
  firstn n_caller (store_of (state_of (render lim w prog))) = caller_store w.
Proof. apply (exec_J lim w (Extend [] prog)). apply build_base_J. Qed.

(** ** assign *)

Lemma mget_set_other (s : store) a k v k' : k' <> k -> forall m,
  mget (write s a (dict_set k v (read s a))) m k' = mget s m k'.
Proof.
  intro N. induction m as [a0| |ms IH] using mref_ind'.
  - simpl. destruct (Nat.eq_dec a a0) as [->|Na].
    + destruct (lt_dec a0 (length s)) as [Hlt|Hge].
      * rewrite read_write_same by exact Hlt. apply assoc_dict_set_other. exact N.
      * rewrite write_oob by lia. reflexivity.
    + rewrite read_write_other by exact Na. reflexivity.
  - reflexivity.
  - rewrite !mget_chain. f_equal.
    induction IH as [|m ms Hm _ IHms]; simpl; [reflexivity|]. rewrite Hm, IHms. reflexivity.
Qed.

(** [assign] leaves every mapping object other than [locals] as it was, does
    not touch the chain, and does not change what any OTHER name resolves to —
    in any state whatsoever. *)
Theorem assign_touches_only_locals (st : state) k v :
  let st' := st_assign st k v in
  scope st' = scope st /\ locals_a st' = locals_a st /\ counters_a st' = counters_a st
  /\ globals_r st' = globals_r st
  /\ length (store_of st') = length (store_of st)
  /\ (forall a, a <> locals_a st -> read (store_of st') a = read (store_of st) a)
  /\ (forall k', k' <> k -> st_lookup st' k' = st_lookup st k').
Proof.
  unfold st_assign, with_store. cbn [store_of scope locals_a counters_a globals_r].
  repeat (split; [reflexivity|]).
  split; [apply length_write|]. split.
  - intros a Ha. apply read_write_other. congruence.
  - intros k' N. unfold st_lookup, cm_getitem. cbn [store_of scope].
    apply mget_set_other. exact N.
Qed.

(** What the assigned name itself resolves to afterwards: the new value unless
    a block scope shadows it. *)
Theorem assign_then_lookup (L : layers) k v k' :
  NoDup (keys (w_tg (l_world L))) ->
  st_lookup (st_assign (build L) k v) k' =
  spec_lookup (l_world L)
    {| a_blocks := l_blocks L; a_locals := dict_set k v (l_locals L); a_counters := l_counters L |} k'.
Proof.
  intro ND. pose proof (build_Rg L ND) as HR.
  unfold st_assign. rewrite (Rg_locals _ _ _ _ HR).
  rewrite (Rg_lookup _ _ _ _ k' (Rg_write_locals _ _ _ _ (dict_set k v (a_locals (astate_of L))) HR)).
  rewrite spec_lookup_flat. reflexivity.
Qed.

(** ** make_globals *)

(** [Environment.make_globals] returns a mapping object that did not exist
    before, leaves every existing mapping as it was, and binds template
    globals over environment globals. *)
Theorem make_globals_fresh (s : store) eg tg s' a :
  env_make_globals s eg tg = (s', a) ->
  a = length s /\ length s' = S (length s)
  /\ (forall a', a' < length s -> read s' a' = read s a')
  /\ (NoDup (keys (read s tg)) -> forall k,
        assoc k (read s' a) =
        match assoc k (read s tg) with Some v => Some v | None => assoc k (read s eg) end).
Proof.
  rewrite env_make_globals_eq. intro H. inversion H; subst. clear H.
  split; [reflexivity|]. split; [rewrite app_length; simpl; lia|].
  split; [intros a' Ha; apply read_app_lt; exact Ha|].
  intros ND k. rewrite read_app_new. apply assoc_merged. exact ND.
Qed.

(** [Template.make_globals]: the render arguments are copied into a new dict;
    matter and template globals are referenced, nothing is written. *)
Theorem template_globals_fresh (s : store) gd ov args s' g :
  template_make_globals s gd ov args = (s', g) ->
  g = RChain [RDict (length s); RDict ov; RDict gd]
  /\ read s' (length s) = read s args
  /\ (forall a', a' < length s -> read s' a' = read s a').
Proof.
  unfold template_make_globals, alloc. intro H. inversion H; subst. clear H.
  split; [reflexivity|]. split; [apply read_app_new|].
  intros a' Ha. apply read_app_lt. exact Ha.
Qed.

(** ** push / pop *)

Theorem push_pop_balanced lim (st : state) ns :
  scope (state_of (exec_list lim [Push ns; Pop] st)) = scope st
  /\ status_of (exec_list lim [Push ns; Pop] st) = Ok tt.
Proof. split; reflexivity. Qed.

Definition frame_eq (st st' : state) : Prop :=
  scope st' = scope st /\ locals_a st' = locals_a st
  /\ counters_a st' = counters_a st /\ globals_r st' = globals_r st
  /\ root_r st' = root_r st.

Definition bal_op lim (o : op) : Prop :=
  scoped o = true -> forall st, frame_eq st (state_of (exec lim o st)).

Lemma exec_list_bal lim body : Forall (bal_op lim) body -> forallb scoped body = true ->
  forall st, frame_eq st (state_of (exec_list lim body st)).
Proof.
  induction 1 as [|o body Ho _ IH]; intros Hs st; simpl.
  - prj. repeat split.
  - simpl in Hs. apply andb_true_iff in Hs as [Hso Hsb]. specialize (Ho Hso st).
    destruct (exec lim o st) as [[s1 t1] r1]. prj.
    destruct r1 as [[]| | |]; try exact Ho.
    specialize (IH Hsb s1). destruct (exec_list lim body s1) as [[s2 t2] r2]. prj.
    unfold frame_eq in *. intuition congruence.
Qed.

(** [extend] is balanced whatever happens inside: after a block — completed
    or aborted — the chain is exactly the chain before it. *)
Theorem extend_balanced lim : forall o, scoped o = true ->
  forall st : state, frame_eq st (state_of (exec lim o st)).
Proof.
  induction o as [k|k v|k|k|ns| |ns body IH] using op_ind'; intros Hs st;
    try discriminate Hs; try (simpl; prj; repeat split; fail).
  rewrite exec_Extend. destruct (Nat.ltb lim (cm_size (scope st))); [prj; repeat split|].
  rewrite scoped_Extend in Hs.
  pose proof (exec_list_bal lim body IH Hs (st_push st ns)) as H2.
  destruct (exec_list lim body (st_push st ns)) as [[st2 tr] r]. prj.
  destruct H2 as (H2s & H2l & H2c & H2g & H2r). rewrite st_push_eq in *.
  cbn [scope locals_a counters_a globals_r root_r] in *.
  rewrite H2s. simpl. unfold frame_eq. cbn [scope locals_a counters_a globals_r root_r with_scope].
  auto.
Qed.

(** ** shadowing *)

Definition scope_wf (st : state) : Prop :=
  forall a, In a (maddrs (RChain (scope st))) -> a < length (store_of st).

(** A pushed namespace shadows... *)
Theorem push_shadows (st : state) ns k : scope_wf st ->
  st_lookup (st_push st ns) k =
  match assoc k ns with Some v => Some v | None => st_lookup st k end.
Proof.
  intro W. rewrite st_push_eq. unfold st_lookup, cm_getitem. cbn [store_of scope].
  rewrite (mget_chain _ (RDict _ :: scope st)). cbn [map first_some].
  change (mget (store_of st ++ [ns]) (RDict (length (store_of st))) k)
    with (assoc k (read (store_of st ++ [ns]) (length (store_of st)))).
  rewrite read_app_new.
  destruct (assoc k ns); [reflexivity|]. rewrite <- mget_chain.
  apply mget_frame. intros a Ha. apply read_app_lt. apply W. exact Ha.
Qed.

(** ... and after the pop every name resolves to what it resolved to before. *)
Theorem shadowing_restored_raw lim (st : state) ns k : scope_wf st ->
  st_lookup (state_of (exec_list lim [Push ns; Pop] st)) k = st_lookup st k.
Proof.
  intro W. simpl. prj. rewrite st_push_eq. unfold st_lookup, cm_getitem, with_scope.
  cbn [store_of scope]. apply mget_frame. intros a Ha. apply read_app_lt. apply W. exact Ha.
Qed.

Definition nowrite_op lim w k (o : op) : Prop :=
  writes k o = false -> forall a : astate,
  assoc k (a_locals (state_of (spec_exec lim w o a))) = assoc k (a_locals a)
  /\ assoc k (a_counters (state_of (spec_exec lim w o a))) = assoc k (a_counters a).

Lemma spec_list_nowrite lim w k body : Forall (nowrite_op lim w k) body ->
  existsb (writes k) body = false -> forall a : astate,
  assoc k (a_locals (state_of (spec_exec_list lim w body a))) = assoc k (a_locals a)
  /\ assoc k (a_counters (state_of (spec_exec_list lim w body a))) = assoc k (a_counters a).
Proof.
  induction 1 as [|o body Ho _ IH]; intros Hw a; simpl; [prj; auto|].
  simpl in Hw. apply orb_false_iff in Hw as [Hwo Hwb]. specialize (Ho Hwo a).
  destruct (spec_exec lim w o a) as [[a1 t1] r1]. prj.
  destruct r1 as [[]| | |]; try exact Ho.
  specialize (IH Hwb a1). destruct (spec_exec_list lim w body a1) as [[a2 t2] r2]. prj.
  destruct Ho, IH. split; congruence.
Qed.

Lemma spec_nowrite lim w k : forall o, nowrite_op lim w k o.
Proof.
  induction o as [k0|k0 v|k0|k0|ns| |ns body IH] using op_ind'; intros Hw a;
    try (simpl; prj; auto; fail).
  - simpl in Hw. apply str_eqb_neq in Hw. simpl. prj. split; [|reflexivity].
    apply assoc_dict_set_other. exact Hw.
  - simpl in Hw. apply str_eqb_neq in Hw. simpl. prj. split; [reflexivity|].
    apply assoc_dict_set_other. exact Hw.
  - simpl in Hw. apply str_eqb_neq in Hw. simpl. prj. split; [reflexivity|].
    apply assoc_dict_set_other. exact Hw.
  - rewrite spec_exec_Extend. destruct (Nat.ltb lim (length (a_blocks a) + 4)); [prj; auto|].
    rewrite writes_Extend in Hw.
    pose proof (spec_list_nowrite lim w k body IH Hw
      {| a_blocks := ns :: a_blocks a; a_locals := a_locals a; a_counters := a_counters a |}) as H2.
    destruct (spec_exec_list lim w body _) as [[a2 tr] r]. prj. exact H2.
Qed.

(** A name bound in a block scope — at any depth, around any body that does
    not itself assign / increment / decrement that name, completed or aborted —
    resolves after the block to exactly what it resolved to before, for all
    contents of all layers. *)
Theorem shadowing_restored lim (L : layers) ns body k :
  NoDup (keys (w_tg (l_world L))) ->
  forallb scoped body = true -> existsb (writes k) body = false ->
  st_lookup (state_of (exec lim (Extend ns body) (build L))) k = st_lookup (build L) k.
Proof.
  intros ND Hs Hw. pose proof (build_Rg L ND) as HR.
  assert (Hs' : scoped (Extend ns body) = true) by (rewrite scoped_Extend; exact Hs).
  assert (Hw' : writes k (Extend ns body) = false) by (rewrite writes_Extend; exact Hw).
  pose proof (exec_sim lim _ _ Hs' _ _ HR) as (_ & _ & HR' & Hb).
  pose proof (spec_nowrite lim (l_world L) k _ Hw' (astate_of L)) as (El & Ec).
  rewrite (Rg_lookup _ _ _ _ k HR'), (Rg_lookup _ _ _ _ k HR).
  unfold spec_lookup_g. rewrite Hb, El, Ec. reflexivity.
Qed.

(** ** {% render %}: the copied context *)

(** Inside a [render]ed partial a name resolves to the tag's arguments, then
    the caller's render arguments / matter / globals, then the built-ins; the
    parent's block scopes, locals and counters are not visible. *)
Lemma Rg_copy w gl st a (ns : dict) : Rg w gl st a ->
  Rg w (fun k => first_some [assoc k ns; glookup_m w k]) (ctx_copy st ns) empty_astate.
Proof.
  intros (bl & Hsc & Hb & Hl & Hc & Hf & Hg & Hm & H4 & Hlc & Hcl & Hbl & Hrl & Hrm).
  unfold ctx_copy, alloc. apply ctx_init_Rg.
  - rewrite firstn_app_le by len. exact Hf.
  - rewrite maddrs_chain. cbn [flat_map maddrs]. rewrite app_nil_r. rewrite app_length. simpl.
    intros x [<-|Hx]; [lia|]. specialize (Hrm x Hx). lia.
  - intro k0. rewrite mget_chain. cbn [map first_some].
    change (mget (store_of st ++ [ns]) (RDict (length (store_of st))) k0)
      with (assoc k0 (read (store_of st ++ [ns]) (length (store_of st)))).
    rewrite read_app_new.
    destruct (assoc k0 ns); [reflexivity|]. rewrite <- Hrl.
    erewrite mget_frame; [reflexivity|].
    intros x Hx. apply read_app_lt. specialize (Hrm x Hx). lia.
  - split.
    + intros x Hx. specialize (Hrm x Hx). rewrite app_length. simpl. lia.
    + intro k0. rewrite <- Hrl. apply mget_frame. intros x Hx. apply read_app_lt.
      specialize (Hrm x Hx). lia.
Qed.

Lemma copy_lookup_gen w gl st a ns k : NoDup (keys (w_tg w)) -> Rg w gl st a ->
  st_lookup (ctx_copy st ns) k =
  first_some [assoc k ns;
              assoc k (w_args w); assoc k (w_matter w); assoc k (w_tg w); assoc k (w_eg w);
              builtin_get k].
Proof.
  intros ND HR. rewrite (Rg_lookup _ _ _ _ k (Rg_copy _ _ _ _ ns HR)).
  unfold spec_lookup_g, empty_astate. rewrite (glookup_m_eq w k ND). unfold glookup. simpl.
  destruct (assoc k ns); auto; destruct (assoc k (w_args w)); auto;
  destruct (assoc k (w_matter w)); auto; destruct (assoc k (w_tg w)); auto;
  destruct (assoc k (w_eg w)); auto; destruct (builtin_get k); auto.
Qed.

Theorem copy_lookup (L : layers) ns k :
  NoDup (keys (w_tg (l_world L))) ->
  st_lookup (ctx_copy (build L) ns) k =
  first_some [assoc k ns;
              assoc k (w_args (l_world L)); assoc k (w_matter (l_world L));
              assoc k (w_tg (l_world L)); assoc k (w_eg (l_world L));
              builtin_get k].
Proof. intro ND. eapply copy_lookup_gen; [exact ND|apply (build_Rg L ND)]. Qed.

(** A render inside a render: the outer tag's arguments [ns1] and the outer
    partial's block scope [b] are invisible too — every copy chains the ROOT
    context's globals (context.py:78-83, the fix 0967af6). *)
Theorem copy_copy_lookup (L : layers) ns1 b ns2 k :
  NoDup (keys (w_tg (l_world L))) ->
  st_lookup (ctx_copy (st_push (ctx_copy (build L) ns1) b) ns2) k =
  first_some [assoc k ns2;
              assoc k (w_args (l_world L)); assoc k (w_matter (l_world L));
              assoc k (w_tg (l_world L)); assoc k (w_eg (l_world L));
              builtin_get k].
Proof.
  intro ND. eapply copy_lookup_gen; [exact ND|].
  exact (Rg_push _ _ _ _ b (Rg_copy _ _ _ _ ns1 (build_Rg L ND))).
Qed.

(** Any depth of isolation: a third render below two others (each partial may
    have pushed a block scope) still sees only its own tag's arguments, the
    page's render arguments / matter / globals and the built-ins. *)
Theorem copy3_lookup (L : layers) ns1 b1 ns2 b2 ns3 k :
  NoDup (keys (w_tg (l_world L))) ->
  st_lookup (ctx_copy (st_push (ctx_copy (st_push (ctx_copy (build L) ns1) b1) ns2) b2) ns3) k =
  first_some [assoc k ns3;
              assoc k (w_args (l_world L)); assoc k (w_matter (l_world L));
              assoc k (w_tg (l_world L)); assoc k (w_eg (l_world L));
              builtin_get k].
Proof.
  intro ND. eapply copy_lookup_gen; [exact ND|].
  exact (Rg_push _ _ _ _ b2 (Rg_copy _ _ _ _ ns2 (Rg_push _ _ _ _ b1 (Rg_copy _ _ _ _ ns1 (build_Rg L ND))))).
Qed.

Lemma Rg_scope_wf w gl st a : Rg w gl st a -> scope_wf st.
Proof.
  intros (bl & Hsc & _ & _ & _ & _ & _ & Hm & _ & Hlc & Hcl & Hbl & _) x Hx.
  rewrite maddrs_chain, Hsc, flat_map_app in Hx. apply in_app_or in Hx as [Hx|Hx].
  - rewrite Forall_forall in Hbl. apply in_flat_map in Hx as (m & Hm1 & Hm2).
    apply in_map_iff in Hm1 as (b & <- & Hb). simpl in Hm2. destruct Hm2 as [<-|[]].
    apply Hbl. exact Hb.
  - cbn [flat_map maddrs app] in Hx.
    destruct Hx as [<-|Hx]; [lia|]. apply in_app_or in Hx as [Hx|Hx].
    + specialize (Hm x Hx). lia.
    + simpl in Hx. destruct Hx as [<-|[]]. lia.
Qed.

(** Every context the construction yields is well formed (no dangling
    reference), so [push_shadows] / [shadowing_restored_raw] apply to it. *)
Theorem build_scope_wf (L : layers) : scope_wf (build L).
Proof. eapply Rg_scope_wf. apply build_Rg_m. Qed.

(** ** Presence, not truthiness, decides *)

Lemma assoc_in_keys (k : str) (d : dict) : In k (keys d) -> exists v, assoc k d = Some v.
Proof.
  induction d as [|[k' v'] d IH]; simpl; [intros []|]. intros [E|H].
  - subst. rewrite str_eqb_refl. eauto.
  - destruct (str_eqb k k'); eauto.
Qed.

Lemma assoc_some_in_keys (k : str) (d : dict) v : assoc k d = Some v -> In k (keys d).
Proof.
  induction d as [|[k' v'] d IH]; simpl; [discriminate|].
  destruct (str_eqb k k') eqn:E; [apply str_eqb_eq in E; auto|auto].
Qed.

(** [BuiltIn] as a two-entry mapping. *)
Definition builtin_dict : dict := [(s_now, Now); (s_today, Today)].

Lemma assoc_builtin_dict k : assoc k builtin_dict = builtin_get k.
Proof. unfold builtin_dict, builtin_get. simpl. destruct (str_eqb k s_now), (str_eqb k s_today); reflexivity. Qed.

(** The eight layers in lookup order, as mappings. *)
Definition layer_list (L : layers) : list dict :=
  l_blocks L ++ [l_locals L; w_args (l_world L); w_matter (l_world L); w_tg (l_world L);
                 w_eg (l_world L); builtin_dict; l_counters L].

Lemma lookup_layer_list (L : layers) k : NoDup (keys (w_tg (l_world L))) ->
  st_lookup (build L) k = first_some (map (assoc k) (layer_list L)).
Proof.
  intro ND. rewrite (lookup_precedence L k ND). unfold layer_list. rewrite map_app. cbn [map].
  rewrite assoc_builtin_dict. reflexivity.
Qed.

(** The lookup returns the binding of the FIRST layer that binds the name —
    whatever value it binds it to (nil, false, 0, '', [], {} are values like
    any other: [D] is arbitrary and nothing inspects it). *)
Theorem lookup_first_binder (L : layers) k pre d post :
  NoDup (keys (w_tg (l_world L))) ->
  layer_list L = pre ++ d :: post ->
  (forall d', In d' pre -> ~ In k (keys d')) ->
  In k (keys d) ->
  st_lookup (build L) k = assoc k d /\ exists v, assoc k d = Some v.
Proof.
  intros ND E Hpre Hd. rewrite (lookup_layer_list L k ND), E, map_app, first_some_app.
  destruct (assoc_in_keys k d Hd) as [v Hv].
  match goal with |- match ?X with _ => _ end = _ /\ _ => assert (Hn : X = None) end.
  { clear E. induction pre as [|p pre IH]; simpl; [reflexivity|].
    rewrite (assoc_none_not_in k p) by (apply Hpre; left; reflexivity).
    apply IH. intros d' H. apply Hpre. right. exact H. }
  rewrite Hn. simpl. rewrite Hv. split; [reflexivity|eauto].
Qed.

(** A name is undefined exactly when no layer binds it. *)
Theorem lookup_none_iff_unbound (L : layers) k :
  NoDup (keys (w_tg (l_world L))) ->
  (st_lookup (build L) k = None <-> forall d, In d (layer_list L) -> ~ In k (keys d)).
Proof.
  intro ND. rewrite (lookup_layer_list L k ND). generalize (layer_list L). intro l.
  induction l as [|d l IH]; simpl.
  - split; [intros _ d []|reflexivity].
  - destruct (assoc k d) eqn:E.
    + split; [discriminate|]. intro H. exfalso. apply (H d (or_introl eq_refl)).
      eapply assoc_some_in_keys. exact E.
    + rewrite IH. split.
      * intros H d' [<-|H']; [|apply H; exact H']. intro Hin.
        destruct (assoc_in_keys k d Hin) as [v Hv]. congruence.
      * intros H d' H'. apply H. right. exact H'.
Qed.

(** ** Caching loaders: a cache hit re-binds the template globals and keeps the matter layer *)

(** Whatever the cached template's previous global_data was: after the
    re-binding of a cache hit, the mapping handed to the render context
    resolves a name to the render argument, else the loader matter the template
    was loaded with, else the NEW per-call template global, else the
    environment global; no existing mapping is written. *)
Theorem cache_hit_keeps_matter_layer (s : store) eg tg2 gd_old ov args s' g :
  eg < length s -> tg2 < length s -> ov < length s -> args < length s ->
  NoDup (keys (read s tg2)) ->
  cache_hit_globals s eg tg2 gd_old ov args = (s', g) ->
  (forall k, mget s' g k =
     first_some [assoc k (read s args); assoc k (read s ov);
                 assoc k (read s tg2); assoc k (read s eg)])
  /\ (forall a, a < length s -> read s' a = read s a).
Proof.
  intros He Ht Ho Ha ND. unfold cache_hit_globals, cache_hit_rebind.
  rewrite env_make_globals_eq. unfold template_make_globals, alloc.
  intro H. inversion H; subst. clear H. split.
  - intro k. rewrite mget_chain. cbn [map mget first_some].
    rewrite read_app_new.
    rewrite (read_app_lt (s ++ _) _ ov) by len.
    rewrite (read_app_lt s _ ov) by exact Ho.
    rewrite (read_app_lt (s ++ _) _ (length s)) by len.
    rewrite read_app_new. rewrite (read_app_lt s _ args) by exact Ha.
    rewrite (assoc_merged _ _ k ND).
    destruct (assoc k (read s args)); auto; destruct (assoc k (read s ov)); auto;
    destruct (assoc k (read s tg2)); auto; destruct (assoc k (read s eg)); auto.
  - intros a Hlt. rewrite read_app_lt by len. apply read_app_lt. exact Hlt.
Qed.

(** ** A block rendered through extends (copy with block_scope) *)

(** In the fresh context of a block (nothing assigned in it yet) a name
    resolves exactly as in the page at the block tag, with the [block] drop
    namespace pushed in front. *)
Theorem block_copy_lookup w gl (st : state) a (ns : dict) k : Rg w gl st a ->
  st_lookup (ctx_copy_block st ns) k =
  spec_lookup_g gl {| a_blocks := ns :: a_blocks a; a_locals := a_locals a; a_counters := a_counters a |} k.
Proof.
  intro HR. pose proof (Rg_lookup _ _ _ _ k HR) as HL. pose proof (Rg_scope_wf _ _ _ _ HR) as HW.
  destruct HR as (bl & Hsc & Hb & Hl & Hc & Hf & Hg & Hm & H4 & Hlc & Hcl & Hbl & Hrl & Hrm).
  unfold ctx_copy_block, alloc, st_lookup, cm_getitem.
  cbn [store_of scope locals_a counters_a globals_r root_r].
  match goal with |- context [mget ?S (RChain (RDict _ :: _)) k] => set (s2 := S) end.
  assert (Hold : forall x, x < length (store_of st) -> read s2 x = read (store_of st) x).
  { intros x Hx. unfold s2. rewrite !read_app_lt by len. reflexivity. }
  assert (Hpage : mget s2 (RChain (scope st)) k = spec_lookup_g gl a k).
  { rewrite <- HL. unfold st_lookup, cm_getitem. apply mget_frame. intros x Hx. apply Hold. apply HW. exact Hx. }
  rewrite mget_chain. cbn [map].
  change (mget s2 (RDict (length (store_of st ++ [ns]))) k) with (assoc k (read s2 (length (store_of st ++ [ns])))).
  change (mget s2 (RDict (counters_a st)) k) with (assoc k (read s2 (counters_a st))).
  assert (Ens : read s2 (length (store_of st)) = ns).
  { unfold s2. rewrite read_app_lt by len. apply read_app_new. }
  assert (Elo : read s2 (length (store_of st ++ [ns])) = []) by (unfold s2; apply read_app_new).
  rewrite Elo, (Hold _ Hcl), Hc.
  rewrite (mget_chain s2 [RDict (length (store_of st)); RChain (scope st)]). cbn [map].
  change (mget s2 (RDict (length (store_of st))) k) with (assoc k (read s2 (length (store_of st)))).
  rewrite Ens, Hpage.
  unfold spec_lookup_g. cbn [a_blocks a_locals a_counters map].
  simpl first_some at 1.
  destruct (assoc k ns) as [v|]; [reflexivity|].
  cbn [first_some app]. rewrite !first_some_app.
  destruct (first_some (map (assoc k) (a_blocks a))) as [v|]; [reflexivity|].
  simpl. destruct (assoc k (a_locals a)); [reflexivity|]. destruct (gl k); [reflexivity|].
  destruct (builtin_get k); [reflexivity|]. destruct (assoc k (a_counters a)); reflexivity.
Qed.

(** The code as it is: a variable assigned in the block is found FIRST, before
    the block drop and every binding of the page; every other name resolves as
    in the fresh block context. *)
Theorem block_assign_lookup w gl (st : state) a (ns : dict) k v k' : Rg w gl st a ->
  st_lookup (st_assign (ctx_copy_block st ns) k v) k' =
  if str_eqb k' k then Some v
  else spec_lookup_g gl {| a_blocks := ns :: a_blocks a; a_locals := a_locals a; a_counters := a_counters a |} k'.
Proof.
  intro HR. destruct (str_eqb k' k) eqn:E.
  - apply str_eqb_eq in E. subst k'.
    unfold st_assign, ctx_copy_block, alloc, st_lookup, cm_getitem, with_store.
    cbn [store_of scope locals_a counters_a globals_r root_r].
    rewrite mget_chain. cbn [map first_some mget].
    rewrite read_write_same by len. rewrite assoc_dict_set_same. reflexivity.
  - apply str_eqb_neq in E.
    destruct (assign_touches_only_locals (ctx_copy_block st ns) k v) as (_ & _ & _ & _ & _ & _ & Hother).
    rewrite (Hother k' E). exact (block_copy_lookup w gl st a ns k' HR).
Qed.

Theorem block_lookup (L : layers) (ns : dict) k :
  NoDup (keys (w_tg (l_world L))) ->
  st_lookup (ctx_copy_block (build L) ns) k =
  spec_lookup (l_world L)
    {| a_blocks := ns :: l_blocks L; a_locals := l_locals L; a_counters := l_counters L |} k.
Proof.
  intro ND. rewrite (block_copy_lookup _ _ _ _ ns k (build_Rg L ND)), spec_lookup_flat. reflexivity.
Qed.

Theorem block_assign_lookup_as_is (L : layers) (ns : dict) k v k' :
  NoDup (keys (w_tg (l_world L))) ->
  st_lookup (st_assign (ctx_copy_block (build L) ns) k v) k' =
  if str_eqb k' k then Some v
  else spec_lookup (l_world L)
         {| a_blocks := ns :: l_blocks L; a_locals := l_locals L; a_counters := l_counters L |} k'.
Proof.
  intro ND. rewrite (block_assign_lookup _ _ _ _ ns k v k' (build_Rg L ND)), spec_lookup_flat. reflexivity.
Qed.

(** The documented order on this path: block-scoped bindings that enclose the
    block (and the block drop) first, THEN what the block assigned. *)
Definition block_assign_documented (L : layers) (ns : dict) k v k' : option value :=
  match first_some (map (assoc k') (ns :: l_blocks L)) with
  | Some x => Some x
  | None => if str_eqb k' k then Some v else st_lookup (build L) k'
  end.

(** It holds whenever the assigned name is not also bound by an enclosing
    block scope (or another name is looked up) ... *)
Theorem block_assign_precedence_partial (L : layers) (ns : dict) k v k' :
  NoDup (keys (w_tg (l_world L))) ->
  k' <> k \/ first_some (map (assoc k) (ns :: l_blocks L)) = None ->
  st_lookup (st_assign (ctx_copy_block (build L) ns) k v) k' = block_assign_documented L ns k v k'.
Proof.
  intros ND G. rewrite (block_assign_lookup _ _ _ _ ns k v k' (build_Rg L ND)).
  unfold block_assign_documented. rewrite (Rg_lookup _ _ _ _ k' (build_Rg L ND)).
  unfold spec_lookup_g. cbn [a_blocks a_locals a_counters astate_of].
  destruct (str_eqb k' k) eqn:E.
  - apply str_eqb_eq in E. subst k'. destruct G as [G|G]; [congruence|]. rewrite G. reflexivity.
  - cbn [map]. rewrite !first_some_app. cbn [map first_some].
    destruct (assoc k' ns); [reflexivity|]. try rewrite first_some_app.
    destruct (first_some (map (assoc k') (l_blocks L))); reflexivity.
Qed.

End Proofs.

(** * Which layer wins does not depend on the values *)

Definition map_value {D D' : Type} (f : D -> D') (v : value D) : value D' :=
  match v with Data d => Data (f d) | Int z => Int z | Now => Now | Today => Today end.

Definition map_dict {D D' : Type} (f : D -> D') (d : dict D) : dict D' :=
  map (fun kv => (fst kv, map_value f (snd kv))) d.

Definition map_layers {D D' : Type} (f : D -> D') (L : layers D) : layers D' :=
  {| l_blocks := map (map_dict f) (l_blocks L);
     l_locals := map_dict f (l_locals L);
     l_counters := map_dict f (l_counters L);
     l_world := {| w_eg := map_dict f (w_eg (l_world L)); w_tg := map_dict f (w_tg (l_world L));
                   w_matter := map_dict f (w_matter (l_world L));
                   w_args := map_dict f (w_args (l_world L)) |} |}.

Lemma keys_map_dict {D D'} (f : D -> D') (d : dict D) : keys (map_dict f d) = keys d.
Proof. unfold keys, map_dict. rewrite map_map. reflexivity. Qed.

Lemma assoc_map_dict {D D'} (f : D -> D') (d : dict D) k :
  assoc k (map_dict f d) = option_map (map_value f) (assoc k d).
Proof.
  induction d as [|[k' v] d IH]; simpl; [reflexivity|].
  destruct (str_eqb k k'); [reflexivity|exact IH].
Qed.

Lemma first_some_option_map {A B} (g : A -> B) (l : list (option A)) :
  first_some (map (option_map g) l) = option_map g (first_some l).
Proof. induction l as [|[a|] l IH]; simpl; auto. Qed.

(** Replace every data value by any other (for instance all of them by one
    "nil" token): each name still resolves in the same layer, to the image of
    what it resolved to.  No lookup ever looks at a value. *)
Theorem lookup_value_independent {D D' : Type} (f : D -> D') (L : layers D) k :
  NoDup (keys (w_tg (l_world L))) ->
  st_lookup (build (map_layers f L)) k = option_map (map_value f) (st_lookup (build L) k).
Proof.
  intro ND.
  rewrite (lookup_precedence L k ND).
  rewrite (lookup_precedence (map_layers f L) k)
    by (simpl; rewrite keys_map_dict; exact ND).
  rewrite <- first_some_option_map. f_equal. simpl.
  rewrite !map_app, !map_map. f_equal.
  - apply map_ext. intro d. apply assoc_map_dict.
  - simpl. rewrite !assoc_map_dict. repeat f_equal.
    unfold builtin_get. destruct (str_eqb k s_now); [reflexivity|].
    destruct (str_eqb k s_today); reflexivity.
Qed.

(** * Non-vacuity: the hypotheses are satisfiable by non-trivial states, the
      guards are needed *)
Local Open Scope N_scope.

Definition ex_x : str := [120].
Definition ex_world : world N :=
  {| w_eg := [(s_now, Data 6)]; w_tg := [(s_now, Data 5)];
     w_matter := [(s_now, Data 4)]; w_args := [(s_now, Data 3)] |}.
Definition ex_empty_world : world N :=
  {| w_eg := []; w_tg := []; w_matter := []; w_args := [] |}.
Definition ex_layers (drop : nat) : layers N :=
  let keep (n : nat) (d : dict N) : dict N := if Nat.ltb n drop then [] else d in
  {| l_blocks := if Nat.ltb 0 drop then [] else [[(s_now, Data 1)]];
     l_locals := keep 1%nat [(s_now, Data 2)];
     l_counters := [(s_now, Int 7)];
     l_world := {| w_args := keep 2%nat [(s_now, Data 3)]; w_matter := keep 3%nat [(s_now, Data 4)];
                   w_tg := keep 4%nat [(s_now, Data 5)]; w_eg := keep 5%nat [(s_now, Data 6)] |} |}.

Lemma ex_world_nodup : NoDup (keys (w_tg ex_world)).
Proof. repeat constructor. intros []. Qed.

(** All eight layers hold the name [now] with distinct values; dropping the
    layers one after the other from the front walks through the order. *)
Example ex_all_eight_layers :
  map (fun n => st_lookup (build (ex_layers n)) s_now) [0; 1; 2; 3; 4; 5; 6]%nat
  = [Some (Data 1); Some (Data 2); Some (Data 3); Some (Data 4); Some (Data 5); Some (Data 6); Some Now]
  /\ st_lookup (build {| l_blocks := []; l_locals := []; l_counters := [(ex_x, Int 7)];
                         l_world := ex_empty_world |}) ex_x = Some (Int 7)
  /\ st_lookup (build {| l_blocks := []; l_locals := []; l_counters := [];
                         l_world := ex_empty_world |}) ex_x = None.
Proof. vm_compute. repeat split. Qed.

Definition ex_prog : list (op N) :=
  [Lookup s_now; Assign s_now (Data 2); Lookup s_now;
   Extend [(s_now, Data 1)] [Lookup s_now; Assign ex_x (Data 9); Incr ex_x; Extend [] [Lookup ex_x]];
   Lookup s_now; Lookup ex_x; Decr s_now; Lookup s_today].

(** A scoped program that shadows, assigns inside a block, and reads after it. *)
Example ex_render :
  forallb scoped ex_prog = true
  /\ trace_of (render 30 ex_world ex_prog) =
     [OLookup s_now (Some (Data 3)); OLookup s_now (Some (Data 2)); OLookup s_now (Some (Data 1));
      OCount 0%Z; OLookup ex_x (Some (Data 9)); OLookup s_now (Some (Data 2));
      OLookup ex_x (Some (Data 9)); OCount (-1)%Z; OLookup s_today (Some Today)]
  /\ status_of (render 30 ex_world ex_prog) = Ok tt.
Proof. vm_compute. repeat split. Qed.

(** The same program aborted by the depth limit: the trace stops, the
    assignments made so far persist, the caller's mappings are untouched. *)
Example ex_render_aborted :
  status_of (render 5 ex_world ex_prog) = LErr ContextDepthError None
  /\ length (trace_of (render 5 ex_world ex_prog)) = 4%nat
  /\ firstn n_caller (store_of (state_of (render 5 ex_world ex_prog))) = caller_store ex_world
  /\ read (store_of (state_of (render 5 ex_world ex_prog)))
          (locals_a (state_of (render 5 ex_world ex_prog))) = [(s_now, Data 2); (ex_x, Data 9)].
Proof. vm_compute. repeat split. Qed.

(** Why [NoDup (keys tg)] is a premise: an association list with a repeated
    key is not a Python dict; [{**eg, **tg}] would keep its LAST binding while
    [tg[k]] of the list finds the FIRST. *)
Example ex_nodup_needed :
  let tg : dict N := [(ex_x, Data 1); (ex_x, Data 2)] in
  assoc ex_x (dict_merge [] tg) = Some (Data 2) /\ assoc ex_x tg = Some (Data 1).
Proof. vm_compute. split; reflexivity. Qed.

(** Why [scoped] is a premise of the refinement: a raw [pop] outside [extend]
    removes [locals] from the chain and the name falls through to the render
    argument. *)
Example ex_unscoped_pop_breaks_precedence :
  st_lookup (build (ex_layers 1)) s_now = Some (Data 2)
  /\ st_lookup (state_of (exec_list 30 [Pop] (build (ex_layers 1)))) s_now = Some (Data 3).
Proof. vm_compute. split; reflexivity. Qed.

(** [scope_wf] holds of every built context (so push_shadows applies). *)
Example ex_scope_wf : scope_wf (build (ex_layers 0)).
Proof. intros a H. vm_compute in H. vm_compute. intuition (subst; repeat constructor). Qed.

(** The hypotheses of [shadowing_restored] hold of a body that shadows again,
    writes other names and nests; the name really is shadowed inside. *)
Example ex_shadowing_premises :
  let body : list (op N) :=
    [Lookup s_now; Assign ex_x (Data 9); Extend [(s_now, Data 8)] [Lookup s_now; Incr ex_x]] in
  forallb scoped body = true /\ existsb (writes s_now) body = false
  /\ st_lookup (build (ex_layers 1)) s_now = Some (Data 2)
  /\ st_lookup (st_push (build (ex_layers 1)) [(s_now, Data 1)]) s_now = Some (Data 1)
  /\ st_lookup (state_of (exec 30 (Extend [(s_now, Data 1)] body) (build (ex_layers 1)))) s_now
     = Some (Data 2)
  /\ st_lookup (state_of (exec 30 (Extend [(s_now, Data 1)] body) (build (ex_layers 1)))) ex_x
     = Some (Data 9).
Proof. vm_compute. repeat split. Qed.

(** Inside a copied ({% render %}) context the parent's block scope, locals
    and counters are gone; the tag arguments come first. *)
Example ex_copy :
  st_lookup (build (ex_layers 0)) s_now = Some (Data 1)
  /\ st_lookup (ctx_copy (build (ex_layers 0)) [(ex_x, Data 7)]) s_now = Some (Data 3)
  /\ st_lookup (ctx_copy (build (ex_layers 0)) [(ex_x, Data 7)]) ex_x = Some (Data 7)
  /\ st_lookup (ctx_copy (st_push (ctx_copy (build (ex_layers 0)) [(ex_x, Data 7)]) []) []) ex_x = None.
Proof. vm_compute. repeat split. Qed.

(** A "nil" token (900) bound in a higher layer wins over a real value in a
    lower one, in every position; collapsing all values to one token changes
    nothing about which layer answers. *)
Example ex_nil_binding_wins :
  let nil_ : value N := Data 900 in
  let Lx (b l : dict N) (a m t e : dict N) : layers N :=
    {| l_blocks := [b]; l_locals := l; l_counters := [];
       l_world := {| w_eg := e; w_tg := t; w_matter := m; w_args := a |} |} in
  let x1 v : dict N := [(ex_x, v)] in
  map (fun L => st_lookup (build L) ex_x)
    [Lx (x1 nil_) (x1 (Data 2)) [] [] [] [];
     Lx [] (x1 nil_) (x1 (Data 3)) [] [] [];
     Lx [] [] (x1 nil_) [] (x1 (Data 5)) [];
     Lx [] [] [] (x1 nil_) (x1 (Data 5)) (x1 (Data 6));
     Lx [] [] [] [] (x1 nil_) (x1 (Data 6));
     Lx [] [] [] [] [] (x1 nil_)]
  = [Some nil_; Some nil_; Some nil_; Some nil_; Some nil_; Some nil_].
Proof. vm_compute. reflexivity. Qed.

(** ... and is REFUTED in general: inside a block whose page binds [x] in a
    [with] / [for] around the block tag, [assign x] in the block wins over that
    binding (the witness of known finding
    block-assign-shadows-enclosing-binding-through-extends:
      base  {% with x: 'v1' %}{% block b %}{% endblock %}{% endwith %}
      child {% extends 'base' %}{% block b %}{% assign x = 'v2' %}{{ x }}{% endblock %}
    prints v2; the documented order gives v1). *)
Theorem block_assign_precedence_refuted :
  exists (L : layers N) (ns : dict N) k v k',
    NoDup (keys (w_tg (l_world L))) /\
    st_lookup (st_assign (ctx_copy_block (build L) ns) k v) k' <> block_assign_documented L ns k v k'.
Proof.
  exists {| l_blocks := [[(ex_x, Data 1)]]; l_locals := []; l_counters := []; l_world := ex_empty_world |}.
  exists [([98; 108; 111; 99; 107], Data 101)], ex_x, (Data 2), ex_x.
  split; [constructor|]. vm_compute. discriminate.
Qed.
