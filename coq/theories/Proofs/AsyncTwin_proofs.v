(** Proofs about Kernels/AsyncTwin.v: every textually differing sync/async
    pair is observationally equal, for all inputs. *)
From LQ Require Import Base.Str Kernels.AsyncTwin.

(** * 1. delegation *)
Lemma twin_delegate_eq {A B} (override : A -> res B) x :
  delegate_async override x = delegate_sync override x.
Proof. reflexivity. Qed.

(** * 2. drained generator = list comprehension *)
Lemma twin_drain_eq {A B C} (f : A -> res B) (g : C -> B -> C) xs :
  forall acc, drain_lazy f g acc xs = drain_eager f g acc xs.
Proof.
  induction xs as [|x xs IH]; intro acc; [reflexivity|].
  unfold drain_eager in *. simpl.
  destruct (f x) as [b| | |]; simpl; try reflexivity.
  rewrite IH. destruct (collect f xs); reflexivity.
Qed.

Example drain_nonvacuous :
  drain_lazy (fun x : N => if N.eqb x 3 then PyExc KeyError else Ok (x * 2)%N)
             N.add 0%N [1;2;5]%N = Ok 16%N
  /\ drain_eager (fun x : N => if N.eqb x 3 then PyExc KeyError else Ok (x * 2)%N)
             N.add 0%N [1;3;5]%N = PyExc KeyError.
Proof. split; reflexivity. Qed.

(** * 3. top-level render *)
Lemma twin_toplevel_render_eq {Src T Out} (fs : Src -> res T) (r : T -> res Out) s :
  toplevel_render_async fs r s = toplevel_render fs r s.
Proof. reflexivity. Qed.

(** * 4. Filter.evaluate: same class and token, message not observed *)
Lemma twin_filter_evaluate_eq {V} name tok (call : fout V) :
  observe (filter_evaluate_async name tok call) = observe (filter_evaluate name tok call).
Proof. destruct call as [v|[m|m t|c t|k]]; reflexivity. Qed.

(** Since /repo f444606 the twins also carry the same message: they are equal
    outright, not only under [observe]. *)
Lemma twin_filter_evaluate_same {V} name tok (call : fout V) :
  filter_evaluate_async name tok call = filter_evaluate name tok call.
Proof. destruct call as [v|[m|m t|c t|k]]; reflexivity. Qed.

(** * 5. LoopExpression.evaluate *)
Lemma twin_loop_offset_eq ae o : loop_offset_async ae o = loop_offset o.
Proof. destruct o; reflexivity. Qed.

Lemma twin_loop_evaluate_eq i : loop_evaluate_async i = loop_evaluate i.
Proof. unfold loop_evaluate_async, loop_evaluate. rewrite twin_loop_offset_eq. reflexivity. Qed.

(** offset:continue after a first loop over 5 items that stopped at 2, under
    auto-escape: items 2..4, and a literal offset that is not a number. *)
Example loop_nonvacuous :
  loop_evaluate_async {| li_items := Ok [10;11;12;13;14]%Z; li_limit := None;
                         li_offset := OffStr s_continue 7; li_reversed := false;
                         li_stopindex := 2; li_auto_escape := true |}
  = Ok {| lo_items := [12;13;14]%Z; lo_length := 3; lo_stopindex := 5 |}
  /\ loop_evaluate {| li_items := Ok [10;11]%Z; li_limit := Some (Ok 1%Z);
                      li_offset := OffStr [120]%N 7; li_reversed := false;
                      li_stopindex := 0; li_auto_escape := false |}
     = LErr LiquidTypeError (Some 7%Z).
Proof. split; reflexivity. Qed.

(** * 6. _AnyExpression *)
Lemma any_loop_py_any {E V} (eval : E -> res V) (eqv : V -> V -> bool) l exprs :
  py_any (map (fun rexpr (_ : unit) => do r <- eval rexpr ;; Ok (eqv l r)) exprs)
  = any_loop eval eqv l exprs.
Proof.
  induction exprs as [|e exprs IH]; [reflexivity|]. simpl.
  destruct (eval e) as [r| | |]; simpl; try reflexivity.
  destruct (eqv l r); [reflexivity|exact IH].
Qed.

Lemma twin_any_evaluate_eq {E V} (eval : E -> res V) eqv left exprs :
  any_evaluate_async eval eqv left exprs = any_evaluate eval eqv left exprs.
Proof.
  unfold any_evaluate_async, any_evaluate.
  destruct (eval left); simpl; try reflexivity. symmetry. apply any_loop_py_any.
Qed.

(** A later operand that would raise is not evaluated after a match. *)
Example any_nonvacuous :
  any_evaluate_async (fun e : res N => e) N.eqb (Ok 2%N) [Ok 1%N; Ok 2%N; PyExc KeyError] = Ok true
  /\ any_evaluate (fun e : res N => e) N.eqb (Ok 2%N) [Ok 1%N; PyExc KeyError; Ok 2%N] = PyExc KeyError.
Proof. split; reflexivity. Qed.

(** * 7. children generators *)
Lemma twin_children_eq {Nd R} (body : bool -> res (list Nd)) (visit : list Nd -> res R) ip :
  visit_children_async body visit ip = visit_children body visit ip.
Proof.
  unfold visit_children_async, visit_children, for_each, children_async, children.
  destruct ip; simpl; [destruct (body true); reflexivity|reflexivity].
Qed.

(** * 8. IfNode *)
Section IfProofs.
  Context {St Cnd Blk : Type}.
  Variable eval : St -> Cnd -> res bool.
  Variable block_rto : St -> Blk -> res (str * St).
  Variable disabled : St -> list str.

  Lemma cond_block_render_true st (a : alternative Cnd Blk) :
    eval st (alt_cond a) = Ok true ->
    cond_block_render eval block_rto disabled st a = block_render block_rto disabled st (alt_blk a).
  Proof.
    intro He. unfold cond_block_render, block_render, node_render, cond_block_rto.
    destruct (is_nil (disabled st)) eqn:En.
    - rewrite He. simpl. unfold block_render, node_render. rewrite En. reflexivity.
    - destruct (mem_str (tb_tag (alt_blk a)) (disabled st)) eqn:Em; [reflexivity|].
      rewrite He. simpl. unfold block_render, node_render. rewrite En, Em. reflexivity.
  Qed.

  Lemma twin_if_alts_eq st alts default :
    if_alts_async eval block_rto disabled st alts default
    = if_alts eval block_rto disabled st alts default.
  Proof.
    induction alts as [|a alts IH]; [reflexivity|]. simpl.
    destruct (eval st (alt_cond a)) as [[|]| | |] eqn:He; simpl; try reflexivity.
    - apply cond_block_render_true; exact He.
    - exact IH.
  Qed.

  Lemma twin_if_eq st cond cons alts default :
    if_rto_async eval block_rto disabled st cond cons alts default
    = if_rto eval block_rto disabled st cond cons alts default.
  Proof.
    unfold if_rto_async, if_rto.
    destruct (eval st cond) as [[|]| | |]; simpl; try reflexivity. apply twin_if_alts_eq.
  Qed.
End IfProofs.

(** A second elsif that holds, inside a context that disables [include]; and
    the same with [elsif] itself disabled: both twins raise at the elsif. *)
Example if_nonvacuous :
  let ev := fun (_ : unit) (c : res bool) => c in
  let rto := fun (st : unit) (b : str) => Ok (b, st) in
  let blk := fun n => {| tb_tag := [101;108;115;105;102]%N; tb_pos := n; tb_block := [Z.to_N n] |} in
  let alts := [ {| alt_cond := Ok false; alt_blk := blk 10%Z |};
                {| alt_cond := Ok true; alt_blk := blk 20%Z |} ] in
  if_rto_async ev rto (fun _ => [[105]%N]) tt (Ok false) (blk 1%Z) alts None = Ok ([20%N], tt)
  /\ if_rto_async ev rto (fun _ => [[101;108;115;105;102]%N]) tt (Ok false) (blk 1%Z) alts None
     = LErr DisabledTagError (Some 20%Z).
Proof. split; reflexivity. Qed.

(** * 9. CallNode *)
Lemma twin_call_eq {M R} (wu : bool -> res R) (cm : M -> res R) v :
  call_rto_async wu cm v = call_rto wu cm v.
Proof. destruct v; reflexivity. Qed.

(** * 10. get_item *)
Lemma get_item_with_ext {V} (f g : str -> res V) obj key :
  (forall k, f k = g k) -> get_item_with f obj key = get_item_with g obj key.
Proof. intro H. unfold get_item_with. rewrite !H. reflexivity. Qed.

Lemma twin_get_item_eq {V} (obj : pyobj V) key :
  coherent obj -> get_item_async obj key = get_item obj key.
Proof.
  intro Hc. unfold get_item_async, get_item.
  destruct (o_getitem_async obj) as [f|] eqn:E; [|reflexivity].
  apply get_item_with_ext. intro k. apply (Hc f E).
Qed.

(** The premise is satisfiable by a drop that has an async getter ... *)
Example coherent_nonvacuous :
  let d := {| o_getitem := fun k => if str_eqb k [120]%N then Ok 1%N else PyExc KeyError;
              o_getitem_async := Some (fun k => if str_eqb k [120]%N then Ok 1%N else PyExc KeyError);
              o_len := Some 7%N; o_first_item := None; o_seq_first := None; o_seq_last := None |} in
  coherent d /\ get_item_async d s_size = Ok 7%N /\ get_item_async d [120]%N = Ok 1%N.
Proof.
  cbv zeta. split; [|split; reflexivity].
  intros f E k. inversion E; subst. reflexivity.
Qed.

(** ... and it is needed: a drop whose two getters disagree renders differently. *)
Lemma get_item_incoherent_refuted :
  exists (obj : pyobj N) key, get_item_async obj key <> get_item obj key.
Proof.
  exists {| o_getitem := fun _ => Ok 1%N; o_getitem_async := Some (fun _ => Ok 2%N);
            o_len := None; o_first_item := None; o_seq_first := None; o_seq_last := None |},
         [120]%N.
  vm_compute. discriminate.
Qed.

(** * 11. BaseLoader.load / load_async *)
Lemma twin_load_eq gs gsa name g :
  gsa name = gs name -> base_load_async gsa name g = base_load gs name g.
Proof. intro H. unfold base_load_async, base_load. rewrite H. reflexivity. Qed.

(** Whatever get_source returns, both halves give the template the same name,
    hence [include ... with] / [render ... with] bind the same variable. *)
Lemma load_async_names_as_load gs gsa name g t ta alias :
  gsa name = gs name ->
  base_load gs name g = Ok t -> base_load_async gsa name g = Ok ta ->
  tt_name ta = tt_name t /\ with_key alias ta = with_key alias t
  /\ tt_uptodate ta = tt_uptodate t.
Proof.
  intros H E Ea. rewrite (twin_load_eq gs gsa name g H) in Ea.
  rewrite E in Ea. inversion Ea; subst. auto.
Qed.

Definition n_snippets_foo_html : str :=
  [115;110;105;112;112;101;116;115;47;102;111;111;46;104;116;109;108]%N.  (* "snippets/foo.html" *)

Example load_nonvacuous :
  let tpl := [(n_snippets_foo_html, [120]%N)] in
  exists t, base_load (dict_get_source tpl) n_snippets_foo_html 3 = Ok t
            /\ tt_name t = [102;111;111;46;104;116;109;108]%N
            /\ with_key None t = [102;111;111]%N.
Proof. eexists. split; [reflexivity|split; reflexivity]. Qed.

(** The unchanged tree (defect 9): a name with a directory is bound differently. *)
Lemma load_async_unfixed_refuted :
  exists tpl name g t ta,
    base_load (dict_get_source tpl) name g = Ok t
    /\ base_load_async_unfixed (dict_get_source tpl) name g = Ok ta
    /\ with_key None ta <> with_key None t.
Proof.
  exists [(n_snippets_foo_html, [120]%N)], n_snippets_foo_html, 0%N.
  eexists. eexists. split; [reflexivity|split; [reflexivity|]].
  vm_compute. discriminate.
Qed.

(** * 12. tpl_up_to_date *)
Definition sync_flavour (cb : option uptodate_result) : Prop :=
  match cb with None | Some (UBool _) => True | _ => False end.
Definition well_typed_cb (cb : option uptodate_result) : Prop :=
  match cb with Some (UOther _) => False | _ => True end.

Lemma twin_is_up_to_date_eq cb :
  sync_flavour cb -> tpl_up_to_date_async cb = tpl_up_to_date cb.
Proof. destruct cb as [[b|b|t]|]; simpl; intro H; try reflexivity; contradiction. Qed.

(** With a coroutine-flavoured callback the sync half can only answer "not up
    to date" (the caching loader then reloads, which C14 proves unobservable);
    it never claims freshness that the async half denies. *)
Lemma is_up_to_date_sync_conservative cb :
  well_typed_cb cb -> tpl_up_to_date cb = true -> tpl_up_to_date_async cb = true.
Proof. destruct cb as [[b|b|t]|]; simpl; intros H E; try assumption; try discriminate; contradiction. Qed.

Example is_up_to_date_nonvacuous :
  sync_flavour (Some (UBool false)) /\ tpl_up_to_date_async (Some (UBool false)) = false
  /\ well_typed_cb (Some (UAwaitable true)) /\ tpl_up_to_date (Some (UAwaitable true)) = false.
Proof. repeat split. Qed.

(** * 13. run_in_executor *)
Lemma twin_fs_get_source_eq rp rd name :
  fs_get_source_async rp rd name
  = do s <- fs_get_source rp rd name ;;
    Ok {| fs_text := fs_text s; fs_name := fs_name s; fs_cb := (fst (fs_cb s), true) |}.
Proof.
  unfold fs_get_source_async, fs_get_source, run_in_executor.
  destruct (rp name); simpl; try reflexivity. destruct (rd a); reflexivity.
Qed.

Lemma twin_fs_get_source_same rp rd name a b :
  fs_get_source rp rd name = Ok a -> fs_get_source_async rp rd name = Ok b -> fs_source_same a b.
Proof.
  intros Ea Eb. rewrite twin_fs_get_source_eq, Ea in Eb. simpl in Eb.
  inversion Eb; subst. unfold fs_source_same; simpl. auto.
Qed.

Lemma twin_fs_uptodate_eq sm p m : fs_uptodate_async sm p m = fs_uptodate sm p m.
Proof. reflexivity. Qed.

Lemma twin_fs_is_current_eq rp sm name p m :
  fs_is_current_async rp sm name p m = fs_is_current rp sm name p m.
Proof. reflexivity. Qed.

(** * All modelled differing twins at once *)
Theorem async_eq_sync_twins :
  (forall A B (override : A -> res B) x, delegate_async override x = delegate_sync override x)
  /\ (forall A B C (f : A -> res B) (g : C -> B -> C) xs acc,
        drain_lazy f g acc xs = drain_eager f g acc xs)
  /\ (forall Src T Out (fs : Src -> res T) (r : T -> res Out) s,
        toplevel_render_async fs r s = toplevel_render fs r s)
  /\ (forall V name tok (call : fout V),
        observe (filter_evaluate_async name tok call) = observe (filter_evaluate name tok call))
  /\ (forall i, loop_evaluate_async i = loop_evaluate i)
  /\ (forall E V (eval : E -> res V) eqv left exprs,
        any_evaluate_async eval eqv left exprs = any_evaluate eval eqv left exprs)
  /\ (forall Nd R (body : bool -> res (list Nd)) (visit : list Nd -> res R) ip,
        visit_children_async body visit ip = visit_children body visit ip)
  /\ (forall St Cnd Blk (eval : St -> Cnd -> res bool) (block_rto : St -> Blk -> res (str * St))
             (disabled : St -> list str) st cond cons alts default,
        if_rto_async eval block_rto disabled st cond cons alts default
        = if_rto eval block_rto disabled st cond cons alts default)
  /\ (forall M R (wu : bool -> res R) (cm : M -> res R) v, call_rto_async wu cm v = call_rto wu cm v)
  /\ (forall V (obj : pyobj V) key, coherent obj -> get_item_async obj key = get_item obj key)
  /\ (forall gs gsa name g, gsa name = gs name -> base_load_async gsa name g = base_load gs name g)
  /\ (forall cb, sync_flavour cb -> tpl_up_to_date_async cb = tpl_up_to_date cb)
  /\ (forall cb, well_typed_cb cb -> tpl_up_to_date cb = true -> tpl_up_to_date_async cb = true)
  /\ (forall rp rd name a b, fs_get_source rp rd name = Ok a ->
        fs_get_source_async rp rd name = Ok b -> fs_source_same a b)
  /\ (forall rp rd name, is_ok (fs_get_source_async rp rd name) = is_ok (fs_get_source rp rd name))
  /\ (forall sm p m, fs_uptodate_async sm p m = fs_uptodate sm p m)
  /\ (forall rp sm name p m, fs_is_current_async rp sm name p m = fs_is_current rp sm name p m).
Proof.
  split; [intros; apply twin_delegate_eq|].
  split; [intros; apply twin_drain_eq|].
  split; [intros; apply twin_toplevel_render_eq|].
  split; [intros; apply twin_filter_evaluate_eq|].
  split; [intros; apply twin_loop_evaluate_eq|].
  split; [intros; apply twin_any_evaluate_eq|].
  split; [intros; apply twin_children_eq|].
  split; [intros; apply twin_if_eq|].
  split; [intros; apply twin_call_eq|].
  split; [intros; apply twin_get_item_eq; assumption|].
  split; [intros; apply twin_load_eq; assumption|].
  split; [intros; apply twin_is_up_to_date_eq; assumption|].
  split; [intros; apply is_up_to_date_sync_conservative; assumption|].
  split; [intros; eapply twin_fs_get_source_same; eassumption|].
  split; [|split; [intros; apply twin_fs_uptodate_eq|intros; apply twin_fs_is_current_eq]].
  intros. rewrite twin_fs_get_source_eq. destruct (fs_get_source rp rd name); reflexivity.
Qed.
