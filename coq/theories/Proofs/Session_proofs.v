(** Proofs about Kernels/Session.v (property C09). *)
From LQ Require Import Base.Str Kernels.Session.
From Coq Require Import Lia.

(** * 1. A render reaches the loader cache only through [ld]:
       generic simulation of [run_gen] / [collect_gen] *)

Section Sim.
Variables (ld ld' : cachet -> str -> res prog * cachet) (X : renv).
Variable Q : cachet -> cachet -> Prop.
Hypothesis ldQ : forall c c' n, Q c c' ->
  fst (ld c n) = fst (ld' c' n) /\ Q (snd (ld c n)) (snd (ld' c' n)).

Definition lrel (L L' : lst) : Prop :=
  Q (l_cache L) (l_cache L') /\ l_acc L = l_acc L' /\ l_lds L = l_lds L'.

Definition sim {A} (x x' : M A) : Prop := fst x = fst x' /\ lrel (snd x) (snd x').

Lemma bindL_sim {A B} (x x' : M A) (f f' : A -> lst -> M B) :
  sim x x' -> (forall a L L', lrel L L' -> sim (f a L) (f' a L')) ->
  sim (bindL x f) (bindL x' f').
Proof.
  destruct x as [[a|c p|k|] L], x' as [[a'|c' p'|k'|] L']; intros [E R] H;
    simpl in *; try discriminate; inversion E; subst; try (split; [reflexivity|exact R]).
  apply H; exact R.
Qed.

Lemma load_counted_sim L L' n : lrel L L' ->
  sim (load_counted ld X L n) (load_counted ld' X L' n).
Proof.
  intros (Hq & Ha & Hl). unfold load_counted. rewrite Hl.
  destruct (opt_is (x_flds X) (S (l_lds L'))).
  - split; [reflexivity|]. repeat split; simpl; auto.
  - destruct (ldQ _ _ n Hq) as [E1 E2]. split; simpl; [exact E1|]. repeat split; simpl; auto.
Qed.

Lemma build_stacks_sim : forall fuel t seen st L L', lrel L L' ->
  sim (build_stacks ld X fuel t seen st L) (build_stacks ld' X fuel t seen st L').
Proof.
  induction fuel as [|f IH]; intros t seen st L L' R; cbn [build_stacks].
  - split; [reflexivity|exact R].
  - destruct (Nat.ltb 1 _); [split; [reflexivity|exact R]|].
    destruct (has_dup _); [split; [reflexivity|exact R]|].
    destruct (flat_map (extends_of_op static_depth) t) as [|pn exts].
    + split; [reflexivity|exact R].
    + destruct (mem_str pn seen); [split; [reflexivity|exact R]|].
      apply bindL_sim; [apply load_counted_sim; exact R|].
      intros parent L1 L1' R1. apply IH; exact R1.
Qed.

Lemma sim_refl_res {A} (x : res A) L L' : lrel L L' -> sim (x, L) (x, L').
Proof. intro R; split; [reflexivity|exact R]. Qed.

Lemma run_gen_sim : forall fuel cur p L L' r, lrel L L' ->
  sim (run_gen ld X fuel cur p L r) (run_gen ld' X fuel cur p L' r).
Proof.
  induction fuel as [|f IH]; intros cur p L L' r R.
  - apply sim_refl_res; exact R.
  - destruct p as [|o rest]; [apply sim_refl_res; exact R|].
    cbn [run_gen].
    set (k := fun (rb : rctx * bool) (L1 : lst) =>
                if snd rb then (Ok rb, L1) else run_gen ld X f cur rest L1 (fst rb)).
    set (k' := fun (rb : rctx * bool) (L1 : lst) =>
                if snd rb then (Ok rb, L1) else run_gen ld' X f cur rest L1 (fst rb)).
    assert (Hk : forall rb L1 L1', lrel L1 L1' -> sim (k rb L1) (k' rb L1')).
    { intros rb L1 L1' R1. unfold k, k'. destruct (snd rb); [apply sim_refl_res; exact R1|].
      apply IH; exact R1. }
    destruct o;
      try (apply bindL_sim; [apply sim_refl_res; exact R|]; intros r1 L1 L1' R1; apply Hk; exact R1).
    + (* EmitField *)
      destruct (lookup (x_clock X) r s_d); try (apply Hk; exact R).
      destruct R as (Hq & Ha & Hl). rewrite Ha, Hl.
      destruct (opt_is (x_facc X) (S (l_acc L'))).
      * split; [reflexivity|]. repeat split; simpl; auto.
      * apply Hk. repeat split; simpl; auto.
    + (* Capture *)
      apply bindL_sim; [apply IH; exact R|]. intros rb L1 L1' R1.
      destruct (snd rb); [apply sim_refl_res; exact R1|apply Hk; exact R1].
    + (* CallMacro *)
      destruct (assoc m (r_macros r)); [|apply Hk; exact R].
      destruct (depth_exceeded r); [apply sim_refl_res; exact R|].
      apply bindL_sim; [apply IH; exact R|]. intros rb L1 L1' R1. apply Hk; exact R1.
    + (* Include *)
      destruct (mem_str s_include (r_disabled r)); [apply sim_refl_res; exact R|].
      apply bindL_sim; [apply load_counted_sim; exact R|]. intros t L1 L1' R1.
      apply bindL_sim; [apply IH; exact R1|]. intros rb L2 L2' R2. apply Hk; exact R2.
    + (* Extends *)
      apply bindL_sim; [apply build_stacks_sim; exact R|]. intros bs L1 L1' R1.
      apply bindL_sim; [apply IH; exact R1|]. intros rb L2 L2' R2.
      apply sim_refl_res; exact R2.
    + (* Block *)
      destruct (mem_str s_block (r_disabled r)); [apply sim_refl_res; exact R|].
      destruct (get_or [] (assoc name (r_extends r))).
      * apply bindL_sim; [apply IH; exact R|]. exact Hk.
      * destruct (depth_exceeded r); [apply sim_refl_res; exact R|].
        apply bindL_sim; [apply IH; exact R|]. intros rb L1 L1' R1. apply Hk; exact R1.
    + (* RenderP *)
      apply bindL_sim; [apply load_counted_sim; exact R|]. intros t L1 L1' R1.
      destruct (depth_exceeded r); [apply sim_refl_res; exact R1|].
      apply bindL_sim; [apply IH; exact R1|]. intros rb L2 L2' R2. apply Hk; exact R2.
Qed.

Definition simC {A} (x x' : res A * cachet) : Prop := fst x = fst x' /\ Q (snd x) (snd x').

Lemma bindC_sim {A B} (x x' : res A * cachet) (f f' : A -> cachet -> res B * cachet) :
  simC x x' -> (forall a c c', Q c c' -> simC (f a c) (f' a c')) ->
  simC (bindC x f) (bindC x' f').
Proof.
  destruct x as [[a|c p|k|] L], x' as [[a'|c' p'|k'|] L']; intros [E R] H;
    simpl in *; try discriminate; inversion E; subst; try (split; [reflexivity|exact R]).
  apply H; exact R.
Qed.

Lemma collect_gen_sim : forall fuel p c c', Q c c' ->
  simC (collect_gen ld fuel p c) (collect_gen ld' fuel p c').
Proof.
  induction fuel as [|f IH]; intros p c c' R.
  - split; [reflexivity|exact R].
  - destruct p as [|o rest]; [split; [reflexivity|exact R]|].
    cbn [collect_gen].
    set (k := fun (vs : list str) (c1 : cachet) =>
                bindC (collect_gen ld f rest c1) (fun vs' c2 => (Ok (vs ++ vs'), c2))).
    set (k' := fun (vs : list str) (c1 : cachet) =>
                bindC (collect_gen ld' f rest c1) (fun vs' c2 => (Ok (vs ++ vs'), c2))).
    assert (Hk : forall vs c1 c1', Q c1 c1' -> simC (k vs c1) (k' vs c1')).
    { intros vs c1 c1' R1. unfold k, k'. apply bindC_sim; [apply IH; exact R1|].
      intros a c2 c2' R2. split; [reflexivity|exact R2]. }
    destruct o; try (apply Hk; exact R);
      try (apply bindC_sim; [apply IH; exact R|exact Hk]).
    + (* Include *)
      apply bindC_sim.
      * destruct (ldQ _ _ name R) as [E1 E2]. split; assumption.
      * intros t c1 c1' R1. apply bindC_sim; [apply IH; exact R1|exact Hk].
    + (* Extends *)
      apply bindC_sim.
      * destruct (ldQ _ _ name R) as [E1 E2]. split; assumption.
      * intros t c1 c1' R1. apply bindC_sim; [apply IH; exact R1|exact Hk].
    + (* RenderP *)
      apply bindC_sim.
      * destruct (ldQ _ _ name R) as [E1 E2]. split; assumption.
      * intros t c1 c1' R1. apply bindC_sim; [apply IH; exact R1|exact Hk].
Qed.

End Sim.

(** * 2. The caching loader as a render sees it *)

Lemma str_eqb_sym a b : str_eqb a b = str_eqb b a.
Proof.
  destruct (str_eqb a b) eqn:E1, (str_eqb b a) eqn:E2; try reflexivity.
  - apply str_eqb_eq in E1; subst. rewrite str_eqb_refl in E2; discriminate.
  - apply str_eqb_eq in E2; subst. rewrite str_eqb_refl in E1; discriminate.
Qed.

Lemma assoc_dict_set {V} (k k' : str) (v : V) l :
  assoc k' (dict_set k v l) = if str_eqb k' k then Some v else assoc k' l.
Proof.
  induction l as [|[k0 v0] l IH]; simpl.
  - destruct (str_eqb k' k); reflexivity.
  - destruct (str_eqb k k0) eqn:E; simpl.
    + apply str_eqb_eq in E; subst k0. destruct (str_eqb k' k); reflexivity.
    + destruct (str_eqb k' k0) eqn:E2.
      * apply str_eqb_eq in E2; subst k0. rewrite str_eqb_sym, E. reflexivity.
      * exact IH.
Qed.

Definition goodn (E : envst) (n : str) : Prop := is_ok (load_src E n) = true.
Definition wfc (E : envst) (c : cachet) : Prop := forall n g, assoc n c = Some g -> goodn E n.
Definition held_in (H : list str) (c : cachet) : Prop := forall n, In n H -> assoc n c <> None.
Definition cinv (E : envst) (c : cachet) : Prop :=
  wfc E c /\ held_in (e_held E) c /\ (e_caching E = false -> c = []).
Definition agree (H : list str) (c c' : cachet) : Prop := forall n, In n H -> assoc n c = assoc n c'.
Definition ext (c0 c : cachet) : Prop := forall n g, assoc n c0 = Some g -> assoc n c = Some g.

Lemma parse_ok_same tags fl p q : parse tags fl p = Ok q -> q = p.
Proof. unfold parse. destruct (first_err _ p); intro H; inversion H; reflexivity. Qed.

Lemma goodn_store E n : goodn E n -> exists p, assoc n (e_store E) = Some p /\ load_src E n = Ok p.
Proof.
  unfold goodn, load_src. destruct (assoc n (e_store E)) as [p|]; [|discriminate].
  destruct (parse _ _ p) as [q| | |] eqn:Ep; try discriminate.
  intros _. apply parse_ok_same in Ep; subst q. exists p; split; reflexivity.
Qed.

Lemma load_partial_fst E c n : wfc E c -> fst (load_partial E c n) = load_src E n.
Proof.
  intro W. unfold load_partial. destruct (e_caching E); [|reflexivity].
  destruct (assoc n c) as [g|] eqn:Ea.
  - destruct (goodn_store E n (W _ _ Ea)) as (p & Es & El). rewrite Es, El. reflexivity.
  - destruct (load_src E n); reflexivity.
Qed.

Lemma load_partial_assoc E c n n' :
  assoc n' (snd (load_partial E c n)) =
  if e_caching E && str_eqb n' n then
    match assoc n c with
    | Some g => Some g
    | None => if is_ok (load_src E n) then Some (mk_globals E []) else None
    end
  else assoc n' c.
Proof.
  unfold load_partial. destruct (e_caching E); simpl; [|reflexivity].
  destruct (assoc n c) as [g|] eqn:Ea.
  - assert (Hs : snd (match assoc n (e_store E) with
                      | Some p => (Ok p, c) | None => (PyExc KeyError, c) end) = c)
      by (destruct (assoc n (e_store E)); reflexivity).
    rewrite Hs. destruct (str_eqb n' n) eqn:En; [|reflexivity].
    apply str_eqb_eq in En; subst n'. exact Ea.
  - destruct (load_src E n) as [p| | |]; simpl.
    + rewrite assoc_dict_set. destruct (str_eqb n' n); reflexivity.
    + destruct (str_eqb n' n) eqn:En; [apply str_eqb_eq in En; subst; exact Ea|reflexivity].
    + destruct (str_eqb n' n) eqn:En; [apply str_eqb_eq in En; subst; exact Ea|reflexivity].
    + destruct (str_eqb n' n) eqn:En; [apply str_eqb_eq in En; subst; exact Ea|reflexivity].
Qed.

Lemma load_partial_noncaching E c n : e_caching E = false -> snd (load_partial E c n) = c.
Proof. intro H. unfold load_partial. rewrite H. reflexivity. Qed.

Lemma wfc_load E c n : wfc E c -> wfc E (snd (load_partial E c n)).
Proof.
  intros W n' g. rewrite load_partial_assoc.
  destruct (e_caching E && str_eqb n' n) eqn:Eb; [|apply W].
  apply andb_true_iff in Eb as [_ En]. apply str_eqb_eq in En; subst n'.
  destruct (assoc n c) as [g0|] eqn:Ea.
  - intros _. exact (W _ _ Ea).
  - unfold goodn. destruct (is_ok (load_src E n)); [reflexivity|discriminate].
Qed.

Lemma ext_load E c0 c n : ext c0 c -> ext c0 (snd (load_partial E c n)).
Proof.
  intros X n' g H. specialize (X _ _ H). rewrite load_partial_assoc.
  destruct (e_caching E && str_eqb n' n) eqn:Eb; [|exact X].
  apply andb_true_iff in Eb as [_ En]. apply str_eqb_eq in En; subst n'.
  rewrite X. reflexivity.
Qed.

Lemma ext_refl c : ext c c.
Proof. intros n g H; exact H. Qed.

Lemma held_in_load E H c n : held_in H c -> held_in H (snd (load_partial E c n)).
Proof.
  intros Hh n' Hin. specialize (Hh _ Hin). rewrite load_partial_assoc.
  destruct (e_caching E && str_eqb n' n) eqn:Eb; [|exact Hh].
  apply andb_true_iff in Eb as [_ En]. apply str_eqb_eq in En; subst n'.
  destruct (assoc n c); [discriminate|contradiction].
Qed.

Lemma cinv_load E c n : cinv E c -> cinv E (snd (load_partial E c n)).
Proof.
  intros (W & Hh & Hn). repeat split.
  - apply wfc_load; exact W.
  - apply held_in_load; exact Hh.
  - intro Hc. rewrite load_partial_noncaching by exact Hc. exact (Hn Hc).
Qed.

Lemma agree_load E H c c' n : agree H c c' ->
  agree H (snd (load_partial E c n)) (snd (load_partial E c' n)).
Proof.
  intros A n' Hin. rewrite !load_partial_assoc.
  destruct (e_caching E && str_eqb n' n) eqn:Eb; [|exact (A _ Hin)].
  apply andb_true_iff in Eb as [_ En]. apply str_eqb_eq in En; subst n'.
  rewrite (A _ Hin). reflexivity.
Qed.

Definition Qx (E : envst) (c0 c0' c c' : cachet) : Prop :=
  cinv E c /\ cinv E c' /\ agree (e_held E) c c' /\ ext c0 c /\ ext c0' c'.

Lemma ldQx E c0 c0' : forall c c' n, Qx E c0 c0' c c' ->
  fst (load_partial E c n) = fst (load_partial E c' n) /\
  Qx E c0 c0' (snd (load_partial E c n)) (snd (load_partial E c' n)).
Proof.
  intros c c' n (I & I' & A & X & X'). split.
  - rewrite !load_partial_fst; [reflexivity|apply I'|apply I].
  - repeat split; try (apply cinv_load; assumption).
    + apply agree_load; exact A.
    + apply ext_load; exact X.
    + apply ext_load; exact X'.
Qed.

(** * 3. Renders and analyses on two sessions that differ only in what a
       caching loader happens to hold *)

Lemma load_partial_upd E c' : load_partial (upd_cache E c') = load_partial E.
Proof. reflexivity. Qed.

Lemma render_prog_sim E c0 c0' c' fuel clk fa fl p tg d :
  Qx E c0 c0' (e_cache E) c' ->
  fst (render_prog fuel E clk fa fl p tg d) = fst (render_prog fuel (upd_cache E c') clk fa fl p tg d)
  /\ Qx E c0 c0' (snd (render_prog fuel E clk fa fl p tg d))
                 (snd (render_prog fuel (upd_cache E c') clk fa fl p tg d)).
Proof.
  intro HQ. unfold render_prog. cbn [fst snd].
  change (load_partial (upd_cache E c')) with (load_partial E).
  change (renv_of (upd_cache E c') clk fa fl) with (renv_of E clk fa fl).
  destruct (run_gen_sim (load_partial E) (load_partial E) (renv_of E clk fa fl)
              (Qx E c0 c0') (ldQx E c0 c0') fuel p p (start_lst E) (start_lst (upd_cache E c'))
              (start_ctx tg d)) as [E1 (R1 & _ & _)].
  { repeat split; try reflexivity; apply HQ. }
  split; [rewrite E1; reflexivity|exact R1].
Qed.

Lemma analyze_prog_sim E c0 c0' c' fuel p :
  Qx E c0 c0' (e_cache E) c' ->
  fst (analyze_prog fuel E p) = fst (analyze_prog fuel (upd_cache E c') p)
  /\ Qx E c0 c0' (snd (analyze_prog fuel E p)) (snd (analyze_prog fuel (upd_cache E c') p)).
Proof.
  intro HQ. unfold analyze_prog. cbn [fst snd].
  change (load_partial (upd_cache E c')) with (load_partial E).
  destruct (collect_gen_sim (load_partial E) (load_partial E) (Qx E c0 c0') (ldQx E c0 c0')
              fuel p (e_cache E) c' HQ) as [E1 R1].
  split; [rewrite E1; reflexivity|exact R1].
Qed.

(** ** Sessions equal up to unobservable cache entries *)

Definition winv (E : envst) : Prop := cinv E (e_cache E).

Definition env_ueq (E E' : envst) : Prop :=
  exists c', E' = upd_cache E c' /\ winv E /\ cinv E c' /\ agree (e_held E) (e_cache E) c'.

Definition ueq (s s' : sess) : Prop :=
  clock s = clock s' /\ owned s = owned s' /\ Forall2 env_ueq (envs s) (envs s').

Lemma upd_cache_same E : upd_cache E (e_cache E) = E.
Proof. destruct E; reflexivity. Qed.

Lemma env_ueq_refl E : winv E -> env_ueq E E.
Proof.
  intro W. exists (e_cache E). rewrite upd_cache_same.
  split; [reflexivity|]. split; [exact W|]. split; [exact W|]. intros n _; reflexivity.
Qed.

Lemma env_ueq_sym E E' : env_ueq E E' -> env_ueq E' E.
Proof.
  intros (c' & -> & W & I & A). exists (e_cache E).
  split; [destruct E; reflexivity|]. split; [exact I|]. split; [exact W|].
  intros n Hn. symmetry. apply A. exact Hn.
Qed.

Lemma env_ueq_trans E1 E2 E3 : env_ueq E1 E2 -> env_ueq E2 E3 -> env_ueq E1 E3.
Proof.
  intros (c2 & -> & W1 & I2 & A12) (c3 & -> & W2 & I3 & A23).
  exists c3. split; [reflexivity|]. split; [exact W1|]. split; [exact I3|].
  intros n Hn. rewrite (A12 _ Hn). apply (A23 n). exact Hn.
Qed.

Lemma Forall2_refl_in {A} (R : A -> A -> Prop) l : (forall x, In x l -> R x x) -> Forall2 R l l.
Proof. induction l; intro H; constructor; [apply H; left; reflexivity|apply IHl; intros; apply H; right; assumption]. Qed.

Lemma Forall2_sym {A} (R : A -> A -> Prop) l l' :
  (forall x y, R x y -> R y x) -> Forall2 R l l' -> Forall2 R l' l.
Proof. intros S H; induction H; constructor; auto. Qed.

Lemma Forall2_trans {A} (R : A -> A -> Prop) l1 l2 l3 :
  (forall x y z, R x y -> R y z -> R x z) -> Forall2 R l1 l2 -> Forall2 R l2 l3 -> Forall2 R l1 l3.
Proof.
  intros T H; revert l3; induction H; intros l3 H3; inversion H3; subst; constructor; eauto.
Qed.

Lemma ueq_sym s s' : ueq s s' -> ueq s' s.
Proof.
  intros (C & O & F). repeat split; try congruence. apply Forall2_sym; [apply env_ueq_sym|exact F].
Qed.

Lemma ueq_trans s1 s2 s3 : ueq s1 s2 -> ueq s2 s3 -> ueq s1 s3.
Proof.
  intros (C & O & F) (C' & O' & F'). repeat split; try congruence.
  eapply Forall2_trans; [apply env_ueq_trans|exact F|exact F'].
Qed.

Lemma ueq_refl_l s s' : ueq s s' -> ueq s s.
Proof. intro U. eapply ueq_trans; [exact U|apply ueq_sym; exact U]. Qed.

Lemma Forall2_nth {A} (R : A -> A -> Prop) l l' n : Forall2 R l l' ->
  match nth_error l n, nth_error l' n with
  | Some a, Some b => R a b
  | None, None => True
  | _, _ => False
  end.
Proof.
  intro H; revert n; induction H; intros [|n]; simpl; auto. apply IHForall2.
Qed.

Lemma Forall2_set_nth {A} (R : A -> A -> Prop) l l' n x y :
  Forall2 R l l' -> R x y -> Forall2 R (set_nth n x l) (set_nth n y l').
Proof.
  intro H; revert n; induction H; intros [|n] Hxy; simpl; constructor; auto.
Qed.

Lemma Forall2_set_nth_r {A} (R : A -> A -> Prop) l l' n y :
  Forall2 R l l' -> (forall a, nth_error l n = Some a -> R a y) -> Forall2 R l (set_nth n y l').
Proof.
  intro H; revert n; induction H; intros [|n] Hy; simpl; constructor; auto.
Qed.

Lemma ueq_nth s s' e : ueq s s' ->
  match nth_error (envs s) e, nth_error (envs s') e with
  | Some E, Some E' => env_ueq E E'
  | None, None => True
  | _, _ => False
  end.
Proof. intros (_ & _ & F). apply Forall2_nth. exact F. Qed.

Lemma ueq_with_env s s' e X X' : ueq s s' -> env_ueq X X' -> ueq (with_env s e X) (with_env s' e X').
Proof.
  intros (C & O & F) H. repeat split; simpl; auto. apply Forall2_set_nth; assumption.
Qed.

(** ** Adding or replacing a filter keeps every parsed template parseable *)

Lemma first_err_mono {A} (f g : A -> option lclass) l :
  (forall x, f x = None -> g x = None) -> first_err f l = None -> first_err g l = None.
Proof.
  intro H; induction l as [|x l IH]; simpl; [reflexivity|].
  destruct (f x) eqn:E; [discriminate|]. rewrite (H _ E). exact IH.
Qed.

Lemma parse_op_mono tags fn fn2 :
  (forall x, mem_str x fn = true -> mem_str x fn2 = true) ->
  forall fuel o, parse_op fuel tags fn o = None -> parse_op fuel tags fn2 o = None.
Proof.
  intro H; induction fuel as [|f IH]; intros o; [discriminate|].
  cbn [parse_op]. destruct (match tag_of o with Some t => mem_str t tags | None => true end);
    [|discriminate].
  destruct o; try (intro; assumption);
    try (apply first_err_mono; exact IH).
  - destruct (mem_str f0 fn) eqn:E; [|discriminate]. rewrite (H _ E). reflexivity.
  - destruct (mem_str s_date fn) eqn:E; [|discriminate]. rewrite (H _ E). reflexivity.
  - destruct (mem_str s_date fn) eqn:E; [|discriminate]. rewrite (H _ E). reflexivity.
Qed.

Lemma mem_keys_dict_set {V} (k x : str) (v : V) l :
  mem_str x (keys l) = true -> mem_str x (keys (dict_set k v l)) = true.
Proof.
  induction l as [|[k0 v0] l IH]; simpl; [discriminate|].
  destruct (str_eqb k k0) eqn:E; simpl.
  - apply str_eqb_eq in E; subst k0. auto.
  - destruct (str_eqb x k0); simpl; auto.
Qed.

Lemma parse_mono tags f f2 p q :
  (forall x, mem_str x (keys f) = true -> mem_str x (keys f2) = true) ->
  parse tags f p = Ok q -> parse tags f2 p = Ok q.
Proof.
  intro H. unfold parse. generalize static_depth as d. intro d.
  destruct (first_err (parse_op d tags (keys f)) p) eqn:Ef; [discriminate|].
  rewrite (first_err_mono _ _ p (parse_op_mono tags _ _ H d) Ef). auto.
Qed.

Lemma goodn_mono E f2 n :
  (forall x, mem_str x (keys (e_filters E)) = true -> mem_str x (keys f2) = true) ->
  goodn E n -> goodn (upd_filters E f2) n.
Proof.
  intros H G. destruct (goodn_store E n G) as (p & Es & El).
  unfold goodn, load_src in *. cbn [e_store e_tags e_filters upd_filters]. rewrite Es in *.
  destruct (parse (e_tags E) (e_filters E) p) as [q| | |] eqn:Ep; try discriminate.
  rewrite (parse_mono _ _ _ _ _ H Ep). reflexivity.
Qed.

(** ** One step on two equivalent sessions *)

Definition resolved_rel (s s' : sess) (a b : option (nat * envst * prog * gmap)) : Prop :=
  match a, b with
  | Some (e, E, p, tg), Some (e2, E', p2, tg2) =>
      e = e2 /\ p = p2 /\ tg = tg2 /\ env_ueq E E'
      /\ nth_error (envs s) e = Some E /\ nth_error (envs s') e = Some E'
  | None, None => True
  | _, _ => False
  end.

Lemma resolve_sim s s' h : ueq s s' -> resolved_rel s s' (resolve s h) (resolve s' h).
Proof.
  intro U. pose proof U as (_ & O & _). destruct h as [i|e name]; unfold resolve.
  - rewrite <- O. destruct (nth_error (owned s) i) as [[t|]|]; simpl; auto.
    pose proof (ueq_nth _ _ (t_env t) U) as Hn.
    destruct (nth_error (envs s) (t_env t)) as [E|] eqn:H1,
             (nth_error (envs s') (t_env t)) as [E'|] eqn:H2; simpl; try contradiction; auto.
    split; [reflexivity|]. split; [reflexivity|]. split; [reflexivity|].
    split; [exact Hn|]. split; assumption.
  - pose proof (ueq_nth _ _ e U) as Hn.
    destruct (nth_error (envs s) e) as [E|] eqn:H1,
             (nth_error (envs s') e) as [E'|] eqn:H2; simpl; try contradiction; auto.
    destruct Hn as (c' & -> & W & I & A). cbn [e_held e_cache e_store upd_cache].
    destruct (mem_str name (e_held E)) eqn:Hm; simpl; auto.
    apply mem_str_In in Hm. rewrite <- (A _ Hm).
    destruct (assoc name (e_cache E)) as [g|]; simpl; auto.
    destruct (assoc name (e_store E)) as [p|]; simpl; auto.
    split; [reflexivity|]. split; [reflexivity|]. split; [reflexivity|].
    split; [|split; assumption].
    exists c'. split; [reflexivity|]. split; [exact W|]. split; [exact I|exact A].
Qed.

Lemma qx_of_ueq E c' : winv E -> cinv E c' -> agree (e_held E) (e_cache E) c' ->
  Qx E (e_cache E) c' (e_cache E) c'.
Proof.
  intros W I A. split; [exact W|]. split; [exact I|]. split; [exact A|].
  split; apply ext_refl.
Qed.

Lemma env_ueq_after E c' cf cf' :
  Qx E (e_cache E) c' cf cf' -> env_ueq (upd_cache E cf) (upd_cache (upd_cache E c') cf').
Proof.
  intros (I & I' & A & _ & _). exists cf'.
  split; [reflexivity|]. split; [exact I|]. split; [exact I'|exact A].
Qed.

Lemma step_sim fuel s s' o : ueq s s' ->
  fst (step fuel s o) = fst (step fuel s' o) /\
  (safe_opb s o = true -> ueq (snd (step fuel s o)) (snd (step fuel s' o))).
Proof.
  intro U. pose proof U as (C & O & F).
  destruct o as [auto caching tags store globals|e x v|e name b| |e p g|e name g|h d fa fl|p d fa fl|h];
    cbn [step].
  - (* CreateEnv *)
    split; [reflexivity|]. intros _. repeat split; simpl; auto.
    apply Forall2_app; [exact F|]. constructor; [|constructor].
    apply env_ueq_refl. split; [|split].
    + intros n g0 H; discriminate.
    + intros n H; contradiction.
    + intros _; reflexivity.
  - (* SetGlobal *)
    pose proof (ueq_nth _ _ e U) as Hn.
    destruct (nth_error (envs s) e) as [E|], (nth_error (envs s') e) as [E'|];
      try contradiction; [|split; [reflexivity|intros _; exact U]].
    split; [reflexivity|]. intros _. apply ueq_with_env; [exact U|].
    destruct Hn as (c' & -> & W & I & A). exists c'.
    split; [reflexivity|]. split; [exact W|]. split; [exact I|exact A].
  - (* SetFilter *)
    pose proof (ueq_nth _ _ e U) as Hn. cbn [safe_opb].
    destruct (nth_error (envs s) e) as [E|], (nth_error (envs s') e) as [E'|];
      try contradiction; [|split; [reflexivity|intros _; exact U]].
    split; [reflexivity|]. intros Hsafe. apply ueq_with_env; [exact U|].
    destruct Hn as (c' & -> & W & I & A). exists c'. cbn [e_filters upd_cache].
    split; [reflexivity|].
    assert (Hc : forall c, cinv E c ->
              cinv (upd_filters E (match b with
                                   | Some fb => dict_set name fb (e_filters E)
                                   | None => remove_key name (e_filters E) end)) c).
    { intros c (Wc & Hh & Hn0). split; [|split; [exact Hh|exact Hn0]].
      destruct b as [fb|].
      - intros n g0 Hg. apply goodn_mono; [|exact (Wc _ _ Hg)].
        intros x0 Hx. apply mem_keys_dict_set. exact Hx.
      - apply negb_true_iff in Hsafe. rewrite (Hn0 Hsafe). intros n g0 Hg; discriminate. }
    split; [apply Hc; exact W|]. split; [apply Hc; exact I|exact A].
  - (* AdvanceClock *)
    split; [reflexivity|]. intros _. repeat split; simpl; auto. congruence.
  - (* FromString *)
    pose proof (ueq_nth _ _ e U) as Hn.
    destruct (nth_error (envs s) e) as [E|], (nth_error (envs s') e) as [E'|];
      try contradiction; [|split; [reflexivity|intros _; exact U]].
    destruct Hn as (c' & -> & W & I & A). cbn [e_tags e_filters upd_cache].
    unfold create. rewrite <- O.
    change (mk_globals (upd_cache E c') g) with (mk_globals E g).
    destruct (parse (e_tags E) (e_filters E) p); (split; [reflexivity|]); intros _;
      repeat split; simpl; auto; congruence.
  - (* GetTemplate *)
    pose proof (ueq_nth _ _ e U) as Hn.
    destruct (nth_error (envs s) e) as [E|], (nth_error (envs s') e) as [E'|];
      try contradiction; [|split; [reflexivity|intros _; exact U]].
    destruct Hn as (c' & -> & W & I & A).
    cbn [e_caching e_cache e_held upd_cache].
    change (load_src (upd_cache E c') name) with (load_src E name).
    change (mk_globals (upd_cache E c') g) with (mk_globals E g).
    destruct (e_caching E) eqn:Hcach.
    + (* caching *)
      assert (Hnew : forall ok : goodn E name,
                ueq (with_env s e (upd_cache_held E (dict_set name (mk_globals E g) (e_cache E))
                                     (name :: e_held E)))
                    (with_env s' e (upd_cache_held (upd_cache E c')
                                      (dict_set name (mk_globals E g) c') (name :: e_held E)))).
      { intro ok. apply ueq_with_env; [exact U|].
        exists (dict_set name (mk_globals E g) c'). split; [reflexivity|].
        assert (Hd : forall c, cinv E c ->
                  cinv (upd_cache_held E (dict_set name (mk_globals E g) (e_cache E)) (name :: e_held E))
                       (dict_set name (mk_globals E g) c)).
        { intros c (Wc & Hh & Hn0). split; [|split].
          - intros n g0. rewrite assoc_dict_set. destruct (str_eqb n name) eqn:En.
            + apply str_eqb_eq in En; subst n. intros _. exact ok.
            + intro Hg. exact (Wc _ _ Hg).
          - intros n [<-|Hin]; rewrite assoc_dict_set.
            + rewrite str_eqb_refl. discriminate.
            + destruct (str_eqb n name); [discriminate|apply Hh; exact Hin].
          - cbn [e_caching upd_cache_held]. rewrite Hcach. discriminate. }
        split; [apply Hd; exact W|]. split; [apply Hd; exact I|].
        intros n [<-|Hin]; cbn [e_cache upd_cache_held]; rewrite !assoc_dict_set.
        - rewrite str_eqb_refl. reflexivity.
        - destruct (str_eqb n name); [reflexivity|apply A; exact Hin]. }
      destruct (assoc name (e_cache E)) as [g1|] eqn:H1, (assoc name c') as [g2|] eqn:H2.
      * split; [reflexivity|]. intros _. apply Hnew. destruct W as (Wc & _). exact (Wc _ _ H1).
      * destruct W as (Wc & _). pose proof (Wc _ _ H1) as ok.
        destruct (goodn_store E name ok) as (p & _ & El). rewrite El.
        split; [reflexivity|]. intros _. apply Hnew. exact ok.
      * destruct I as (Wc & _). pose proof (Wc _ _ H2) as ok.
        destruct (goodn_store E name ok) as (p & _ & El). rewrite El.
        split; [reflexivity|]. intros _. apply Hnew. exact ok.
      * destruct (load_src E name) as [p| | |] eqn:El;
          try (split; [reflexivity|intros _; exact U]).
        split; [reflexivity|]. intros _. apply Hnew. unfold goodn. rewrite El. reflexivity.
    + (* not caching *)
      unfold create. rewrite <- O.
      destruct (load_src E name); (split; [reflexivity|]); intros _;
        repeat split; simpl; auto; rewrite O; reflexivity.
  - (* Render *)
    pose proof (resolve_sim s s' h U) as Hr. unfold resolved_rel in Hr.
    destruct (resolve s h) as [[[[e E] p] tg]|], (resolve s' h) as [[[[e2 E'] p2] tg2]|];
      try contradiction; [|split; [reflexivity|intros _; exact U]].
    destruct Hr as (<- & <- & <- & (c' & -> & W & I & A) & H1 & H2).
    destruct (render_prog_sim E (e_cache E) c' c' fuel (clock s) fa fl p tg d
                (qx_of_ueq E c' W I A)) as [E1 Q1].
    cbn zeta. rewrite <- C. split; [exact E1|]. intros _.
    apply ueq_with_env; [exact U|]. apply env_ueq_after. exact Q1.
  - (* QuickRender *)
    pose proof (ueq_nth _ _ 0 U) as Hn.
    destruct (nth_error (envs s) 0) as [E|], (nth_error (envs s') 0) as [E'|];
      try contradiction; [|split; [reflexivity|intros _; exact U]].
    destruct Hn as (c' & -> & W & I & A). cbn [e_tags e_filters upd_cache].
    change (mk_globals (upd_cache E c') []) with (mk_globals E []).
    destruct (parse (e_tags E) (e_filters E) p); try (split; [reflexivity|intros _; exact U]).
    destruct (render_prog_sim E (e_cache E) c' c' fuel (clock s) fa fl p (mk_globals E []) d
                (qx_of_ueq E c' W I A)) as [E1 Q1].
    cbn zeta. rewrite <- C. split; [exact E1|]. intros _.
    apply ueq_with_env; [exact U|]. apply env_ueq_after. exact Q1.
  - (* Analyze *)
    pose proof (resolve_sim s s' h U) as Hr. unfold resolved_rel in Hr.
    destruct (resolve s h) as [[[[e E] p] tg]|], (resolve s' h) as [[[[e2 E'] p2] tg2]|];
      try contradiction; [|split; [reflexivity|intros _; exact U]].
    destruct Hr as (<- & <- & <- & (c' & -> & W & I & A) & H1 & H2).
    destruct (analyze_prog_sim E (e_cache E) c' c' fuel p (qx_of_ueq E c' W I A)) as [E1 Q1].
    cbn zeta. split; [exact E1|]. intros _.
    apply ueq_with_env; [exact U|]. apply env_ueq_after. exact Q1.
Qed.

(** ** A render or an analysis leaves an equivalent session behind *)

Lemma env_ueq_grown E cf : winv E -> cinv E cf -> ext (e_cache E) cf -> env_ueq E (upd_cache E cf).
Proof.
  intros W I X. exists cf. split; [reflexivity|]. split; [exact W|]. split; [exact I|].
  intros n Hn. destruct W as (_ & Hh & _). specialize (Hh _ Hn).
  destruct (assoc n (e_cache E)) as [g|] eqn:Ea; [|contradiction].
  symmetry. apply X. exact Ea.
Qed.

Lemma ueq_with_env_r s e E X : ueq s s -> nth_error (envs s) e = Some E -> env_ueq E X ->
  ueq s (with_env s e X).
Proof.
  intros (C & O & F) HE H. repeat split; simpl; auto.
  apply Forall2_set_nth_r; [exact F|]. intros a Ha. rewrite HE in Ha. inversion Ha; subst. exact H.
Qed.

Lemma resolve_nth s h e E p tg : resolve s h = Some (e, E, p, tg) -> nth_error (envs s) e = Some E.
Proof.
  destruct h as [i|e0 name]; unfold resolve.
  - destruct (nth_error (owned s) i) as [[t|]|]; try discriminate.
    destruct (nth_error (envs s) (t_env t)) eqn:H; [|discriminate]. intro X; inversion X; subst. exact H.
  - destruct (nth_error (envs s) e0) as [E0|] eqn:H; [|discriminate].
    destruct (mem_str name (e_held E0)); [|discriminate].
    destruct (assoc name (e_cache E0)); [|discriminate].
    destruct (assoc name (e_store E0)); [|discriminate]. intro X; inversion X; subst. exact H.
Qed.

Lemma winv_nth s e E : ueq s s -> nth_error (envs s) e = Some E -> winv E.
Proof.
  intros U H. pose proof (ueq_nth _ _ e U) as Hn. rewrite H in Hn.
  destruct Hn as (c' & _ & W & _). exact W.
Qed.

Lemma render_like_frame fuel s o : ueq s s -> is_render_like o = true -> ueq s (snd (step fuel s o)).
Proof.
  intros U Hr. destruct o; try discriminate; cbn [step].
  - destruct (resolve s h) as [[[[e E] p] tg]|] eqn:Hres; [|exact U].
    pose proof (resolve_nth _ _ _ _ _ _ Hres) as HE. pose proof (winv_nth _ _ _ U HE) as W.
    destruct (render_prog_sim E (e_cache E) (e_cache E) (e_cache E) fuel (clock s) fa fl p tg d)
      as [_ (I & _ & _ & X & _)].
    { apply qx_of_ueq; [exact W|exact W|intros n _; reflexivity]. }
    cbn zeta. cbn [snd]. apply (ueq_with_env_r s e E); [exact U|exact HE|].
    apply env_ueq_grown; assumption.
  - destruct (nth_error (envs s) 0) as [E|] eqn:HE; [|exact U].
    destruct (parse (e_tags E) (e_filters E) p); try exact U.
    pose proof (winv_nth _ _ _ U HE) as W.
    destruct (render_prog_sim E (e_cache E) (e_cache E) (e_cache E) fuel (clock s) fa fl p
                (mk_globals E []) d) as [_ (I & _ & _ & X & _)].
    { apply qx_of_ueq; [exact W|exact W|intros n _; reflexivity]. }
    cbn zeta. cbn [snd]. apply (ueq_with_env_r s 0 E); [exact U|exact HE|].
    apply env_ueq_grown; assumption.
  - destruct (resolve s h) as [[[[e E] p] tg]|] eqn:Hres; [|exact U].
    pose proof (resolve_nth _ _ _ _ _ _ Hres) as HE. pose proof (winv_nth _ _ _ U HE) as W.
    destruct (analyze_prog_sim E (e_cache E) (e_cache E) (e_cache E) fuel p) as [_ (I & _ & _ & X & _)].
    { apply qx_of_ueq; [exact W|exact W|intros n _; reflexivity]. }
    cbn zeta. cbn [snd]. apply (ueq_with_env_r s e E); [exact U|exact HE|].
    apply env_ueq_grown; assumption.
Qed.

(** ** Histories *)

Lemma final_app fuel s a b : final fuel s (a ++ b) = final fuel (final fuel s a) b.
Proof. revert s; induction a as [|o a IH]; intro s; simpl; [reflexivity|apply IH]. Qed.

Lemma guardedb_app fuel s a b :
  guardedb fuel s (a ++ b) = guardedb fuel s a && guardedb fuel (final fuel s a) b.
Proof.
  revert s; induction a as [|o a IH]; intro s; simpl; [reflexivity|].
  rewrite IH. rewrite andb_assoc. reflexivity.
Qed.

Lemma safe_opb_ueq s s' o : ueq s s' -> safe_opb s o = safe_opb s' o.
Proof.
  intro U. destruct o; try reflexivity. destruct b; [reflexivity|]. cbn [safe_opb].
  pose proof (ueq_nth _ _ e U) as Hn.
  destruct (nth_error (envs s) e) as [E|], (nth_error (envs s') e) as [E'|]; try contradiction;
    [|reflexivity].
  destruct Hn as (c' & -> & _). reflexivity.
Qed.

Lemma final_ueq fuel : forall ops s s', ueq s s' -> guardedb fuel s ops = true ->
  ueq (final fuel s ops) (final fuel s' ops).
Proof.
  induction ops as [|o ops IH]; intros s s' U G; simpl in *; [exact U|].
  apply andb_true_iff in G as [G1 G2].
  apply IH; [|exact G2]. apply (step_sim fuel s s' o U). exact G1.
Qed.

Lemma final_ueq_erase fuel : forall ops s s', ueq s s' -> guardedb fuel s ops = true ->
  ueq (final fuel s ops) (final fuel s' (erase ops)).
Proof.
  induction ops as [|o ops IH]; intros s s' U G; [exact U|].
  cbn [guardedb] in G. apply andb_true_iff in G as [G1 G2].
  unfold erase. cbn [filter]. fold (erase ops). cbn [final].
  destruct (is_render_like o) eqn:Hr; cbn [negb].
  - apply IH; [|exact G2].
    eapply ueq_trans; [|exact U]. apply ueq_sym.
    apply render_like_frame; [eapply ueq_refl_l; exact U|exact Hr].
  - cbn [final]. apply IH; [|exact G2]. apply (step_sim fuel s s' o U). exact G1.
Qed.

Lemma winv_default : winv (new_env false false all_tags [] []).
Proof.
  split; [|split].
  - intros n g H; discriminate.
  - intros n H; contradiction.
  - intros _; reflexivity.
Qed.

Lemma ueq_init : ueq init init.
Proof.
  repeat split. constructor; [|constructor]. apply env_ueq_refl. exact winv_default.
Qed.

(** * 4. The property theorems *)

(** Step results do not depend on earlier renders, failed renders or analyses. *)
Theorem history_independent_partial fuel ops o :
  guardedb fuel init ops = true ->
  fst (step fuel (final fuel init ops) o) = fst (step fuel (final fuel init (erase ops)) o).
Proof.
  intro G. apply step_sim. apply final_ueq_erase; [exact ueq_init|exact G].
Qed.

(** A render-like call (in particular a render failing at its k-th data access
    or loader call, for every k) cannot be observed by any later call. *)
Theorem render_unobservable_partial fuel ops1 r ops2 o :
  is_render_like r = true ->
  guardedb fuel init (ops1 ++ r :: ops2) = true ->
  fst (step fuel (final fuel init (ops1 ++ r :: ops2)) o)
  = fst (step fuel (final fuel init (ops1 ++ ops2)) o).
Proof.
  intros Hr G. rewrite guardedb_app in G. apply andb_true_iff in G as [G1 G2].
  cbn [guardedb] in G2. apply andb_true_iff in G2 as [_ G2].
  rewrite !final_app. cbn [final]. apply step_sim.
  pose proof (final_ueq fuel ops1 init init ueq_init G1) as U1.
  apply final_ueq; [|exact G2].
  apply ueq_sym. apply render_like_frame; [exact U1|exact Hr].
Qed.

(** The full statement is false for the faithful model: removing a filter from
    an environment with a caching loader exposes whether an earlier render
    had already parsed a partial that uses it. *)
Definition w_p : str := [112]%N.
Definition w_bang : str := [98;97;110;103]%N.
Definition w_m : str := [109]%N.
Definition witness_ops : list hop :=
  [ CreateEnv false true all_tags
      [(w_p, [Text [80]%N; CallMacro w_m (ELit [122]%N); DefMacro w_m [EmitFilt s_a w_bang]])] [];
    SetFilter 1 w_bang (Some FBang);
    FromString 1 [Include w_p] [];
    Render (Own 0) [] None None;
    SetFilter 1 w_bang None ].
Definition witness_op : hop := Render (Own 0) [] None None.

Theorem history_independent_refuted :
  exists fuel ops o,
    fst (step fuel (final fuel init ops) o) <> fst (step fuel (final fuel init (erase ops)) o).
Proof.
  exists 50, witness_ops, witness_op. vm_compute. discriminate.
Qed.

Example witness_values :
  fst (step 50 (final 50 init witness_ops) witness_op) = Ok (OText [80]%N)
  /\ fst (step 50 (final 50 init (erase witness_ops)) witness_op) = LErr UnknownFilterError None
  /\ guardedb 50 init witness_ops = false.
Proof. vm_compute. repeat split. Qed.

(** ** What a render-like call leaves behind, exactly (no guard, any session) *)

Definition Qf (E : envst) (c0 c c' : cachet) : Prop :=
  c = c' /\ ext c0 c /\ (e_caching E = false -> c = c0).

Lemma ldQf E c0 : forall c c' n, Qf E c0 c c' ->
  fst (load_partial E c n) = fst (load_partial E c' n) /\
  Qf E c0 (snd (load_partial E c n)) (snd (load_partial E c' n)).
Proof.
  intros c c' n (<- & X & N). split; [reflexivity|]. split; [reflexivity|]. split.
  - apply ext_load; exact X.
  - intro Hc. rewrite load_partial_noncaching by exact Hc. exact (N Hc).
Qed.

Definition same_but_cache (E E' : envst) : Prop :=
  exists c, E' = upd_cache E c /\ ext (e_cache E) c /\ (e_caching E = false -> c = e_cache E).

Lemma same_but_cache_refl E : same_but_cache E E.
Proof.
  exists (e_cache E). rewrite upd_cache_same. split; [reflexivity|]. split; [apply ext_refl|reflexivity].
Qed.

Lemma render_prog_frame E fuel clk fa fl p tg d :
  same_but_cache E (upd_cache E (snd (render_prog fuel E clk fa fl p tg d))).
Proof.
  unfold render_prog. cbn [snd].
  destruct (run_gen_sim (load_partial E) (load_partial E) (renv_of E clk fa fl)
              (Qf E (e_cache E)) (ldQf E (e_cache E)) fuel p p (start_lst E) (start_lst E)
              (start_ctx tg d)) as [_ ((_ & X & N) & _ & _)].
  { split; [|split; reflexivity]. split; [reflexivity|]. split; [apply ext_refl|reflexivity]. }
  eexists. split; [reflexivity|]. split; [exact X|exact N].
Qed.

Lemma analyze_prog_frame E fuel p :
  same_but_cache E (upd_cache E (snd (analyze_prog fuel E p))).
Proof.
  unfold analyze_prog. cbn [snd].
  destruct (collect_gen_sim (load_partial E) (load_partial E) (Qf E (e_cache E)) (ldQf E (e_cache E))
              fuel p (e_cache E) (e_cache E)) as [_ (_ & X & N)].
  { split; [reflexivity|]. split; [apply ext_refl|reflexivity]. }
  eexists. split; [reflexivity|]. split; [exact X|exact N].
Qed.

Lemma Forall2_refl_set_nth {A} (R : A -> A -> Prop) l n x y :
  (forall a, R a a) -> nth_error l n = Some x -> R x y -> Forall2 R l (set_nth n y l).
Proof.
  intros Rr. revert n; induction l as [|a l IH]; intros [|n] H Hxy; simpl in *; try discriminate.
  - inversion H; subst. constructor; [exact Hxy|]. apply Forall2_refl_in. intros; apply Rr.
  - constructor; [apply Rr|]. apply IH; assumption.
Qed.

Definition frame (s s' : sess) : Prop :=
  clock s' = clock s /\ owned s' = owned s /\ Forall2 same_but_cache (envs s) (envs s').

Lemma frame_refl s : frame s s.
Proof.
  split; [reflexivity|]. split; [reflexivity|]. apply Forall2_refl_in. intros; apply same_but_cache_refl.
Qed.

(** A render (successful, or failing at its k-th data access / loader call,
    for every k), a liquid2.render() call or an analysis changes nothing in the
    session except that a caching loader may hold more parsed partials; every
    entry it held is untouched, and with a non-caching loader nothing changes
    at all. *)
Theorem render_leaves_no_trace fuel s o :
  is_render_like o = true -> frame s (snd (step fuel s o)).
Proof.
  intro Hr. destruct o; try discriminate; cbn [step].
  - destruct (resolve s h) as [[[[e E] p] tg]|] eqn:Hres; [|apply frame_refl].
    pose proof (resolve_nth _ _ _ _ _ _ Hres) as HE. cbn zeta. cbn [snd].
    split; [reflexivity|]. split; [reflexivity|]. cbn [envs with_env].
    eapply Forall2_refl_set_nth; [apply same_but_cache_refl|exact HE|apply render_prog_frame].
  - destruct (nth_error (envs s) 0) as [E|] eqn:HE; [|apply frame_refl].
    destruct (parse (e_tags E) (e_filters E) p); try apply frame_refl. cbn zeta. cbn [snd].
    split; [reflexivity|]. split; [reflexivity|]. cbn [envs with_env].
    eapply Forall2_refl_set_nth; [apply same_but_cache_refl|exact HE|apply render_prog_frame].
  - destruct (resolve s h) as [[[[e E] p] tg]|] eqn:Hres; [|apply frame_refl].
    pose proof (resolve_nth _ _ _ _ _ _ Hres) as HE. cbn zeta. cbn [snd].
    split; [reflexivity|]. split; [reflexivity|]. cbn [envs with_env].
    eapply Forall2_refl_set_nth; [apply same_but_cache_refl|exact HE|apply analyze_prog_frame].
Qed.

Theorem render_leaves_session_unchanged fuel s o :
  is_render_like o = true -> Forall (fun E => e_caching E = false) (envs s) ->
  snd (step fuel s o) = s.
Proof.
  intros Hr Hn. destruct (render_leaves_no_trace fuel s o Hr) as (C & O & F).
  destruct (snd (step fuel s o)) as [es ow ck]; destruct s as [es0 ow0 ck0]; simpl in *. subst.
  f_equal. clear -F Hn. induction F; [reflexivity|]. inversion Hn; subst.
  f_equal; [|apply IHF; assumption].
  destruct H as (c & -> & _ & N). rewrite (N H2). apply upd_cache_same.
Qed.

(** * 5. Environments are independent *)

Definition slot_env_is (e1 : nat) (x : option tobj) : Prop :=
  match x with Some t => t_env t = e1 | None => True end.

Definition own_rel (e1 : nat) (a b : option tobj) : Prop :=
  a = b \/ (slot_env_is e1 a /\ slot_env_is e1 b).

Definition same_caching (a b : option envst) : Prop :=
  match a, b with Some E, Some E' => e_caching E = e_caching E' | _, _ => True end.

(** Two sessions that agree on everything except the configuration (and what
    follows from it) of environment e1. *)
Definition eqx (e1 : nat) (s s' : sess) : Prop :=
  clock s = clock s' /\ length (envs s) = length (envs s')
  /\ (forall e, e <> e1 -> nth_error (envs s) e = nth_error (envs s') e)
  /\ Forall2 (own_rel e1) (owned s) (owned s')
  /\ same_caching (nth_error (envs s) e1) (nth_error (envs s') e1).

Lemma same_caching_refl a : same_caching a a.
Proof. destruct a; simpl; auto. Qed.

Lemma eqx_refl e1 s : eqx e1 s s.
Proof.
  split; [reflexivity|]. split; [reflexivity|]. split; [reflexivity|].
  split; [|apply same_caching_refl]. apply Forall2_refl_in. intros; left; reflexivity.
Qed.

Lemma length_set_nth {A} n (x : A) l : length (set_nth n x l) = length l.
Proof. revert n; induction l; intros [|n]; simpl; auto. Qed.

Lemma nth_error_set_nth_other {A} n m (x : A) l : n <> m -> nth_error (set_nth n x l) m = nth_error l m.
Proof.
  revert n m; induction l as [|a l IH]; intros [|n] [|m] H; simpl; auto; try congruence.
Qed.

Lemma nth_error_set_nth_same {A} n (x : A) l a :
  nth_error l n = Some a -> nth_error (set_nth n x l) n = Some x.
Proof. revert n; induction l as [|b l IH]; intros [|n] H; simpl in *; try discriminate; auto. Qed.

Lemma eqx_sym e1 s s' : eqx e1 s s' -> eqx e1 s' s.
Proof.
  intros (C & L & N & O & K). split; [auto|]. split; [auto|]. split; [|split].
  - intros e He. symmetry. apply N; exact He.
  - apply Forall2_sym; [|exact O]. intros x y [->|[A B]]; [left; reflexivity|right; split; assumption].
  - destruct (nth_error (envs s) e1), (nth_error (envs s') e1); simpl in *; auto.
Qed.

(** changing environment e1 on one side, keeping its loader kind *)
Lemma eqx_with_env_l e1 s s' E X : eqx e1 s s' -> nth_error (envs s) e1 = Some E ->
  e_caching X = e_caching E -> eqx e1 (with_env s e1 X) s'.
Proof.
  intros (C & L & N & O & K) HE HX.
  split; [exact C|]. split; [|split; [|split; [exact O|]]]; cbn [envs with_env].
  - rewrite length_set_nth. exact L.
  - intros e He. rewrite nth_error_set_nth_other by congruence. apply N; exact He.
  - rewrite (nth_error_set_nth_same _ _ _ _ HE). rewrite HE in K.
    destruct (nth_error (envs s') e1); simpl in *; congruence.
Qed.

Lemma eqx_with_env_r e1 s s' E X : eqx e1 s s' -> nth_error (envs s') e1 = Some E ->
  e_caching X = e_caching E -> eqx e1 s (with_env s' e1 X).
Proof. intros H HE HX. apply eqx_sym. eapply eqx_with_env_l; [apply eqx_sym; exact H|exact HE|exact HX]. Qed.

(** the same change to another environment on both sides *)
Lemma eqx_with_env_both e1 s s' e X : eqx e1 s s' -> e <> e1 ->
  eqx e1 (with_env s e X) (with_env s' e X).
Proof.
  intros (C & L & N & O & K) He.
  split; [exact C|]. split; [|split; [|split; [exact O|]]]; cbn [envs with_env].
  - rewrite !length_set_nth. exact L.
  - intros e' He'. destruct (Nat.eq_dec e e') as [<-|Hne].
    + pose proof (N e He) as Hn.
      destruct (nth_error (envs s) e) as [a|] eqn:H1.
      * rewrite (nth_error_set_nth_same _ _ _ _ H1). symmetry in Hn.
        rewrite (nth_error_set_nth_same _ _ _ _ Hn). reflexivity.
      * symmetry in Hn. apply nth_error_None in H1. apply nth_error_None in Hn.
        transitivity (@None envst); [|symmetry]; apply nth_error_None; rewrite length_set_nth; assumption.
    + rewrite !nth_error_set_nth_other by exact Hne. apply N; exact He'.
  - rewrite !nth_error_set_nth_other by exact He. exact K.
Qed.

Lemma Forall2_len {A B} (R : A -> B -> Prop) l l' : Forall2 R l l' -> length l = length l'.
Proof. intro H; induction H; simpl; congruence. Qed.

Lemma eqx_push e1 s s' a b : eqx e1 s s' -> own_rel e1 a b -> eqx e1 (push_owned s a) (push_owned s' b).
Proof.
  intros (C & L & N & O & K) H.
  split; [exact C|]. split; [exact L|]. split; [exact N|]. split; [|exact K].
  cbn [owned push_owned]. apply Forall2_app; [exact O|]. constructor; [exact H|constructor].
Qed.

Lemma eqx_nth_both e1 s s' e : eqx e1 s s' ->
  (nth_error (envs s) e = None <-> nth_error (envs s') e = None).
Proof. intros (_ & L & _). rewrite !nth_error_None, L. reflexivity. Qed.

Lemma eqx_create e1 s s' E E' x x' g g' : eqx e1 s s' ->
  eqx e1 (snd (create s e1 E x g)) (snd (create s' e1 E' x' g')).
Proof.
  intro H. unfold create.
  destruct x, x'; cbn [snd]; apply eqx_push; try exact H; right; simpl; auto.
Qed.

Lemma resolve_eqx e1 s s' h e E p tg : eqx e1 s s' -> resolve s h = Some (e, E, p, tg) -> e <> e1 ->
  resolve s' h = Some (e, E, p, tg).
Proof.
  intros (C & L & N & O & K) Hres He. destruct h as [i|e0 name]; unfold resolve in *.
  - pose proof (Forall2_nth _ _ _ i O) as Hi.
    destruct (nth_error (owned s) i) as [[t|]|] eqn:H1; try discriminate.
    destruct (nth_error (envs s) (t_env t)) as [E0|] eqn:H2; [|discriminate].
    inversion Hres; subst.
    destruct (nth_error (owned s') i) as [b|]; [|contradiction].
    destruct Hi as [<-|[A _]]; [|simpl in A; congruence].
    rewrite <- (N _ He), H2. reflexivity.
  - destruct (nth_error (envs s) e0) as [E0|] eqn:H2; [|discriminate].
    assert (e0 = e).
    { destruct (mem_str name (e_held E0)); [|discriminate].
      destruct (assoc name (e_cache E0)); [|discriminate].
      destruct (assoc name (e_store E0)); [|discriminate]. inversion Hres; reflexivity. }
    subst e0. rewrite <- (N _ He), H2. exact Hres.
Qed.

(** What a render-like step does to the session: nothing, or it replaces the
    environment of its template by one with another cache. *)
Lemma render_like_shape fuel s o : is_render_like o = true ->
  snd (step fuel s o) = s \/
  exists e E c, env_of_op s o = Some e /\ nth_error (envs s) e = Some E /\
                snd (step fuel s o) = with_env s e (upd_cache E c).
Proof.
  intro Hr. destruct o; try discriminate; cbn [step env_of_op].
  - destruct (resolve s h) as [[[[e E] p] tg]|] eqn:Hres; [|left; reflexivity].
    right. exists e, E. eexists. split; [reflexivity|]. split; [|reflexivity].
    eapply resolve_nth; exact Hres.
  - destruct (nth_error (envs s) 0) as [E|] eqn:HE; [|left; reflexivity].
    destruct (parse _ _ p); try (left; reflexivity).
    right. exists 0, E. eexists. split; [reflexivity|]. split; [exact HE|reflexivity].
  - destruct (resolve s h) as [[[[e E] p] tg]|] eqn:Hres; [|left; reflexivity].
    right. exists e, E. eexists. split; [reflexivity|]. split; [|reflexivity].
    eapply resolve_nth; exact Hres.
Qed.

Lemma env_of_op_eqx e1 s s' o e : eqx e1 s s' -> env_of_op s o = Some e -> e <> e1 ->
  env_of_op s' o = Some e.
Proof.
  intros X H He. destruct o; cbn [env_of_op] in *; try exact H.
  - destruct (resolve s h) as [[[[e0 E] p] tg]|] eqn:Hres; [|discriminate].
    inversion H; subst. rewrite (resolve_eqx _ _ _ _ _ _ _ _ X Hres He). reflexivity.
  - destruct (resolve s h) as [[[[e0 E] p] tg]|] eqn:Hres; [|discriminate].
    inversion H; subst. rewrite (resolve_eqx _ _ _ _ _ _ _ _ X Hres He). reflexivity.
Qed.

(** A render-like step whose template does not belong to e2 /= e1 ... *)
Lemma eqx_render_like_e1 fuel e1 s s' o : eqx e1 s s' -> is_render_like o = true ->
  (forall e, env_of_op s o = Some e -> e = e1) ->
  (forall e, env_of_op s' o = Some e -> e = e1) ->
  eqx e1 (snd (step fuel s o)) (snd (step fuel s' o)).
Proof.
  intros X Hr H1 H2.
  destruct (render_like_shape fuel s o Hr) as [->|(e & E & c & Ho & HE & ->)];
    destruct (render_like_shape fuel s' o Hr) as [->|(e' & E' & c' & Ho' & HE' & ->)].
  - exact X.
  - rewrite (H2 _ Ho') in *. eapply eqx_with_env_r; [exact X|exact HE'|reflexivity].
  - rewrite (H1 _ Ho) in *. eapply eqx_with_env_l; [exact X|exact HE|reflexivity].
  - rewrite (H1 _ Ho) in *. rewrite (H2 _ Ho') in *.
    eapply eqx_with_env_l; [|exact HE|reflexivity].
    eapply eqx_with_env_r; [exact X|exact HE'|reflexivity].
Qed.

Lemma step_eqx fuel e1 s s' o : eqx e1 s s' ->
  eqx e1 (snd (step fuel s o)) (snd (step fuel s' o)) /\
  (forall e2, env_of_op s o = Some e2 -> e2 <> e1 -> fst (step fuel s o) = fst (step fuel s' o)).
Proof.
  intro X. pose proof X as (C & L & N & O & K).
  assert (Hlen : length (owned s) = length (owned s')) by (eapply Forall2_len; exact O).
  destruct (is_render_like o) eqn:Hr.
  - (* Render / QuickRender / Analyze *)
    destruct (env_of_op s o) as [e|] eqn:Ho.
    + destruct (Nat.eq_dec e e1) as [->|He].
      * split; [|intros e2 H; inversion H; congruence].
        apply eqx_render_like_e1; try assumption.
        -- intros e H. congruence.
        -- intros e H. destruct (Nat.eq_dec e e1) as [|Hne]; [assumption|].
           rewrite (env_of_op_eqx e1 s' s o e (eqx_sym _ _ _ X) H Hne) in Ho. congruence.
      * (* the template belongs to another environment: both sides compute the same *)
        assert (Hsame : fst (step fuel s o) = fst (step fuel s' o) /\
                        exists Y, snd (step fuel s o) = with_env s e Y /\
                                  snd (step fuel s' o) = with_env s' e Y \/
                                  (snd (step fuel s o) = s /\ snd (step fuel s' o) = s')).
        { destruct o; try discriminate; cbn [step env_of_op] in *.
          - destruct (resolve s h) as [[[[e0 E] p] tg]|] eqn:Hres; [|discriminate].
            inversion Ho; subst e0.
            rewrite (resolve_eqx _ _ _ _ _ _ _ _ X Hres He). cbn zeta. rewrite <- C.
            split; [reflexivity|]. eexists. left. split; reflexivity.
          - inversion Ho; subst e. rewrite <- (N 0 He).
            destruct (nth_error (envs s) 0) as [E|];
              [|split; [reflexivity|exists (new_env false false [] [] []); right; split; reflexivity]].
            destruct (parse (e_tags E) (e_filters E) p);
              try (split; [reflexivity|exists E; right; split; reflexivity]).
            cbn zeta. rewrite <- C. split; [reflexivity|]. eexists. left. split; reflexivity.
          - destruct (resolve s h) as [[[[e0 E] p] tg]|] eqn:Hres; [|discriminate].
            inversion Ho; subst e0.
            rewrite (resolve_eqx _ _ _ _ _ _ _ _ X Hres He). cbn zeta.
            split; [reflexivity|]. eexists. left. split; reflexivity. }
        destruct Hsame as (Hf & Y & [(-> & ->)|(-> & ->)]).
        -- split; [apply eqx_with_env_both; assumption|intros; exact Hf].
        -- split; [exact X|intros; exact Hf].
    + split; [|discriminate].
      apply eqx_render_like_e1; try assumption.
      * intros e H; congruence.
      * intros e H. destruct (Nat.eq_dec e e1) as [|Hne]; [assumption|].
        rewrite (env_of_op_eqx e1 s' s o e (eqx_sym _ _ _ X) H Hne) in Ho. discriminate.
  - destruct o as [auto caching tags store globals|e x v|e name b| |e p g|e name g|h d fa fl|p d fa fl|h];
      try discriminate.
    + (* CreateEnv *)
      cbn [step env_of_op]. split; [|discriminate].
      split; [exact C|]. split; [|split; [|split; [exact O|]]]; cbn [envs snd].
      * rewrite !app_length, L. reflexivity.
      * intros e He. destruct (Nat.lt_ge_cases e (length (envs s))) as [Hlt|Hge].
        -- rewrite !nth_error_app1 by lia. apply N; exact He.
        -- rewrite !nth_error_app2 by lia. rewrite L. reflexivity.
      * destruct (Nat.lt_ge_cases e1 (length (envs s))) as [Hlt|Hge].
        -- rewrite !nth_error_app1 by lia. exact K.
        -- rewrite !nth_error_app2 by lia. rewrite L. apply same_caching_refl.
    + (* SetGlobal *)
      cbn [step env_of_op]. destruct (Nat.eq_dec e e1) as [->|He].
      * split; [|intros e2 H; inversion H; congruence].
        destruct (nth_error (envs s) e1) as [E|] eqn:H1, (nth_error (envs s') e1) as [E'|] eqn:H2;
          cbn [snd]; try exact X.
        -- eapply eqx_with_env_l; [|exact H1|reflexivity].
           eapply eqx_with_env_r; [exact X|exact H2|reflexivity].
        -- eapply eqx_with_env_l; [exact X|exact H1|reflexivity].
        -- eapply eqx_with_env_r; [exact X|exact H2|reflexivity].
      * rewrite <- (N _ He). destruct (nth_error (envs s) e) as [E|]; cbn [fst snd].
        -- split; [apply eqx_with_env_both; assumption|reflexivity].
        -- split; [exact X|reflexivity].
    + (* SetFilter *)
      cbn [step env_of_op]. destruct (Nat.eq_dec e e1) as [->|He].
      * split; [|intros e2 H; inversion H; congruence].
        destruct (nth_error (envs s) e1) as [E|] eqn:H1, (nth_error (envs s') e1) as [E'|] eqn:H2;
          cbn [snd]; try exact X.
        -- eapply eqx_with_env_l; [|exact H1|reflexivity].
           eapply eqx_with_env_r; [exact X|exact H2|reflexivity].
        -- eapply eqx_with_env_l; [exact X|exact H1|reflexivity].
        -- eapply eqx_with_env_r; [exact X|exact H2|reflexivity].
      * rewrite <- (N _ He). destruct (nth_error (envs s) e) as [E|]; cbn [fst snd].
        -- split; [apply eqx_with_env_both; assumption|reflexivity].
        -- split; [exact X|reflexivity].
    + (* AdvanceClock *)
      cbn [step env_of_op]. split; [|discriminate].
      split; [cbn [clock snd]; congruence|]. split; [exact L|]. split; [exact N|]. split; [exact O|exact K].
    + (* FromString *)
      cbn [step env_of_op]. destruct (Nat.eq_dec e e1) as [->|He].
      * split; [|intros e2 H; inversion H; congruence].
        pose proof (eqx_nth_both e1 s s' e1 X) as Hn.
        destruct (nth_error (envs s) e1) as [E|], (nth_error (envs s') e1) as [E'|]; cbn [snd].
        -- apply eqx_create; exact X.
        -- destruct Hn as [_ Hn]. discriminate (Hn eq_refl).
        -- destruct Hn as [Hn _]. discriminate (Hn eq_refl).
        -- exact X.
      * rewrite <- (N _ He). destruct (nth_error (envs s) e) as [E|]; [|split; [exact X|reflexivity]].
        unfold create. rewrite Hlen.
        destruct (parse (e_tags E) (e_filters E) p); cbn [fst snd];
          (split; [apply eqx_push; [exact X|left; reflexivity]|reflexivity]).
    + (* GetTemplate *)
      cbn [step env_of_op]. destruct (Nat.eq_dec e e1) as [->|He].
      * split; [|intros e2 H; inversion H; congruence].
        pose proof (eqx_nth_both e1 s s' e1 X) as Hn.
        destruct (nth_error (envs s) e1) as [E|] eqn:H1, (nth_error (envs s') e1) as [E'|] eqn:H2.
        -- cbn [same_caching] in K. rewrite <- K. destruct (e_caching E) eqn:Hc.
           ++ (* caching on both sides: each side keeps s or rewrites environment e1 *)
              assert (HL : forall (t : sess) (E0 : envst) (Y : res obs * sess),
                        True) by (intros; exact I). clear HL.
              destruct (assoc name (e_cache E)); [|destruct (load_src E name)];
                (destruct (assoc name (e_cache E')); [|destruct (load_src E' name)]); cbn [snd];
                try exact X;
                try (eapply eqx_with_env_l; [|exact H1|reflexivity]);
                try (eapply eqx_with_env_r; [exact X|exact H2|cbn [e_caching upd_cache_held]; congruence]);
                try exact X.
           ++ apply eqx_create; exact X.
        -- destruct Hn as [_ Hn]. discriminate (Hn eq_refl).
        -- destruct Hn as [Hn _]. discriminate (Hn eq_refl).
        -- exact X.
      * rewrite <- (N _ He). destruct (nth_error (envs s) e) as [E|]; [|split; [exact X|reflexivity]].
        destruct (e_caching E).
        -- destruct (assoc name (e_cache E)); [|destruct (load_src E name)]; cbn [fst snd];
             (split; [try (apply eqx_with_env_both; assumption); exact X|reflexivity]).
        -- unfold create. rewrite Hlen.
           destruct (load_src E name); cbn [fst snd];
             (split; [apply eqx_push; [exact X|left; reflexivity]|reflexivity]).
Qed.

Lemma final_eqx fuel e1 : forall ops s s', eqx e1 s s' -> eqx e1 (final fuel s ops) (final fuel s' ops).
Proof.
  induction ops as [|o ops IH]; intros s s' X; simpl; [exact X|].
  apply IH. apply step_eqx. exact X.
Qed.

Lemma config_eqx fuel e1 s c : config_on e1 c = true -> eqx e1 (snd (step fuel s c)) s.
Proof.
  intro Hc. destruct c; try discriminate; cbn [config_on] in Hc; apply Nat.eqb_eq in Hc; subst e;
    cbn [step]; (destruct (nth_error (envs s) e1) as [E|] eqn:HE; cbn [snd]; [|apply eqx_refl]);
    (eapply eqx_with_env_l; [apply eqx_refl|exact HE|reflexivity]).
Qed.

(** Configuring environment e1 (env.globals[x] = v, env.filters[name] = f,
    del env.filters[name]) changes the result of no call that concerns another
    environment, whatever happens in between. *)
Theorem environments_independent fuel ops1 c ops2 o e1 e2 :
  config_on e1 c = true -> e2 <> e1 ->
  env_of_op (final fuel init (ops1 ++ c :: ops2)) o = Some e2 ->
  fst (step fuel (final fuel init (ops1 ++ c :: ops2)) o)
  = fst (step fuel (final fuel init (ops1 ++ ops2)) o).
Proof.
  intros Hc He Ho. rewrite !final_app in *. cbn [final] in *.
  set (s1 := final fuel init ops1) in *.
  assert (X : eqx e1 (final fuel (snd (step fuel s1 c)) ops2) (final fuel s1 ops2)).
  { apply final_eqx. apply config_eqx. exact Hc. }
  exact (proj2 (step_eqx fuel e1 _ _ o X) e2 Ho He).
Qed.

(** * 6. Every render starts from a fresh context *)

Definition fresh_state (r : rctx) : Prop :=
  r_locals r = [] /\ r_counters r = [] /\ r_cycles r = [] /\ r_stop r = []
  /\ r_macros r = [] /\ r_extends r = [] /\ r_disabled r = [] /\ r_out r = [].

(** In every history, the program of every Render step is run from the context
    [start_ctx]: no local, counter, cycle, stop index, macro or block stack in
    it; its globals are the render arguments over the template's global_data;
    the fault counters start at zero. *)
Theorem per_render_state_fresh fuel s h d fa fl e E p tg :
  resolve s h = Some (e, E, p, tg) ->
  fst (step fuel s (Render h d fa fl))
  = obs_of (fun rb => OText (r_out (fst rb)))
      (fst (run_gen (load_partial E) (renv_of E (clock s) fa fl) fuel p p
              {| l_cache := e_cache E; l_acc := 0; l_lds := 0 |} (start_ctx tg d)))
  /\ fresh_state (start_ctx tg d)
  /\ r_globals (start_ctx tg d) = [FMap d; FMap tg].
Proof.
  intro Hres. cbn [step]. rewrite Hres. cbn zeta. unfold render_prog. cbn [fst].
  split; [reflexivity|]. split; [|reflexivity]. repeat split.
Qed.

(** Rendering the same template with the same data twice in a row (clock not
    advanced) gives the same result: nothing of the first render is visible
    to the second. *)
Corollary render_repeatable fuel ops h d fa fl :
  guardedb fuel init ops = true ->
  fst (step fuel (final fuel init (ops ++ [Render h d fa fl])) (Render h d fa fl))
  = fst (step fuel (final fuel init ops) (Render h d fa fl)).
Proof.
  intro G.
  pose proof (render_unobservable_partial fuel ops (Render h d fa fl) [] (Render h d fa fl) eq_refl) as H.
  rewrite app_nil_r in H. apply H.
  rewrite guardedb_app, G. reflexivity.
Qed.

(** * 7. Non-vacuity: the hypotheses are satisfiable by non-trivial histories *)

Definition nv_c : str := [99]%N.
Definition nv_k : str := [107]%N.
Definition nv_base : str := [98;97]%N.
Definition nv_child : str := [99;104]%N.
Definition nv_b : str := [98]%N.
Definition nv_store : list (str * prog) :=
  [ (nv_base, [Text [91]%N; Incr nv_c; Block nv_b [Text [66]%N; EmitField nv_k]; EmitField nv_k; Text [93]%N]);
    (nv_child, [Extends nv_base; Block nv_b [Text [67]%N; EmitField nv_k; Incr nv_c]]) ].
Definition nv_data : gmap := [(s_d, VDrop [(nv_k, [75]%N)])].
Definition nv_ops : list hop :=
  [ CreateEnv false true all_tags nv_store [];
    GetTemplate 1 nv_child [];
    Render (Cached 1 nv_child) nv_data (Some 2) None;      (* fails at the 2nd data access, in the base *)
    AdvanceClock;
    SetFilter 1 [115;104]%N (Some FBang);
    GetTemplate 1 nv_base [];
    Render (Cached 1 nv_base) nv_data None None ].

Example nonvacuous_history :
  guardedb 60 init nv_ops = true
  /\ map fst (run 60 init nv_ops)
     = [Ok OUnit; Ok (OHandleCached 1 nv_child); PyExc OtherPyError; Ok OUnit; Ok OUnit;
        Ok (OHandleCached 1 nv_base); Ok (OText [91;48;66;75;75;93]%N)]
  /\ fst (step 60 (final 60 init nv_ops) (Render (Cached 1 nv_child) nv_data None None))
     = Ok (OText [91;48;67;75;49;75;93]%N)
  /\ fst (step 60 (final 60 init (erase nv_ops)) (Render (Cached 1 nv_child) nv_data None None))
     = Ok (OText [91;48;67;75;49;75;93]%N)
  (* the failed render did leave something behind: the parsed base template in the cache *)
  /\ snap (final 60 init (firstn 3 nv_ops)) <> snap (final 60 init (erase (firstn 3 nv_ops))).
Proof. vm_compute. repeat split. discriminate. Qed.

(** environments_independent: a configuration step on environment 1 and a render on environment 2 *)
Definition nv_two : list hop :=
  [ CreateEnv false false all_tags [] []; CreateEnv true false all_tags [] [];
    FromString 1 [EmitFilt [120]%N [117;112;99;97;115;101]%N] [];
    FromString 2 [EmitFilt [120]%N [117;112;99;97;115;101]%N] [] ].

Example nonvacuous_environments :
  let ops1 := nv_two in
  let c := SetFilter 1 [117;112;99;97;115;101]%N None in
  let o := Render (Own 1) [([120]%N, VStr [97;60]%N false)] None None in
  config_on 1 c = true
  /\ env_of_op (final 60 init (ops1 ++ [c])) o = Some 2
  /\ fst (step 60 (final 60 init (ops1 ++ [c])) o) = Ok (OText [65;38;108;116;59]%N)
  /\ fst (step 60 (final 60 init (ops1 ++ [c])) (Render (Own 0) [([120]%N, VStr [97;60]%N false)] None None))
     = LErr UnknownFilterError None.
Proof. vm_compute. repeat split. Qed.

(** a failing render on DEFAULT_ENVIRONMENT (non-caching): raises, session identical *)
Example nonvacuous_unchanged :
  let s := final 60 init [FromString 0 [Incr nv_c; EmitField nv_k; Incr nv_c] []] in
  let o := Render (Own 0) nv_data (Some 1) None in
  is_render_like o = true
  /\ forallb (fun E => negb (e_caching E)) (envs s) = true
  /\ fst (step 60 s o) = PyExc OtherPyError
  /\ fst (step 60 s (Render (Own 0) nv_data None None)) = Ok (OText [48;75;49]%N).
Proof. vm_compute. repeat split. Qed.
