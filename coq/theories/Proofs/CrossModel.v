(** Consistency between independently written kernels: the transcription of
    LoopExpression._slice in the Core interpreter (Core/Render.v, used by C01 /
    C07) and the one in Kernels/AsyncTwin.v (written for C03 by another
    engineer) denote the same function. *)
From LQ Require Import Core.Render.
From LQ Require Kernels.AsyncTwin.
From Coq Require Import Lia.

Module T := LQ.Kernels.AsyncTwin.

Definition to_ov (offset : option Z) (is_continue : bool) : T.offset_val :=
  if is_continue then T.OvContinue
  else match offset with Some z => T.OvInt z | None => T.OvNone end.

(** what Core's [for_run] passes to its [loop_slice] *)
Definition core_slice (it : list Z) (limit offset : option Z) (ic : bool) (prev : Z) (rv : bool) :=
  loop_slice (map VInt it)
             (option_map (Z.max 0) limit)
             (option_map (fun z => Z.min (Z.max z 0) (Z.of_nat (length (map VInt it)))) offset)
             ic prev rv.

Lemma map_slice (it : list Z) a b :
  map VInt (firstn a (skipn b it)) = firstn a (skipn b (map VInt it)).
Proof. rewrite skipn_map, firstn_map. reflexivity. Qed.

Theorem loop_slice_models_agree it limit offset ic prev rv :
  (0 <= prev)%Z ->
  (ic = true -> offset = None) ->
  let '(items, len, stop) := core_slice it limit offset ic prev rv in
  exists out,
    T.loop_slice it rv prev limit (to_ov offset ic) = Ok out /\
    items = map VInt (T.lo_items out) /\ len = T.lo_length out /\ stop = T.lo_stopindex out.
Proof.
  intros Hp Hic. unfold core_slice, loop_slice, T.loop_slice, to_ov.
  rewrite map_length.
  set (L := Z.of_nat (length it)).
  destruct ic.
  - (* offset: continue *)
    rewrite (Hic eq_refl). cbn [option_map].
    destruct limit as [l|]; cbn [option_map].
    + set (len2 := Z.min (Z.max (L - prev) 0) (Z.max 0 l)).
      assert (E1 : (if (prev =? 0)%Z then len2 else prev + len2)%Z
                   = (if Z.eqb prev 0 then Z.min (Z.max (L - prev) 0) (Z.max l 0)
                      else prev + Z.min (Z.max (L - prev) 0) (Z.max l 0))%Z)
        by (unfold len2; rewrite (Z.max_comm 0 l); reflexivity).
      eexists. split.
      * destruct ((prev <? 0) || (_ <? 0))%Z eqn:Eneg.
        -- exfalso. apply orb_true_iff in Eneg as [H|H]; apply Z.ltb_lt in H;
             unfold L in *;
             repeat match goal with H0 : context [if ?b then _ else _] |- _ => destruct b end; lia.
        -- reflexivity.
      * cbn [T.lo_items T.lo_length T.lo_stopindex].
        unfold T.slice_list. rewrite <- E1. unfold len2. rewrite (Z.max_comm 0 l).
        repeat split; destruct rv; rewrite ?map_rev, map_slice; reflexivity.
    + set (len2 := Z.max (L - prev) 0).
      eexists. split.
      * destruct ((prev <? 0) || (_ <? 0))%Z eqn:Eneg.
        -- exfalso. apply orb_true_iff in Eneg as [H|H]; apply Z.ltb_lt in H;
             unfold L in *;
             repeat match goal with H0 : context [if ?b then _ else _] |- _ => destruct b end; lia.
        -- reflexivity.
      * cbn [T.lo_items T.lo_length T.lo_stopindex]. unfold T.slice_list.
        repeat split; destruct rv; rewrite ?map_rev, map_slice; reflexivity.
  - destruct limit as [l|], offset as [o|]; cbn [option_map].
    + (* limit and offset *)
      set (o' := Z.min (Z.max o 0) L).
      eexists. split.
      * destruct ((o' <? 0) || (_ <? 0))%Z eqn:Eneg.
        -- exfalso. apply orb_true_iff in Eneg as [H|H]; apply Z.ltb_lt in H;
             unfold o', L in *;
             repeat match goal with H0 : context [if ?b then _ else _] |- _ => destruct b end; lia.
        -- reflexivity.
      * cbn [T.lo_items T.lo_length T.lo_stopindex]. unfold T.slice_list.
        rewrite (Z.max_comm 0 l).
        repeat split; destruct rv; rewrite ?map_rev, map_slice; reflexivity.
    + (* limit only *)
      eexists. split.
      * destruct ((0 <? 0) || (_ <? 0))%Z eqn:Eneg.
        -- exfalso. apply orb_true_iff in Eneg as [H|H]; apply Z.ltb_lt in H; unfold L in *;
             repeat match goal with H0 : context [if ?b then _ else _] |- _ => destruct b end; lia.
        -- reflexivity.
      * cbn [T.lo_items T.lo_length T.lo_stopindex]. unfold T.slice_list.
        rewrite (Z.max_comm 0 l). simpl (0 =? 0)%Z. cbn iota.
        repeat split; destruct rv; rewrite ?map_rev, map_slice; reflexivity.
    + (* offset only *)
      set (o' := Z.min (Z.max o 0) L).
      eexists. split.
      * destruct ((o' <? 0) || (_ <? 0))%Z eqn:Eneg.
        -- exfalso. apply orb_true_iff in Eneg as [H|H]; apply Z.ltb_lt in H;
             unfold o', L in *;
             repeat match goal with H0 : context [if ?b then _ else _] |- _ => destruct b end; lia.
        -- reflexivity.
      * cbn [T.lo_items T.lo_length T.lo_stopindex]. unfold T.slice_list.
        repeat split; destruct rv; rewrite ?map_rev, map_slice; reflexivity.
    + (* neither *)
      eexists. split; [reflexivity|].
      cbn [T.lo_items T.lo_length T.lo_stopindex].
      repeat split; destruct rv; rewrite ?map_rev; reflexivity.
Qed.
