(** Proofs/StrScan_proofs.v — string literals: every valid spelling is scanned
    as one literal and denotes exactly the intended string, at every parse
    site; whatever the scanners and [unescape] accept is a valid spelling. *)
From LQ Require Import Base.Str Kernels.Unescape Kernels.StrScan Proofs.Unescape_proofs.
Local Open Scope N_scope.

Definition is_quote (q : N) : Prop := q = DQ \/ q = SQ.

(** * Spellings of a string inside quotes [q] *)

(** The two-character escapes valid inside quotes [q]:
    [\\ \/ \b \f \n \r \t \$] and the escaped quote [\q] itself. *)
Definition lit_escape (q e : N) : option N :=
  if e =? q then Some q else if e =? DQ then None else simple_escape e.

(** [LPiece q c p]: [p] is a spelling of the single character [c]. *)
Inductive LPiece (q : N) : char -> str -> Prop :=
| LP_self c : c <> BSL -> c <> q -> 8 <= c -> LPiece q c [c]
| LP_esc e c : lit_escape q e = Some c -> LPiece q c [BSL; e]
| LP_hex a b c d cp :
    hex4 a b c d = Some cp -> is_surrogate cp = false -> 8 <= cp ->
    LPiece q cp [BSL; CH_u; a; b; c; d]
| LP_pair a b c d e f g h hi lo :
    hex4 a b c d = Some hi -> is_high_surrogate hi = true ->
    hex4 e f g h = Some lo -> is_low_surrogate lo = true ->
    LPiece q (pair_value hi lo) [BSL; CH_u; a; b; c; d; BSL; CH_u; e; f; g; h].

(** [Enc q s raw]: [raw] is a valid spelling of [s] inside quotes [q]. *)
Inductive Enc (q : N) : str -> str -> Prop :=
| Enc_nil : Enc q [] []
| Enc_cons c p s r : LPiece q c p -> Enc q s r -> Enc q (c :: s) (p ++ r).

(** [EncT q s raw]: a valid spelling in which no [$] written as itself is
    directly followed by a [{] written as itself (that would start an
    interpolation in a template string). *)
Inductive EncT (q : N) : str -> str -> Prop :=
| EncT_nil : EncT q [] []
| EncT_cons c p s r :
    LPiece q c p -> EncT q s r ->
    ~ (p = [DOLLAR] /\ hd_error r = Some LBRACE) ->
    EncT q (c :: s) (p ++ r).

Lemma EncT_Enc q s raw : EncT q s raw -> Enc q s raw.
Proof. induction 1; constructor; assumption. Qed.

(** * Small facts about characters *)

Lemma hexval_facts d x : hexval d = Some x ->
  d <> BSL /\ d <> DQ /\ d <> SQ /\ d <> DOLLAR.
Proof.
  unfold hexval, BSL, DQ, SQ, DOLLAR.
  destruct (N.leb_spec 48 d), (N.leb_spec d 57); cbn [andb]; try (intros _; lia).
  all: destruct (N.leb_spec 65 d), (N.leb_spec d 70); cbn [andb]; try (intros _; lia).
  all: destruct (N.leb_spec 97 d), (N.leb_spec d 102); cbn [andb]; try (intros _; lia).
  all: discriminate.
Qed.

Lemma hex4_facts a b c d v : hex4 a b c d = Some v ->
  exists x y z w, hexval a = Some x /\ hexval b = Some y /\ hexval c = Some z /\ hexval d = Some w.
Proof.
  unfold hex4.
  destruct (hexval a) as [x|], (hexval b) as [y|], (hexval c) as [z|], (hexval d) as [w|];
    try discriminate. intros _. exists x, y, z, w. repeat split; reflexivity.
Qed.

Lemma simple_escape_is_escape e c : simple_escape e = Some c -> e = DQ \/ is_escape e = true.
Proof.
  unfold simple_escape, is_escape.
  destruct (e =? DQ) eqn:E0; [left; apply N.eqb_eq; assumption|right].
  revert H. 
  repeat (match goal with |- context [if ?b then _ else _] => destruct b eqn:?; 
            [intros _; rewrite ?orb_true_r; reflexivity|] end).
  discriminate.
Qed.

Lemma lit_escape_scan q e c : lit_escape q e = Some c -> is_escape e || (e =? q) = true.
Proof.
  unfold lit_escape. destruct (e =? q); [intros _; apply orb_true_r|].
  destruct (e =? DQ) eqn:Ed; [discriminate|]. intros H.
  destruct (simple_escape_is_escape _ _ H) as [E|E];
    [apply N.eqb_neq in Ed; contradiction|rewrite E; reflexivity].
Qed.

(** The first character of a non-empty spelling is never the quote. *)
Lemma LPiece_hd q c p : is_quote q -> LPiece q c p -> exists x t, p = x :: t /\ x <> q.
Proof.
  intros Hq H. destruct H.
  - eexists _, _; split; [reflexivity|assumption].
  - eexists _, _; split; [reflexivity|]. destruct Hq; subst q; discriminate.
  - eexists _, _; split; [reflexivity|]. destruct Hq; subst q; discriminate.
  - eexists _, _; split; [reflexivity|]. destruct Hq; subst q; discriminate.
Qed.

Lemma Enc_hd q s raw : is_quote q -> Enc q s raw -> forall rest,
  match raw ++ q :: rest with x :: _ => raw = [] \/ x <> q | [] => False end.
Proof.
  intros Hq H rest. destruct H as [|c p s r Hp Hr]; [left; reflexivity|].
  destruct (LPiece_hd _ _ _ Hq Hp) as (x & t & -> & Hx). right; assumption.
Qed.

(** * A. Both scanners accept every spelling as one literal *)

Definition prepend (p : str) (r : res (str * str)) : res (str * str) :=
  do x <- r ;; let '(raw, rest) := x in Ok (p ++ raw, rest).

Lemma asl_self q c X : c <> BSL -> c <> q ->
  accept_string_loop q (c :: X) = prepend [c] (accept_string_loop q X).
Proof.
  intros H1 H2. cbn [accept_string_loop].
  apply N.eqb_neq in H1, H2. rewrite H1, H2. unfold prepend.
  destruct (accept_string_loop q X) as [[raw rest]| | |]; reflexivity.
Qed.

Lemma asl_pair q e X : is_escape e || (e =? q) = true ->
  accept_string_loop q (BSL :: e :: X) = prepend [BSL; e] (accept_string_loop q X).
Proof.
  intros H. cbn [accept_string_loop]. rewrite N.eqb_refl, H. unfold prepend.
  destruct (accept_string_loop q X) as [[raw rest]| | |]; reflexivity.
Qed.

Lemma asl_hex4 q a b c d X x y z w :
  is_quote q ->
  hexval a = Some x -> hexval b = Some y -> hexval c = Some z -> hexval d = Some w ->
  accept_string_loop q (a :: b :: c :: d :: X) = prepend [a; b; c; d] (accept_string_loop q X).
Proof.
  intros Hq Ha Hb Hc Hd.
  apply hexval_facts in Ha as (A1 & A2 & A3 & _), Hb as (B1 & B2 & B3 & _),
    Hc as (C1 & C2 & C3 & _), Hd as (D1 & D2 & D3 & _).
  assert (a <> q /\ b <> q /\ c <> q /\ d <> q) as (Aq & Bq & Cq & Dq)
    by (destruct Hq; subst q; auto).
  rewrite !asl_self by assumption. unfold prepend.
  destruct (accept_string_loop q X) as [[raw rest]| | |]; reflexivity.
Qed.

Lemma prepend_prepend p1 p2 r : prepend p1 (prepend p2 r) = prepend (p1 ++ p2) r.
Proof.
  unfold prepend. destruct r as [[raw rest]| | |]; cbn [bind]; try reflexivity.
  rewrite app_assoc. reflexivity.
Qed.

Lemma asl_piece q c p X : is_quote q -> LPiece q c p ->
  accept_string_loop q (p ++ X) = prepend p (accept_string_loop q X).
Proof.
  intros Hq H. destruct H as [c H1 H2 H8|e c He|a b c d cp Hh _ _|a b c d e f g h hi lo Hh _ Hl _].
  - apply asl_self; assumption.
  - apply asl_pair. eapply lit_escape_scan; eassumption.
  - apply hex4_facts in Hh as (x & y & z & w & Ha & Hb & Hc & Hd).
    change ([BSL; CH_u; a; b; c; d] ++ X) with (BSL :: CH_u :: a :: b :: c :: d :: X).
    rewrite asl_pair by reflexivity.
    rewrite (asl_hex4 q a b c d X x y z w) by assumption.
    rewrite prepend_prepend. reflexivity.
  - apply hex4_facts in Hh as (x & y & z & w & Ha & Hb & Hc & Hd).
    apply hex4_facts in Hl as (x' & y' & z' & w' & He & Hf & Hg & Hhh).
    change ([BSL; CH_u; a; b; c; d; BSL; CH_u; e; f; g; h] ++ X)
      with (BSL :: CH_u :: a :: b :: c :: d :: BSL :: CH_u :: e :: f :: g :: h :: X).
    rewrite asl_pair by reflexivity.
    rewrite (asl_hex4 q a b c d _ x y z w) by assumption.
    rewrite asl_pair by reflexivity.
    rewrite (asl_hex4 q e f g h X x' y' z' w') by assumption.
    rewrite !prepend_prepend. reflexivity.
Qed.

Lemma asl_Enc q s raw rest : is_quote q -> Enc q s raw ->
  accept_string_loop q (raw ++ q :: rest) = Ok (raw, q :: rest).
Proof.
  intros Hq H. induction H as [|c p s r Hp Hr IH].
  - cbn [app accept_string_loop].
    replace (q =? BSL) with false by (symmetry; apply N.eqb_neq; destruct Hq; subst q; discriminate).
    rewrite N.eqb_refl. reflexivity.
  - rewrite <- app_assoc, (asl_piece q c p _ Hq Hp), IH. unfold prepend. cbn [bind].
    reflexivity.
Qed.

Lemma accept_string_Enc q s raw rest : is_quote q -> Enc q s raw ->
  accept_string q (raw ++ q :: rest) = Ok (raw, q :: rest).
Proof.
  intros Hq H. unfold accept_string.
  pose proof (Enc_hd q s raw Hq H rest) as Hh.
  pose proof (asl_Enc q s raw rest Hq H) as Hl.
  destruct (raw ++ q :: rest) as [|x t] eqn:E; [contradiction|].
  destruct Hh as [->|Hx].
  - cbn [app] in E. inversion E; subst. rewrite N.eqb_refl. reflexivity.
  - apply N.eqb_neq in Hx. rewrite Hx. exact Hl.
Qed.

(** * B. Every spelling denotes exactly the intended string, at every site *)

Lemma lit_escape_DQ e c : lit_escape DQ e = Some c -> simple_escape e = Some c.
Proof.
  unfold lit_escape. destruct (e =? DQ) eqn:E; [|tauto].
  apply N.eqb_eq in E; subst e. intros H; inversion H. reflexivity.
Qed.

Lemma LPiece_DQ_UPiece c p : LPiece DQ c p -> UPiece c p.
Proof.
  destruct 1.
  - constructor; assumption.
  - constructor. apply lit_escape_DQ; assumption.
  - constructor; assumption.
  - econstructor; eassumption.
Qed.

Lemma Enc_DQ_UEnc s raw : Enc DQ s raw -> UEnc s raw.
Proof. induction 1; constructor; [apply LPiece_DQ_UPiece|]; assumption. Qed.

(** [replace("\\'", "'")] on a single-quoted spelling works piece by piece. *)
Definition hd_not_sq (r : str) : Prop := match r with x :: _ => x <> SQ | [] => True end.

Lemma replace_cons_nb c r : c <> BSL -> replace_bsl_sq (c :: r) = c :: replace_bsl_sq r.
Proof.
  intros H. cbn [replace_bsl_sq]. destruct r as [|d r']; [reflexivity|].
  apply N.eqb_neq in H. rewrite H. reflexivity.
Qed.

Lemma replace_bsl_nsq r : hd_not_sq r -> replace_bsl_sq (BSL :: r) = BSL :: replace_bsl_sq r.
Proof.
  intros H. cbn [replace_bsl_sq]. destruct r as [|d r']; [reflexivity|].
  cbn [hd_not_sq] in H. apply N.eqb_neq in H. rewrite H, andb_false_r. reflexivity.
Qed.

Lemma replace_bsl_sq_pair r : replace_bsl_sq (BSL :: SQ :: r) = SQ :: replace_bsl_sq r.
Proof. cbn [replace_bsl_sq]. rewrite !N.eqb_refl. reflexivity. Qed.

Lemma replace_hex4 a b c d r x y z w :
  hexval a = Some x -> hexval b = Some y -> hexval c = Some z -> hexval d = Some w ->
  replace_bsl_sq (a :: b :: c :: d :: r) = a :: b :: c :: d :: replace_bsl_sq r.
Proof.
  intros Ha Hb Hc Hd.
  apply hexval_facts in Ha as (A1 & _), Hb as (B1 & _), Hc as (C1 & _), Hd as (D1 & _).
  rewrite !replace_cons_nb by assumption. reflexivity.
Qed.

Lemma lit_escape_SQ e c : lit_escape SQ e = Some c ->
  (e = SQ /\ c = SQ) \/ (e <> SQ /\ simple_escape e = Some c).
Proof.
  unfold lit_escape. destruct (e =? SQ) eqn:E.
  - apply N.eqb_eq in E. intros H; inversion H. left; split; [assumption|reflexivity].
  - apply N.eqb_neq in E. destruct (e =? DQ); [discriminate|]. right; split; assumption.
Qed.

Lemma LPiece_SQ_replace c p r : hd_not_sq r -> LPiece SQ c p ->
  exists p', UPiece c p' /\ replace_bsl_sq (p ++ r) = p' ++ replace_bsl_sq r.
Proof.
  intros Hr H. destruct H as [c H1 H2 H8|e c He|a b c d cp Hh Hs H8|a b c d e f g h hi lo Hh Hhi Hl Hlo].
  - exists [c]. split; [constructor; assumption|]. apply replace_cons_nb; assumption.
  - apply lit_escape_SQ in He as [[-> ->]|[Hne Hs]].
    + exists [SQ]. split; [constructor; [discriminate|vm_compute; discriminate]|].
      apply replace_bsl_sq_pair.
    + exists [BSL; e]. split; [constructor; assumption|].
      cbn [app]. rewrite replace_bsl_nsq by exact Hne.
      destruct (N.eq_dec e BSL) as [->|Hb].
      * rewrite replace_bsl_nsq by exact Hr. reflexivity.
      * rewrite replace_cons_nb by assumption. reflexivity.
  - exists [BSL; CH_u; a; b; c; d]. split; [constructor; assumption|].
    apply hex4_facts in Hh as (x & y & z & w & Ha & Hb & Hc & Hd).
    cbn [app]. rewrite replace_bsl_nsq by (cbn; discriminate).
    rewrite replace_cons_nb by discriminate.
    rewrite (replace_hex4 a b c d r x y z w) by assumption. reflexivity.
  - exists [BSL; CH_u; a; b; c; d; BSL; CH_u; e; f; g; h]. split; [econstructor; eassumption|].
    apply hex4_facts in Hh as (x & y & z & w & Ha & Hb & Hc & Hd).
    apply hex4_facts in Hl as (x' & y' & z' & w' & He & Hf & Hg & Hhh).
    cbn [app]. rewrite replace_bsl_nsq by (cbn; discriminate).
    rewrite replace_cons_nb by discriminate.
    rewrite (replace_hex4 a b c d _ x y z w) by assumption.
    rewrite replace_bsl_nsq by (cbn; discriminate).
    rewrite replace_cons_nb by discriminate.
    rewrite (replace_hex4 e f g h r x' y' z' w') by assumption. reflexivity.
Qed.

Lemma Enc_SQ_hd s raw : Enc SQ s raw -> hd_not_sq raw.
Proof.
  destruct 1 as [|c p s r Hp Hr]; [exact I|].
  destruct (LPiece_hd SQ c p (or_intror eq_refl) Hp) as (x & t & -> & Hx). exact Hx.
Qed.

Lemma Enc_SQ_UEnc s raw : Enc SQ s raw -> UEnc s (replace_bsl_sq raw).
Proof.
  induction 1 as [|c p s r Hp Hr IH]; [constructor|].
  destruct (LPiece_SQ_replace c p r (Enc_SQ_hd _ _ Hr) Hp) as (p' & Hp' & ->).
  constructor; assumption.
Qed.

Lemma site_value_eq st q raw : is_quote q ->
  site_value st q raw = unescape (if q =? SQ then replace_bsl_sq raw else raw).
Proof. intros [->| ->]; destruct st; reflexivity. Qed.

Lemma site_value_Enc st q s raw : is_quote q -> Enc q s raw -> site_value st q raw = Ok s.
Proof.
  intros Hq H. rewrite site_value_eq by assumption. apply unescape_UEnc.
  destruct Hq; subst q; cbn [N.eqb Pos.eqb SQ DQ].
  - apply Enc_DQ_UEnc; assumption.
  - apply Enc_SQ_UEnc; assumption.
Qed.

(** * D. The template-string scanner *)

Section TemplateStringProofs.
  Variable E : Type.
  Variable sub : str -> res (E * str).
  Notation ts_loop := (ts_loop E sub).
  Notation accept_template_string := (accept_template_string E sub).

  Definition prependT (p : str) (r : res (str * list (part E) * str))
    : res (str * list (part E) * str) :=
    do x <- r ;; let '(seg, ps, rest) := x in Ok (p ++ seg, ps, rest).

  Definition interp_start (c : N) (X : str) : bool :=
    (c =? DOLLAR) && match X with b :: _ => b =? LBRACE | [] => false end.

  Lemma tsl_self q c X f : c <> BSL -> c <> q -> interp_start c X = false ->
    ts_loop (S f) q (c :: X) = prependT [c] (ts_loop f q X).
  Proof.
    intros H1 H2 H3. cbn [StrScan.ts_loop]. apply N.eqb_neq in H1, H2.
    unfold interp_start in H3. rewrite H1, H3, H2. unfold prependT.
    destruct (ts_loop f q X) as [[[seg ps] rest]| | |]; reflexivity.
  Qed.

  Lemma tsl_pair q e X f : is_escape e || (e =? q) = true ->
    ts_loop (S f) q (BSL :: e :: X) = prependT [BSL; e] (ts_loop f q X).
  Proof.
    intros H. cbn [StrScan.ts_loop]. rewrite N.eqb_refl, H. unfold prependT.
    destruct (ts_loop f q X) as [[[seg ps] rest]| | |]; reflexivity.
  Qed.

  Lemma prependT_prependT p1 p2 r : prependT p1 (prependT p2 r) = prependT (p1 ++ p2) r.
  Proof.
    unfold prependT. destruct r as [[[seg ps] rest]| | |]; cbn [bind]; try reflexivity.
    rewrite app_assoc. reflexivity.
  Qed.

  Lemma tsl_hex4 q a b c d X f x y z w :
    is_quote q ->
    hexval a = Some x -> hexval b = Some y -> hexval c = Some z -> hexval d = Some w ->
    ts_loop (4 + f) q (a :: b :: c :: d :: X)
    = prependT [a; b; c; d] (ts_loop f q X).
  Proof.
    intros Hq Ha Hb Hc Hd.
    apply hexval_facts in Ha as (A1 & A2 & A3 & A4), Hb as (B1 & B2 & B3 & B4),
      Hc as (C1 & C2 & C3 & C4), Hd as (D1 & D2 & D3 & D4).
    assert (a <> q /\ b <> q /\ c <> q /\ d <> q) as (Aq & Bq & Cq & Dq)
      by (destruct Hq; subst q; auto).
    assert (Hi : forall c X, c <> DOLLAR -> interp_start c X = false).
    { intros c' X' Hc'. unfold interp_start. apply N.eqb_neq in Hc'. rewrite Hc'. reflexivity. }
    change (4 + f)%nat with (S (S (S (S f)))).
    rewrite !tsl_self by auto. rewrite !prependT_prependT. reflexivity.
  Qed.

  (** Scanning one piece: it uses at most as much fuel as it has characters. *)
  Lemma tsl_piece q c p X f : is_quote q -> LPiece q c p ->
    ~ (p = [DOLLAR] /\ hd_error X = Some LBRACE) ->
    exists d, ts_loop (length p + f) q (p ++ X) = prependT p (ts_loop (f + d) q X).
  Proof.
    intros Hq H Hn.
    destruct H as [c H1 H2 H8|e c He|a b c d cp Hh _ _|a b c d e f' g h hi lo Hh _ Hl _].
    - exists 0%nat. rewrite Nat.add_0_r. apply tsl_self; try assumption.
      unfold interp_start. destruct (c =? DOLLAR) eqn:Ec; [|reflexivity].
      apply N.eqb_eq in Ec; subst c. destruct X as [|b X']; [reflexivity|].
      cbn [andb]. apply N.eqb_neq. intros ->. apply Hn. split; reflexivity.
    - exists 1%nat. cbn [length app Nat.add]. rewrite tsl_pair by (eapply lit_escape_scan; eassumption).
      replace (f + 1)%nat with (S f) by lia. reflexivity.
    - exists 1%nat. apply hex4_facts in Hh as (x & y & z & w & Ha & Hb & Hc & Hd).
      cbn [length app Nat.add]. rewrite tsl_pair by reflexivity.
      replace (S (S (S (S (S f))))) with (4 + (f + 1))%nat by lia.
      rewrite (tsl_hex4 q a b c d X _ x y z w) by assumption.
      rewrite prependT_prependT. reflexivity.
    - exists 2%nat. apply hex4_facts in Hh as (x & y & z & w & Ha & Hb & Hc & Hd).
      apply hex4_facts in Hl as (x' & y' & z' & w' & He & Hf & Hg & Hhh).
      cbn [length app Nat.add]. rewrite tsl_pair by reflexivity.
      replace (S (S (S (S (S (S (S (S (S (S (S f))))))))))) with (4 + S (4 + (f + 2)))%nat by lia.
      rewrite (tsl_hex4 q a b c d _ _ x y z w) by assumption.
      rewrite tsl_pair by reflexivity.
      rewrite (tsl_hex4 q e f' g h X _ x' y' z' w') by assumption.
      rewrite !prependT_prependT. reflexivity.
  Qed.

  Lemma prependT_nil r : prependT [] r = r.
  Proof. unfold prependT. destruct r as [[[seg ps] rest]| | |]; reflexivity. Qed.

  Lemma tsl_EncT q s raw : is_quote q -> EncT q s raw ->
    forall X f, hd_error X <> Some LBRACE -> X <> [] ->
    exists d, ts_loop (length raw + f) q (raw ++ X)
              = prependT raw (ts_loop (f + d) q X).
  Proof.
    intros Hq H. induction H as [|c p s r Hp Hr IH Hn]; intros X f HX HXn.
    - exists 0%nat. rewrite prependT_nil, Nat.add_0_r. reflexivity.
    - assert (Hn' : ~ (p = [DOLLAR] /\ hd_error (r ++ X) = Some LBRACE)).
      { intros [E1 E2]. destruct r as [|y r']; [exact (HX E2)|]. apply Hn. split; assumption. }
      rewrite <- app_assoc, app_length, <- Nat.add_assoc.
      destruct (tsl_piece q c p (r ++ X) (length r + f) Hq Hp Hn') as (d1 & ->).
      replace (length r + f + d1)%nat with (length r + (f + d1))%nat by lia.
      destruct (IH X (f + d1)%nat HX HXn) as (d2 & ->).
      exists (d1 + d2)%nat. rewrite prependT_prependT.
      replace (f + d1 + d2)%nat with (f + (d1 + d2))%nat by lia. reflexivity.
  Qed.

  Lemma tsl_close q rest f : is_quote q ->
    ts_loop (S f) q (q :: rest) = Ok ([], [], rest).
  Proof.
    intros Hq. cbn [StrScan.ts_loop].
    destruct Hq; subst q; reflexivity.
  Qed.

  (** An item of a template string: [${ body }] followed by literal text. *)
  Record item := { it_body : str; it_expr : E; it_str : str; it_raw : str }.

  Definition item_ok (q : N) (it : item) : Prop :=
    EncT q (it_str it) (it_raw it)
    /\ forall X, sub (it_body it ++ RBRACE :: X) = Ok (it_expr it, RBRACE :: X).

  Fixpoint items_src (items : list item) (tail : str) : str :=
    match items with
    | [] => tail
    | it :: its => DOLLAR :: LBRACE :: it_body it ++ RBRACE :: it_raw it ++ items_src its tail
    end.

  Definition items_parts (items : list item) : list (part E) :=
    flat_map (fun it => PExpr (it_expr it) :: emit E (it_raw it)) items.

  Lemma items_src_hd items q rest :
    hd_error (items_src items (q :: rest)) <> Some LBRACE /\ items_src items (q :: rest) <> [] \/ ~ is_quote q.
  Proof.
    destruct (N.eq_dec q DQ) as [->|H1]; [|destruct (N.eq_dec q SQ) as [->|H2]].
    - left. destruct items; cbn; split; discriminate.
    - left. destruct items; cbn; split; discriminate.
    - right. intros [?|?]; contradiction.
  Qed.

  Lemma ts_loop_items q rest : is_quote q -> forall items raw0 s0 F,
    EncT q s0 raw0 -> Forall (item_ok q) items ->
    (length (raw0 ++ items_src items (q :: rest)) < F)%nat ->
    ts_loop F q (raw0 ++ items_src items (q :: rest))
    = Ok (raw0, items_parts items, rest).
  Proof.
    intros Hq items. induction items as [|it its IH]; intros raw0 s0 F H0 Hits HF.
    - cbn [items_src] in *. rewrite app_length in HF. cbn [length] in HF.
      assert (HX : hd_error (q :: rest) <> Some LBRACE) by (destruct Hq; subst q; discriminate).
      destruct (tsl_EncT q s0 raw0 Hq H0 (q :: rest) (F - length raw0) HX ltac:(discriminate)) as (d & Hd).
      replace (length raw0 + (F - length raw0))%nat with F in Hd by lia. rewrite Hd.
      destruct (F - length raw0 + d)%nat as [|f'] eqn:Ef; [lia|].
      rewrite tsl_close by assumption. unfold prependT. cbn [bind]. rewrite app_nil_r. reflexivity.
    - inversion Hits as [|? ? [Hraw Hsub] Hits']; subst.
      cbn [items_src] in *.
      set (Y := it_raw it ++ items_src its (q :: rest)) in *.
      set (X := DOLLAR :: LBRACE :: it_body it ++ RBRACE :: Y) in *.
      assert (HX : hd_error X <> Some LBRACE) by discriminate.
      destruct (tsl_EncT q s0 raw0 Hq H0 X (F - length raw0) HX ltac:(discriminate)) as (d & Hd).
      rewrite app_length in HF.
      replace (length raw0 + (F - length raw0))%nat with F in Hd by lia. rewrite Hd.
      assert (HlX : length X = (3 + length (it_body it) + length Y)%nat).
      { unfold X. cbn [length]. rewrite app_length. cbn [length]. lia. }
      destruct (F - length raw0 + d)%nat as [|f'] eqn:Ef; [lia|].
      unfold X at 1. cbn [StrScan.ts_loop tl]. rewrite !N.eqb_refl.
      change (DOLLAR =? BSL) with false. cbn [andb].
      rewrite Hsub. cbn [bind]. rewrite N.eqb_refl. unfold Y.
      rewrite (IH (it_raw it) (it_str it) f' Hraw Hits') by (fold Y; lia).
      cbn [bind]. unfold prependT. cbn [bind]. rewrite app_nil_r. reflexivity.
  Qed.
End TemplateStringProofs.

Section TemplateStringTheorems.
  Variable E : Type.
  Variable sub : str -> res (E * str).

  Lemma LPiece_nonempty q c p : LPiece q c p -> p <> [].
  Proof. destruct 1; discriminate. Qed.

  Lemma Enc_nil_raw q s : Enc q s [] -> s = [].
  Proof.
    inversion 1 as [|c p s' r Hp Hr E1 E2]; [reflexivity|].
    apply app_eq_nil in E2 as [E2 _]. apply LPiece_nonempty in Hp. contradiction.
  Qed.

  (** A spelling without a bare [${] is scanned as one plain string token. *)
  Lemma accept_template_string_EncT q s raw rest : is_quote q -> EncT q s raw ->
    accept_template_string E sub q (raw ++ q :: rest) = Ok (TPlain raw, rest).
  Proof.
    intros Hq H. unfold accept_template_string.
    pose proof (Enc_hd q s raw Hq (EncT_Enc _ _ _ H) rest) as Hh.
    pose proof (ts_loop_items E sub q rest Hq [] raw s (S (length (raw ++ q :: rest))) H
                  (Forall_nil _) ltac:(cbn [items_src]; lia)) as Hl.
    cbn [items_src items_parts flat_map] in Hl.
    destruct (raw ++ q :: rest) as [|x t] eqn:Ex; [contradiction|].
    destruct Hh as [->|Hx].
    - cbn [app] in Ex. inversion Ex; subst. rewrite N.eqb_refl. reflexivity.
    - apply N.eqb_neq in Hx. rewrite Hx, Hl. cbn [bind].
      destruct raw as [|y raw']; [|reflexivity].
      cbn [app] in Ex. inversion Ex; subst. rewrite N.eqb_refl in Hx. discriminate.
  Qed.

  (** [raw0 ${b1} raw1 ${b2} raw2 ...]: the literal splits exactly at the
      unescaped [${ }] groups. *)
  Lemma accept_template_string_items q s0 raw0 it its rest : is_quote q ->
    EncT q s0 raw0 -> Forall (item_ok E sub q) (it :: its) ->
    accept_template_string E sub q (raw0 ++ items_src E (it :: its) (q :: rest))
    = Ok (TTemplate (emit E raw0 ++ items_parts E (it :: its)), rest).
  Proof.
    intros Hq H0 Hits. unfold accept_template_string.
    pose proof (ts_loop_items E sub q rest Hq (it :: its) raw0 s0
                  (S (length (raw0 ++ items_src E (it :: its) (q :: rest)))) H0 Hits
                  ltac:(lia)) as Hl.
    destruct (raw0 ++ items_src E (it :: its) (q :: rest)) as [|x t] eqn:Ex.
    { destruct raw0; discriminate. }
    assert (Hx : x <> q).
    { destruct raw0 as [|y r0].
      - cbn in Ex. inversion Ex; subst. destruct Hq; subst q; discriminate.
      - inversion H0 as [|c p s r Hp Hr Hn E1 E2]; subst.
        destruct (LPiece_hd q c p Hq Hp) as (x' & t' & -> & Hx'). cbn in E2, Ex.
        inversion E2; subst. inversion Ex; subst. assumption. }
    apply N.eqb_neq in Hx. rewrite Hx, Hl. cbn [bind].
    destruct raw0 as [|y r0]; reflexivity.
  Qed.

  Lemma emit_value q ev s raw (ps : list (part E)) r : is_quote q -> Enc q s raw ->
    parts_value E q ev ps = Ok r ->
    parts_value E q ev (emit E raw ++ ps) = Ok (s ++ r).
  Proof.
    intros Hq H Hp. destruct raw as [|x raw'].
    - apply Enc_nil_raw in H. subst s. exact Hp.
    - cbn [emit app parts_value]. rewrite (site_value_Enc _ q s _ Hq H). cbn [bind].
      rewrite Hp. reflexivity.
  Qed.

  Definition items_value (ev : E -> str) (items : list (item E)) : str :=
    flat_map (fun it => ev (it_expr E it) ++ it_str E it) items.

  Lemma items_parts_value q ev items : is_quote q -> Forall (item_ok E sub q) items ->
    parts_value E q ev (items_parts E items) = Ok (items_value ev items).
  Proof.
    intros Hq H. induction H as [|it its [Hraw _] _ IH]; [reflexivity|].
    change (items_parts E (it :: its))
      with (PExpr (it_expr E it) :: emit E (it_raw E it) ++ items_parts E its).
    change (items_value ev (it :: its))
      with ((ev (it_expr E it) ++ it_str E it) ++ items_value ev its).
    cbn [parts_value].
    rewrite (emit_value q ev _ _ _ _ Hq (EncT_Enc _ _ _ Hraw) IH). cbn [bind].
    rewrite app_assoc. reflexivity.
  Qed.
End TemplateStringTheorems.

(** * C. Soundness: what the scanners and [unescape] accept is a valid spelling *)

(** The raw texts the scanners let through. *)
Inductive ScanOk (q : N) : str -> Prop :=
| SO_nil : ScanOk q []
| SO_self c r : c <> BSL -> c <> q -> ScanOk q r -> ScanOk q (c :: r)
| SO_pair e r : is_escape e || (e =? q) = true -> ScanOk q r -> ScanOk q (BSL :: e :: r).

Lemma asl_inv q n : forall src raw rest, (length src <= n)%nat ->
  accept_string_loop q src = Ok (raw, rest) ->
  ScanOk q raw /\ src = raw ++ rest /\ hd_error rest = Some q.
Proof.
  induction n as [|n IH]; intros src raw rest Hl H.
  { destruct src; [discriminate|cbn [length] in Hl; lia]. }
  destruct src as [|c r]; [discriminate|]. cbn [accept_string_loop] in H.
  destruct (c =? BSL) eqn:Eb.
  - apply N.eqb_eq in Eb; subst c. destruct r as [|e r']; [discriminate|].
    destruct (is_escape e || (e =? q)) eqn:Ee; [|discriminate].
    destruct (accept_string_loop q r') as [[raw' rest']| | |] eqn:El; cbn [bind] in H; try discriminate.
    inversion H; subst. cbn [length] in Hl.
    destruct (IH r' raw' rest ltac:(lia) El) as (H1 & H2 & H3).
    split; [constructor; assumption|]. split; [rewrite H2; reflexivity|assumption].
  - destruct (c =? q) eqn:Eq.
    + inversion H; subst. apply N.eqb_eq in Eq; subst c.
      split; [constructor|]. split; reflexivity.
    + destruct (accept_string_loop q r) as [[raw' rest']| | |] eqn:El; cbn [bind] in H; try discriminate.
      inversion H; subst. cbn [length] in Hl.
      destruct (IH r raw' rest ltac:(lia) El) as (H1 & H2 & H3).
      apply N.eqb_neq in Eb, Eq.
      split; [constructor; assumption|]. split; [rewrite H2; reflexivity|assumption].
Qed.

Lemma accept_string_inv q src raw rest : accept_string q src = Ok (raw, rest) ->
  ScanOk q raw /\ src = raw ++ rest /\ hd_error rest = Some q.
Proof.
  unfold accept_string. destruct src as [|c r]; [discriminate|].
  destruct (c =? q) eqn:Eq.
  - intros H; inversion H; subst. apply N.eqb_eq in Eq; subst c.
    split; [constructor|]. split; reflexivity.
  - apply (asl_inv q (length (c :: r))). lia.
Qed.

Definition prep (q : N) (raw : str) : str := if q =? SQ then replace_bsl_sq raw else raw.

Lemma ScanOk_hd_not_sq r : ScanOk SQ r -> hd_not_sq r.
Proof. destruct 1; cbn [hd_not_sq]; try exact I; try assumption. discriminate. Qed.

Lemma prep_self q c r : c <> BSL -> prep q (c :: r) = c :: prep q r.
Proof. intros H. unfold prep. destruct (q =? SQ); [apply replace_cons_nb; assumption|reflexivity]. Qed.

Lemma prep_pair_sq r : prep SQ (BSL :: SQ :: r) = SQ :: prep SQ r.
Proof. unfold prep. cbn [N.eqb Pos.eqb SQ]. apply replace_bsl_sq_pair. Qed.

Lemma prep_pair_other q e r : is_quote q -> e <> SQ -> ScanOk q r ->
  prep q (BSL :: e :: r) = BSL :: e :: prep q r.
Proof.
  intros [->| ->] He Hr; unfold prep; cbn [N.eqb Pos.eqb SQ DQ]; [reflexivity|].
  rewrite replace_bsl_nsq by exact He.
  destruct (N.eq_dec e BSL) as [->|Hb].
  - rewrite replace_bsl_nsq by (apply ScanOk_hd_not_sq; assumption). reflexivity.
  - rewrite replace_cons_nb by assumption. reflexivity.
Qed.

Lemma prep_head q r h t : prep q r = h :: t -> h <> SQ ->
  exists r', r = h :: r' /\ t = prep q r'.
Proof.
  unfold prep. destruct (q =? SQ); [|intros -> _; eexists; split; reflexivity].
  destruct r as [|c r1]; [discriminate|]. cbn [replace_bsl_sq].
  destruct r1 as [|d r2].
  - intros H _. inversion H; subst. exists []. split; reflexivity.
  - destruct ((c =? BSL) && (d =? SQ)).
    + intros H Hn. inversion H; subst. contradiction.
    + intros H _. inversion H; subst. exists (d :: r2). split; reflexivity.
Qed.

Lemma ScanOk_tail_self q h r : ScanOk q (h :: r) -> h <> BSL -> ScanOk q r.
Proof. inversion 1; subst; [intros _; assumption|contradiction]. Qed.

Lemma ScanOk_tail_pair q e r : ScanOk q (BSL :: e :: r) -> ScanOk q r.
Proof. inversion 1; subst; [contradiction|assumption]. Qed.

Lemma prep_hex4_inv q r a b c d t x y z w :
  hexval a = Some x -> hexval b = Some y -> hexval c = Some z -> hexval d = Some w ->
  prep q r = a :: b :: c :: d :: t -> ScanOk q r ->
  exists r4, r = a :: b :: c :: d :: r4 /\ t = prep q r4 /\ ScanOk q r4.
Proof.
  intros Ha Hb Hc Hd H Hs.
  apply hexval_facts in Ha as (A1 & _ & A3 & _), Hb as (B1 & _ & B3 & _),
    Hc as (C1 & _ & C3 & _), Hd as (D1 & _ & D3 & _).
  apply prep_head in H as (r1 & -> & H); [|assumption]. apply ScanOk_tail_self in Hs; [|assumption].
  symmetry in H. apply prep_head in H as (r2 & -> & H); [|assumption]. apply ScanOk_tail_self in Hs; [|assumption].
  symmetry in H. apply prep_head in H as (r3 & -> & H); [|assumption]. apply ScanOk_tail_self in Hs; [|assumption].
  symmetry in H. apply prep_head in H as (r4 & -> & H); [|assumption]. apply ScanOk_tail_self in Hs; [|assumption].
  exists r4. repeat split; assumption.
Qed.

Lemma UEnc_nil_inv s : UEnc s [] -> s = [].
Proof.
  inversion 1 as [|c p s' r Hp Hr E1 E2]; [reflexivity|].
  apply app_eq_nil in E2 as [E2 _]. apply UPiece_nonempty in Hp. subst p. cbn in Hp. lia.
Qed.

Lemma UEnc_cons_inv s x t : UEnc s (x :: t) ->
  exists c p s' r0, s = c :: s' /\ UPiece c p /\ p ++ r0 = x :: t /\ UEnc s' r0.
Proof. inversion 1; subst. eexists _, _, _, _. repeat split; eassumption. Qed.

Lemma is_escape_not_quote e : is_escape e = true -> e <> DQ /\ e <> SQ.
Proof. split; intros ->; vm_compute in H; discriminate. Qed.

Lemma scan_sound_n q : is_quote q -> forall n raw s, (length raw <= n)%nat ->
  ScanOk q raw -> UEnc s (prep q raw) -> Enc q s raw.
Proof.
  intros Hq n. induction n as [|n IH]; intros raw s Hl Hs Hu.
  { destruct raw; [|cbn [length] in Hl; lia].
    unfold prep in Hu. destruct (q =? SQ); apply UEnc_nil_inv in Hu; subst; constructor. }
  destruct Hs as [|c r Hb Hcq Hr|e r He Hr].
  - unfold prep in Hu. destruct (q =? SQ); apply UEnc_nil_inv in Hu; subst; constructor.
  - (* a character written as itself *)
    rewrite prep_self in Hu by assumption.
    apply UEnc_cons_inv in Hu as (c' & p & s' & r0 & -> & Hp & Ep & Hu).
    cbn [length] in Hl.
    destruct Hp; cbn [app] in Ep; inversion Ep; subst; try contradiction.
    change (c :: r) with ([c] ++ r). constructor; [constructor; assumption|].
    apply (IH r s' ltac:(lia) Hr Hu).
  - (* a backslash pair *)
    cbn [length] in Hl.
    destruct (N.eq_dec e SQ) as [->|Hne].
    + (* \' : only scanned inside single quotes *)
      assert (q = SQ) as ->.
      { destruct Hq as [->| ->]; [vm_compute in He; discriminate|reflexivity]. }
      rewrite prep_pair_sq in Hu.
      apply UEnc_cons_inv in Hu as (c' & p & s' & r0 & -> & Hp & Ep & Hu).
      destruct Hp; cbn [app] in Ep; inversion Ep; subst; try discriminate.
      change (BSL :: SQ :: r) with ([BSL; SQ] ++ r). constructor; [constructor; reflexivity|].
      apply (IH r s' ltac:(lia) Hr Hu).
    + rewrite prep_pair_other in Hu by assumption.
      apply UEnc_cons_inv in Hu as (c' & p & s' & r0 & -> & Hp & Ep & Hu).
      destruct Hp as [c' Hc1 Hc8|e' c' Hse|a b c d cp Hh Hsur H8|a b c d e' f g h hi lo Hh Hhi Hl' Hlo];
        cbn [app] in Ep; inversion Ep; subst.
      * contradiction.
      * (* two-character escape *)
        change (BSL :: e :: r) with ([BSL; e] ++ r). constructor; [|apply (IH r s' ltac:(lia) Hr Hu)].
        constructor. unfold lit_escape.
        destruct (e =? q) eqn:Eq.
        -- apply N.eqb_eq in Eq; subst e.
           destruct Hq as [->| ->]; [|contradiction].
           vm_compute in Hse. inversion Hse. reflexivity.
        -- destruct (e =? DQ) eqn:Ed; [|assumption].
           apply N.eqb_eq in Ed; subst e. rewrite orb_false_r in He.
           apply is_escape_not_quote in He as [He _]. contradiction.
      * (* \uXXXX *)
        pose proof Hh as Hh'. apply hex4_facts in Hh' as (x & y & z & w & Ha & Hb & Hc & Hd).
        destruct (prep_hex4_inv q r a b c d r0 x y z w Ha Hb Hc Hd (eq_sym H1) Hr)
          as (r4 & -> & -> & Hr4).
        change (BSL :: CH_u :: a :: b :: c :: d :: r4) with ([BSL; CH_u; a; b; c; d] ++ r4).
        constructor; [constructor; assumption|].
        cbn [length] in Hl. apply (IH r4 s' ltac:(lia) Hr4 Hu).
      * (* surrogate pair *)
        pose proof Hh as Hh'. apply hex4_facts in Hh' as (x & y & z & w & Ha & Hb & Hc & Hd).
        pose proof Hl' as Hl''. apply hex4_facts in Hl'' as (x' & y' & z' & w' & Ha' & Hb' & Hc' & Hd').
        destruct (prep_hex4_inv q r a b c d _ x y z w Ha Hb Hc Hd (eq_sym H1) Hr)
          as (r4 & -> & E4 & Hr4).
        symmetry in E4. apply prep_head in E4 as (r5 & -> & E5); [|discriminate].
        symmetry in E5. apply prep_head in E5 as (r6 & -> & E6); [|discriminate].
        apply ScanOk_tail_pair in Hr4.
        destruct (prep_hex4_inv q r6 e' f g h r0 x' y' z' w' Ha' Hb' Hc' Hd' (eq_sym E6) Hr4)
          as (r10 & -> & -> & Hr10).
        change (BSL :: CH_u :: a :: b :: c :: d :: BSL :: CH_u :: e' :: f :: g :: h :: r10)
          with ([BSL; CH_u; a; b; c; d; BSL; CH_u; e'; f; g; h] ++ r10).
        constructor; [econstructor; eassumption|].
        cbn [length] in Hl. apply (IH r10 s' ltac:(lia) Hr10 Hu).
Qed.

Lemma scan_sound q raw s st : is_quote q -> ScanOk q raw ->
  site_value st q raw = Ok s -> Enc q s raw.
Proof.
  intros Hq Hs H. rewrite site_value_eq in H by assumption.
  apply unescape_iff in H. apply (scan_sound_n q Hq (length raw) raw s (le_n _) Hs H).
Qed.

Section TemplateStringSound.
  Variable E : Type.
  Variable sub : str -> res (E * str).

  Definition part_ok (q : N) (p : part E) : Prop :=
    match p with PStr raw => ScanOk q raw /\ raw <> [] | PExpr _ => True end.

  Lemma emit_ok q seg : ScanOk q seg -> Forall (part_ok q) (emit E seg).
  Proof.
    intros H. destruct seg; [constructor|]. constructor; [|constructor].
    split; [assumption|discriminate].
  Qed.

  Lemma ts_loop_inv q f : forall src seg ps rest,
    ts_loop E sub f q src = Ok (seg, ps, rest) ->
    ScanOk q seg /\ (ps = [] -> src = seg ++ q :: rest)
    /\ (ps = [] \/ exists e ps', ps = PExpr e :: ps') /\ Forall (part_ok q) ps.
  Proof.
    induction f as [|f IH]; intros src seg ps rest H; [discriminate|].
    cbn [ts_loop] in H. destruct src as [|c r]; [discriminate|].
    destruct (c =? BSL) eqn:Eb.
    { apply N.eqb_eq in Eb; subst c. destruct r as [|e r']; [discriminate|].
      destruct (is_escape e || (e =? q)) eqn:Ee; [|discriminate].
      destruct (ts_loop E sub f q r') as [[[seg' ps'] rest']| | |] eqn:El; cbn [bind] in H;
        try discriminate.
      inversion H; subst. destruct (IH _ _ _ _ El) as (H1 & H2 & H3 & H4).
      split; [constructor; assumption|]. split; [|split; assumption].
      intros Hp. rewrite (H2 Hp). reflexivity. }
    destruct ((c =? DOLLAR) && match r with b :: _ => b =? LBRACE | [] => false end) eqn:Ei.
    { destruct (sub (tl r)) as [[e r2]| | |]; cbn [bind] in H; try discriminate.
      destruct r2 as [|b r3]; [discriminate|]. destruct (b =? RBRACE); [|discriminate].
      destruct (ts_loop E sub f q r3) as [[[seg' ps'] rest']| | |] eqn:El; cbn [bind] in H;
        try discriminate.
      inversion H; subst. destruct (IH _ _ _ _ El) as (H1 & H2 & H3 & H4).
      split; [constructor|]. split; [discriminate|]. split; [right; eexists _, _; reflexivity|].
      constructor; [exact I|]. apply Forall_app. split; [apply emit_ok; assumption|assumption]. }
    destruct (c =? q) eqn:Eq.
    { inversion H; subst. apply N.eqb_eq in Eq; subst c.
      split; [constructor|]. split; [reflexivity|]. split; [left; reflexivity|constructor]. }
    destruct (ts_loop E sub f q r) as [[[seg' ps'] rest']| | |] eqn:El; cbn [bind] in H;
      try discriminate.
    inversion H; subst. destruct (IH _ _ _ _ El) as (H1 & H2 & H3 & H4).
    apply N.eqb_neq in Eb, Eq.
    split; [constructor; assumption|]. split; [|split; assumption].
    intros Hp. rewrite (H2 Hp). reflexivity.
  Qed.

  Lemma accept_template_string_inv q src t rest :
    accept_template_string E sub q src = Ok (t, rest) ->
    match t with
    | TPlain raw => ScanOk q raw /\ src = raw ++ q :: rest
    | TTemplate ps => Forall (part_ok q) ps
    end.
  Proof.
    unfold accept_template_string. destruct src as [|c r]; [discriminate|].
    destruct (c =? q) eqn:Eq.
    { intros H; inversion H; subst. apply N.eqb_eq in Eq; subst c. split; [constructor|reflexivity]. }
    destruct (ts_loop E sub (S (length (c :: r))) q (c :: r)) as [[[seg ps] rest']| | |] eqn:El;
      cbn [bind]; try discriminate.
    destruct (ts_loop_inv q _ _ _ _ _ El) as (H1 & H2 & H3 & H4).
    assert (Hall : Forall (part_ok q) (emit E seg ++ ps))
      by (apply Forall_app; split; [apply emit_ok; assumption|assumption]).
    destruct seg as [|x seg'].
    - cbn [emit app] in *. destruct H3 as [->|(e & ps' & ->)].
      + intros H; inversion H; subst. constructor.
      + intros H; inversion H; subst. assumption.
    - cbn [emit app] in *. destruct ps as [|p ps'].
      + intros H; inversion H; subst. split; [assumption|apply H2; reflexivity].
      + intros H; inversion H; subst. assumption.
  Qed.
End TemplateStringSound.

(** * The statements used by Properties/C20.v *)

Lemma path_segment_Enc q s raw rest : is_quote q -> Enc q s raw ->
  exists seg, path_segment q (raw ++ q :: rest) = Ok (seg, rest) /\ unescape seg = Ok s.
Proof.
  intros Hq H. unfold path_segment. rewrite (accept_string_Enc q s raw rest Hq H). cbn [bind tl].
  eexists; split; [reflexivity|].
  pose proof (site_value_Enc SitePathSegment q s raw Hq H) as Hv.
  destruct Hq; subst q; exact Hv.
Qed.

Lemma literal_roundtrip_segment q s raw rest st : is_quote q -> Enc q s raw ->
  accept_string q (raw ++ q :: rest) = Ok (raw, q :: rest)
  /\ site_value st q raw = Ok s
  /\ exists seg, path_segment q (raw ++ q :: rest) = Ok (seg, rest) /\ unescape seg = Ok s.
Proof.
  intros Hq H. split; [apply (accept_string_Enc q s); assumption|].
  split; [apply site_value_Enc; assumption|apply path_segment_Enc; assumption].
Qed.

Lemma literal_roundtrip_token E sub q s raw rest st ev : is_quote q -> EncT q s raw ->
  accept_template_string E sub q (raw ++ q :: rest) = Ok (TPlain raw, rest)
  /\ token_value E st q ev (TPlain raw) = Ok s.
Proof.
  intros Hq H. split; [apply (accept_template_string_EncT E sub q s); assumption|].
  apply site_value_Enc; [assumption|apply EncT_Enc; assumption].
Qed.

Lemma template_string_parts E sub q s0 raw0 it its rest st ev : is_quote q ->
  EncT q s0 raw0 -> Forall (item_ok E sub q) (it :: its) ->
  accept_template_string E sub q (raw0 ++ items_src E (it :: its) (q :: rest))
  = Ok (TTemplate (emit E raw0 ++ items_parts E (it :: its)), rest)
  /\ token_value E st q ev (TTemplate (emit E raw0 ++ items_parts E (it :: its)))
     = Ok (s0 ++ items_value E ev (it :: its)).
Proof.
  intros Hq H0 Hits. split; [apply (accept_template_string_items E sub q s0); assumption|].
  cbn [token_value]. apply emit_value; [assumption|apply EncT_Enc; assumption|].
  apply (items_parts_value E sub); assumption.
Qed.

Lemma literal_sound_segment q src raw rest st s : is_quote q ->
  accept_string q src = Ok (raw, rest) -> site_value st q raw = Ok s ->
  Enc q s raw /\ src = raw ++ rest /\ hd_error rest = Some q.
Proof.
  intros Hq H Hv. destruct (accept_string_inv q src raw rest H) as (H1 & H2 & H3).
  split; [eapply scan_sound; eassumption|split; assumption].
Qed.

Lemma literal_sound_token E sub q src raw rest st s : is_quote q ->
  accept_template_string E sub q src = Ok (TPlain raw, rest) -> site_value st q raw = Ok s ->
  Enc q s raw /\ src = raw ++ q :: rest.
Proof.
  intros Hq H Hv. destruct (accept_template_string_inv E sub q src _ rest H) as (H1 & H2).
  split; [eapply scan_sound; eassumption|assumption].
Qed.

(** Errors of the path-segment scanner and of the denotation. *)
Lemma asl_total q n : forall src, (length src <= n)%nat ->
  ok_or_syntax (accept_string_loop q src).
Proof.
  induction n as [|n IH]; intros src Hl.
  { destruct src; [exact I|cbn [length] in Hl; lia]. }
  destruct src as [|c r]; [exact I|]. cbn [accept_string_loop]. cbn [length] in Hl.
  destruct (c =? BSL).
  - destruct r as [|e r']; [exact I|]. destruct (is_escape e || (e =? q)); [|exact I].
    cbn [length] in Hl. pose proof (IH r' ltac:(lia)) as P.
    destruct (accept_string_loop q r') as [[raw rest]|cl [pp|]|k|]; cbn [bind]; exact P || exact I.
  - destruct (c =? q); [exact I|]. pose proof (IH r ltac:(lia)) as P.
    destruct (accept_string_loop q r) as [[raw rest]|cl [pp|]|k|]; cbn [bind]; exact P || exact I.
Qed.

Lemma literal_errors_segment q src st : is_quote q ->
  match accept_string q src with
  | Ok (raw, rest) => ok_or_syntax (site_value st q raw)
  | LErr LiquidSyntaxError None => True
  | _ => False
  end.
Proof.
  intros Hq. destruct (accept_string q src) as [[raw rest]|cl pp|k|] eqn:Ea.
  - rewrite site_value_eq by assumption. apply unescape_total.
  - unfold accept_string in Ea. destruct src as [|c r].
    + inversion Ea; subst. exact I.
    + destruct (c =? q); [discriminate|].
      pose proof (asl_total q (length (c :: r)) (c :: r) (le_n _)) as P. rewrite Ea in P.
      destruct cl, pp; try contradiction. exact I.
  - unfold accept_string in Ea. destruct src as [|c r]; [discriminate|].
    destruct (c =? q); [discriminate|].
    pose proof (asl_total q (length (c :: r)) (c :: r) (le_n _)) as P. rewrite Ea in P. contradiction.
  - unfold accept_string in Ea. destruct src as [|c r]; [discriminate|].
    destruct (c =? q); [discriminate|].
    pose proof (asl_total q (length (c :: r)) (c :: r) (le_n _)) as P. rewrite Ea in P. contradiction.
Qed.

(** The template-string scanner raises nothing but what the sub-expression
    scanner raises, and never runs out of fuel, provided the sub-expression
    scanner returns a suffix of its input. *)
Section TemplateStringTotal.
  Variable E : Type.
  Variable sub : str -> res (E * str).
  Hypothesis sub_total : forall x, ok_or_syntax (sub x).
  Hypothesis sub_suffix : forall x e r, sub x = Ok (e, r) -> (length r <= length x)%nat.

  Lemma ts_loop_total q f : forall src, (length src < f)%nat -> ok_or_syntax (ts_loop E sub f q src).
  Proof.
    induction f as [|f IH]; intros src Hl; [lia|].
    cbn [ts_loop]. destruct src as [|c r]; [exact I|]. cbn [length] in Hl.
    destruct (c =? BSL).
    { destruct r as [|e r']; [exact I|]. destruct (is_escape e || (e =? q)); [|exact I].
      cbn [length] in Hl. pose proof (IH r' ltac:(lia)) as P.
      destruct (ts_loop E sub f q r') as [[[seg ps] rest]|cl [pp|]|k|]; cbn [bind]; exact P || exact I. }
    destruct ((c =? DOLLAR) && match r with b :: _ => b =? LBRACE | [] => false end).
    { pose proof (sub_total (tl r)) as P. pose proof (sub_suffix (tl r)) as L.
      destruct (sub (tl r)) as [[e r2]|cl [pp|]|k|]; cbn [bind]; try exact P.
      destruct r2 as [|b r3]; [exact I|]. destruct (b =? RBRACE); [|exact I].
      specialize (L e (b :: r3) eq_refl). cbn [length] in L.
      assert (length (tl r) <= length r)%nat by (destruct r; cbn [tl length]; lia).
      pose proof (IH r3 ltac:(lia)) as P3.
      destruct (ts_loop E sub f q r3) as [[[seg ps] rest]|cl [pp|]|k|]; cbn [bind]; exact P3 || exact I. }
    destruct (c =? q); [exact I|].
    pose proof (IH r ltac:(lia)) as P.
    destruct (ts_loop E sub f q r) as [[[seg ps] rest]|cl [pp|]|k|]; cbn [bind]; exact P || exact I.
  Qed.

  Lemma literal_errors_token q src : ok_or_syntax (accept_template_string E sub q src).
  Proof.
    unfold accept_template_string. destruct src as [|c r]; [exact I|].
    destruct (c =? q); [exact I|].
    pose proof (ts_loop_total q (S (length (c :: r))) (c :: r) ltac:(lia)) as P.
    destruct (ts_loop E sub (S (length (c :: r))) q (c :: r)) as [[[seg ps] rest]|cl [pp|]|k|];
      cbn [bind]; try exact P.
    destruct (emit E seg ++ ps) as [|[raw|e] [|? ?]]; exact I.
  Qed.
End TemplateStringTotal.

(** * Non-vacuity *)

(** ['a\'\\😀é\t\${$'] spells [a'\<U+1F600><e9><tab>${$]. *)
Example enc_example :
  Enc SQ [97; 39; 92; 128512; 233; 9; 36; 123; 36]
    [97; 92;39; 92;92; 92;117;68;56;51;68;92;117;68;69;48;48; 92;117;48;48;101;57;
     92;116; 92;36; 92;117;48;48;55;98; 36].
Proof.
  eapply (scan_sound SQ _ _ SitePrimitive); [right; reflexivity| |vm_compute; reflexivity].
  repeat (first [apply SO_nil | apply SO_pair; [reflexivity|] | apply SO_self; [discriminate|discriminate|]]).
Qed.

Example encT_example : EncT DQ [36; 123; 34] [92; 36; 123; 92; 34].
Proof.
  change [92; 36; 123; 92; 34] with ([92; 36] ++ [123] ++ [92; 34] ++ []).
  constructor; [constructor; reflexivity| |intros [H _]; discriminate].
  constructor; [constructor; [discriminate|discriminate|vm_compute; discriminate]| |intros [H _]; discriminate].
  constructor; [constructor; reflexivity|constructor|intros [H _]; discriminate].
Qed.

(** An interpolation item for the concrete word scanner: [${ x }] then [b]. *)
Example item_example :
  item_ok (list str) sub_word_scanner DQ
    {| it_body := [32; 120; 32]; it_expr := [[120]]; it_str := [98]; it_raw := [98] |}.
Proof.
  split.
  - cbn. change [98] with ([98] ++ []). constructor; [|constructor|intros [H _]; discriminate].
    constructor; [discriminate|discriminate|vm_compute; discriminate].
  - intros X. reflexivity.
Qed.
