(** Proofs/Lex_proofs.v — the scan-pointer invariant of the lexer model,
    preserved by every state function, and what follows from it for ALL
    source strings: the lexer raises nothing but LiquidSyntaxError, never runs
    out of [fuel_lex s], every error index lies in [0, |s|], and the markup
    tokens tile the source.

    Each function gets ONE specification lemma of the shape
    [rspec bound fuel (f fuel t ...) post]:
      Ok x        -> post x
      LErr c i    -> c = LiquidSyntaxError and 0 <= i <= |s|
      PyExc _     -> impossible
      OutOfFuel   -> fuel < bound        (so enough fuel excludes it)
    proved by induction on the fuel. *)
From LQ Require Import Base.Str Kernels.LexUni Kernels.Lex Proofs.LexMatch_proofs.

Section Specs.

Variable shorthand : bool.
Variable s : str.
Notation L := (length s).

Definition rspec {A} (bound fuel : nat) (r : res A) (post : A -> Prop) : Prop :=
  match r with
  | Ok x => post x
  | LErr c None => c = LiquidSyntaxError
  | LErr c (Some i) => c = LiquidSyntaxError /\ (0 <= i <= Z.of_nat L)%Z
  | PyExc _ => False
  | OutOfFuel => fuel < bound
  end.

Lemma rspec_bind {A B} b f (r : res A) (k : A -> res B) P Q :
  rspec b f r P -> (forall x, P x -> rspec b f (k x) Q) -> rspec b f (bind r k) Q.
Proof. destruct r as [x|c [i|]|e|]; simpl; auto. Qed.

Lemma rspec_mono {A} b f b' f' (r : res A) (P Q : A -> Prop) :
  rspec b' f' r P -> (f' < b' -> f < b) -> (forall x, P x -> Q x) -> rspec b f r Q.
Proof. destruct r as [x|c [i|]|e|]; simpl; auto. Qed.

Lemma rspec_post {A} b f (r : res A) (P Q : A -> Prop) :
  rspec b f r P -> (forall x, P x -> Q x) -> rspec b f r Q.
Proof. intros H HPQ. eapply rspec_mono; eauto. Qed.

Lemma rspec_syn {A} b f i (P : A -> Prop) : i <= L -> rspec b f (syn i) P.
Proof. intros H. simpl. split; [reflexivity|lia]. Qed.

Lemma rspec_ok {A} b f (x : A) (P : A -> Prop) : P x -> rspec b f (Ok x) P.
Proof. auto. Qed.

(** * The input *)

Lemma rest_len p : length (rest s p) = L - p.
Proof. unfold rest. apply skipn_length. Qed.

Lemma peek_some p c : peek_at s p = Some c -> p < L.
Proof. unfold peek_at. intros H. apply nth_error_Some. congruence. Qed.

Lemma peek_none p : peek_at s p = None -> L <= p.
Proof. unfold peek_at. apply nth_error_None. Qed.

Lemma peek_is_lt t c : peek_is s t c = true -> pos t < L.
Proof.
  unfold peek_is. destruct (peek_at s (pos t)) eqn:E; [|discriminate]. intros _.
  eapply peek_some; eauto.
Qed.

Lemma peek_rest p : peek_at s p = hd_error (rest s p).
Proof. apply nth_error_skipn. Qed.

(** * Pointer invariants *)

(** [start <= pos <= |s|] *)
Definition le_L (t : st) : Prop := start t <= pos t /\ pos t <= L.
(** the state between tokens: everything up to [pos] is emitted or ignored *)
Definition sane (t : st) : Prop := start t = pos t /\ pos t <= L.
(** [t'] is a later state of the same markup *)
Definition adv (t t' : st) : Prop :=
  sane t' /\ pos t <= pos t' /\ mstart t' = mstart t /\ lstart t' = lstart t.
(** every token scanned so far starts inside the source *)
Definition SO (l : list etok) : Prop := Forall (fun e => etok_start e <= L) l.

Ltac st_simpl :=
  cbn [pos start mstart lstart in_range set_pos set_start set_both set_mstart set_lstart
       set_in_range ignore fst snd mtok_start mtok_stop] in *.

Lemma sane_le t : sane t -> le_L t.
Proof. unfold sane, le_L. lia. Qed.

Lemma adv_refl t : sane t -> adv t t.
Proof. unfold adv. auto. Qed.

Lemma adv_trans t t' t'' : adv t t' -> adv t' t'' -> adv t t''.
Proof. unfold adv. intros (A & B & C & D) (A' & B' & C' & D'). repeat split; try apply A'; congruence || lia. Qed.

(** * The helpers without fuel *)

Lemma skip_class_spec p t b f :
  sane t ->
  rspec b f (skip_class s p t) (fun x => adv t (fst x) /\ pos (fst x) = pos t + snd x).
Proof.
  intros (A & B). unfold skip_class. rewrite A, Nat.eqb_refl. simpl.
  pose proof (take_while_len p (rest s (pos t))) as H. rewrite rest_len in H.
  unfold adv, sane; st_simpl. repeat split; lia.
Qed.

Lemma ignore_ws_spec t b f :
  sane t -> rspec b f (ignore_ws s t) (fun t' => adv t t').
Proof.
  intros H. unfold ignore_ws. eapply rspec_bind; [apply skip_class_spec; assumption|].
  intros x (A & _). exact A.
Qed.

Lemma ignore_line_space_spec t b f :
  sane t -> rspec b f (ignore_line_space s t) (fun t' => adv t t').
Proof.
  intros H. unfold ignore_line_space. eapply rspec_bind; [apply skip_class_spec; assumption|].
  intros x (A & _). exact A.
Qed.

Lemma backup_spec t b f :
  rspec b f (backup t) (fun t' => t' = set_pos t (pos t - 1) /\ start t < pos t).
Proof.
  unfold backup. destruct (pos t <=? start t) eqn:E; simpl; [reflexivity|].
  apply Nat.leb_gt in E. auto.
Qed.

Lemma expect_rbracket_spec t b f :
  sane t ->
  rspec b f (expect_rbracket s t) (fun t' => adv t t' /\ pos t' = S (pos t)).
Proof.
  intros (A & B). unfold expect_rbracket.
  destruct (peek_at s (pos t)) as [c|] eqn:E.
  - apply peek_some in E. destruct (N.eqb c 93).
    + simpl. unfold adv, sane; st_simpl. repeat split; lia.
    + eapply rspec_bind; [apply backup_spec|]. intros t1 (-> & H). st_simpl.
      apply rspec_syn. lia.
  - eapply rspec_bind; [apply backup_spec|]. intros t1 (-> & H). lia.
Qed.

Lemma accept_range_spec rexpr b f :
  SO rexpr -> (exists v i l, rexpr = ETok KRParen v i :: l) ->
  rspec b f (accept_range rexpr) (fun r' => SO r').
Proof.
  intros Hso (v & i & l & ->). unfold accept_range.
  destruct l as [|rstop [|dd [|rstart [|lparen tl]]]];
    try (apply rspec_syn; inversion Hso; subst; assumption).
  cbn [is_kind negb].
  assert (H1 : etok_start rstop <= L /\ etok_start dd <= L /\ etok_start rstart <= L
               /\ etok_start lparen <= L /\ SO tl).
  { inversion Hso as [|? ? _ H2]; subst. inversion H2 as [|? ? ? H3]; subst.
    inversion H3 as [|? ? ? H4]; subst. inversion H4 as [|? ? ? H5]; subst.
    inversion H5; subst. auto. }
  destruct H1 as (A1 & A2 & A3 & A4 & A5).
  repeat match goal with
  | |- rspec _ _ (if ?c then _ else _) _ => destruct c
  end; try (apply rspec_syn; assumption).
  simpl. constructor; [simpl; assumption|assumption].
Qed.

(** * accept_path *)

Definition pp_start (p : ppath) : nat := let '(_, a, _) := p in a.

Lemma pp_start_push p e : pp_start (pp_push p e) = pp_start p.
Proof. destruct p as [[l a] z]. reflexivity. Qed.
Lemma pp_start_stop p n : pp_start (pp_stop p n) = pp_start p.
Proof. destruct p as [[l a] z]. reflexivity. Qed.
Lemma etok_start_close p : etok_start (pp_close p) = pp_start p.
Proof. destruct p as [[l a] z]. reflexivity. Qed.

Definition path_post (t : st) (x : st * etok) : Prop :=
  adv t (fst x) /\ etok_start (snd x) <= L
  /\ (pos t < pos (fst x) \/ peek_at s (pos t) <> Some 91%N).

Lemma path_loop_spec : forall f t top below,
  sane t -> pp_start top <= L -> Forall (fun p => pp_start p <= L) below ->
  rspec (2 * (L - pos t) + 1) f (path_loop shorthand s f t top below) (path_post t).
Proof.
  induction f as [|f IH]; intros t top below Hs Htop Hbel; [simpl; lia|].
  destruct Hs as (Hs1 & Hs2).
  assert (Hrec : forall t' top' below', sane t' -> pos t < pos t' ->
            mstart t' = mstart t -> lstart t' = lstart t ->
            pp_start top' <= L -> Forall (fun p => pp_start p <= L) below' ->
            rspec (2 * (L - pos t) + 1) (S f) (path_loop shorthand s f t' top' below') (path_post t)).
  { intros t' top' below' Hs' Hlt Hm Hl Ht' Hb'.
    eapply rspec_mono; [apply IH; eassumption| |].
    - destruct Hs'. lia.
    - intros x ((A1 & A2 & A3 & A4) & B & _). split; [|split; [assumption|left; lia]].
      repeat split; try apply A1; congruence || lia. }
  cbn [path_loop].
  destruct (peek_at s (pos t)) as [c|] eqn:Ep; [|apply rspec_syn; assumption].
  pose proof (peek_some _ _ Ep) as Hlt.
  assert (Hexit : c <> 91%N -> rspec (2 * (L - pos t) + 1) (S f)
            (do t2 <- backup (set_pos t (S (pos t)));;
             match below with [] => Ok (t2, pp_close top) | _ :: _ => syn (pos t2) end) (path_post t)).
  { intros Hc. eapply rspec_bind; [apply backup_spec|]. intros t2 (-> & _). st_simpl.
    destruct below; [|apply rspec_syn; lia].
    simpl. unfold path_post, adv, sane; st_simpl. rewrite etok_start_close.
    repeat split; try lia. right. congruence. }
  destruct (N.eqb c 46) eqn:E46.
  { (* dot *)
    apply N.eqb_eq in E46.
    destruct (peek_is s (set_pos t (S (pos t))) 46); [apply Hexit; subst c; discriminate|].
    eapply rspec_bind; [apply ignore_ws_spec; unfold sane; st_simpl; lia|].
    intros t3 ((A1 & A2) & A3 & A4 & A5). st_simpl.
    pose proof (word_len_le (rest s (pos t3))) as Hw. pose proof (index_len_le (rest s (pos t3))) as Hi.
    rewrite rest_len in Hw, Hi.
    destruct (negb (word_len (rest s (pos t3)) =? 0)).
    { apply Hrec; unfold sane; st_simpl; try lia; try assumption.
      rewrite pp_start_stop, pp_start_push. assumption. }
    destruct shorthand; [|apply rspec_syn; lia].
    destruct (negb (index_len (rest s (pos t3)) =? 0)); [|apply rspec_syn; lia].
    destruct (index_too_long _ _); [apply rspec_syn; lia|].
    apply Hrec; unfold sane; st_simpl; try lia; try assumption.
    rewrite pp_start_stop, pp_start_push. assumption. }
  destruct (N.eqb c 93).
  { (* closing bracket *)
    destruct below as [|parent below'].
    - eapply rspec_bind; [apply backup_spec|]. intros t2 (-> & _). st_simpl. apply rspec_syn. lia.
    - destruct top as [[l a] z]. inversion Hbel; subst.
      apply Hrec; unfold sane; st_simpl; try lia; try assumption.
      rewrite pp_start_stop, pp_start_push. assumption. }
  destruct (N.eqb c 91) eqn:E91; [|apply Hexit; apply N.eqb_neq; assumption].
  (* opening bracket *)
  eapply rspec_bind; [apply ignore_ws_spec; unfold sane; st_simpl; lia|].
  intros t3 ((A1 & A2) & A3 & A4 & A5). st_simpl.
  destruct (peek_at s (pos t3)) as [q|] eqn:Eq; [|apply rspec_syn; lia].
  pose proof (peek_some _ _ Eq) as Hq.
  pose proof (word_len_le (rest s (pos t3))) as Hw. pose proof (index_len_le (rest s (pos t3))) as Hi.
  rewrite rest_len in Hw, Hi.
  destruct (N.eqb q 39 || N.eqb q 34)%bool.
  { (* quoted segment *)
    st_simpl.
    pose proof (scan_string_spec q (rest s (S (pos t3))) (S (pos t3)) (S (pos t3)) L) as Hsc.
    rewrite rest_len in Hsc. specialize (Hsc ltac:(lia) ltac:(lia)).
    destruct (scan_string q (rest s (S (pos t3))) (S (pos t3)) (S (pos t3))) as [p|c0 [i|]| |];
      try contradiction; [|exact Hsc].
    cbn [bind]. destruct Hsc as (Hp1 & Hp2).
    eapply rspec_bind; [apply ignore_ws_spec; unfold sane; st_simpl; lia|].
    intros t6 ((B1 & B2) & B3 & B4 & B5). st_simpl.
    eapply rspec_bind; [apply expect_rbracket_spec; unfold sane; lia|].
    intros t7 (((C1 & C2) & C3 & C4 & C5) & C6).
    apply Hrec; unfold sane; try lia; try congruence.
    rewrite pp_start_stop, pp_start_push. assumption. }
  destruct (negb (index_len (rest s (pos t3)) =? 0)).
  { destruct (index_too_long _ _); [apply rspec_syn; lia|].
    eapply rspec_bind; [apply ignore_ws_spec; unfold sane; st_simpl; lia|].
    intros t5 ((B1 & B2) & B3 & B4 & B5). st_simpl.
    eapply rspec_bind; [apply expect_rbracket_spec; unfold sane; lia|].
    intros t6 (((C1 & C2) & C3 & C4 & C5) & C6).
    apply Hrec; unfold sane; try lia; try congruence.
    rewrite pp_start_stop, pp_start_push. assumption. }
  destruct (negb (word_len (rest s (pos t3)) =? 0)); [|apply rspec_syn; lia].
  apply Hrec; unfold sane; st_simpl; try lia; try assumption.
  - simpl. lia.
  - constructor; assumption.
Qed.

Lemma accept_path_spec f t carry :
  le_L t -> (carry = false -> sane t) ->
  rspec (2 * (L - pos t) + 1) f (accept_path shorthand s f t carry) (path_post (set_start t (pos t))).
Proof.
  intros (A & B) Hc. unfold accept_path. destruct carry.
  - apply (path_loop_spec f (set_start t (pos t))).
    + unfold sane; st_simpl; lia.
    + simpl. lia.
    + constructor.
  - destruct (Hc eq_refl) as (C & D).
    eapply rspec_post; [apply (path_loop_spec f t); [split; assumption|simpl; lia|constructor]|].
    intros x ((A1 & A2 & A3 & A4) & A5 & A6). split; [|split; assumption]. unfold adv; st_simpl. auto.
Qed.

(** * accept_token / accept_template_string / the sub-expression loop *)

Definition tok_post (t : st) (r : option (st * list etok)) : Prop :=
  match r with
  | None => True
  | Some x => adv t (fst x) /\ pos t < pos (fst x) /\ SO (snd x)
  end.
Definition str_post (t : st) (x : st * list etok) : Prop :=
  adv t (fst x) /\ pos t < pos (fst x) /\ SO (snd x).
Definition sub_post (t : st) (x : st * list etok) : Prop :=
  adv t (fst x) /\ SO (snd x).

Definition P_tok (f : nat) : Prop := forall t rexpr, sane t -> SO rexpr ->
  rspec (2 * (L - pos t) + 3) f (accept_token shorthand s f t rexpr) (tok_post t).
Definition P_tstr (f : nat) : Prop := forall t dq rexpr, sane t -> SO rexpr ->
  rspec (2 * (L - pos t) + 3) f (template_string shorthand s f t dq rexpr) (str_post t).
Definition P_ts (f : nat) : Prop := forall t dq tstart parts rexpr,
  le_L t -> tstart <= L -> SO parts -> SO rexpr ->
  rspec (2 * (L - pos t) + 2) f (ts_loop shorthand s f t dq tstart parts rexpr) (str_post t).
Definition P_sub (f : nat) : Prop := forall t rexpr, sane t -> SO rexpr ->
  rspec (2 * (L - pos t) + 4) f (sub_loop shorthand s f t rexpr) (sub_post t).

Lemma flush_SO dq t parts : start t <= L -> SO parts -> SO (flush_string s dq t parts).
Proof.
  intros H Hp. unfold flush_string. destruct (start t <? pos t - 1); [|assumption].
  apply Forall_app. split; [assumption|]. constructor; [simpl; assumption|constructor].
Qed.

Lemma expr_specs : forall f, P_tok f /\ P_tstr f /\ P_ts f /\ P_sub f.
Proof.
  induction f as [|f (Htok & Htstr & Hts & Hsub)].
  { repeat split; intros ?; intros; simpl; lia. }
  repeat split.
  - (* accept_token *)
    intros t rexpr (S1 & S2) Hso. cbn [accept_token].
    destruct (match_token (rest s (pos t))) as [[k n]|] eqn:Em; [|simpl; exact I].
    pose proof (match_token_len _ _ _ Em) as Hn. rewrite rest_len in Hn.
    destruct k.
    + (* numbers and symbols *)
      cbv zeta.
      assert (Hso1 : SO (ETok k (sub s (start (set_pos t (pos t + n))) (pos (set_pos t (pos t + n))))
                           (start (set_pos t (pos t + n))) :: rexpr)).
      { constructor; [st_simpl; simpl; lia|assumption]. }
      destruct k;
        try (simpl; unfold adv, sane; st_simpl; repeat split; try lia; exact Hso1).
      (* closing parenthesis *)
      destruct (in_range _).
      * eapply rspec_bind; [apply accept_range_spec; [exact Hso1|eauto]|].
        intros r2 H2. simpl. unfold adv, sane; st_simpl. repeat split; try lia; assumption.
      * simpl. unfold adv, sane; st_simpl. repeat split; try lia; exact Hso1.
    + (* single quote *)
      eapply rspec_bind.
      * eapply rspec_mono; [apply (Htstr (ignore (set_pos t (pos t + n)))); [unfold sane; st_simpl; lia|assumption]
                           |st_simpl; lia|intros x H; exact H].
      * intros x ((A1 & A2 & A3 & A4) & B & C). st_simpl. simpl. unfold adv. repeat split; try apply A1; try lia; assumption.
    + (* double quote *)
      eapply rspec_bind.
      * eapply rspec_mono; [apply (Htstr (ignore (set_pos t (pos t + n)))); [unfold sane; st_simpl; lia|assumption]
                           |st_simpl; lia|intros x H; exact H].
      * intros x ((A1 & A2 & A3 & A4) & B & C). st_simpl. simpl. unfold adv. repeat split; try apply A1; try lia; assumption.
    + (* [ *)
      destruct (match_token_lbracket _ _ Em) as (Hhd & ->).
      eapply rspec_bind; [apply backup_spec|]. intros t2 (-> & _). st_simpl.
      eapply rspec_bind.
      * eapply rspec_mono; [apply accept_path_spec; [unfold le_L|intros _; unfold sane]; st_simpl; lia
                           |st_simpl; lia|intros x H; exact H].
      * intros x ((A1 & A2 & A3 & A4) & B & C). st_simpl. simpl.
        destruct C as [C|C]; [|exfalso; apply C; replace (pos t + 1 - 1) with (pos t) by lia;
                                 rewrite peek_rest; exact Hhd].
        unfold adv. repeat split; try apply A1; try lia; try assumption.
        constructor; assumption.
    + (* word *)
      destruct (peek_is s (set_pos t (pos t + n)) 46 || peek_is s (set_pos t (pos t + n)) 91)%bool.
      * eapply rspec_bind.
        -- eapply rspec_mono; [apply accept_path_spec; [unfold le_L; st_simpl; lia|discriminate]
                              |st_simpl; lia|intros x H; exact H].
        -- intros x (((A0 & A1) & A2 & A3 & A4) & B & C). st_simpl. simpl.
           unfold adv, sane; st_simpl. repeat split; try lia; try assumption.
           constructor; assumption.
      * simpl. unfold adv, sane; st_simpl. repeat split; try lia.
        constructor; [simpl; lia|assumption].
  - (* template_string *)
    intros t dq rexpr (S1 & S2) Hso. cbn [template_string].
    destruct (peek_is s t (if dq then 34%N else 39%N)) eqn:Ep.
    + apply peek_is_lt in Ep. simpl. unfold str_post, adv, sane; st_simpl.
      repeat split; try lia. constructor; [simpl; lia|assumption].
    + eapply rspec_mono; [apply Hts; [unfold le_L; lia|lia|constructor|assumption]|lia|intros x H; exact H].
  - (* ts_loop *)
    intros t dq tstart parts rexpr (S1 & S2) Hts0 Hpa Hso. cbn [ts_loop].
    destruct (peek_at s (pos t)) as [c|] eqn:Ep; [|apply rspec_syn; lia].
    pose proof (peek_some _ _ Ep) as Hlt.
    assert (Hrec : forall t' parts', le_L t' -> pos t < pos t' -> mstart t' = mstart t -> lstart t' = lstart t ->
              SO parts' ->
              rspec (2 * (L - pos t) + 2) (S f) (ts_loop shorthand s f t' dq tstart parts' rexpr) (str_post t)).
    { intros t' parts' (B1 & B2) B3 B4 B5 B6.
      eapply rspec_mono; [apply Hts; [split; assumption|assumption|assumption|assumption]|lia|].
      intros x ((A1 & A2 & A3 & A4) & B & C). unfold str_post, adv. repeat split; try apply A1; try lia; congruence || assumption. }
    destruct (N.eqb c 92).
    { destruct (peek_at s (pos (set_pos t (S (pos t))))) as [d|] eqn:Ed; st_simpl; [|apply rspec_syn; lia].
      apply peek_some in Ed.
      destruct (is_escape d || N.eqb d (if dq then 34%N else 39%N))%bool; [|apply rspec_syn; lia].
      apply Hrec; unfold le_L; st_simpl; try lia; assumption. }
    destruct (N.eqb c 36 && peek_is s (set_pos t (S (pos t))) 123)%bool eqn:Ed.
    { apply andb_true_iff in Ed as (_ & Ed). apply peek_is_lt in Ed. st_simpl.
      eapply rspec_bind.
      - eapply rspec_mono; [apply (Hsub (set_both (set_pos t (S (pos t))) (S (S (pos t))))); [unfold sane; st_simpl; lia|constructor]
                           |st_simpl; lia|intros x H; exact H].
      - intros [t3 sub] ((A1 & A2 & A3 & A4) & B). st_simpl.
        destruct (peek_is s t3 125) eqn:E3; [|apply rspec_syn; apply A1].
        apply peek_is_lt in E3.
        apply Hrec; unfold le_L; st_simpl; try lia; try assumption.
        apply Forall_app. split; [apply flush_SO; [st_simpl; lia|assumption]|].
        constructor; [simpl; lia|constructor]. }
    destruct (N.eqb c (if dq then 34%N else 39%N)).
    { simpl. unfold str_post, adv, sane; st_simpl. repeat split; try lia.
      constructor; [|assumption].
      pose proof (flush_SO dq (set_pos t (S (pos t))) parts ltac:(st_simpl; lia) Hpa) as Hf.
      destruct (flush_string s dq (set_pos t (S (pos t))) parts) as [|e [|e2 l]]; simpl; try lia;
        destruct e; simpl in *; try lia.
      inversion Hf; subst. simpl in *. lia. }
    apply Hrec; unfold le_L; st_simpl; try lia; assumption.
  - (* sub_loop *)
    intros t rexpr Hs Hso. cbn [sub_loop].
    eapply rspec_bind; [apply ignore_ws_spec; assumption|].
    intros t1 (A1 & A2 & A3 & A4).
    eapply rspec_bind.
    + eapply rspec_mono; [apply (Htok t1 rexpr A1 Hso)|destruct A1; lia|intros x H; exact H].
    + intros [[t2 rexpr2]|]; [|intros _; simpl; unfold sub_post, adv; auto].
      intros ((B1 & B2 & B3 & B4) & B5 & B6). st_simpl.
      eapply rspec_mono; [apply (Hsub t2 rexpr2 B1 B6)|destruct B1; lia|].
      intros x ((C1 & C2 & C3 & C4) & C5). unfold sub_post, adv. repeat split; try apply C1; try lia; congruence || assumption.
Qed.

(** * Output statements and tags *)

Lemma expression_until_spec f closer t :
  sane t -> 1 <= length closer ->
  rspec (2 * (L - pos t) + 4) f (expression_until shorthand s f closer t)
    (fun x => let '(t', _, _) := x in
       pos t + length closer <= pos t' /\ pos t' <= L /\ mstart t' = mstart t /\ lstart t' = lstart t).
Proof.
  intros Hs Hc. unfold expression_until.
  eapply rspec_bind; [apply (proj2 (proj2 (proj2 (expr_specs f)))); [assumption|constructor]|].
  intros [t1 rexpr] (((A0 & A1) & A2 & A3 & A4) & B). st_simpl.
  destruct (wc_end closer (rest s (pos t1))) as [[w n]|] eqn:E; [|apply rspec_syn; assumption].
  apply wc_end_len in E. rewrite rest_len in E. simpl. st_simpl. repeat split; try lia; assumption.
Qed.

(** * The liquid tag *)

Lemma eol_spec u :
  pos u <= L ->
  pos u <= pos (eol s u) /\ pos (eol s u) <= L /\ start (eol s u) = start u
  /\ mstart (eol s u) = mstart u /\ lstart (eol s u) = lstart u.
Proof.
  intros H. unfold eol, accept_opt.
  destruct (rest_of_line (rest s (pos u))) as [k|] eqn:E.
  - apply rest_of_line_le in E. rewrite rest_len in E. st_simpl.
    pose proof (line_term_le (rest s (pos u + k))) as H2. rewrite rest_len in H2. repeat split; lia.
  - st_simpl. pose proof (line_term_le (rest s (pos u))) as H2. rewrite rest_len in H2. repeat split; lia.
Qed.

Lemma skip_ws_spec u :
  pos u <= L ->
  pos u <= pos (skip_ws s u) /\ pos (skip_ws s u) <= L /\ start (skip_ws s u) = start u
  /\ mstart (skip_ws s u) = mstart u /\ lstart (skip_ws s u) = lstart u.
Proof.
  intros H. unfold skip_ws. st_simpl.
  pose proof (take_while_len is_ws (rest s (pos u))) as H2. rewrite rest_len in H2. repeat split; lia.
Qed.

Definition line_post (t : st) (x : st * ltok * option wc) : Prop :=
  adv t (fst (fst x)) /\ pos t < pos (fst (fst x)).

Lemma line_statement_spec : forall f t name rexpr,
  sane t -> SO rexpr ->
  rspec (2 * (L - pos t) + 4) f (line_statement shorthand s f t name rexpr) (line_post t).
Proof.
  induction f as [|f IH]; intros t name rexpr Hs Hso; [simpl; lia|].
  cbn [line_statement].
  eapply rspec_bind; [apply ignore_line_space_spec; assumption|].
  intros t1 ((A0 & A1) & A2 & A3 & A4).
  pose proof (line_term_le (rest s (pos t1))) as Hlt. rewrite rest_len in Hlt.
  destruct (negb (line_term (rest s (pos t1)) =? 0)) eqn:En.
  { apply negb_true_iff, Nat.eqb_neq in En. simpl.
    unfold line_post, adv, sane; st_simpl. repeat split; lia. }
  eapply rspec_bind.
  - eapply rspec_mono; [apply (proj1 (expr_specs f) t1 rexpr); [split; assumption|assumption]
                       |lia|intros x H; exact H].
  - intros [[t2 rexpr2]|].
    + intros ((B1 & B2 & B3 & B4) & B5 & B6). st_simpl.
      eapply rspec_mono; [apply (IH t2 name rexpr2 B1 B6)|destruct B1; lia|].
      intros x ((C1 & C2 & C3 & C4) & C5). unfold line_post, adv.
      repeat split; try apply C1; try lia; congruence.
    + intros _. destruct (wc_end L_pct_rbrace (rest s (pos t1))) as [[w m]|] eqn:E.
      * apply wc_end_len in E. rewrite rest_len in E. simpl in E. simpl.
        unfold line_post, adv, sane; st_simpl. repeat split; lia.
      * apply rspec_syn; lia.
Qed.

Definition lbc_post (t : st) (x : st * ltok) : Prop :=
  adv t (fst x) /\ pos t < pos (fst x).

Lemma liquid_block_comment_spec : forall f t depth,
  le_L t ->
  rspec (2 * (L - pos t) + 1) f (liquid_block_comment s f t depth) (lbc_post t).
Proof.
  induction f as [|f IH]; intros t0 depth (H01 & H02); [simpl; lia|].
  cbn [liquid_block_comment]. cbv zeta.
  destruct (skip_ws_spec t0 H02) as (W1 & W2 & W3 & W4 & W5).
  assert (Hrec0 : forall t' d, le_L t' -> pos t0 < pos t' -> mstart t' = mstart t0 -> lstart t' = lstart t0 ->
            rspec (2 * (L - pos t0) + 1) (S f) (liquid_block_comment s f t' d) (lbc_post t0)).
  { intros t' d (B1 & B2) B3 B4 B5.
    eapply rspec_mono; [apply IH; split; assumption|lia|].
    intros x ((C1 & C2 & C3 & C4) & C5). unfold lbc_post, adv.
    repeat split; try apply C1; try lia; congruence. }
  remember (skip_ws s t0) as t eqn:Ht.
  assert (H1 : start t <= pos t) by lia. assert (H2 : pos t <= L) by lia.
  assert (Hpost : forall x, lbc_post t x -> lbc_post t0 x).
  { intros x ((C1 & C2 & C3 & C4) & C5). unfold lbc_post, adv. repeat split; try apply C1; try lia; congruence. }
  eapply rspec_mono with (b' := 2 * (L - pos t0) + 1) (f' := S f) (P := lbc_post t0); [|lia|auto].
  assert (Hback : forall r, rspec (2 * (L - pos t0) + 1) (S f) r (lbc_post t) ->
                            rspec (2 * (L - pos t0) + 1) (S f) r (lbc_post t0)).
  { intros r0 Hr. eapply rspec_post; [exact Hr|exact Hpost]. }
  apply Hback. clear Hback.
  pose proof (tag_name_len_le (rest s (pos t))) as Hn. rewrite rest_len in Hn.
  assert (Hrec : forall t' d, le_L t' -> pos t < pos t' -> mstart t' = mstart t -> lstart t' = lstart t ->
            rspec (2 * (L - pos t0) + 1) (S f) (liquid_block_comment s f t' d) (lbc_post t)).
  { intros t' d (B1 & B2) B3 B4 B5.
    eapply rspec_mono; [apply IH; split; assumption|lia|].
    intros x ((C1 & C2 & C3 & C4) & C5). unfold lbc_post, adv.
    repeat split; try apply C1; try lia; congruence. }
  destruct (negb (tag_name_len (rest s (pos t)) =? 0)) eqn:En.
  { apply negb_true_iff, Nat.eqb_neq in En.
    set (t1 := set_pos t (pos t + tag_name_len (rest s (pos t)))).
    assert (Ht1 : pos t1 <= L) by (subst t1; st_simpl; lia).
    destruct (eol_spec t1 Ht1) as (E1 & E2 & E3 & E4 & E5). subst t1. st_simpl.
    destruct (str_eqb _ L_endcomment).
    - destruct (depth =? 1).
      + simpl. unfold lbc_post, adv, sane; st_simpl. repeat split; lia.
      + apply Hrec; unfold le_L; try lia.
    - destruct (str_eqb _ L_comment); apply Hrec; unfold le_L; try lia. }
  destruct (line_comment (rest s (pos t))) as [m|] eqn:Em; [|apply rspec_syn; lia].
  apply line_comment_le in Em. rewrite rest_len in Em.
  pose proof (line_term_le (rest s (pos t + m))) as Hlt. rewrite rest_len in Hlt.
  apply Hrec; unfold le_L; st_simpl; lia.
Qed.

(** [liquid_tag] changes [line_start]; what it promises is about the markup. *)
Definition markup_post (t : st) (x : st * mtok) : Prop :=
  sane (fst x) /\ pos t < pos (fst x) /\ mstart (fst x) = mstart t
  /\ mtok_start (snd x) = mstart t /\ mtok_stop (snd x) = pos (fst x).

Lemma liquid_tag_spec : forall f t w0 stmts wss,
  sane t ->
  rspec (2 * (L - pos t) + 4) f (liquid_tag shorthand s f t w0 stmts wss) (markup_post t).
Proof.
  induction f as [|f IH]; intros t w0 stmts wss Hs; [simpl; lia|].
  cbn [liquid_tag].
  eapply rspec_bind; [apply skip_class_spec; assumption|].
  intros [t1 nws] (((A0 & A1) & A2 & A3 & A4) & A5). st_simpl. cbv zeta.
  assert (Hrec : forall t' stmts' wss', sane t' -> pos t < pos t' -> mstart t' = mstart t ->
            rspec (2 * (L - pos t) + 4) (S f) (liquid_tag shorthand s f t' w0 stmts' wss') (markup_post t)).
  { intros t' stmts' wss' B1 B2 B3.
    eapply rspec_mono; [apply IH; assumption|destruct B1; lia|].
    intros x (C1 & C2 & C3 & C4 & C5). unfold markup_post. repeat split; try apply C1; try lia; congruence. }
  destruct (wc_end L_pct_rbrace (rest s (pos t1))) as [[w1 n]|] eqn:E.
  { apply wc_end_len in E. rewrite rest_len in E. simpl in E. simpl.
    unfold markup_post, sane; st_simpl. repeat split; lia. }
  pose proof (tag_name_len_le (rest s (pos t1))) as Hn. rewrite rest_len in Hn.
  destruct (negb (tag_name_len (rest s (pos t1)) =? 0)) eqn:En.
  { apply negb_true_iff, Nat.eqb_neq in En.
    set (t2 := set_in_range (set_lstart (set_both t1 (pos t1 + tag_name_len (rest s (pos t1)))) (start t1)) false).
    assert (Hs2 : sane t2) by (subst t2; unfold sane; st_simpl; lia).
    assert (Hp2 : pos t2 = pos t1 + tag_name_len (rest s (pos t1))) by reflexivity.
    assert (Hm2 : mstart t2 = mstart t1) by reflexivity.
    destruct (str_eqb _ L_comment).
    - eapply rspec_bind; [apply ignore_ws_spec; assumption|].
      intros t3 ((B0 & B1) & B2 & B3 & B4).
      eapply rspec_bind.
      + eapply rspec_mono; [apply (liquid_block_comment_spec f t3 1); unfold le_L; lia|lia|intros x H; exact H].
      + intros [t4 tok] (((C0 & C1) & C2 & C3 & C4) & C5). st_simpl.
        apply Hrec; [split; assumption|lia|congruence].
    - eapply rspec_bind.
      + eapply rspec_mono; [apply (line_statement_spec f t2); [assumption|constructor]|lia|intros x H; exact H].
      + intros [[t3 tok] fin] (((C0 & C1) & C2 & C3 & C4) & C5). st_simpl.
        destruct fin as [w1|].
        * simpl. unfold markup_post, sane; st_simpl. repeat split; try lia; congruence.
        * apply Hrec; [split; assumption|lia|congruence]. }
  destruct (line_comment (rest s (pos t1))) as [m|] eqn:Em.
  { apply line_comment_le in Em. rewrite rest_len in Em.
    destruct (peek_is s (set_both t1 (pos t1 + m)) 10) eqn:Ep.
    - apply peek_is_lt in Ep. st_simpl. apply Hrec; unfold sane; st_simpl; try lia; congruence.
    - apply Hrec; unfold sane; st_simpl; try lia; congruence. }
  apply rspec_syn; lia.
Qed.

(** * Block comments *)

Lemma block_comment_spec : forall f t w0 cd rd,
  le_L t ->
  rspec (2 * (L - pos t) + 1) f (block_comment s f t w0 cd rd) (markup_post t).
Proof.
  induction f as [|f IH]; intros t w0 cd rd (H1 & H2); [simpl; lia|].
  cbn [block_comment].
  destruct (find_first chunk_tail (rest s (pos t))) as [[k [[ce w1] m]]|] eqn:E;
    [|apply rspec_syn; lia].
  apply find_first_spec in E as (Hk & Hc). apply chunk_tail_len in Hc.
  rewrite skipn_length, rest_len in Hc. rewrite rest_len in Hk.
  assert (Hrec : forall cd' rd',
            rspec (2 * (L - pos t) + 1) (S f)
              (block_comment s f (set_pos t (pos t + k + m)) w0 cd' rd') (markup_post t)).
  { intros cd' rd'.
    eapply rspec_mono; [apply IH; unfold le_L; st_simpl; lia|st_simpl; lia|].
    intros x (C1 & C2 & C3 & C4 & C5). st_simpl. unfold markup_post.
    repeat split; try apply C1; try lia; congruence. }
  destruct ce; try apply Hrec.
  destruct (negb (rd =? 0)); [apply Hrec|].
  destruct (cd =? 1); [|apply Hrec].
  simpl. unfold markup_post, sane; st_simpl. repeat split; lia.
Qed.

(** * lex_markup: the tokens tile the source *)

Lemma tiled_snoc l a b m :
  tiled l a b -> mtok_start m = b -> b < mtok_stop m -> tiled (l ++ [m]) a (mtok_stop m).
Proof.
  revert a; induction l as [|x l IH]; simpl; intros a H Hm Hlt.
  - subst. auto.
  - destruct H as (A & B & C). auto.
Qed.

Lemma lex_loop_spec : forall f t acc,
  sane t -> tiled (rev acc) 0 (pos t) ->
  rspec (2 * (L - pos t) + 8) f (lex_loop shorthand s f t acc) (fun toks => tiled toks 0 L).
Proof.
  induction f as [|f IH]; intros t acc (S1 & S2) Hti; [simpl; lia|].
  cbn [lex_loop]. cbv zeta.
  destruct (match_markup (rest s (pos t))) as [m|] eqn:Em.
  2:{ apply match_markup_none in Em. pose proof (rest_len (pos t)) as Hl. rewrite Em in Hl. simpl in Hl.
      assert (pos t = L) by lia. rewrite H, Nat.eqb_refl. simpl. rewrite <- H. exact Hti. }
  pose proof (match_markup_len _ _ Em) as Hn. rewrite rest_len in Hn.
  assert (Hrec : forall t' tok, sane t' -> pos t < pos t' -> mtok_start tok = pos t -> mtok_stop tok = pos t' ->
            rspec (2 * (L - pos t) + 8) (S f) (lex_loop shorthand s f t' (tok :: acc)) (fun toks => tiled toks 0 L)).
  { intros t' tok B1 B2 B3 B4.
    eapply rspec_mono; [apply IH; [assumption|]|destruct B1; lia|auto].
    simpl. rewrite <- B4. apply tiled_snoc with (b := pos t); [assumption|assumption|lia]. }
  destruct m as [w0 w1 w2 w3 toff tlen n|w0 n|w0 n|w0 noff nlen|h w0 w1 toff tlen n|w0 w1 toff tlen n|n];
    simpl in Hn.
  - apply Hrec; unfold sane; st_simpl; simpl; lia.
  - (* comment tag *)
    eapply rspec_bind.
    + eapply rspec_mono; [apply (block_comment_spec f (set_both (set_mstart t (start t)) (pos t + n)));
                          unfold le_L; st_simpl; lia|st_simpl; lia|intros x H; exact H].
    + intros [t2 tok] (C1 & C2 & C3 & C4 & C5). st_simpl. apply Hrec; try assumption; lia.
  - (* output *)
    eapply rspec_bind.
    + eapply rspec_mono; [apply (expression_until_spec f L_rbrace2 (set_in_range (set_both (set_mstart t (start t)) (pos t + n)) false));
                          [unfold sane; st_simpl; lia|simpl; lia]|st_simpl; lia|intros x H; exact H].
    + intros [[t2 w1] expr] (C1 & C2 & C3 & C4). st_simpl. simpl in C1.
      apply Hrec; unfold sane; st_simpl; simpl; lia.
  - (* tag *)
    destruct (str_eqb _ L_liquid).
    + eapply rspec_bind.
      * eapply rspec_mono; [apply (liquid_tag_spec f (set_in_range (set_both (set_mstart t (start t)) (pos t + noff + nlen)) false));
                            unfold sane; st_simpl; lia|st_simpl; lia|intros x H; exact H].
      * intros [t2 tok] (C1 & C2 & C3 & C4 & C5). st_simpl. apply Hrec; try assumption; lia.
    + eapply rspec_bind.
      * eapply rspec_mono; [apply (expression_until_spec f L_pct_rbrace (set_in_range (set_both (set_mstart t (start t)) (pos t + noff + nlen)) false));
                            [unfold sane; st_simpl; lia|simpl; lia]|st_simpl; lia|intros x H; exact H].
      * intros [[t2 w1] expr] (C1 & C2 & C3 & C4). st_simpl. simpl in C1.
        apply Hrec; unfold sane; st_simpl; simpl; lia.
  - apply Hrec; unfold sane; st_simpl; simpl; lia.
  - apply Hrec; unfold sane; st_simpl; simpl; lia.
  - apply Hrec; unfold sane; st_simpl; simpl; lia.
Qed.

End Specs.

(** * What follows for every source text *)

Lemma lex_rspec sh s :
  rspec s (2 * (length s - 0) + 8) (fuel_lex s) (lex sh s) (fun toks => tiled toks 0 (length s)).
Proof.
  unfold lex, lex_fuel. apply lex_loop_spec.
  - unfold sane; simpl; lia.
  - reflexivity.
Qed.

(** [fuel_lex s] suffices, and no Python exception escapes the scanner. *)
Lemma lex_total sh s : lex sh s <> OutOfFuel /\ forall k, lex sh s <> PyExc k.
Proof.
  pose proof (lex_rspec sh s) as H. unfold fuel_lex in H.
  destruct (lex sh s) as [x|c [i|]|e|]; simpl in H; split; try discriminate; try contradiction; lia.
Qed.

(** The only error is LiquidSyntaxError, and its index lies in [0, |s|]. *)
Lemma lex_error_in_source sh s c i :
  lex sh s = LErr c i ->
  c = LiquidSyntaxError /\
  match i with Some z => (0 <= z <= Z.of_nat (length s))%Z | None => True end.
Proof.
  intros E. pose proof (lex_rspec sh s) as H. rewrite E in H. destruct i; simpl in H; tauto.
Qed.

Lemma tokens_tile sh s toks : lex sh s = Ok toks -> tiled toks 0 (length s).
Proof. intros E. pose proof (lex_rspec sh s) as H. rewrite E in H. exact H. Qed.

(** [tiled] in words. *)
Lemma tiled_bounds l a b :
  tiled l a b -> a <= b /\ Forall (fun m => a <= mtok_start m /\ mtok_start m < mtok_stop m /\ mtok_stop m <= b) l.
Proof.
  revert a; induction l as [|m l IH]; simpl; intros a H.
  - subst. split; [lia|constructor].
  - destruct H as (A & B & C). destruct (IH _ C) as (D & E). split; [lia|].
    constructor; [lia|]. eapply Forall_impl; [|exact E]. simpl. intros x. lia.
Qed.

Lemma tiled_first l a b m : tiled l a b -> hd_error l = Some m -> mtok_start m = a.
Proof.
  destruct l as [|x l]; simpl; intros H1 H2; [discriminate|].
  destruct H1 as (A & _). inversion H2; subst x. exact A.
Qed.

Lemma tiled_last l a b m : tiled (l ++ [m]) a b -> mtok_stop m = b.
Proof.
  revert a; induction l as [|x l IH]; simpl; intros a H.
  - destruct H as (_ & _ & C). exact C.
  - destruct H as (_ & _ & C). eapply IH; eassumption.
Qed.

Lemma tiled_adjacent l a b i m1 m2 :
  tiled l a b -> nth_error l i = Some m1 -> nth_error l (S i) = Some m2 ->
  mtok_stop m1 = mtok_start m2.
Proof.
  revert a i; induction l as [|x l IH]; intros a i H H1 H2; [destruct i; discriminate|].
  destruct H as (A & B & C). destruct i as [|i].
  - simpl in H1, H2. inversion H1; subst. destruct l; [discriminate|]. simpl in H2. inversion H2; subst.
    destruct C as (C & _). auto.
  - simpl in H1, H2. eapply IH; eassumption.
Qed.

Lemma tiled_empty_iff a b : tiled [] a b <-> a = b.
Proof. reflexivity. Qed.

(** * Non-vacuity: the hypotheses of the theorems above are satisfiable by
    non-trivial inputs (witnesses of the formerly refuted statements, now
    behaving as the fixed code does). *)

(* "a{# c #}{{ x.y }}": content, comment, output — defect 12's witness tiles. *)
Example lex_ok_example :
  exists toks, lex false [97; 123; 35; 32; 99; 32; 35; 125; 123; 123; 32; 120; 46; 121; 32; 125; 125]%N = Ok toks
               /\ length toks = 3 /\ map mtok_start toks = [0; 1; 8] /\ map mtok_stop toks = [1; 8; 17].
Proof. eexists. split; [vm_compute; reflexivity|]. repeat split. Qed.

(* "{{ '" — defect 3's witness: a syntax error at index 4 = |s| (end of input). *)
Example lex_error_example :
  lex false [123; 123; 32; 39]%N = LErr LiquidSyntaxError (Some 4%Z).
Proof. vm_compute. reflexivity. Qed.

(* "{{ ..1) }}" — defect 27's witness: a syntax error at the parenthesis. *)
Example lex_range_error_example :
  lex false [123; 123; 32; 46; 46; 49; 41; 32; 125; 125]%N = LErr LiquidSyntaxError (Some 6%Z).
Proof. vm_compute. reflexivity. Qed.

(* "{{ a[1" — backup() at end of input: the one error without a position. *)
Example lex_error_without_token_example :
  lex false [123; 123; 32; 97; 91; 49]%N = LErr LiquidSyntaxError None.
Proof. vm_compute. reflexivity. Qed.
