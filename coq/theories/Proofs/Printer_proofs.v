(** Proofs/Printer_proofs.v — C12: what the printers of Kernels/Printer.v write,
    the parsers of Kernels/Printer.v read back as the same expression. *)
From LQ Require Import Base.Str Kernels.Printer.
From Coq Require Import String Ascii.
Local Open Scope N_scope.
Local Open Scope list_scope.

(** * Strings *)

(** Characters a string value produced by the parser can contain: the lexer's
    string scanner and [unescape] reject code points below 8, and Python
    strings end at U+10FFFF.  (A lone surrogate can be there, written raw.) *)
Definition wf_char (c : N) : Prop := 8 <= c /\ c < 1114112.
Definition wf_str (s : str) : Prop := Forall wf_char s.

Lemma hexval_hexd k : k < 16 -> hexval (hexd k) = Some k.
Proof.
  intro H.
  assert (C : k = 0 \/ k = 1 \/ k = 2 \/ k = 3 \/ k = 4 \/ k = 5 \/ k = 6 \/ k = 7 \/
              k = 8 \/ k = 9 \/ k = 10 \/ k = 11 \/ k = 12 \/ k = 13 \/ k = 14 \/ k = 15) by lia.
  repeat (destruct C as [C|C]; [subst k; reflexivity|]). subst k; reflexivity.
Qed.

Lemma hex4_roundtrip n : n < 65536 ->
  exists a b c d, hex4 n = [a; b; c; d] /\ parse_hex4 a b c d = Some n.
Proof.
  intro H. unfold hex4. eexists _, _, _, _. split; [reflexivity|].
  unfold parse_hex4.
  assert (H3 : n / 4096 < 16) by (apply N.div_lt_upper_bound; lia).
  assert (H2 : (n / 256) mod 16 < 16) by (apply N.mod_lt; lia).
  assert (H1 : (n / 16) mod 16 < 16) by (apply N.mod_lt; lia).
  assert (H0 : n mod 16 < 16) by (apply N.mod_lt; lia).
  rewrite !hexval_hexd by assumption.
  f_equal.
  pose proof (N.div_mod' n 16) as E0.
  pose proof (N.div_mod' (n / 16) 16) as E1.
  pose proof (N.div_mod' (n / 256) 16) as E2.
  replace (n / 16 / 16) with (n / 256) in E1 by (rewrite N.div_div by lia; reflexivity).
  replace (n / 256 / 16) with (n / 4096) in E2 by (rewrite N.div_div by lia; reflexivity).
  lia.
Qed.

Lemma unescape_lit c T n : c <> c_bs -> 8 <= c ->
  unescape_fuel (S n) (c :: T) = (do t <- unescape_fuel n T;; Ok (c :: t)).
Proof.
  intros H1 H2. cbn [unescape_fuel].
  rewrite (proj2 (N.eqb_neq c c_bs) H1), (proj2 (N.ltb_ge c 8) H2). reflexivity.
Qed.

Lemma unescape_u4 a b c d cp T n :
  parse_hex4 a b c d = Some cp -> is_low_surrogate cp = false ->
  is_high_surrogate cp = false -> 8 <= cp ->
  unescape_fuel (S n) (c_bs :: 117 :: a :: b :: c :: d :: T)
  = (do t <- unescape_fuel n T;; Ok (cp :: t)).
Proof.
  intros H1 H2 H3 H4. cbn [unescape_fuel]. change (c_bs =? c_bs) with true. cbv iota.
  change (117 =? c_dq) with false. change (117 =? c_dollar) with false.
  change (117 =? c_bs) with false. change (117 =? 47) with false.
  change (117 =? 98) with false. change (117 =? 102) with false.
  change (117 =? 110) with false. change (117 =? 114) with false.
  change (117 =? 116) with false. change (117 =? 117) with true. cbv iota.
  rewrite H1, H2, H3, (proj2 (N.ltb_ge cp 8) H4). reflexivity.
Qed.

Lemma unescape_u8 a b c d a2 b2 c2 d2 hi lo T n :
  parse_hex4 a b c d = Some hi -> parse_hex4 a2 b2 c2 d2 = Some lo ->
  is_low_surrogate hi = false -> is_high_surrogate hi = true -> is_low_surrogate lo = true ->
  unescape_fuel (S n) (c_bs :: 117 :: a :: b :: c :: d :: c_bs :: 117 :: a2 :: b2 :: c2 :: d2 :: T)
  = (do t <- unescape_fuel n T;; Ok (65536 + ((hi mod 1024) * 1024 + lo mod 1024) :: t)).
Proof.
  intros H1 H2 H3 H4 H5. cbn [unescape_fuel]. change (c_bs =? c_bs) with true. cbv iota.
  change (117 =? c_dq) with false. change (117 =? c_dollar) with false.
  change (117 =? c_bs) with false. change (117 =? 47) with false.
  change (117 =? 98) with false. change (117 =? 102) with false.
  change (117 =? 110) with false. change (117 =? 114) with false.
  change (117 =? 116) with false. change (117 =? 117) with true. cbv iota.
  rewrite H1, H3, H4. change ((c_bs =? c_bs) && (117 =? 117)) with true. cbv iota.
  rewrite H2, H5. reflexivity.
Qed.

Definition uesc (c : N) : str :=
  if 65535 <? c then
    let d := c - 65536 in
    c_bs :: 117 :: hex4 (55296 + d / 1024) ++ c_bs :: 117 :: hex4 (56320 + d mod 1024)
  else c_bs :: 117 :: hex4 c.

Lemma unescape_uesc c T n : wf_char c -> is_surrogate c = false ->
  unescape_fuel (S n) (uesc c ++ T) = (do t <- unescape_fuel n T;; Ok (c :: t)).
Proof.
  intros (W1 & W2) Hs.
  assert (W3 : ~ (55296 <= c <= 57343)).
  { unfold is_surrogate in Hs. intros [A B]. apply N.leb_le in A, B. rewrite A, B in Hs. discriminate. }
  unfold uesc.
  destruct (65535 <? c) eqn:Ebig.
  - apply N.ltb_lt in Ebig.
    assert (Ed : exists d, c = 65536 + d /\ d < 1048576) by (exists (c - 65536); lia).
    destruct Ed as (d & -> & Hd).
    replace (65536 + d - 65536) with d by lia. cbv zeta.
    assert (Hq : d / 1024 < 1024) by (apply N.div_lt_upper_bound; lia).
    assert (Hm : d mod 1024 < 1024) by (apply N.mod_lt; lia).
    pose proof (N.div_mod' d 1024) as Edm.
    remember (d / 1024) as dq eqn:Edq'. remember (d mod 1024) as dm eqn:Edm'.
    destruct (hex4_roundtrip (55296 + dq)) as (a & b & c1 & d1 & Eh & Ph); [lia|].
    destruct (hex4_roundtrip (56320 + dm)) as (a2 & b2 & c2 & d2 & El & Pl); [lia|].
    rewrite Eh, El. cbn [app].
    rewrite (unescape_u8 _ _ _ _ _ _ _ _ _ _ _ _ Ph Pl).
    + replace (65536 + ((55296 + dq) mod 1024 * 1024 + (56320 + dm) mod 1024)) with (65536 + d); [reflexivity|].
      replace ((55296 + dq) mod 1024) with dq.
      2:{ replace (55296 + dq) with (dq + 54 * 1024) by lia.
          rewrite N.mod_add by lia. rewrite N.mod_small; lia. }
      replace ((56320 + dm) mod 1024) with dm.
      2:{ replace (56320 + dm) with (dm + 55 * 1024) by lia.
          rewrite N.mod_add by lia. rewrite N.mod_small; lia. }
      lia.
    + unfold is_low_surrogate. apply andb_false_iff. left. apply N.leb_gt. lia.
    + unfold is_high_surrogate. apply andb_true_iff. split; apply N.leb_le; lia.
    + unfold is_low_surrogate. apply andb_true_iff. split; apply N.leb_le; lia.
  - apply N.ltb_ge in Ebig.
    destruct (hex4_roundtrip c) as (a & b & c1 & d1 & Eh & Ph); [lia|].
    rewrite Eh. cbn [app].
    apply (unescape_u4 _ _ _ _ _ _ _ Ph).
    + unfold is_low_surrogate. apply andb_false_iff.
      destruct (56320 <=? c) eqn:A; [right|left; reflexivity].
      apply N.leb_le in A. apply N.leb_gt. lia.
    + unfold is_high_surrogate. apply andb_false_iff.
      destruct (55296 <=? c) eqn:A; [right|left; reflexivity].
      apply N.leb_le in A. apply N.leb_gt. lia.
    + assumption.
Qed.

(** The chunk [esc1] writes for one character, as [unescape] sees it: in a
    single quoted string the lexer's caller has already turned backslash-quote
    into a bare quote. *)
Definition esc1_v (printable : N -> bool) (q : quote) (c : N) (nx : option N) : str :=
  match q with
  | SQ => if c =? c_sq then [c_sq] else esc1 printable q c nx
  | DQ => esc1 printable q c nx
  end.

Lemma unescape_chunk printable q c nx T n : wf_char c ->
  unescape_fuel (S n) (esc1_v printable q c nx ++ T)
  = (do t <- unescape_fuel n T;; Ok (c :: t)).
Proof.
  intros W. pose proof W as (W1 & W2).
  unfold esc1_v.
  assert (Common : forall qc, ((c =? qc) || (c =? c_bs) = false) ->
    unescape_fuel (S n)
      ((if (c =? c_dollar) && match nx with Some d => d =? c_lbrace | None => false end
        then [c_bs; c_dollar]
        else if c =? 10 then [c_bs; 110] else if c =? 13 then [c_bs; 114]
        else if c =? 9 then [c_bs; 116] else if c =? 8 then [c_bs; 98]
        else if c =? 12 then [c_bs; 102] else if printable c || is_surrogate c then [c] else uesc c) ++ T)
    = (do t <- unescape_fuel n T;; Ok (c :: t))).
  { intros qc E. apply orb_false_iff in E as [_ Ebs]. apply N.eqb_neq in Ebs.
    destruct ((c =? c_dollar) && _) eqn:Ed.
    { apply andb_true_iff in Ed as [Ed _]. apply N.eqb_eq in Ed. subst c. reflexivity. }
    destruct (c =? 10) eqn:E10; [apply N.eqb_eq in E10; subst c; reflexivity|].
    destruct (c =? 13) eqn:E13; [apply N.eqb_eq in E13; subst c; reflexivity|].
    destruct (c =? 9) eqn:E9; [apply N.eqb_eq in E9; subst c; reflexivity|].
    destruct (c =? 8) eqn:E8; [apply N.eqb_eq in E8; subst c; reflexivity|].
    destruct (c =? 12) eqn:E12; [apply N.eqb_eq in E12; subst c; reflexivity|].
    destruct (printable c || is_surrogate c) eqn:Ep; [apply unescape_lit; assumption|].
    apply orb_false_iff in Ep as [_ Ep]. apply unescape_uesc; assumption. }
  destruct q.
  - destruct (c =? c_sq) eqn:Esq.
    + apply N.eqb_eq in Esq. subst c. reflexivity.
    + unfold esc1. cbn [qchar]. rewrite Esq. cbn [orb].
      destruct (c =? c_bs) eqn:Ebs; [apply N.eqb_eq in Ebs; subst c; reflexivity|].
      apply (Common c_sq). try rewrite Esq; try rewrite Ebs; reflexivity.
  - unfold esc1. cbn [qchar].
    destruct (c =? c_dq) eqn:Edq; [apply N.eqb_eq in Edq; subst c; reflexivity|]. cbn [orb].
    destruct (c =? c_bs) eqn:Ebs; [apply N.eqb_eq in Ebs; subst c; reflexivity|].
    apply (Common c_dq). try rewrite Edq; try rewrite Ebs; reflexivity.
Qed.

Fixpoint escape_v (printable : N -> bool) (q : quote) (s : str) : str :=
  match s with
  | [] => []
  | c :: s' => esc1_v printable q c (hd_error s') ++ escape_v printable q s'
  end.

Lemma hexd_not_bs n : hexd n <> c_bs.
Proof. unfold hexd, c_bs. destruct (n <? 10) eqn:E; [apply N.ltb_lt in E|apply N.ltb_ge in E]; lia. Qed.

Lemma hexd_not_sq n : hexd n <> c_sq.
Proof. unfold hexd, c_sq. destruct (n <? 10) eqn:E; [apply N.ltb_lt in E|apply N.ltb_ge in E]; lia. Qed.

Lemma replace_sq_cons c T :
  (c <> c_bs \/ hd_error T <> Some c_sq) -> replace_sq (c :: T) = c :: replace_sq T.
Proof.
  intros H. destruct T as [|d T']; [reflexivity|].
  cbn [replace_sq].
  destruct ((c =? c_bs) && (d =? c_sq)) eqn:E; [|reflexivity].
  apply andb_true_iff in E as [E1 E2]. apply N.eqb_eq in E1, E2. subst.
  destruct H as [H|H]; exfalso; apply H; reflexivity.
Qed.

Lemma replace_sq_quote T : replace_sq (c_bs :: c_sq :: T) = c_sq :: replace_sq T.
Proof. reflexivity. Qed.

(** A chunk none of whose characters is a backslash, except that it may start
    with one that is followed by a character other than a quote. *)
Lemma replace_sq_chunk A R :
  Forall (fun c => c <> c_bs) (tl A) -> hd_error (tl A) <> Some c_sq ->
  (tl A = [] -> hd_error A <> Some c_bs \/ hd_error R <> Some c_sq) ->
  A <> [] ->
  replace_sq (A ++ R) = A ++ replace_sq R.
Proof.
  intros F H1 H2 NE. destruct A as [|a A]; [congruence|]. cbn [tl] in *.
  destruct A as [|b A].
  - cbn [app]. apply replace_sq_cons.
    destruct (H2 eq_refl) as [X|X]; [left|right; exact X].
    cbn in X. congruence.
  - cbn [app]. rewrite replace_sq_cons by (right; exact H1). f_equal.
    clear H1 H2 NE a.
    revert b F. induction A as [|c A IH]; intros b F.
    + cbn [app]. apply replace_sq_cons. left. inversion F; assumption.
    + cbn [app]. rewrite replace_sq_cons by (left; inversion F; assumption).
      f_equal. apply IH. inversion F; assumption.
Qed.

Lemma hd_escape_string_not_sq printable s :
  hd_error (escape_string printable SQ s) <> Some c_sq.
Proof.
  destruct s as [|c s']; [discriminate|].
  cbn [escape_string]. unfold esc1. cbn [qchar].
  destruct ((c =? c_sq) || (c =? c_bs)) eqn:E1; [discriminate|].
  apply orb_false_iff in E1 as [E1 _]. apply N.eqb_neq in E1.
  repeat match goal with
         | |- context [if ?b then _ else _] => destruct b; try discriminate
         end.
  cbn. congruence.
Qed.

Lemma replace_sq_escape printable s :
  replace_sq (escape_string printable SQ s) = escape_v printable SQ s.
Proof.
  induction s as [|c s' IH]; [reflexivity|].
  cbn [escape_string escape_v]. rewrite <- IH.
  pose proof (hd_escape_string_not_sq printable s') as HR.
  unfold esc1_v, esc1. cbn [qchar].
  destruct (c =? c_sq) eqn:Esq.
  { apply N.eqb_eq in Esq. subst c. reflexivity. }
  cbn [orb].
  destruct (c =? c_bs) eqn:Ebs.
  { apply N.eqb_eq in Ebs. subst c. cbn [app].
    rewrite replace_sq_cons by (right; discriminate).
    rewrite replace_sq_cons by (right; exact HR). reflexivity. }
  apply N.eqb_neq in Ebs.
  assert (two : forall x, x <> c_bs -> x <> c_sq ->
            replace_sq ([c_bs; x] ++ escape_string printable SQ s')
            = [c_bs; x] ++ replace_sq (escape_string printable SQ s')).
  { intros x X1 X2. cbn [app].
    rewrite replace_sq_cons by (right; cbn; congruence).
    rewrite replace_sq_cons by (left; exact X1). reflexivity. }
  destruct ((c =? c_dollar) && _); [apply two; discriminate|].
  destruct (c =? 10); [apply two; discriminate|].
  destruct (c =? 13); [apply two; discriminate|].
  destruct (c =? 9); [apply two; discriminate|].
  destruct (c =? 8); [apply two; discriminate|].
  destruct (c =? 12); [apply two; discriminate|].
  destruct (printable c || is_surrogate c).
  { cbn [app]. apply replace_sq_cons. left; exact Ebs. }
  assert (U : forall k R, replace_sq ((c_bs :: 117 :: hex4 k) ++ R)
                          = (c_bs :: 117 :: hex4 k) ++ replace_sq R).
  { intros k R. apply replace_sq_chunk; cbn [tl hd_error hex4 app]; try discriminate.
    repeat constructor; try discriminate; try apply hexd_not_bs. }
  destruct (65535 <? c).
  - change (c_bs :: 117 :: hex4 (55296 + (c - 65536) / 1024)
            ++ c_bs :: 117 :: hex4 (56320 + (c - 65536) mod 1024))
      with ((c_bs :: 117 :: hex4 (55296 + (c - 65536) / 1024))
            ++ (c_bs :: 117 :: hex4 (56320 + (c - 65536) mod 1024))).
    rewrite <- !app_assoc. rewrite U, U. reflexivity.
  - apply U.
Qed.

Lemma esc1_v_nonempty printable q c nx : esc1_v printable q c nx <> [].
Proof.
  unfold esc1_v, esc1.
  destruct q;
    repeat match goal with
           | |- context [if ?b then _ else _] => destruct b; try discriminate
           end.
Qed.

Lemma length_escape_v printable q s : (List.length s <= List.length (escape_v printable q s))%nat.
Proof.
  induction s as [|c s' IH]; [apply Nat.le_refl|].
  cbn [escape_v List.length]. rewrite app_length.
  pose proof (esc1_v_nonempty printable q c (hd_error s')) as NE.
  destruct (esc1_v printable q c (hd_error s')); [congruence|]. cbn [List.length]. lia.
Qed.

Lemma unescape_escape_v printable q s : wf_str s ->
  forall n, (List.length s < n)%nat -> unescape_fuel n (escape_v printable q s) = Ok s.
Proof.
  induction 1 as [|c s' Hc Hs IH]; intros n Hn.
  - destruct n; [inversion Hn|]. reflexivity.
  - destruct n; [inversion Hn|]. cbn [escape_v].
    rewrite unescape_chunk by assumption.
    rewrite IH by (cbn [List.length] in Hn; lia). reflexivity.
Qed.

(** The value of the string token that [_string_repr] writes is the string. *)
Theorem string_roundtrip printable s : wf_str s ->
  string_value (fst (string_repr printable s)) (snd (string_repr printable s)) = Ok s.
Proof.
  intro W. unfold string_repr. cbn [fst snd].
  destruct (choose_quote s); unfold string_value, unescape.
  - rewrite replace_sq_escape. apply unescape_escape_v; [assumption|].
    pose proof (length_escape_v printable SQ s). lia.
  - change (escape_string printable DQ s) with (escape_string printable DQ s).
    assert (E : escape_string printable DQ s = escape_v printable DQ s).
    { clear W. induction s as [|c s' IH]; [reflexivity|]. cbn [escape_string escape_v]. rewrite IH. reflexivity. }
    rewrite E. apply unescape_escape_v; [assumption|].
    pose proof (length_escape_v printable DQ s). lia.
Qed.

(** * Paths and primitives *)

Lemma unescape_plain s :
  Forall (fun c => c <> c_bs /\ 8 <= c) s ->
  forall n, (List.length s < n)%nat -> unescape_fuel n s = Ok s.
Proof.
  induction 1 as [|c s' [H1 H2] _ IH]; intros n Hn.
  - destruct n; [inversion Hn|]. reflexivity.
  - destruct n; [inversion Hn|].
    rewrite unescape_lit by assumption.
    rewrite IH by (cbn [List.length] in Hn; lia). reflexivity.
Qed.

Lemma word_char_plain c : is_word_char c = true -> c <> c_bs /\ 8 <= c.
Proof.
  unfold is_word_char, is_word_start, c_bs. intro H.
  repeat (apply orb_true_iff in H as [H|H]);
    repeat (apply andb_true_iff in H as [? H]);
    repeat match goal with
           | X : (_ <=? _) = true |- _ => apply N.leb_le in X
           | X : (_ =? _) = true |- _ => apply N.eqb_eq in X
           end; lia.
Qed.

Lemma unescape_property s : is_property s = true -> unescape s = Ok s.
Proof.
  intro H. unfold unescape. apply unescape_plain; [|lia].
  destruct s as [|c r]; [constructor|].
  cbn [is_property] in H. apply andb_true_iff in H as [H1 H2].
  constructor.
  - apply word_char_plain. unfold is_word_char. rewrite H1. reflexivity.
  - rewrite forallb_forall in H2. apply Forall_forall. intros x Hx.
    apply word_char_plain. apply H2. exact Hx.
Qed.

(** What a [Path] built by the parser looks like: string segments hold
    characters a string value can hold, and a nested path ([a[b.c]]) starts
    with a property name (the lexer accepts nothing else after the bracket). *)
Definition nested_root (q : path) : Prop :=
  match q with PName s _ => is_property s = true | _ => False end.

Fixpoint wf_segs (p : path) : Prop :=
  match p with
  | PEnd => True
  | PName s r => wf_str s /\ wf_segs r
  | PIndex _ r => wf_segs r
  | PSub q r => nested_root q /\ wf_segs q /\ wf_segs r
  end.

Definition wf_path (p : path) : Prop := p <> PEnd /\ wf_segs p.

Section Roundtrip.
  Variable printable : N -> bool.

  Lemma quoted_seg_roundtrip s r r' : wf_str s -> path_of_tpath r = Ok r' ->
    path_of_tpath (quoted_seg printable s r) = Ok (PName s r').
  Proof.
    intros W H. unfold quoted_seg.
    pose proof (string_roundtrip printable s W) as E.
    destruct (string_repr printable s) as [q raw]. cbn [fst snd] in E.
    cbn [path_of_tpath]. rewrite E, H. reflexivity.
  Qed.

  Lemma path_roundtrip p : wf_segs p ->
    forall nested first, path_of_tpath (print_path printable nested first p) = Ok p.
  Proof.
    induction p as [|s r IH|z r IH|q IHq r IHr]; intros W nested first.
    - reflexivity.
    - destruct W as [Ws Wr]. cbn [print_path].
      destruct (is_property s) eqn:Ep; cbn [negb].
      + assert (D : forall r0, path_of_tpath r0 = Ok r ->
                     path_of_tpath (TPDot s r0) = Ok (PName s r)
                     /\ path_of_tpath (TPRoot s r0) = Ok (PName s r)).
        { intros r0 H. cbn [path_of_tpath]. rewrite (unescape_property s Ep), H. split; reflexivity. }
        destruct (D _ (IH Wr nested false)) as [D1 D2].
        destruct first; cbn [negb]; [|exact D1].
        destruct (negb nested && (match r with PEnd => true | _ => false end && is_reserved s
                                  || starts_uspace s)); [|exact D2].
        apply quoted_seg_roundtrip; [assumption|apply IH; assumption].
      + apply quoted_seg_roundtrip; [assumption|apply IH; assumption].
    - cbn [print_path path_of_tpath]. rewrite (IH W). reflexivity.
    - destruct W as (_ & Wq & Wr). cbn [print_path path_of_tpath].
      rewrite (IHq Wq), (IHr Wr). reflexivity.
  Qed.

  Lemma print_path_end nested first p : print_path printable nested first p = TPEnd -> p = PEnd.
  Proof.
    destruct p; [reflexivity|..]; cbn [print_path]; try discriminate.
    unfold quoted_seg. destruct (string_repr printable s).
    repeat match goal with |- context [if ?b then _ else _] => destruct b end; discriminate.
  Qed.

  (** A path that prints as one bare word is not [empty] or [blank]. *)
  Lemma print_path_bare_word p s :
    print_path printable false true p = TPRoot s TPEnd -> is_reserved s = false.
  Proof.
    destruct p as [|s0 r|z r|q r]; cbn [print_path]; try discriminate.
    unfold quoted_seg. destruct (string_repr printable s0) as [q0 raw0].
    destruct (is_property s0); cbn [negb]; [|discriminate].
    destruct (true && (match r with PEnd => true | _ => false end && is_reserved s0
                       || starts_uspace s0)) eqn:C; [discriminate|].
    intro H. inversion H as [[H1 H2]]. subst s0.
    apply print_path_end in H2. subst r.
    cbn [andb] in C. apply orb_false_iff in C as [C _]. exact C.
  Qed.

  Lemma not_reserved_word s : is_reserved s = false ->
    str_eqb s (lit "empty") = false /\ str_eqb s (lit "blank") = false.
  Proof.
    intro H. unfold is_reserved in H.
    split; apply str_eqb_neq; intro E; subst s; vm_compute in H; discriminate.
  Qed.

  Definition range_start_ok (p : prim) : Prop :=
    match p with PInt _ | PStr _ | PPath _ => True | _ => False end.
  Definition range_stop_ok (p : prim) : Prop :=
    match p with PInt _ | PStr _ | PPath _ | PEmpty | PBlank => True | _ => False end.

  (** Primitives the parser can produce: integers that survive
      [to_int(float(...))], floats (infinity included; no literal denotes
      nan), strings and paths as above, and
      ranges bounded by what the lexer's [accept_range] admits. *)
  Fixpoint wf_prim (p : prim) : Prop :=
    match p with
    | PInt z => int_of_float_of z = Ok z
    | PFloat f => f <> FNan
    | PStr s => wf_str s
    | PPath pa => wf_path pa
    | PRange a b => range_start_ok a /\ range_stop_ok b /\ wf_prim a /\ wf_prim b
    | PContinue => False        (* only [LoopExpression.parse] makes it, for [offset:] *)
    | _ => True
    end.

  Lemma atok_roundtrip rs p : wf_prim p -> (forall a b, p <> PRange a b) ->
    parse_atok (prim_atok printable rs p) = Ok p.
  Proof.
    intros W NR. destruct p as [| | | | |z|f|s|pa|a b|]; cbn [prim_atok]; try reflexivity.
    - cbn [wf_prim] in W. cbn [parse_atok]. rewrite W. reflexivity.
    - destruct f; cbn [wf_prim] in W; [reflexivity|reflexivity|congruence].
    - cbn [wf_prim] in W. pose proof (string_roundtrip printable s W) as E.
      destruct (string_repr printable s) as [q raw]. cbn [fst snd] in E.
      cbn [parse_atok]. rewrite E. reflexivity.
    - destruct W as [_ W]. unfold path_atok.
      pose proof (path_roundtrip pa W false true) as R.
      destruct (print_path printable false true pa) as [|s r|s r|q raw r|z r|q r] eqn:E;
        try (cbn [parse_atok]; rewrite R; reflexivity).
      destruct r; try (cbn [parse_atok]; rewrite R; reflexivity).
      destruct rs; [cbn [parse_atok]; rewrite R; reflexivity|].
      apply print_path_bare_word in E. apply not_reserved_word in E as [E1 E2].
      cbn [parse_atok]. rewrite E1, E2.
      cbn [path_of_tpath] in R.
      destruct (unescape s) as [s'| | |]; cbn [bind] in *; try discriminate.
      inversion R. reflexivity.
    - exfalso. apply (NR a b). reflexivity.
    - contradiction.
  Qed.

  Lemma prim_roundtrip p : wf_prim p ->
    parse_primitive (Some (print_prim printable p)) = Ok p.
  Proof.
    intro W. destruct p as [| | | | |z|f|s|pa|a b|];
      try (cbn [print_prim parse_primitive]; apply atok_roundtrip; [exact W|discriminate]).
    destruct W as (Sa & Sb & Wa & Wb). cbn [print_prim parse_primitive].
    rewrite atok_roundtrip; [|exact Wa|destruct a; cbn in Sa; try contradiction; discriminate].
    rewrite atok_roundtrip; [|exact Wb|destruct b; cbn in Sb; try contradiction; discriminate].
    reflexivity.
  Qed.
End Roundtrip.

(** * Boolean expressions: the parenthesisation written by [_boolean_str_in]
      is sufficient for [parse_boolean_primitive] *)

Lemma bind_ok_inv {A B} (x : res A) (f : A -> res B) r :
  bind x f = Ok r -> exists a, x = Ok a /\ f a = Ok r.
Proof. destruct x; cbn [bind]; intro H; try discriminate. eauto. Qed.

Definition primary (f : nat -> list tok -> res (bexpr * list tok)) (ts : list tok)
  : res (bexpr * list tok) :=
  match ts with
  | TNot :: r => do er <- f 1%nat r;; Ok (BNot (fst er), snd er)
  | TLParen :: r =>
    do er <- f 1%nat r;;
    match snd er with
    | TRParen :: r' => Ok (fst er, r')
    | _ => syntax_error
    end
  | t :: r => do pr <- parse_primitive (Some t);; Ok (BPrim pr, r)
  | [] => syntax_error
  end.

Lemma pbp_S n p ts :
  pbp (S n) p ts = (do lr <- primary (pbp n) ts;; ploop n p (fst lr) (snd lr)).
Proof. reflexivity. Qed.

Lemma ploop_S n p lhs ts :
  ploop (S n) p lhs ts =
  match ts with
  | TOp o :: r =>
    if (prec o <? p)%nat then Ok (lhs, ts)
    else do er <- pbp n (prec o) r;; ploop n p (BBin o lhs (fst er)) (snd er)
  | _ => Ok (lhs, ts)
  end.
Proof. reflexivity. Qed.

Lemma primary_mono (f g : nat -> list tok -> res (bexpr * list tok)) ts r :
  (forall p ts' r', f p ts' = Ok r' -> g p ts' = Ok r') ->
  primary f ts = Ok r -> primary g ts = Ok r.
Proof.
  intros M H. destruct ts as [|t ts']; [exact H|].
  destruct t; try exact H; cbn [primary] in *.
  - apply bind_ok_inv in H as (er & H1 & H2). rewrite (M _ _ _ H1). exact H2.
  - apply bind_ok_inv in H as (er & H1 & H2). rewrite (M _ _ _ H1). exact H2.
Qed.

Lemma pbp_mono_both n :
  (forall p ts r, pbp n p ts = Ok r -> forall m, (n <= m)%nat -> pbp m p ts = Ok r)
  /\ (forall p l ts r, ploop n p l ts = Ok r -> forall m, (n <= m)%nat -> ploop m p l ts = Ok r).
Proof.
  induction n as [|n [IH1 IH2]].
  - split; intros; discriminate.
  - split.
    + intros p ts r H m Hm. destruct m as [|m]; [inversion Hm|].
      rewrite pbp_S in *. apply bind_ok_inv in H as (lr & H1 & H2).
      rewrite (primary_mono (pbp n) (pbp m) ts lr); [|intros; apply IH1 with (m := m) in H; [exact H|lia]|exact H1].
      cbn [bind]. apply IH2; [exact H2|lia].
    + intros p l ts r H m Hm. destruct m as [|m]; [inversion Hm|].
      rewrite ploop_S in *.
      destruct ts as [|t ts']; [exact H|]. destruct t; try exact H.
      destruct (prec o <? p)%nat; [exact H|].
      apply bind_ok_inv in H as (er & H1 & H2).
      rewrite (IH1 _ _ _ H1 m) by lia. cbn [bind]. apply IH2; [exact H2|lia].
Qed.

Lemma pbp_mono n m p ts r : pbp n p ts = Ok r -> (n <= m)%nat -> pbp m p ts = Ok r.
Proof. intros H L. exact (proj1 (pbp_mono_both n) p ts r H m L). Qed.

Lemma ploop_mono n m p l ts r : ploop n p l ts = Ok r -> (n <= m)%nat -> ploop m p l ts = Ok r.
Proof. intros H L. exact (proj2 (pbp_mono_both n) p l ts r H m L). Qed.

(** [rest] does not begin with an infix operator binding at least as tightly as [p]. *)
Definition stops (p : nat) (rest : list tok) : Prop :=
  match rest with TOp o :: _ => (prec o < p)%nat | _ => True end.
(** [rest] does not begin with an infix operator. *)
Definition nobin (rest : list tok) : Prop :=
  match rest with TOp _ :: _ => False | _ => True end.

Lemma nobin_stops p rest : nobin rest -> stops p rest.
Proof. destruct rest as [|[] ?]; cbn; tauto. Qed.

Lemma stops_le p q rest : stops p rest -> (p <= q)%nat -> stops q rest.
Proof. destruct rest as [|[] ?]; cbn; try tauto. lia. Qed.

Lemma ploop_stop n p e rest : stops p rest -> ploop (S n) p e rest = Ok (e, rest).
Proof.
  intro H. rewrite ploop_S. destruct rest as [|t r]; [reflexivity|].
  destruct t; try reflexivity. cbn in H.
  rewrite (proj2 (Nat.ltb_lt _ _) H). reflexivity.
Qed.

Lemma ploop_ok_pos n p e rest r : ploop n p e rest = Ok r -> exists k, n = S k.
Proof. destruct n; [discriminate|eauto]. Qed.

Lemma prec_ge_1 o : (1 <= prec o)%nat.
Proof. destruct o; cbn; lia. Qed.

Fixpoint bsize (e : bexpr) : nat :=
  match e with
  | BPrim _ => 1
  | BNot x => S (bsize x)
  | BBin _ l r => S (bsize l + bsize r)
  end.

Lemma strip_app a b : strip (a ++ b) = strip a ++ strip b.
Proof. unfold strip. apply filter_app. Qed.

Section Bool.
  Variable printable : N -> bool.

  Fixpoint wf_bexpr (e : bexpr) : Prop :=
    match e with
    | BPrim p => wf_prim p
    | BNot x => wf_bexpr x
    | BBin _ l r => wf_bexpr l /\ wf_bexpr r
    end.

  Lemma print_prim_not_sp p : is_sp (print_prim printable p) = false.
  Proof. destruct p; reflexivity. Qed.

  (** Stripped tokens and open-not flag of [pb]. *)
  Definition sb (e : bexpr) (pp : nat) (lf : bool) : list tok := strip (fst (pb printable e pp lf)).
  Definition ob (e : bexpr) (pp : nat) (lf : bool) : bool := snd (pb printable e pp lf).

  Definition paren (o : binop) (r : bexpr) (pp : nat) (lf : bool) : bool :=
    (prec o <? pp)%nat || (lf && ((prec o =? pp)%nat || ob r (prec o) false)).

  Lemma sb_prim p pp lf : sb (BPrim p) pp lf = [print_prim printable p].
  Proof. unfold sb. cbn [pb fst strip filter]. rewrite print_prim_not_sp. reflexivity. Qed.

  Lemma sb_not x pp lf :
    sb (BNot x) pp lf =
    if lf then TLParen :: TNot :: sb x 5%nat false ++ [TRParen] else TNot :: sb x 5%nat false.
  Proof.
    unfold sb. cbn [pb]. destruct lf; cbn [fst].
    - change (TLParen :: TNot :: TSp :: fst (pb printable x 5%nat false) ++ [TRParen])
        with ([TLParen; TNot; TSp] ++ fst (pb printable x 5%nat false) ++ [TRParen]).
      rewrite !strip_app. reflexivity.
    - reflexivity.
  Qed.

  Lemma ob_not x pp lf : ob (BNot x) pp lf = negb lf.
  Proof. unfold ob. cbn [pb]. destruct lf; reflexivity. Qed.

  Lemma sb_bin o l r pp lf :
    sb (BBin o l r) pp lf =
    if paren o r pp lf
    then TLParen :: (sb l (prec o) true ++ TOp o :: sb r (prec o) false) ++ [TRParen]
    else sb l (prec o) true ++ TOp o :: sb r (prec o) false.
  Proof.
    unfold sb, paren, ob. cbn [pb].
    destruct (pb printable r (prec o) false) as [rs opr]. cbn [fst snd].
    destruct ((prec o <? pp)%nat || lf && ((prec o =? pp)%nat || opr)); cbn [fst].
    - change (TLParen :: (fst (pb printable l (prec o) true) ++ TSp :: TOp o :: TSp :: rs) ++ [TRParen])
        with ([TLParen] ++ (fst (pb printable l (prec o) true) ++ [TSp; TOp o; TSp] ++ rs) ++ [TRParen]).
      rewrite !strip_app. reflexivity.
    - change (fst (pb printable l (prec o) true) ++ TSp :: TOp o :: TSp :: rs)
        with (fst (pb printable l (prec o) true) ++ [TSp; TOp o; TSp] ++ rs).
      rewrite !strip_app. reflexivity.
  Qed.

  Lemma ob_bin o l r pp lf :
    ob (BBin o l r) pp lf = if paren o r pp lf then false else ob r (prec o) false.
  Proof.
    unfold paren, ob. cbn [pb].
    destruct (pb printable r (prec o) false) as [rs opr]. cbn [fst snd].
    destruct ((prec o <? pp)%nat || lf && ((prec o =? pp)%nat || opr)); reflexivity.
  Qed.

  (** A left operand never ends with an open [not]. *)
  Lemma ob_left e pp : ob e pp true = false.
  Proof.
    destruct e as [p|x|o l r].
    - reflexivity.
    - apply ob_not.
    - rewrite ob_bin. unfold paren. cbn [andb].
      destruct (ob r (prec o) false); [|destruct (_ || _); reflexivity].
      rewrite orb_true_r, orb_true_r. reflexivity.
  Qed.

  Lemma print_prim_primary f p rest : wf_prim p ->
    primary f (print_prim printable p :: rest) = Ok (BPrim p, rest).
  Proof.
    intro W. pose proof (prim_roundtrip printable p W) as R.
    destruct p; cbn [print_prim prim_atok] in *; cbn [primary]; rewrite R; reflexivity.
  Qed.

  (** The key lemma.  Parsing the printed tokens of [e] followed by [rest], at
      precedence [p], is the same as having read [e] and continuing the
      operator loop on [rest], provided that
      - if the text ends with an open [not], [rest] does not start with an
        infix operator;
      - if [e] is an unparenthesised infix expression of precedence [q], then
        [p <= q] and [rest] does not start with an operator of precedence
        [>= q]. *)
  Lemma pbp_print e : wf_bexpr e ->
    forall pp lf p rest n final,
      (ob e pp lf = true -> nobin rest) ->
      (forall o l r, e = BBin o l r -> paren o r pp lf = false ->
                     (p <= prec o)%nat /\ stops (prec o) rest) ->
      ploop n p e rest = Ok final ->
      pbp (n + 2 * bsize e) p (sb e pp lf ++ rest) = Ok final.
  Proof.
    induction e as [pr|x IH|o l IHl r IHr]; intros W pp lf p rest n final Hopen Hbin Hloop.
    - (* primitive *)
      rewrite sb_prim. cbn [bsize app].
      replace (n + 2 * 1)%nat with (S (S n)) by lia.
      rewrite pbp_S, print_prim_primary by exact W. cbn [bind fst snd].
      eapply ploop_mono; [exact Hloop|lia].
    - (* not *)
      cbn [wf_bexpr] in W. destruct (ploop_ok_pos _ _ _ _ _ Hloop) as [k Hk].
      rewrite sb_not. rewrite ob_not in Hopen. cbn [bsize].
      replace (n + 2 * S (bsize x))%nat with (S (S (n + 2 * bsize x))) by lia.
      destruct lf; cbn [negb] in Hopen.
      + (* parenthesised: ( not x ) *)
        set (m := (n + 2 * bsize x)%nat).
        assert (Ex : pbp m 1%nat (sb x 5%nat false ++ TRParen :: rest) = Ok (x, TRParen :: rest)).
        { apply IH; [exact W|intros _; exact I| |subst n; apply ploop_stop; exact I].
          intros o l r _ _. split; [apply prec_ge_1|exact I]. }
        rewrite pbp_S. cbn [app primary].
        rewrite pbp_S. rewrite <- app_assoc. cbn [app primary]. rewrite Ex. cbn [bind fst snd].
        assert (Hm : exists k', m = S k') by (exists (k + 2 * bsize x)%nat; unfold m; lia).
        destruct Hm as [k' Hk']. rewrite Hk' at 1. rewrite ploop_stop by exact I.
        cbn [bind fst snd].
        eapply ploop_mono; [exact Hloop|unfold m; lia].
      + (* open: not x *)
        specialize (Hopen eq_refl).
        rewrite pbp_S. cbn [app primary].
        assert (Ex : pbp (S (n + 2 * bsize x)) 1%nat (sb x 5%nat false ++ rest) = Ok (x, rest)).
        { eapply pbp_mono; [|apply Nat.le_succ_diag_r].
          apply IH; [exact W|intros _; exact Hopen| |subst n; apply ploop_stop; apply nobin_stops; exact Hopen].
          intros o l r _ _. split; [apply prec_ge_1|apply nobin_stops; exact Hopen]. }
        rewrite Ex. cbn [bind fst snd].
        eapply ploop_mono; [exact Hloop|lia].
    - (* infix *)
      destruct W as [Wl Wr]. set (q := prec o).
      destruct (ploop_ok_pos _ _ _ _ _ Hloop) as [k Hk].
      (* the unparenthesised sequence, in any context that satisfies the side conditions *)
      assert (Inner : forall p' rest' n' final',
                 (p' <= q)%nat -> stops q rest' -> (ob r q false = true -> nobin rest') ->
                 ploop n' p' (BBin o l r) rest' = Ok final' ->
                 pbp (n' + 2 * bsize l + 2 * bsize r + 1) p'
                     ((sb l q true ++ TOp o :: sb r q false) ++ rest') = Ok final').
      { intros p' rest' n' final' Hp Hst Hop Hl.
        destruct (ploop_ok_pos _ _ _ _ _ Hl) as [k' Hk'].
        rewrite <- app_assoc. cbn [app].
        replace (n' + 2 * bsize l + 2 * bsize r + 1)%nat
          with ((n' + 2 * bsize r + 1) + 2 * bsize l)%nat by lia.
        apply IHl; [exact Wl| | |].
        - rewrite ob_left. discriminate.
        - intros o1 l1 r1 -> Hpar. unfold paren in Hpar. cbn [andb] in Hpar.
          apply orb_false_iff in Hpar as [P1 P2]. apply orb_false_iff in P2 as [P2 _].
          apply Nat.ltb_ge in P1. apply Nat.eqb_neq in P2. fold q in P1, P2.
          split; [lia|]. cbn [stops]. fold q. lia.
        - replace (n' + 2 * bsize r + 1)%nat with (S (n' + 2 * bsize r)) by lia.
          rewrite ploop_S. fold q.
          rewrite (proj2 (Nat.ltb_ge q p') Hp).
          assert (Er : pbp (n' + 2 * bsize r) q (sb r q false ++ rest') = Ok (r, rest')).
          { apply IHr; [exact Wr|exact Hop| |subst n'; apply ploop_stop; exact Hst].
            intros o2 l2 r2 -> Hpar. unfold paren in Hpar. cbn [andb] in Hpar.
            rewrite orb_false_r in Hpar. apply Nat.ltb_ge in Hpar. fold q in Hpar.
            split; [exact Hpar|]. eapply stops_le; [exact Hst|exact Hpar]. }
          rewrite Er. cbn [bind fst snd].
          eapply ploop_mono; [exact Hl|lia]. }
      rewrite sb_bin. rewrite ob_bin in Hopen. fold q. fold q in Hopen.
      cbn [bsize].
      destruct (paren o r pp lf) eqn:Hpar.
      + (* parenthesised *)
        replace (n + 2 * S (bsize l + bsize r))%nat
          with (S (n + 2 * bsize l + 2 * bsize r + 1)) by lia.
        rewrite pbp_S. cbn [app primary]. rewrite <- app_assoc. cbn [app].
        rewrite (Inner 1%nat (TRParen :: rest) n (BBin o l r, TRParen :: rest));
          [|apply prec_ge_1|exact I|intros _; exact I|subst n; apply ploop_stop; exact I].
        cbn [bind fst snd].
        eapply ploop_mono; [exact Hloop|lia].
      + (* not parenthesised *)
        destruct (Hbin o l r eq_refl Hpar) as [Hp Hst].
        eapply pbp_mono; [apply (Inner p rest n final Hp Hst Hopen Hloop)|lia].
  Qed.
End Bool.

Section BoolTop.
  Variable printable : N -> bool.

  Lemma bsize_le_sb e pp lf : (bsize e <= List.length (sb printable e pp lf))%nat.
  Proof.
    revert pp lf. induction e as [pr|x IH|o l IHl r IHr]; intros pp lf.
    - rewrite sb_prim. cbn. lia.
    - rewrite sb_not. specialize (IH 5%nat false). cbn [bsize].
      destruct lf; cbn [List.length]; rewrite ?app_length; cbn [List.length]; lia.
    - rewrite sb_bin. specialize (IHl (prec o) true). specialize (IHr (prec o) false). cbn [bsize].
      destruct (paren printable o r pp lf); cbn [List.length];
        rewrite ?app_length; cbn [List.length]; rewrite ?app_length; cbn [List.length]; lia.
  Qed.

  (** Parsing a printed Boolean expression that is followed by anything but an
      infix operator (end of input, [,], [|], [else], [)] ...). *)
  Lemma pbp_print_top e rest n : wf_bexpr e -> nobin rest ->
    (2 * List.length (strip (print_bool printable e)) + 1 <= n)%nat ->
    pbp n 1%nat (strip (print_bool printable e) ++ rest) = Ok (e, rest).
  Proof.
    intros W NB Hn.
    change (strip (print_bool printable e)) with (sb printable e 0%nat false) in *.
    pose proof (bsize_le_sb e 0%nat false) as Hs.
    eapply pbp_mono; [apply (pbp_print printable e W 0%nat false 1%nat rest 1%nat (e, rest))|lia].
    - intros _. exact NB.
    - intros o l r _ _. split; [apply prec_ge_1|apply nobin_stops; exact NB].
    - apply ploop_stop. apply nobin_stops. exact NB.
  Qed.

  Theorem print_parse_bool e : wf_bexpr e ->
    parse_bool (strip (print_bool printable e)) = Ok e.
  Proof.
    intro W. unfold parse_bool.
    pose proof (pbp_print_top e [] (fuel_of (strip (print_bool printable e))) W I) as H.
    rewrite app_nil_r in H. rewrite H by (unfold fuel_of; lia). reflexivity.
  Qed.
End BoolTop.

(** * Filters, arguments, lambda expressions, filtered and ternary expressions *)

Lemma strip_join sep xs : strip (join sep xs) = join (strip sep) (map strip xs).
Proof.
  induction xs as [|x r IH]; [reflexivity|].
  cbn [join map]. destruct r as [|y r']; [reflexivity|].
  rewrite !strip_app, IH. reflexivity.
Qed.

Lemma join_cons2 {A} (sep : list A) x y r : join sep (x :: y :: r) = x ++ sep ++ join sep (y :: r).
Proof. reflexivity. Qed.

Lemma join_one {A} (sep : list A) x : join sep [x] = x.
Proof. reflexivity. Qed.

(** What may follow the arguments of a filter in printed text. *)
Definition args_end (rest : list tok) : Prop :=
  match rest with [] | TPipe :: _ | TDPipe :: _ | TIf :: _ => True | _ => False end.

Lemma args_end_nobin rest : args_end rest -> nobin rest.
Proof. destruct rest as [|[] ?]; cbn; tauto. Qed.

(** Tokens after which the argument loop reads the next argument or stops. *)
Definition arg_sep (rest : list tok) : Prop :=
  (exists r, rest = TComma :: r) \/ args_end rest.

Lemma arg_sep_nobin rest : arg_sep rest -> nobin rest.
Proof. intros [[r ->]|H]; [exact I|apply args_end_nobin; exact H]. Qed.

Definition arg_prim_tok (t : tok) : bool :=
  match t with
  | TA (APath _) | TA (AInt _) | TA (AFloat _) | TA (AStr _ _)
  | TA AFalse | TA ATrue | TA ANil | TRange _ _ => true
  | _ => false
  end.

Lemma parse_args_primtok t r acc n : arg_prim_tok t = true ->
  parse_args (S n) (t :: r) acc
  = (do p <- parse_primitive (Some t);; parse_args n r (acc ++ [APos (AVPrim p)])).
Proof. destruct t as [|a|a b|o| | | | | | | | | | | | | | | |s]; try discriminate; [destruct a|]; try discriminate; reflexivity. Qed.

Lemma parse_args_word_path w r acc n : arg_sep r ->
  parse_args (S n) (TA (AWord w) :: r) acc
  = (do w' <- unescape w;; parse_args n r (acc ++ [APos (AVPrim (PPath (PName w' PEnd)))])).
Proof.
  intros [[r' ->]|H]; [reflexivity|].
  destruct r as [|[] ?]; cbn in H; try contradiction; reflexivity.
Qed.

Lemma parse_args_end acc rest n : args_end rest -> parse_args (S n) rest acc = Ok (acc, rest).
Proof. destruct rest as [|[] ?]; cbn [args_end]; try contradiction; reflexivity. Qed.

Section Filtered.
  Variable printable : N -> bool.

  Notation pprim := (print_prim printable).
  Notation pbool := (print_bool printable).

  Definition wf_argval_pos (v : argval) : Prop :=
    match v with
    | AVPrim p => wf_prim p /\ p <> PEmpty /\ p <> PBlank
    | AVLambda ps body => ps <> [] /\ Forall (fun x => is_word x = true) ps /\ wf_bexpr body
    end.
  Definition wf_argval_kw (v : argval) : Prop :=
    match v with
    | AVPrim p => wf_prim p
    | AVLambda ps body => (exists x, ps = [x] /\ is_word x = true) /\ wf_bexpr body
    end.
  (** Arguments [Filter.parse] can produce: a positional word is always a
      path (never [empty]/[blank]); a lambda has at least one parameter
      ([() => e] is a syntax error); a keyword argument's lambda has exactly one
      (a parenthesised parameter list is not accepted there). *)
  Definition wf_arg (a : arg) : Prop :=
    match a with
    | APos v => wf_argval_pos v
    | AKw n v => is_word n = true /\ wf_argval_kw v
    end.
  Definition wf_filter (f : filt) : Prop := is_word (f_name f) = true /\ Forall wf_arg (f_args f).

  Lemma strip_prim p r : strip (pprim p :: r) = pprim p :: strip r.
  Proof. unfold strip. cbn [filter]. rewrite print_prim_not_sp. reflexivity. Qed.

  (** A primitive printed in positional-argument position is read back. *)
  Lemma parse_args_prim p r acc n : wf_prim p -> p <> PEmpty -> p <> PBlank -> arg_sep r ->
    parse_args (S n) (pprim p :: r) acc = parse_args n r (acc ++ [APos (AVPrim p)]).
  Proof.
    intros W NE NB Hr.
    pose proof (prim_roundtrip printable p W) as R.
    destruct (arg_prim_tok (pprim p)) eqn:E.
    - rewrite parse_args_primtok by exact E. rewrite R. reflexivity.
    - destruct p as [| | | | |z|f|s|pa|a b|]; try discriminate E; try congruence.
      + destruct f; cbn in W; try congruence; discriminate E.
      + cbn [print_prim prim_atok] in *. unfold path_atok in *.
        destruct (print_path printable false true pa) as [|s r0|s r0|q raw r0|z r0|q r0] eqn:Ep;
          try discriminate E.
        destruct r0; try discriminate E.
        rewrite parse_args_word_path by exact Hr.
        apply print_path_bare_word in Ep. apply not_reserved_word in Ep as [E1 E2].
        cbn [parse_primitive parse_atok] in R. rewrite E1, E2 in R.
        destruct (unescape s) as [s'| | |]; cbn [bind] in *; try discriminate.
        inversion R. reflexivity.
      + contradiction.
  Qed.

  Lemma parse_params_print ps rest n : (List.length ps < n)%nat ->
    parse_params n (join [TComma] (map (fun x => [word x]) ps) ++ TRParen :: rest)
    = Ok (ps, TRParen :: rest).
  Proof.
    revert n. induction ps as [|x r IH]; intros n Hn.
    - destruct n; [inversion Hn|]. reflexivity.
    - destruct n; [inversion Hn|]. cbn [List.length] in Hn.
      destruct r as [|y r'].
      + pose proof (IH n ltac:(cbn; lia)) as E. cbn [map join app] in E.
        cbn [map join app parse_params word]. rewrite E. reflexivity.
      + pose proof (IH n ltac:(cbn [List.length] in *; lia)) as E.
        cbn [map]. rewrite join_cons2. cbn [app parse_params word].
        cbn [map] in E. rewrite E. reflexivity.
  Qed.

  Definition sargval (v : argval) : list tok := strip (print_argval printable v).
  Definition sarg (a : arg) : list tok := strip (print_arg printable a).

  Lemma sargval_lambda1 x body :
    sargval (AVLambda [x] body) = word x :: TArrow :: strip (pbool body).
  Proof. reflexivity. Qed.

  Lemma sargval_lambdaN ps body : (forall x, ps <> [x]) ->
    sargval (AVLambda ps body)
    = TLParen :: join [TComma] (map (fun x => [word x]) ps) ++ TRParen :: TArrow :: strip (pbool body).
  Proof.
    intro H. unfold sargval.
    assert (E : print_argval printable (AVLambda ps body)
                = TLParen :: join sep_comma (map (fun x => [word x]) ps)
                  ++ TRParen :: TSp :: TArrow :: TSp :: pbool body).
    { destruct ps as [|x [|y r]]; try reflexivity. exfalso. apply (H x). reflexivity. }
    rewrite E.
    change (TLParen :: join sep_comma (map (fun x => [word x]) ps)
            ++ TRParen :: TSp :: TArrow :: TSp :: pbool body)
      with ([TLParen] ++ join sep_comma (map (fun x => [word x]) ps)
            ++ [TRParen; TSp; TArrow; TSp] ++ pbool body).
    rewrite !strip_app, strip_join, map_map. reflexivity.
  Qed.

  Lemma parse_lambda_print ps body rest n :
    ps <> [] -> wf_bexpr body -> nobin rest ->
    (2 * List.length (sargval (AVLambda ps body)) + 1 <= n)%nat ->
    parse_lambda n (sargval (AVLambda ps body) ++ rest) = Ok (AVLambda ps body, rest).
  Proof.
    intros NE W NB Hn.
    destruct ps as [|x [|y r]].
    - congruence.
    - rewrite sargval_lambda1 in *. cbn [app parse_lambda word] in *. cbn [List.length] in Hn.
      rewrite pbp_print_top; [reflexivity|exact W|exact NB|lia].
    - rewrite sargval_lambdaN in * by discriminate.
      cbn [app parse_lambda]. rewrite <- app_assoc.
      cbn [List.length] in Hn. rewrite app_length in Hn. cbn [List.length] in Hn.
      assert (Lp : (List.length (x :: y :: r)
                    <= List.length (join [TComma] (map (fun x0 => [word x0]) (x :: y :: r))))%nat).
      { generalize (x :: y :: r). intro l. induction l as [|a l IH]; [apply Nat.le_refl|].
        destruct l as [|b l']; [cbn; lia|].
        cbn [map]. rewrite join_cons2. rewrite !app_length. cbn [List.length] in *. 
        cbn [map] in IH. lia. }
      change ((TRParen :: TArrow :: strip (pbool body)) ++ rest)
        with (TRParen :: (TArrow :: strip (pbool body) ++ rest)).
      rewrite parse_params_print by lia. cbn [bind fst snd app].
      rewrite pbp_print_top; [reflexivity|exact W|exact NB|lia].
  Qed.

  (** One printed argument, followed by a comma or by the end of the
      arguments, is read back by one turn of the argument loop. *)
  Lemma parse_one_arg a rest acc n : wf_arg a -> arg_sep rest ->
    (2 * List.length (sarg a) + 1 <= n)%nat ->
    parse_args (S n) (sarg a ++ rest) acc = parse_args n rest (acc ++ [a]).
  Proof.
    intros W Hr Hn. pose proof (arg_sep_nobin rest Hr) as NB.
    destruct a as [v|name v].
    - (* positional *)
      destruct v as [p|ps body].
      + destruct W as (W & NE & NBl). unfold sarg. cbn [print_arg print_argval].
        rewrite strip_prim. cbn [strip filter app].
        apply parse_args_prim; assumption.
      + destruct W as (NE & _ & W). change (sarg (APos (AVLambda ps body))) with (sargval (AVLambda ps body)) in *.
        pose proof (parse_lambda_print ps body rest n NE W NB Hn) as L.
        destruct ps as [|x [|y r]].
        * congruence.
        * rewrite sargval_lambda1 in *. cbn [app word] in *.
          cbn [parse_args]. rewrite L. reflexivity.
        * rewrite sargval_lambdaN in * by discriminate. cbn [app] in *.
          cbn [parse_args]. rewrite L. reflexivity.
    - (* keyword *)
      destruct W as [_ W].
      assert (E : sarg (AKw name v) = word name :: TColon :: sargval v) by reflexivity.
      rewrite E in *. cbn [app word List.length] in *.
      destruct v as [p|ps body].
      + unfold sargval. cbn [print_argval]. rewrite strip_prim. cbn [strip filter app].
        cbn [parse_args tl hd_error].
        assert (A : is_arrow (hd_error rest) = false).
        { destruct Hr as [[r ->]|Hr]; [reflexivity|].
          destruct rest as [|[] ?]; cbn in Hr; try contradiction; reflexivity. }
        rewrite A. rewrite (prim_roundtrip printable p W). reflexivity.
      + destruct W as [(x & -> & _) W].
        pose proof (parse_lambda_print [x] body rest n ltac:(discriminate) W NB) as L.
        rewrite sargval_lambda1 in *. cbn [app word List.length] in *.
        cbn [parse_args tl hd_error is_arrow].
        rewrite L by lia. reflexivity.
  Qed.

  Definition sargs (args : list arg) : list tok := join [TComma] (map sarg args).

  Lemma parse_args_print args : Forall wf_arg args ->
    forall acc rest n, args_end rest ->
      (2 * List.length (sargs args) + 2 <= n)%nat ->
      parse_args n (sargs args ++ rest) acc = Ok (acc ++ args, rest).
  Proof.
    induction 1 as [|a r Wa Wr IH]; intros acc rest n He Hn.
    - cbn [sargs map join app]. destruct n; [lia|].
      rewrite parse_args_end by exact He. rewrite app_nil_r. reflexivity.
    - unfold sargs in *.
      destruct r as [|b r']; cbn [map] in *.
      + rewrite join_one in *. destruct n; [lia|].
        rewrite parse_one_arg; [|exact Wa|right; exact He|lia].
        destruct n; [lia|]. rewrite parse_args_end by exact He. reflexivity.
      + cbn [map] in *. rewrite join_cons2 in *. rewrite <- !app_assoc.
        rewrite !app_length in Hn. cbn [List.length app] in *.
        destruct n; [lia|].
        rewrite parse_one_arg; [|exact Wa|left; eexists; reflexivity|lia].
        destruct n; [lia|]. cbn [parse_args].
        rewrite IH; [|exact He|lia].
        rewrite <- app_assoc. reflexivity.
  Qed.
End Filtered.

Section Filters.
  Variable printable : N -> bool.

  Notation pprim := (print_prim printable).
  Notation pbool := (print_bool printable).
  Notation sarg := (sarg printable).
  Notation sargs := (sargs printable).

  Definition sfilter (f : filt) : list tok := strip (print_filter printable f).
  Definition sfilters (fs : list filt) : list tok := strip (print_filters printable fs).

  Lemma sfilter_eq f :
    sfilter f = word (f_name f) :: match f_args f with [] => [] | _ => TColon :: sargs (f_args f) end.
  Proof.
    unfold sfilter, print_filter. destruct (f_args f) as [|a r]; [reflexivity|].
    change (word (f_name f) :: TColon :: TSp :: join sep_comma (map (print_arg printable) (a :: r)))
      with ([word (f_name f); TColon; TSp] ++ join sep_comma (map (print_arg printable) (a :: r))).
    rewrite strip_app, strip_join, map_map. reflexivity.
  Qed.

  Lemma sfilters_nil : sfilters [] = [].
  Proof. reflexivity. Qed.

  Lemma sfilters_cons f fs : sfilters (f :: fs) = TPipe :: sfilter f ++ sfilters fs.
  Proof.
    unfold sfilters, print_filters. cbn [map List.concat].
    rewrite !strip_app. reflexivity.
  Qed.

  (** What may follow a list of filters: nothing, [if] (the filters of the
      left side of a ternary), or [||] when [||] is not itself a delimiter. *)
  Definition filters_end (dp : bool) (rest : list tok) : Prop :=
    match rest with
    | [] | TIf :: _ => True
    | TDPipe :: _ => dp = false
    | _ => False
    end.

  Lemma parse_filters_end dp rest n : filters_end dp rest ->
    parse_filters (S n) dp rest = Ok ([], rest).
  Proof.
    destruct rest as [|t r]; [reflexivity|].
    destruct t; cbn [filters_end]; try contradiction; try reflexivity.
    intros ->. reflexivity.
  Qed.

  (** Tokens that may follow one filter: the next filter or the end. *)
  Definition filter_next (dp : bool) (R : list tok) : Prop :=
    (exists r, R = TPipe :: r) \/ filters_end dp R.

  Lemma filter_next_args_end dp R : filter_next dp R -> args_end R.
  Proof.
    intros [[r ->]|H]; [exact I|].
    destruct R as [|[] ?]; cbn in *; try contradiction; exact I.
  Qed.

  Lemma parse_filter_body f R n dp : wf_filter f -> filter_next dp R ->
    (2 * List.length (sfilter f) + 2 <= n)%nat ->
    match sfilter f ++ R with
    | TA (AWord name) :: r1 =>
      do ar <- match r1 with
               | TColon :: r2 => parse_args n r2 []
               | _ => Ok ([], r1)
               end;;
      do fr <- parse_filters n dp (snd ar);;
      Ok ({| f_name := name; f_args := fst ar |} :: fst fr, snd fr)
    | _ => syntax_error
    end
    = (do fr <- parse_filters n dp R;; Ok (f :: fst fr, snd fr)).
  Proof.
    intros [_ Wa] HR Hn. rewrite sfilter_eq in *. destruct f as [name args]. cbn [f_name f_args] in *.
    cbn [app word]. destruct args as [|a r].
    - cbn [app].
      assert (E : match R with TColon :: r2 => parse_args n r2 [] | _ => Ok ([], R) end = Ok ([], R)).
      { destruct HR as [[r' ->]|HR]; [reflexivity|].
        destruct R as [|[] ?]; cbn in HR; try contradiction; reflexivity. }
      rewrite E. reflexivity.
    - cbn [app List.length] in *.
      rewrite (parse_args_print printable (a :: r) Wa [] R n (filter_next_args_end dp R HR)) by lia.
      reflexivity.
  Qed.

  Lemma parse_filters_print fs : Forall wf_filter fs ->
    forall dp rest n, filters_end dp rest ->
      (2 * List.length (sfilters fs) + 2 <= n)%nat ->
      parse_filters n dp (sfilters fs ++ rest) = Ok (fs, rest).
  Proof.
    induction 1 as [|f fs Wf Wfs IH]; intros dp rest n He Hn.
    - rewrite sfilters_nil. cbn [app]. destruct n; [lia|]. apply parse_filters_end. exact He.
    - rewrite sfilters_cons in *. cbn [List.length] in Hn. rewrite app_length in Hn.
      destruct n; [lia|]. cbn [app]. rewrite <- app_assoc.
      cbn [parse_filters].
      rewrite (parse_filter_body f (sfilters fs ++ rest) n dp Wf); [| |lia].
      + rewrite IH; [reflexivity|exact He|lia].
      + destruct fs as [|g gs]; [right; rewrite sfilters_nil; exact He|].
        left. rewrite sfilters_cons. eexists. reflexivity.
  Qed.

  (** Tail filters: [" || " + " | ".join(...)]. *)
  Definition stail (tfs : list filt) : list tok :=
    strip (match tfs with
           | [] => []
           | _ => TSp :: TDPipe :: TSp :: join sep_pipe (map (print_filter printable) tfs)
           end).

  Lemma join_concat {A} (sep : list A) x r :
    join sep (x :: r) = x ++ List.concat (map (fun y => sep ++ y) r).
  Proof.
    revert x. induction r as [|y r IH]; intro x.
    - cbn. rewrite app_nil_r. reflexivity.
    - rewrite join_cons2, IH. cbn [map List.concat]. rewrite <- app_assoc. reflexivity.
  Qed.

  Lemma stail_cons f fs : stail (f :: fs) = TDPipe :: sfilter f ++ sfilters fs.
  Proof.
    unfold stail. cbn [map]. rewrite join_concat.
    change (TSp :: TDPipe :: TSp :: print_filter printable f
            ++ List.concat (map (fun y => sep_pipe ++ y) (map (print_filter printable) fs)))
      with ([TSp; TDPipe; TSp] ++ print_filter printable f
            ++ List.concat (map (fun y => sep_pipe ++ y) (map (print_filter printable) fs))).
    rewrite !strip_app. rewrite map_map. reflexivity.
  Qed.

  Lemma parse_tail_print tfs n : Forall wf_filter tfs ->
    (2 * List.length (stail tfs) + 2 <= n)%nat ->
    match stail tfs with
    | TDPipe :: _ => parse_filters n true (stail tfs)
    | _ => Ok ([], stail tfs)
    end = Ok (tfs, []).
  Proof.
    intros W Hn. destruct tfs as [|f fs]; [reflexivity|].
    rewrite stail_cons in *. inversion W as [|? ? Wf Wfs]; subst.
    cbn [List.length] in Hn. rewrite app_length in Hn.
    destruct n; [lia|]. cbn [parse_filters].
    pose proof (parse_filters_print fs Wfs true [] n I) as P. rewrite app_nil_r in P.
    rewrite (parse_filter_body f (sfilters fs) n true Wf); [| |lia].
    - rewrite P by lia. reflexivity.
    - destruct fs as [|g gs]; [right; exact I|].
      left. rewrite sfilters_cons. eexists. reflexivity.
  Qed.

  (** ** Left-hand side: a primitive or an array literal *)

  Definition wf_left (l : left) : Prop :=
    match l with
    | LPrim p => wf_prim p
    | LArray xs => xs <> [] /\ Forall wf_prim xs
    end.

  Definition sleft (l : left) : list tok := strip (print_left printable l).

  (** What may follow the left-hand side. *)
  Definition left_end (rest : list tok) : Prop :=
    match rest with [] | TPipe :: _ | TIf :: _ => True | _ => False end.

  Definition comma_items (xs : list prim) : list tok :=
    List.concat (map (fun x => [TComma; pprim x]) xs).

  Lemma parse_array_end rest acc : left_end rest -> parse_array rest acc = Ok (acc, rest).
  Proof. destruct rest as [|[] ?]; cbn [left_end]; try contradiction; reflexivity. Qed.

  Lemma parse_array_print xs : Forall wf_prim xs -> forall acc rest, left_end rest ->
    parse_array (comma_items xs ++ rest) acc = Ok (acc ++ xs, rest).
  Proof.
    induction 1 as [|x xs Wx Wxs IH]; intros acc rest He.
    - cbn [comma_items map List.concat app]. rewrite app_nil_r. apply parse_array_end. exact He.
    - unfold comma_items in *. cbn [map List.concat app]. cbn [parse_array].
      rewrite (prim_roundtrip printable x Wx). rewrite IH by exact He.
      rewrite <- app_assoc. reflexivity.
  Qed.

  Lemma sleft_array x xs : xs <> [] ->
    sleft (LArray (x :: xs)) = pprim x :: comma_items xs.
  Proof.
    intro NE. unfold sleft.
    assert (E : print_left printable (LArray (x :: xs))
                = join sep_comma (map (fun y => [pprim y]) (x :: xs))).
    { destruct xs; [congruence|reflexivity]. }
    rewrite E. cbn [map]. rewrite join_concat. rewrite map_map.
    change ([pprim x] ++ List.concat (map (fun y => sep_comma ++ [pprim y]) xs))
      with (pprim x :: List.concat (map (fun y => sep_comma ++ [pprim y]) xs)).
    rewrite strip_prim. f_equal. clear E NE.
    induction xs as [|y ys IH]; [reflexivity|].
    cbn [map List.concat]. rewrite strip_app. rewrite IH.
    cbn [sep_comma app]. unfold comma_items. cbn [map List.concat app].
    change (strip (TComma :: TSp :: [pprim y])) with (TComma :: strip [pprim y]).
    rewrite strip_prim. reflexivity.
  Qed.

  Lemma parse_left_print l rest : wf_left l -> left_end rest ->
    parse_left (sleft l ++ rest) = Ok (l, rest).
  Proof.
    intros W He. destruct l as [p|xs].
    - unfold sleft. cbn [print_left]. rewrite strip_prim. cbn [strip filter app].
      unfold parse_left. cbn [hd_error tl]. rewrite (prim_roundtrip printable p W). cbn [bind].
      destruct rest as [|[] ?]; cbn [left_end] in He; try contradiction; reflexivity.
    - destruct W as [NE W]. destruct xs as [|x xs]; [congruence|].
      inversion W as [|? ? Wx Wxs]; subst.
      destruct xs as [|y ys].
      + (* one item: trailing comma *)
        unfold sleft. cbn [print_left]. rewrite strip_prim. cbn [strip filter is_sp negb app].
        unfold parse_left. cbn [hd_error tl]. rewrite (prim_roundtrip printable x Wx). cbn [bind].
        destruct rest as [|t r]; [reflexivity|].
        destruct t; cbn [left_end] in He; try contradiction; reflexivity.
      + rewrite sleft_array by discriminate.
        unfold parse_left. cbn [app hd_error tl]. rewrite (prim_roundtrip printable x Wx). cbn [bind].
        assert (Hc : exists r0, comma_items (y :: ys) ++ rest = TComma :: r0).
        { unfold comma_items. cbn [map List.concat app]. eexists. reflexivity. }
        destruct Hc as [r0 Hc]. rewrite Hc. rewrite <- Hc.
        rewrite (parse_array_print (y :: ys) Wxs [x] rest He). reflexivity.
  Qed.
End Filters.

Section FexprTop.
  Variable printable : N -> bool.

  Notation pprim := (print_prim printable).
  Notation pbool := (print_bool printable).
  Notation sleft := (sleft printable).
  Notation sfilters := (sfilters printable).
  Notation stail := (stail printable).

  (** Filtered and ternary expressions the parser can produce: filters after
      [else] exist only if there is an [else]. *)
  Definition wf_fexpr (e : fexpr) : Prop :=
    match e with
    | FFiltered l fs => wf_left l /\ Forall wf_filter fs
    | FTernary l fs c alt afs tfs =>
      wf_left l /\ Forall wf_filter fs /\ wf_bexpr c
      /\ match alt with Some a => wf_prim a | None => afs = [] end
      /\ Forall wf_filter afs /\ Forall wf_filter tfs
    end.

  Definition salt (alt : option prim) : list tok :=
    match alt with Some a => [TElse; pprim a] | None => [] end.

  Lemma strip_fexpr_filtered l fs :
    strip (print_fexpr printable (FFiltered l fs)) = sleft l ++ sfilters fs.
  Proof. cbn [print_fexpr]. rewrite strip_app. reflexivity. Qed.

  Lemma strip_fexpr_ternary l fs c alt afs tfs :
    strip (print_fexpr printable (FTernary l fs c alt afs tfs))
    = sleft l ++ sfilters fs ++ TIf :: strip (pbool c) ++ salt alt ++ sfilters afs ++ stail tfs.
  Proof.
    cbn [print_fexpr].
    change (TSp :: TIf :: TSp :: pbool c
            ++ match alt with Some a => [TSp; TElse; TSp; pprim a] | None => [] end
            ++ print_filters printable afs
            ++ match tfs with
               | [] => []
               | _ :: _ => TSp :: TDPipe :: TSp :: join sep_pipe (map (print_filter printable) tfs)
               end)
      with ([TSp; TIf; TSp] ++ pbool c
            ++ match alt with Some a => [TSp; TElse; TSp; pprim a] | None => [] end
            ++ print_filters printable afs
            ++ match tfs with
               | [] => []
               | _ :: _ => TSp :: TDPipe :: TSp :: join sep_pipe (map (print_filter printable) tfs)
               end).
    rewrite !strip_app. f_equal. f_equal.
    change (strip [TSp; TIf; TSp]) with [TIf]. cbn [app]. f_equal. f_equal. f_equal.
    destruct alt as [a|]; [|reflexivity].
    change (strip [TSp; TElse; TSp; pprim a]) with (TElse :: strip [pprim a]).
    rewrite strip_prim. reflexivity.
  Qed.

  Lemma sfilters_head fs : sfilters fs = [] \/ exists r, sfilters fs = TPipe :: r.
  Proof.
    destruct fs as [|f fs]; [left; reflexivity|right].
    rewrite sfilters_cons. eexists. reflexivity.
  Qed.

  Lemma stail_head tfs : stail tfs = [] \/ exists r, stail tfs = TDPipe :: r.
  Proof.
    destruct tfs as [|f fs]; [left; reflexivity|right].
    rewrite stail_cons. eexists. reflexivity.
  Qed.

  Theorem print_parse_filtered e : wf_fexpr e ->
    parse_filtered (strip (print_fexpr printable e)) = Ok e.
  Proof.
    intro W. unfold parse_filtered.
    set (ts := strip (print_fexpr printable e)).
    assert (Hn : (2 * List.length ts + 2 <= fuel_of ts)%nat) by (unfold fuel_of; lia).
    generalize dependent (fuel_of ts). intros n Hn. subst ts.
    destruct e as [l fs|l fs c alt afs tfs].
    - destruct W as [Wl Wfs]. rewrite strip_fexpr_filtered in *.
      rewrite app_length in Hn.
      rewrite parse_left_print; [|exact Wl|].
      2:{ destruct (sfilters_head fs) as [->|[r ->]]; exact I. }
      cbn [bind fst snd].
      pose proof (parse_filters_print printable fs Wfs false [] n I) as P.
      rewrite app_nil_r in P. rewrite P by lia. reflexivity.
    - destruct W as (Wl & Wfs & Wc & Walt & Wafs & Wtfs).
      rewrite strip_fexpr_ternary in *.
      repeat (rewrite app_length in Hn; cbn [List.length] in Hn).
      rewrite parse_left_print; [|exact Wl|].
      2:{ destruct (sfilters_head fs) as [->|[r ->]]; exact I. }
      cbn [bind fst snd].
      rewrite (parse_filters_print printable fs Wfs false _ n); [|exact I|lia].
      cbn [bind fst snd]. unfold parse_ternary.
      assert (NB : nobin (salt alt ++ sfilters afs ++ stail tfs)).
      { destruct alt as [a|]; [exact I|]. subst afs. cbn [salt app]. rewrite sfilters_nil. cbn [app].
        destruct (stail_head tfs) as [->|[r ->]]; exact I. }
      rewrite (pbp_print_top printable c _ n Wc NB) by lia.
      cbn [bind fst snd].
      pose proof (parse_tail_print printable tfs n Wtfs ltac:(lia)) as PT.
      destruct alt as [a|].
      + cbn [salt app hd_error tl]. rewrite (prim_roundtrip printable a Walt). cbn [bind].
        destruct afs as [|g gs].
        * rewrite sfilters_nil. cbn [app].
          destruct (stail_head tfs) as [E|[r E]]; rewrite E in *.
          -- cbn [bind fst snd]. inversion PT. reflexivity.
          -- cbn [bind fst snd]. rewrite PT. reflexivity.
        * assert (FE : filters_end false (stail tfs)).
          { destruct (stail_head tfs) as [->|[r ->]]; [exact I|reflexivity]. }
          pose proof (parse_filters_print printable (g :: gs) Wafs false (stail tfs) n FE ltac:(lia)) as P.
          destruct (sfilters_head (g :: gs)) as [E|[r E]].
          { rewrite sfilters_cons in E. discriminate. }
          rewrite E in *. cbn [app] in *. rewrite P. cbn [bind fst snd].
          destruct (stail_head tfs) as [E2|[r2 E2]]; rewrite E2 in *.
          -- inversion PT. reflexivity.
          -- rewrite PT. reflexivity.
      + subst afs. cbn [salt app]. rewrite sfilters_nil. cbn [app].
        destruct (stail_head tfs) as [E|[r E]]; rewrite E in *.
        * cbn [bind fst snd]. inversion PT. reflexivity.
        * cbn [bind fst snd]. rewrite PT. reflexivity.
  Qed.
End FexprTop.

(** * Loop expressions, keyword arguments of tags, [when] lists *)

Lemma word_match_false (t : tok) (P : str -> bool) (rest : list tok) :
  (forall w, t = TA (AWord w) -> P w = false) ->
  match t :: rest with TA (AWord c) :: _ => P c | _ => false end = false.
Proof.
  intro H. destruct t; try reflexivity. destruct a; try reflexivity. apply H. reflexivity.
Qed.

Lemma word_match_false1 (t : tok) (P : str -> bool) :
  (forall w, t = TA (AWord w) -> P w = false) ->
  match t with TA (AWord c) => P c | _ => false end = false.
Proof.
  intro H. destruct t; try reflexivity. destruct a; try reflexivity. apply H. reflexivity.
Qed.

Section Loop.
  Variable printable : N -> bool.

  Notation pprim := (print_prim printable).

  (** A primitive whose printed form is a bare word is [empty], [blank] or a
      one-segment path with that name. *)
  Lemma print_prim_word p w : wf_prim p -> pprim p = TA (AWord w) ->
    p = PEmpty \/ p = PBlank \/ p = PPath (PName w PEnd).
  Proof.
    intros W E. destruct p as [| | | | |z|f|s|pa|a b|]; cbn [print_prim prim_atok] in E;
      try discriminate; auto.
    - destruct f as [m e|neg|]; cbn in W; try congruence; discriminate.
    - right. right. unfold path_atok in E.
      destruct (print_path printable false true pa) as [|s r|s r|q raw r|z r|q r] eqn:Ep; try discriminate.
      destruct r; try discriminate. inversion E; subst s. clear E.
      destruct pa as [|s0 r|z r|q r]; cbn [print_path] in Ep; try discriminate.
      unfold quoted_seg in Ep. destruct (string_repr printable s0).
      destruct (is_property s0); cbn [negb] in Ep; [|discriminate].
      destruct (true && (match r with PEnd => true | _ => false end && is_reserved s0
                         || starts_uspace s0)); [discriminate|].
      inversion Ep as [[H1 H2]]. apply print_path_end in H2. subst. reflexivity.
    - contradiction.
  Qed.

  Definition no_opts (l : loopexpr) : Prop :=
    lp_limit l = None /\ lp_offset l = None /\ lp_cols l = None /\ lp_reversed l = false.

  Definition opt_wf (o : option prim) : Prop := match o with Some p => wf_prim p | None => True end.

  (** [offset:] takes a primitive or the keyword [continue]. *)
  Definition offset_wf (o : option prim) : Prop :=
    match o with Some PContinue => True | Some p => wf_prim p | None => True end.

  (** Loop expressions the parser can produce: array-literal iterables come
      without options. *)
  Definition wf_loop (l : loopexpr) : Prop :=
    is_word (lp_ident l) = true /\
    match lp_iter l with
    | LPrim p => wf_prim p /\ opt_wf (lp_limit l) /\ offset_wf (lp_offset l) /\ opt_wf (lp_cols l)
    | LArray xs => xs <> [] /\ Forall wf_prim xs /\ no_opts l
    end.

  Notation pnb := (print_not_bare printable).

  Lemma pnb_not_sp sp p : is_sp (pnb sp p) = false.
  Proof.
    unfold print_not_bare.
    destruct p as [| | | | |z|f|s|pa|a b|]; try apply print_prim_not_sp.
    destruct pa as [|w r|z r|q r]; try apply print_prim_not_sp.
    destruct r; try apply print_prim_not_sp.
    destruct (sp w); [reflexivity|apply print_prim_not_sp].
  Qed.

  Lemma pnb_roundtrip sp p : wf_prim p -> parse_primitive (Some (pnb sp p)) = Ok p.
  Proof.
    intro W. unfold print_not_bare.
    destruct p as [| | | | |z|f|s|pa|a b|]; try apply (prim_roundtrip printable _ W).
    destruct pa as [|w r|z r|q r]; try apply (prim_roundtrip printable _ W).
    destruct r; try apply (prim_roundtrip printable _ W).
    destruct (sp w); [|apply (prim_roundtrip printable _ W)].
    cbn [parse_primitive parse_atok].
    destruct W as [_ [Ww _]].
    rewrite (quoted_seg_roundtrip printable w TPEnd PEnd Ww eq_refl). reflexivity.
  Qed.

  (** If the token is a bare word, the word has no special meaning there. *)
  Lemma pnb_word sp p w : wf_prim p ->
    sp (lit "empty") = false -> sp (lit "blank") = false ->
    pnb sp p = TA (AWord w) -> sp w = false.
  Proof.
    intros W Se Sb E.
    assert (D : pnb sp p = pprim p \/ exists w0, p = PPath (PName w0 PEnd) /\ sp w0 = true
                                                  /\ pnb sp p = TA (APath (quoted_seg printable w0 TPEnd))).
    { unfold print_not_bare.
      destruct p as [| | | | |z|f|s|pa|a b|]; try (left; reflexivity).
      destruct pa as [|w0 r|z r|q r]; try (left; reflexivity).
      destruct r; try (left; reflexivity).
      destruct (sp w0) eqn:Es; [right; exists w0; auto|left; reflexivity]. }
    destruct D as [D|(w0 & _ & _ & D)]; [|rewrite D in E; discriminate].
    rewrite D in E.
    destruct (print_prim_word p _ W E) as [ -> | [ -> | -> ] ].
    - cbn in E. inversion E; subst w. exact Se.
    - cbn in E. inversion E; subst w. exact Sb.
    - unfold print_not_bare in D.
      destruct (sp w) eqn:Es; [|reflexivity].
      rewrite <- D in E. discriminate.
  Qed.

  Definition sopt (name : string) (v : option prim) : list tok :=
    match v with Some p => [word (lit name); TColon; pprim p] | None => [] end.
  Definition sopt_offset (v : option prim) : list tok :=
    match v with Some p => [word (lit "offset"); TColon; pnb is_continue p] | None => [] end.
  Definition sliter (l : left) : list tok := strip (print_loop_iter printable l).

  Lemma strip_loop l :
    strip (print_loop printable l)
    = word (lp_ident l) :: TOp OIn :: sliter (lp_iter l)
      ++ sopt "limit" (lp_limit l) ++ sopt_offset (lp_offset l) ++ sopt "cols" (lp_cols l)
      ++ (if lp_reversed l then [word (lit "reversed")] else []).
  Proof.
    unfold print_loop.
    change (word (lp_ident l) :: TSp :: TOp OIn :: TSp :: print_loop_iter printable (lp_iter l) ++ ?x)
      with ([word (lp_ident l); TSp; TOp OIn; TSp] ++ print_loop_iter printable (lp_iter l) ++ x).
    rewrite !strip_app.
    assert (O : forall name v, strip (print_loop_opt printable name v) = sopt name v).
    { intros name [p|]; [|reflexivity]. cbn [print_loop_opt sopt].
      change (strip [TSp; word (lit name); TColon; pprim p])
        with (word (lit name) :: TColon :: strip [pprim p]).
      rewrite strip_prim. reflexivity. }
    rewrite !O.
    assert (O2 : strip (match lp_offset l with
                        | Some p => [TSp; word (lit "offset"); TColon; pnb is_continue p]
                        | None => []
                        end) = sopt_offset (lp_offset l)).
    { destruct (lp_offset l) as [p|]; [|reflexivity]. cbn [sopt_offset].
      unfold strip. cbn [filter is_sp negb word]. rewrite pnb_not_sp. reflexivity. }
    rewrite O2. destruct (lp_reversed l); reflexivity.
  Qed.

  Lemma sliter_array x y r :
    sliter (LArray (x :: y :: r))
    = pprim x :: TComma :: pnb is_loop_keyword y :: comma_items printable r.
  Proof.
    unfold sliter. cbn [print_loop_iter].
    rewrite join_concat. cbn [map List.concat app].
    rewrite strip_prim. f_equal.
    rewrite strip_app. cbn [sep_comma app].
    change (strip (TComma :: TSp :: [pnb is_loop_keyword y]))
      with (TComma :: strip [pnb is_loop_keyword y]).
    unfold strip at 1. cbn [filter]. rewrite pnb_not_sp. cbn [negb app]. f_equal. f_equal.
    rewrite map_map. clear x y.
    induction r as [|z zs IH]; [reflexivity|].
    cbn [map List.concat]. rewrite strip_app, IH.
    cbn [sep_comma app]. unfold comma_items. cbn [map List.concat app].
    change (strip (TComma :: TSp :: [pprim z])) with (TComma :: strip [pprim z]).
    rewrite strip_prim. reflexivity.
  Qed.

  Definition set_opt (name : string) (p : prim) (l : loopexpr) : loopexpr :=
    if str_eqb (lit name) (lit "limit") then
      {| lp_ident := lp_ident l; lp_iter := lp_iter l; lp_limit := Some p;
         lp_offset := lp_offset l; lp_cols := lp_cols l; lp_reversed := lp_reversed l |}
    else if str_eqb (lit name) (lit "cols") then
      {| lp_ident := lp_ident l; lp_iter := lp_iter l; lp_limit := lp_limit l;
         lp_offset := lp_offset l; lp_cols := Some p; lp_reversed := lp_reversed l |}
    else
      {| lp_ident := lp_ident l; lp_iter := lp_iter l; lp_limit := lp_limit l;
         lp_offset := Some p; lp_cols := lp_cols l; lp_reversed := lp_reversed l |}.

  Lemma parse_opt_limit p R l : wf_prim p ->
    parse_loop_opts ([word (lit "limit"); TColon; pprim p] ++ R) l = parse_loop_opts R (set_opt "limit" p l).
  Proof.
    intro W. cbn [app word parse_loop_opts].
    change (str_eqb (lit "limit") (lit "reversed")) with false.
    change (str_eqb (lit "limit") (lit "limit")) with true.
    change (str_eqb (lit "limit") (lit "offset")) with false.
    cbn [orb andb is_colon_or_assign]. rewrite (prim_roundtrip printable p W). reflexivity.
  Qed.

  Lemma parse_opt_cols p R l : wf_prim p ->
    parse_loop_opts ([word (lit "cols"); TColon; pprim p] ++ R) l = parse_loop_opts R (set_opt "cols" p l).
  Proof.
    intro W. cbn [app word parse_loop_opts].
    change (str_eqb (lit "cols") (lit "reversed")) with false.
    change (str_eqb (lit "cols") (lit "limit")) with false.
    change (str_eqb (lit "cols") (lit "cols")) with true.
    change (str_eqb (lit "cols") (lit "offset")) with false.
    cbn [orb andb is_colon_or_assign]. rewrite (prim_roundtrip printable p W). reflexivity.
  Qed.

  Lemma parse_opt_offset p R l : wf_prim p ->
    parse_loop_opts ([word (lit "offset"); TColon; pnb is_continue p] ++ R) l
    = parse_loop_opts R (set_opt "offset" p l).
  Proof.
    intros W. cbn [app word parse_loop_opts].
    change (str_eqb (lit "offset") (lit "reversed")) with false.
    change (str_eqb (lit "offset") (lit "limit")) with false.
    change (str_eqb (lit "offset") (lit "cols")) with false.
    change (str_eqb (lit "offset") (lit "offset")) with true.
    cbn [orb andb is_colon_or_assign].
    assert (E : match pnb is_continue p with
                | TA (AWord c) => str_eqb c (lit "continue")
                | _ => false
                end = false).
    { apply (word_match_false1 (pnb is_continue p) (fun c => str_eqb c (lit "continue"))). intros w Ep.
      apply (pnb_word is_continue p w W); [reflexivity|reflexivity|exact Ep]. }
    rewrite E. rewrite (pnb_roundtrip is_continue p W). reflexivity.
  Qed.

  Lemma parse_opt_offset_continue R l :
    parse_loop_opts ([word (lit "offset"); TColon; pnb is_continue PContinue] ++ R) l
    = parse_loop_opts R (set_opt "offset" PContinue l).
  Proof. reflexivity. Qed.

  Theorem print_parse_loop l : wf_loop l ->
    parse_loop (strip (print_loop printable l)) = Ok l.
  Proof.
    intros [_ W]. rewrite strip_loop.
    destruct l as [id iter lim off cols rev]. unfold no_opts in W.
    cbn [lp_ident lp_iter lp_limit lp_offset lp_cols lp_reversed] in *.
    destruct iter as [p|xs].
    - destruct W as (Wp & Wl & Wo & Wc).
      unfold sliter, print_loop_iter. cbn [print_left]. rewrite strip_prim. cbn [strip filter app].
      cbn [parse_loop word hd_error tl]. rewrite (prim_roundtrip printable p Wp). cbn [bind].
      set (l0 := {| lp_ident := id; lp_iter := LPrim p; lp_limit := None; lp_offset := None;
                    lp_cols := None; lp_reversed := false |}).
      set (O := sopt "limit" lim ++ sopt_offset off ++ sopt "cols" cols
                ++ (if rev then [word (lit "reversed")] else [])).
      assert (E : parse_loop_opts O l0
                  = Ok {| lp_ident := id; lp_iter := LPrim p; lp_limit := lim; lp_offset := off;
                          lp_cols := cols; lp_reversed := rev |}).
      { subst O l0.
        assert (A1 : forall R l, parse_loop_opts (sopt "limit" lim ++ R) l
                     = parse_loop_opts R (match lim with Some q => set_opt "limit" q l | None => l end)).
        { intros R l. destruct lim as [q|]; [apply parse_opt_limit; exact Wl|reflexivity]. }
        assert (A2 : forall R l, parse_loop_opts (sopt_offset off ++ R) l
                     = parse_loop_opts R (match off with Some q => set_opt "offset" q l | None => l end)).
        { intros R l. destruct off as [q|]; [|reflexivity].
          destruct q; try (apply parse_opt_offset; exact Wo). apply parse_opt_offset_continue. }
        assert (A3 : forall R l, parse_loop_opts (sopt "cols" cols ++ R) l
                     = parse_loop_opts R (match cols with Some q => set_opt "cols" q l | None => l end)).
        { intros R l. destruct cols as [q|]; [apply parse_opt_cols; exact Wc|reflexivity]. }
        rewrite A1, A2, A3.
        destruct lim, off, cols, rev; reflexivity. }
      destruct O as [|t O'] eqn:EO; [exact E|].
      assert (Ht : t <> TComma).
      { subst O. destruct lim, off, cols, rev; cbn in EO; inversion EO; discriminate. }
      destruct t; try exact E. congruence.
    - destruct W as (NE & Wxs & (E1 & E2 & E3 & E4)). subst lim off cols rev.
      cbn [sopt sopt_offset app]. rewrite app_nil_r.
      destruct xs as [|x xs]; [congruence|]. inversion Wxs as [|? ? Wx Wxs']; subst.
      destruct xs as [|y ys].
      + unfold sliter, print_loop_iter. cbn [print_left]. rewrite strip_prim. cbn [strip filter is_sp negb].
        cbn [parse_loop word hd_error tl]. rewrite (prim_roundtrip printable x Wx). reflexivity.
      + rewrite sliter_array.
        cbn [parse_loop word hd_error tl]. rewrite (prim_roundtrip printable x Wx). cbn [bind].
        inversion Wxs' as [|? ? Wy Wys]; subst.
        assert (K : match pnb is_loop_keyword y :: comma_items printable ys with
                    | TA (AWord w) :: _ => is_loop_keyword w
                    | _ => false
                    end = false).
        { apply (word_match_false (pnb is_loop_keyword y) is_loop_keyword (comma_items printable ys)).
          intros w Ep. apply (pnb_word is_loop_keyword y w Wy); [reflexivity|reflexivity|exact Ep]. }
        rewrite K. cbn [parse_array].
        rewrite (pnb_roundtrip is_loop_keyword y Wy).
        pose proof (parse_array_print printable ys Wys ([x] ++ [y]) [] I) as P.
        rewrite app_nil_r in P. rewrite P. reflexivity.
  Qed.

  (** ** Keyword arguments of tags *)

  Definition skws (kws : list (str * prim)) : list tok :=
    join [TComma] (map (fun kv => [word (fst kv); TColon; pprim (snd kv)]) kws).

  Lemma strip_kwargs kws : strip (print_kwargs printable kws) = skws kws.
  Proof.
    unfold print_kwargs, skws. rewrite strip_join, map_map. f_equal.
    apply map_ext. intros [k v]. cbn [fst snd].
    change (strip [word k; TColon; pprim v]) with (word k :: TColon :: strip [pprim v]).
    rewrite strip_prim. reflexivity.
  Qed.

  Theorem print_parse_kwargs kws :
    Forall (fun kv => is_word (fst kv) = true /\ wf_prim (snd kv)) kws ->
    parse_kwargs false (strip (print_kwargs printable kws)) = Ok kws.
  Proof.
    intro W. rewrite strip_kwargs. generalize false.
    induction W as [|[k v] r [_ Wv] Wr IH]; intro sk; [reflexivity|].
    unfold skws in *.
    destruct r as [|kv2 r']; cbn [map fst snd] in *.
    - rewrite join_one. cbn [parse_kwargs word is_colon_or_assign].
      rewrite (prim_roundtrip printable v Wv). reflexivity.
    - cbn [map] in *. rewrite join_cons2. cbn [app parse_kwargs word is_colon_or_assign].
      rewrite (prim_roundtrip printable v Wv). cbn [bind].
      rewrite (IH true). reflexivity.
  Qed.

  (** ** The expressions of a [when] tag *)

  Theorem print_parse_when ps : ps <> [] -> Forall wf_prim ps ->
    parse_when (strip (print_when printable ps)) = Ok ps.
  Proof.
    intros NE W. destruct ps as [|p ps]; [congruence|].
    inversion W as [|? ? Wp Wps]; subst.
    assert (E : strip (print_when printable (p :: ps)) = pprim p :: comma_items printable ps).
    { destruct ps as [|q qs].
      - cbn [print_when map join]. rewrite strip_prim. reflexivity.
      - pose proof (sleft_array printable p (q :: qs) ltac:(discriminate)) as S.
        unfold sleft in S. cbn [print_left] in S. exact S. }
    rewrite E. unfold parse_when. cbn [hd_error tl]. rewrite (prim_roundtrip printable p Wp). cbn [bind].
    assert (R : parse_when_rest (comma_items printable ps) = Ok ps).
    { clear E NE W Wp. induction Wps as [|q qs Wq Wqs IH]; [reflexivity|].
      unfold comma_items in *. cbn [map List.concat app parse_when_rest].
      rewrite (prim_roundtrip printable q Wq). cbn [bind]. rewrite IH. reflexivity. }
    rewrite R. reflexivity.
  Qed.
End Loop.

(** * Idempotence: printing what the parser read from a printed expression
      gives the same text again *)

Theorem print_idempotent_filtered printable e : wf_fexpr e ->
  exists e', parse_filtered (strip (print_fexpr printable e)) = Ok e'
             /\ print_fexpr printable e' = print_fexpr printable e.
Proof. intro W. exists e. split; [apply print_parse_filtered; exact W|reflexivity]. Qed.

Theorem print_idempotent_bool printable e : wf_bexpr e ->
  exists e', parse_bool (strip (print_bool printable e)) = Ok e'
             /\ print_bool printable e' = print_bool printable e.
Proof. intro W. exists e. split; [apply print_parse_bool; exact W|reflexivity]. Qed.

Theorem print_idempotent_loop printable l : wf_loop l ->
  exists l', parse_loop (strip (print_loop printable l)) = Ok l'
             /\ print_loop printable l' = print_loop printable l.
Proof. intro W. exists l. split; [apply print_parse_loop; exact W|reflexivity]. Qed.

(** * The guards are needed: shapes the parser can produce that do not round
      trip (known findings, re-observed on the implementation by the harness) *)

Definition all_printable : N -> bool := fun _ => true.

(** [{{ 1.0e999 }}] is the float [inf]; it is written as a float literal that
    denotes infinity, and loop expressions write variables named like their
    keywords in bracket notation. *)
Example float_inf_roundtrip :
  parse_filtered (strip (print_fexpr all_printable (FFiltered (LPrim (PFloat (FInf true))) [])))
  = Ok (FFiltered (LPrim (PFloat (FInf true))) []).
Proof. vm_compute. reflexivity. Qed.

Definition ex_loop_keywords : loopexpr :=
  {| lp_ident := lit "i";
     lp_iter := LArray [PPath (PName (lit "a") PEnd); PPath (PName (lit "limit") PEnd);
                        PPath (PName (lit "reversed") PEnd)];
     lp_limit := None; lp_offset := None; lp_cols := None; lp_reversed := false |}.
Definition ex_loop_continue : loopexpr :=
  {| lp_ident := lit "i"; lp_iter := LPrim (PPath (PName (lit "a") PEnd));
     lp_limit := Some (PPath (PName (lit "limit") PEnd));
     lp_offset := Some (PPath (PName (lit "continue") PEnd));
     lp_cols := None; lp_reversed := true |}.

Example loop_keywords_roundtrip :
  parse_loop (strip (print_loop all_printable ex_loop_keywords)) = Ok ex_loop_keywords
  /\ parse_loop (strip (print_loop all_printable ex_loop_continue)) = Ok ex_loop_continue.
Proof. split; vm_compute; reflexivity. Qed.

(** * Non-vacuity: the hypotheses are satisfied by non-trivial expressions *)

Ltac solve_wf :=
  repeat match goal with
         | |- context [lit ?s] => let r := eval vm_compute in (lit s) in change (lit s) with r
         end;
  repeat match goal with
         | |- _ => progress unfold wf_fexpr, wf_left, wf_filter, wf_arg, wf_argval_pos, wf_argval_kw,
                                    wf_loop, opt_wf, offset_wf, no_opts, wf_path, wf_str
         | |- _ /\ _ => split
         | |- True => exact I
         | |- Forall _ [] => constructor
         | |- Forall _ (_ :: _) => constructor
         | |- wf_char _ => unfold wf_char; lia
         | |- wf_str _ => unfold wf_str
         | |- _ <> _ => discriminate
         | |- _ = _ => reflexivity
         | |- exists x, [?y] = [x] /\ _ => exists y
         | |- _ => progress cbn [wf_fexpr wf_left wf_filter wf_arg wf_argval_pos wf_argval_kw wf_bexpr
                                 wf_prim wf_path wf_segs nested_root range_start_ok range_stop_ok
                                 f_name f_args wf_loop lp_ident lp_iter lp_limit lp_offset lp_cols
                                 lp_reversed opt_wf no_opts]
         end.

Definition v (s : string) : bexpr := BPrim (PPath (PName (lit s) PEnd)).

(** [not (a or b and not c) and ((not d) == e) or x contains 'q' and (1..n) != nil] *)
Definition ex_bool : bexpr :=
  BBin OOr
    (BBin OAnd (BNot (BBin OOr (v "a") (BBin OAnd (v "b") (BNot (v "c")))))
               (BBin OEq (BNot (v "d")) (v "e")))
    (BBin OAnd (BBin OContains (v "x") (BPrim (PStr (lit "q"))))
               (BBin ONe (BPrim (PRange (PInt 1) (PPath (PName (lit "n") PEnd)))) (BPrim PNil))).

Example ex_bool_wf : wf_bexpr ex_bool.
Proof. unfold ex_bool, v. solve_wf. Qed.

Example ex_bool_roundtrip :
  parse_bool (strip (print_bool all_printable ex_bool)) = Ok ex_bool.
Proof. apply print_parse_bool. exact ex_bool_wf. Qed.

(** [a.b['x y'][1][c.d], 2.5 | f: 1, 'it''s', k: i => not i.x and (i.y or 2 < 3), (p, q) => p == q
     if (not a) and b else empty | g || h: (1..n), nil] *)
Definition ex_fexpr : fexpr :=
  FTernary
    (LArray [PPath (PName (lit "a") (PName (lit "b") (PName (lit "x y")
               (PIndex 1 (PSub (PName (lit "c") (PName (lit "d") PEnd)) PEnd)))));
             PFloat (FFin (lit "2.5") None)])
    [{| f_name := lit "f";
        f_args := [APos (AVPrim (PInt 1)); APos (AVPrim (PStr (lit "it's")));
                   AKw (lit "k") (AVLambda [lit "i"]
                     (BBin OAnd (BNot (v "i")) (BBin OOr (v "y") (BBin OLt (BPrim (PInt 2)) (BPrim (PInt 3))))));
                   APos (AVLambda [lit "p"; lit "q"] (BBin OEq (v "p") (v "q")))] |}]
    (BBin OAnd (BNot (v "a")) (v "b"))
    (Some PEmpty)
    [{| f_name := lit "g"; f_args := [] |}]
    [{| f_name := lit "h";
        f_args := [APos (AVPrim (PRange (PInt 1) (PPath (PName (lit "n") PEnd)))); APos (AVPrim PNil)] |}].

Example ex_fexpr_wf : wf_fexpr ex_fexpr.
Proof. unfold ex_fexpr, v. solve_wf. Qed.

Example ex_fexpr_roundtrip :
  parse_filtered (strip (print_fexpr all_printable ex_fexpr)) = Ok ex_fexpr.
Proof. apply print_parse_filtered. exact ex_fexpr_wf. Qed.

Definition ex_loop : loopexpr :=
  {| lp_ident := lit "item"; lp_iter := LPrim (PPath (PName (lit "xs") (PName (lit "all") PEnd)));
     lp_limit := Some (PInt 2); lp_offset := Some PContinue;
     lp_cols := Some (PPath (PName (lit "n") PEnd)); lp_reversed := true |}.

Example ex_loop_wf : wf_loop ex_loop.
Proof. unfold ex_loop. solve_wf. Qed.

(** [x | f: () => 1]: an arrow function without parameters is a syntax error
    (LambdaExpression.parse), so [wf_arg] requires at least one. *)
Example empty_lambda_rejected :
  parse_filtered [TA (AWord (lit "x")); TPipe; TA (AWord (lit "f")); TColon; TLParen; TRParen; TArrow; TA (AInt 1)]
  = LErr LiquidSyntaxError None.
Proof. vm_compute. reflexivity. Qed.

Example ex_string_wf : wf_str (lit "it's \ ${x}") /\ wf_str [9; 10; 27; 233; 128512].
Proof. solve_wf. Qed.
