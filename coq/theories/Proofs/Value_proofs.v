(** Laws of the Liquid value semantics (Core/Value.v). *)
From LQ Require Import Core.Value.
From Coq Require Import Lia.
Local Arguments Z.eqb : simpl never.
Local Arguments Z.ltb : simpl never.
Local Arguments N.ltb : simpl never.
Local Arguments str_eqb : simpl never.

(** Truthiness: exactly nil, undefined and false are falsy (0, "", [] are truthy). *)
Theorem truthy_spec v : is_truthy v = false <-> (v = VNil \/ v = VUndef \/ v = VBool false).
Proof.
  split.
  - destruct v as [| [|] | | | | | | | | |]; simpl; intro H; try discriminate; auto.
  - intros [->|[->| ->]]; reflexivity.
Qed.

(** Scalars: nil, booleans, integers, strings. *)
Definition scalar (v : val) : Prop :=
  match v with VNil | VBool _ | VInt _ | VStr _ | VUndef => True | _ => False end.

Theorem liq_eq_scalar_refl v : scalar v -> liq_eq v v = Some true.
Proof.
  destruct v; unfold liq_eq; simpl; try contradiction; intros _.
  - reflexivity.
  - destruct b; reflexivity.
  - rewrite Z.eqb_refl. reflexivity.
  - rewrite str_eqb_refl. reflexivity.
  - reflexivity.
Qed.

Lemma str_eqb_sym a b : str_eqb a b = str_eqb b a.
Proof.
  destruct (str_eqb a b) eqn:E.
  - apply str_eqb_eq in E. subst. symmetry. apply str_eqb_refl.
  - symmetry. apply str_eqb_neq. apply str_eqb_neq in E. congruence.
Qed.

Theorem liq_eq_scalar_sym a b : scalar a -> scalar b -> liq_eq a b = liq_eq b a.
Proof.
  destruct a, b; unfold liq_eq; simpl; try contradiction; intros _ _; try reflexivity.
  - destruct b, b0; reflexivity.
  - rewrite Z.eqb_sym. reflexivity.
  - rewrite str_eqb_sym. reflexivity.
Qed.

(** A boolean is never equal to a number (Python's True == 1 is masked). *)
Theorem liq_eq_bool_int b z : liq_eq (VBool b) (VInt z) = Some false /\ liq_eq (VInt z) (VBool b) = Some false.
Proof. split; reflexivity. Qed.

(** Undefined compares like nil. *)
Theorem liq_eq_undef_nil v : liq_eq VUndef v = liq_eq VNil v /\ liq_eq v VUndef = liq_eq v VNil.
Proof. split; destruct v; reflexivity. Qed.

(** Scalar equality decides equality of the denoted values. *)
Theorem liq_eq_scalar_correct a b :
  scalar a -> scalar b -> a <> VUndef -> b <> VUndef ->
  (liq_eq a b = Some true <-> a = b).
Proof.
  destruct a as [|x|x|x|?|?|? ?| | | |? ? ? ?], b as [|y|y|y|?|?|? ?| | | |? ? ? ?];
    unfold liq_eq; simpl; try contradiction; intros _ _ Ha Hb; split; intro H;
    try discriminate; try congruence; try reflexivity.
  all: try (inversion H; subst; rewrite ?Z.eqb_refl, ?str_eqb_refl; try reflexivity;
            destruct y; reflexivity).
  - inversion H as [H1]. apply Bool.eqb_prop in H1. congruence.
  - inversion H as [H1]. apply Z.eqb_eq in H1. congruence.
  - inversion H as [H1]. apply str_eqb_eq in H1. congruence.
Qed.

(** Ordering: integers by value, strings lexicographically by code point;
    irreflexive and asymmetric. *)
Theorem liq_lt_int x y : liq_lt (VInt x) (VInt y) = Some (x <? y)%Z.
Proof. reflexivity. Qed.

Lemma str_ltb_irrefl s : str_ltb s s = false.
Proof.
  induction s as [|c s IH]; simpl; [reflexivity|].
  rewrite N.ltb_irrefl. exact IH.
Qed.

Lemma str_ltb_asym a : forall b, str_ltb a b = true -> str_ltb b a = false.
Proof.
  induction a as [|x a IH]; intros [|y b]; simpl; try discriminate; try reflexivity.
  destruct (x <? y)%N eqn:E1, (y <? x)%N eqn:E2; try discriminate; try reflexivity.
  - apply N.ltb_lt in E1, E2. lia.
  - apply IH.
Qed.

Lemma str_ltb_trans a : forall b c, str_ltb a b = true -> str_ltb b c = true -> str_ltb a c = true.
Proof.
  induction a as [|x a IH]; intros [|y b] [|z c]; simpl; try discriminate; try reflexivity.
  destruct (x <? y)%N eqn:E1, (y <? x)%N eqn:E2, (y <? z)%N eqn:E3, (z <? y)%N eqn:E4;
    try discriminate;
    repeat match goal with
           | H : (_ <? _)%N = true |- _ => apply N.ltb_lt in H
           | H : (_ <? _)%N = false |- _ => apply N.ltb_ge in H
           end;
    intros H1 H2.
  all: try (assert (Hxz : (x <? z)%N = true) by (apply N.ltb_lt; lia); rewrite Hxz; reflexivity).
  assert (x = y) by lia. assert (y = z) by lia. subst.
  rewrite N.ltb_irrefl. eapply IH; eauto.
Qed.

Theorem liq_lt_irrefl v r : liq_lt v v = Some r -> r = false.
Proof.
  destruct v; unfold liq_lt; simpl; intro H; inversion H; try reflexivity.
  - apply Z.ltb_irrefl.
  - apply str_ltb_irrefl.
Qed.

Theorem liq_lt_str_asym a b : liq_lt (VStr a) (VStr b) = Some true -> liq_lt (VStr b) (VStr a) = Some false.
Proof. unfold liq_lt. intro H. inversion H as [H1]. f_equal. apply str_ltb_asym. exact H1. Qed.

(** Integers print in decimal without sign padding; printing is injective on
    the cases that matter for output: distinct non-negative one-digit values. *)
Example str_of_Z_examples :
  str_of_Z 0 = [48%N] /\ str_of_Z 42 = [52; 50]%N /\ str_of_Z (-7) = [45; 55]%N
  /\ str_of_Z 9007199254740993 = [57;48;48;55;49;57;57;50;53;52;55;52;48;57;57;51]%N.
Proof. vm_compute. repeat split. Qed.
