(** Proofs about Core/Render.v: which branch of if / elsif / else runs, and
    what break and continue do to a for loop. *)
From LQ Require Import Core.Render.
From Coq Require Import Lia.

Section Control.
Variable g : cfg.
Variable ev : ctx -> expr -> eres.
Variable rec : node -> ctx -> buf -> rstate.

(** every condition of [l] evaluates, at [c], to a value that is not truthy *)
Fixpoint all_falsy (l : list (expr * list node)) (c : ctx) : Prop :=
  match l with
  | [] => True
  | (ce, _) :: l' =>
      (exists w, ev c ce = EOk w /\ is_truthy w = false) /\ all_falsy l' c
  end.

(** elsif chain: the alternatives whose conditions are falsy are skipped
    without touching context or buffer ... *)
Lemma if_alts_skip_falsy els pre : forall rest c b,
  all_falsy pre c ->
  if_alts g ev rec els (pre ++ rest) c b = if_alts g ev rec els rest c b.
Proof.
  induction pre as [|[ce body] pre IH]; intros rest c b H; [reflexivity|].
  destruct H as [[w [Hw Ht]] H]. cbn [app if_alts]. rewrite Hw, Ht. apply IH; exact H.
Qed.

(** ... the first alternative with a truthy condition renders, and nothing
    after it (later alternatives, the else block) matters ... *)
Lemma if_alts_first_truthy els pre ce body post c b w :
  all_falsy pre c -> ev c ce = EOk w -> is_truthy w = true ->
  if_alts g ev rec els (pre ++ (ce, body) :: post) c b = block g rec body c b.
Proof.
  intros H Hw Ht. rewrite if_alts_skip_falsy by exact H.
  cbn [if_alts]. rewrite Hw, Ht. reflexivity.
Qed.

Lemma if_alts_rest_irrelevant els els' pre ce body post post' c b w :
  all_falsy pre c -> ev c ce = EOk w -> is_truthy w = true ->
  if_alts g ev rec els (pre ++ (ce, body) :: post) c b =
  if_alts g ev rec els' (pre ++ (ce, body) :: post') c b.
Proof.
  intros H Hw Ht.
  rewrite (if_alts_first_truthy els pre ce body post c b w H Hw Ht).
  rewrite (if_alts_first_truthy els' pre ce body post' c b w H Hw Ht). reflexivity.
Qed.

(** ... and when no condition is truthy exactly the else block renders. *)
Lemma if_alts_none_truthy els l c b :
  all_falsy l c -> if_alts g ev rec els l c b = oblock g rec els c b.
Proof.
  intro H. rewrite <- (app_nil_r l). rewrite if_alts_skip_falsy by exact H. reflexivity.
Qed.

(** a condition that fails aborts the chain at that point: nothing is
    rendered, alternatives after it are not evaluated *)
Lemma if_alts_error_stops els pre ce body post c b r :
  all_falsy pre c -> ev c ce = r -> (forall w, r <> EOk w) ->
  if_alts g ev rec els (pre ++ (ce, body) :: post) c b = mk (of_eres_status r) c b.
Proof.
  intros H Hr Hn. rewrite if_alts_skip_falsy by exact H. cbn [if_alts]. rewrite Hr.
  destruct r; try reflexivity. exfalso; eapply Hn; reflexivity.
Qed.

(** * break and continue *)

Definition loop_ctx (x key : str) (len : Z) (parent it : val) (i : Z) (c : ctx) : ctx :=
  let fl := VForLoop key len i parent in
  let nsx := if str_eqb x s_forloop then [(s_forloop, it)] else [(s_forloop, fl); (x, it)] in
  set_loops (set_top_scope c nsx) (fl :: tl (loops c)).

Lemma for_iter_cons x key len parent body it its i c b :
  for_iter g rec x key len parent body (it :: its) i c b =
  let r := block g rec body (loop_ctx x key len parent it i c) b in
  match st r with
  | SDone | SCont => for_iter g rec x key len parent body its (i + 1)%Z (cx r) (bf r)
  | SBrk => finish_loop SDone (cx r) (bf r)
  | s => finish_loop s (cx r) (bf r)
  end.
Proof. reflexivity. Qed.

(** `break` ends the loop normally: the items after the current one are never
    looked at, and the loop itself reports completion, not a break *)
Lemma for_iter_break_ignores_rest x key len parent body it its its' i c b :
  st (block g rec body (loop_ctx x key len parent it i c) b) = SBrk ->
  for_iter g rec x key len parent body (it :: its) i c b =
  for_iter g rec x key len parent body (it :: its') i c b
  /\ st (for_iter g rec x key len parent body (it :: its) i c b) = SDone.
Proof.
  intro H. rewrite !for_iter_cons. cbv zeta. rewrite H. split; reflexivity.
Qed.

(** `continue` ends the iteration, not the loop: the loop goes on with the next
    item exactly as if the body had completed *)
Lemma for_iter_continue_goes_on x key len parent body it its i c b :
  st (block g rec body (loop_ctx x key len parent it i c) b) = SCont ->
  for_iter g rec x key len parent body (it :: its) i c b =
  let r := block g rec body (loop_ctx x key len parent it i c) b in
  for_iter g rec x key len parent body its (i + 1)%Z (cx r) (bf r).
Proof. intro H. rewrite for_iter_cons. cbv zeta. rewrite H. reflexivity. Qed.

(** an error (or any other abnormal status) in the body leaves the loop at
    once, and still pops the loop's scope and its forloop entry *)
Lemma for_iter_error_leaves x key len parent body it its i c b e :
  st (block g rec body (loop_ctx x key len parent it i c) b) = SErr e ->
  for_iter g rec x key len parent body (it :: its) i c b =
  let r := block g rec body (loop_ctx x key len parent it i c) b in
  finish_loop (SErr e) (cx r) (bf r).
Proof. intro H. rewrite for_iter_cons. cbv zeta. rewrite H. reflexivity. Qed.

(** the loop never reports break or continue to what surrounds it *)
Lemma for_iter_absorbs_break_continue x key len parent body : forall its i c b,
  st (for_iter g rec x key len parent body its i c b) <> SBrk /\
  st (for_iter g rec x key len parent body its i c b) <> SCont.
Proof.
  induction its as [|it its IH]; intros i c b.
  - cbn. split; discriminate.
  - rewrite for_iter_cons. cbv zeta.
    destruct (st (block g rec body (loop_ctx x key len parent it i c) b)) eqn:E;
      try apply IH; cbn; split; discriminate.
Qed.

End Control.

(** the hypotheses are satisfiable: a chain  false / nil / 1 / else  *)
Example all_falsy_example :
  let ev := fun (_ : ctx) (e : expr) => match e with ELit v => EOk v | _ => EUnm end in
  all_falsy ev [(ELit (VBool false), []); (ELit VNil, [])] (fresh_ctx 30 [] []) /\
  ev (fresh_ctx 30 [] []) (ELit (VInt 1)) = EOk (VInt 1) /\ is_truthy (VInt 1) = true.
Proof. cbn. repeat split; eexists; split; reflexivity. Qed.

(** * A macro call is isolated from its caller *)

(** the parameter list of [m] with the call's arguments bound to it *)
Definition macro_bound (m : macro) (args : list expr) (kwargs : list (str * expr))
  : list (str * option expr) :=
  fold_left (fun acc kw => dict_set (fst kw) (Some (snd kw)) acc) kwargs
            (bind_positional (m_params m) args).

(** What a call writes depends on the caller's context only through the macro
    macros defined so far (the body may call them), the values of the arguments
    (and of the defaults of the parameters left out), the root globals, the copy
    depth, the depth limit and the template name: not through locals, counters,
    loop variables, block scopes or cycles. *)
Theorem call_tag_isolated g ld fuel name args kwargs c1 c2 b :
  macros c1 = macros c2 ->
  root_globals c1 = root_globals c2 ->
  copy_depth c1 = copy_depth c2 ->
  dlimit c1 = dlimit c2 ->
  tname c1 = tname c2 ->
  (forall m, assoc name (macros c2) = Some m ->
     eval_bound (eval fuel) c1 (macro_bound m args kwargs) =
     eval_bound (eval fuel) c2 (macro_bound m args kwargs)) ->
  let r1 := render g ld (S fuel) (NCall name args kwargs) c1 b in
  let r2 := render g ld (S fuel) (NCall name args kwargs) c2 b in
  st r1 = st r2 /\ bf r1 = bf r2.
Proof.
  intros Hm Hr Hd Hl Ht Ha. simpl. unfold render_call. rewrite Hm.
  destruct (assoc name (macros c2)) as [m|]; simpl; [|auto].
  destruct (Nat.ltb _ _); simpl; [auto|].
  destruct (negb _); simpl; [auto|].
  specialize (Ha m eq_refl). unfold macro_bound in Ha. rewrite Ha.
  destruct (eval_bound (eval fuel) c2 _) as [r|nsargs]; simpl; [auto|].
  unfold copy_isolated. rewrite Hr, Hd, Hl, Ht.
  destruct (depth_limit g <? copy_depth c2)%Z; simpl; auto.
Qed.

(** * The loop helper variables *)

(** The helper variables of one forloop object are consistent with each other:
    index = index0 + 1, rindex = rindex0 + 1, index0 + rindex = length,
    first iff index0 = 0, last iff rindex0 = 0.  ([for_iter_cons] shows that the
    k-th item of a loop is rendered with index0 = k and the loop's length.) *)
Theorem forloop_helper_laws name len idx parent :
  let fl := VForLoop name len idx parent in
  exists i i0 r r0 f la,
    raw_getitem fl (VStr s_index) = GOk (VInt i) /\
    raw_getitem fl (VStr s_index0) = GOk (VInt i0) /\
    raw_getitem fl (VStr s_rindex) = GOk (VInt r) /\
    raw_getitem fl (VStr s_rindex0) = GOk (VInt r0) /\
    raw_getitem fl (VStr s_length) = GOk (VInt len) /\
    raw_getitem fl (VStr s_first) = GOk (VBool f) /\
    raw_getitem fl (VStr s_last) = GOk (VBool la) /\
    raw_getitem fl (VStr s_name) = GOk (VStr name) /\
    raw_getitem fl (VStr s_parentloop) = GOk parent /\
    i0 = idx /\ i = (i0 + 1)%Z /\ r = (r0 + 1)%Z /\ (i0 + r)%Z = len /\
    f = (i0 =? 0)%Z /\ la = (r0 =? 0)%Z.
Proof.
  cbv zeta.
  exists (idx + 1)%Z, idx, (len - idx)%Z, (len - idx - 1)%Z, (idx =? 0)%Z, (idx =? len - 1)%Z.
  repeat split; try reflexivity; try lia.
Qed.

(** * render ... for: one isolated context per item *)

(** Every item of `render 'p' for items` is rendered from the SAME fresh
    isolated copy [cc] (extended with the item and its forloop): the context an
    item leaves behind is dropped, only the buffer is threaded on.  Hence what
    the partial assigns, captures or counts for one item cannot reach the next
    (the defect fixed in /repo 710b4fc). *)
Lemma render_iter_restarts_from_fresh_copy g rec body key len nsp it its i cc b :
  render_iter g rec body key len nsp (it :: its) i cc b =
  let nsx := dict_set key it (dict_set s_forloop (VForLoop key len i VUndef) nsp) in
  let r := partial_template g rec body (set_globals cc (nsx :: root_globals cc)) b true in
  match st r with
  | SDone => render_iter g rec body key len nsp its (i + 1)%Z cc (bf r)
  | _ => r
  end.
Proof. reflexivity. Qed.

(** the status and the text written for the items after the first do not depend
    on the context the first item ended in *)
Lemma render_iter_ignores_what_an_item_leaves g rec body key len nsp it its i cc b :
  let nsx := dict_set key it (dict_set s_forloop (VForLoop key len i VUndef) nsp) in
  let r := partial_template g rec body (set_globals cc (nsx :: root_globals cc)) b true in
  st r = SDone ->
  render_iter g rec body key len nsp (it :: its) i cc b =
  render_iter g rec body key len nsp its (i + 1)%Z cc (bf r).
Proof. cbv zeta. intro H. rewrite render_iter_restarts_from_fresh_copy. cbv zeta. rewrite H. reflexivity. Qed.
