(** Proofs about Core/Render.v: `capture` binds exactly the text its block
    would have written, and writes nothing itself. *)
From LQ Require Import Core.Render Proofs.Render_buffer Proofs.Render_counters Proofs.Render_fuel.
From Coq Require Import Lia ZArith.

(** what the capture tag does: the block runs against a fresh buffer; the
    caller's buffer comes back untouched whatever the outcome *)
Lemma capture_writes_nothing g ld fuel x body c b :
  bf (render g ld (S fuel) (NCapture x body) c b) = b.
Proof.
  cbn [render render_step].
  destruct (st (block _ _ _ _ _)); reflexivity.
Qed.

Lemma lookup_captured c x v :
  chain_lookup x (scopes c) = None ->
  lookup (set_locals c (dict_set x v (locals c))) x = Some v.
Proof.
  intro H. unfold lookup. cbn [scopes locals set_locals]. rewrite H, assoc_set_same. reflexivity.
Qed.

(** `{% capture x %}body{% endcapture %}{{ x }}`: when the block completes and no
    block scope shadows [x], the pair writes to the caller's buffer exactly the
    text the block wrote to its private buffer, and leaves [x] bound to it. *)
Theorem capture_then_output g ld fuel x body c b :
  let r := block g (render g ld (S fuel)) body c empty_buf in
  st r = SDone ->
  chain_lookup x (scopes (cx r)) = None ->
  let c' := set_locals (cx r) (dict_set x (VStr (text (bf r))) (locals (cx r))) in
  nodes (render g ld (S (S fuel))) [NCapture x body; NOutput (EPath x [])] c b
  = mk SDone c' (write b (text (bf r))).
Proof.
  cbv zeta. intros Hd Hs.
  change (render g ld (S (S fuel))) with (render_step g ld (eval (S fuel)) (render g ld (S fuel))).
  set (R := render g ld (S fuel)) in *.
  cbn [nodes render_step].
  change {| text := []; null := false |} with empty_buf.
  rewrite Hd. cbn [st cx bf mk].
  cbn [eval eval_step eval_segs]. rewrite lookup_captured by exact Hs.
  cbn [walk write_value to_liquid_string st cx bf mk]. reflexivity.
Qed.

(** ... and that text is what the block itself appends when it runs in place:
    capturing and printing is the same, for the output, as not capturing. *)
Theorem capture_then_output_is_body g ld fuel x body c b :
  null b = false ->
  let r := block g (render g ld (S fuel)) body c empty_buf in
  st r = SDone ->
  chain_lookup x (scopes (cx r)) = None ->
  text (bf (nodes (render g ld (S (S fuel))) [NCapture x body; NOutput (EPath x [])] c b))
  = text (bf (block g (render g ld (S fuel)) body c b)).
Proof.
  cbv zeta. intros Hn Hd Hs.
  pose proof (capture_then_output g ld fuel x body c b) as H. cbv zeta in H.
  rewrite (H Hd Hs). cbn [bf mk].
  pose proof (block_brel g (render g ld (S fuel)) (render_output_compositional g ld (S fuel))
                body c b empty_buf Hn) as (_ & _ & _ & _ & d & D1 & D2).
  rewrite D1. cbn [text empty_buf app] in D2. rewrite D2.
  unfold write. rewrite Hn. reflexivity.
Qed.

Example capture_example :
  let g := {| suppress := false; depth_limit := 30 |} in
  let body := [NContent [97; 98]%N false; NIncrement [110]%N] in
  let c := fresh_ctx 30 [] [] in
  let r := block g (render g [] 3) body c empty_buf in
  st r = SDone /\ chain_lookup [120]%N (scopes (cx r)) = None /\
  text (bf (nodes (render g [] 4) [NCapture [120]%N body; NOutput (EPath [120]%N [])] c empty_buf))
  = [97; 98; 48]%N.
Proof. vm_compute. repeat split; reflexivity. Qed.

(** * assign *)

(** `{% assign x = e %}{{ x }}`: when [e] evaluates to [v] (not a live forloop
    object) and no block scope shadows [x], the pair writes what `{{ e }}` writes,
    leaves [x] bound to [v] as a local, and touches nothing else of the context. *)
Theorem assign_then_output g ld fuel x e v c b :
  eval (S fuel) c e = EOk v ->
  has_forloop v = false ->
  chain_lookup x (scopes c) = None ->
  let c' := set_locals c (dict_set x v (locals c)) in
  nodes (render g ld (S (S fuel))) [NAssign x e; NOutput (EPath x [])] c b
  = mk (st (write_value (EOk v) c b)) c' (bf (write_value (EOk v) c b)).
Proof.
  cbv zeta. intros He Hf Hs.
  change (render g ld (S (S fuel))) with (render_step g ld (eval (S fuel)) (render g ld (S fuel))).
  set (R := render g ld (S fuel)) in *.
  cbn [nodes render_step]. rewrite He, Hf. cbn [st cx bf mk].
  cbn [eval eval_step eval_segs]. rewrite lookup_captured by exact Hs.
  cbn [walk]. unfold write_value. destruct (to_liquid_string v); reflexivity.
Qed.

(** the text is the text of `{{ e }}` *)
Corollary assign_then_output_text g ld fuel x e v c b :
  eval (S fuel) c e = EOk v ->
  has_forloop v = false ->
  chain_lookup x (scopes c) = None ->
  bf (nodes (render g ld (S (S fuel))) [NAssign x e; NOutput (EPath x [])] c b)
  = bf (render g ld (S (S fuel)) (NOutput e) c b).
Proof.
  intros He Hf Hs. rewrite (assign_then_output g ld fuel x e v c b He Hf Hs).
  change (render g ld (S (S fuel))) with (render_step g ld (eval (S fuel)) (render g ld (S fuel))).
  cbn [render_step bf mk]. rewrite He. reflexivity.
Qed.

Example assign_example :
  let g := {| suppress := false; depth_limit := 30 |} in
  let c := fresh_ctx 30 [] [] in
  eval 2 c (ELit (VInt 42)) = EOk (VInt 42) /\
  text (bf (nodes (render g [] 3) [NAssign [120]%N (ELit (VInt 42)); NOutput (EPath [120]%N [])] c empty_buf))
  = [52; 50]%N.
Proof. vm_compute. split; reflexivity. Qed.

(** * with *)

Lemma lookup_in_pushed_scope c x v :
  lookup (set_scopes c (dict_set x v [] :: scopes c)) x = Some v.
Proof.
  unfold lookup. cbn [scopes set_scopes chain_lookup]. rewrite assoc_set_same. reflexivity.
Qed.

Lemma set_scopes_same c : set_scopes c (scopes c) = c.
Proof. destruct c; reflexivity. Qed.

(** `{% with x: e %}{{ x }}{% endwith %}`: when [e] evaluates to [v] at the
    caller's context and the scope depth limit is not hit, the block writes [v]
    and the context afterwards is the caller's, identically - the binding of [x]
    exists only inside the block, whatever [x] was bound to outside. *)
Theorem with_then_output g ld fuel x e v c b :
  eval (S (S fuel)) c e = EOk v ->
  (depth_limit g <? scope_size c)%Z = false ->
  render g ld (S (S (S fuel))) (NWith [(x, e)] [NOutput (EPath x [])]) c b
  = mk (st (write_value (EOk v) c b)) c (bf (write_value (EOk v) c b)).
Proof.
  intros He Hd.
  change (render g ld (S (S (S fuel))))
    with (render_step g ld (eval (S (S fuel))) (render g ld (S (S fuel)))).
  cbn [render_step]. unfold eval_namespace. cbn [eval_pairs]. rewrite He.
  cbn [dict_of_pairs]. unfold extend. rewrite Hd.
  unfold block. cbn [block_blank node_blank]. rewrite Bool.andb_false_r.
  cbn [nodes].
  change (render g ld (S (S fuel))) with (render_step g ld (eval (S fuel)) (render g ld (S fuel))).
  cbn [render_step]. cbn [eval eval_step eval_segs]. rewrite lookup_in_pushed_scope. cbn [walk].
  unfold write_value. destruct (to_liquid_string v); cbn [st cx bf mk pop_scope scopes set_scopes tl].
  - destruct c; reflexivity.
  - destruct c; reflexivity.
Qed.

Example with_example :
  let g := {| suppress := false; depth_limit := 30 |} in
  let c := fresh_ctx 30 [] [] in
  eval 2 c (ELit (VInt 42)) = EOk (VInt 42) /\ (depth_limit g <? scope_size c)%Z = false /\
  text (bf (render g [] 3 (NWith [([120]%N, ELit (VInt 42))] [NOutput (EPath [120]%N [])]) c empty_buf))
  = [52; 50]%N.
Proof. vm_compute. repeat split; reflexivity. Qed.

(** * unless *)

(** `unless c` is `if not c`: same branch, same alternatives, same errors
    (given fuel enough to evaluate the condition). *)
Theorem unless_is_if_not g ld f cond conseq alts els c b :
  eval f c cond <> EFuel ->
  render g ld (S (S f)) (NUnless cond conseq alts els) c b
  = render g ld (S (S f)) (NIf (ENot cond) conseq alts els) c b.
Proof.
  intro H.
  change (render g ld (S (S f))) with (render_step g ld (eval (S f)) (render g ld (S f))).
  cbn [render_step].
  change (eval (S f) c (ENot cond)) with (eval_step (eval f) c (ENot cond)).
  cbn [eval_step].
  rewrite (Render_fuel.eval_fuel_mono f c cond H).
  destruct (eval f c cond) as [v| | |]; try reflexivity.
  destruct (is_truthy v); reflexivity.
Qed.

Example unless_example :
  let g := {| suppress := false; depth_limit := 30 |} in
  let c := fresh_ctx 30 [] [] in
  eval 1 c (ELit VNil) <> EFuel /\
  text (bf (render g [] 3 (NUnless (ELit VNil) [NContent [97]%N false] [] None) c empty_buf)) = [97]%N.
Proof. vm_compute. split; [discriminate|reflexivity]. Qed.

(** * include shares the caller's context *)

(** `{% include 'p' %}` where p is `{% assign x = v %}`: unlike `render`, the
    included template runs in the caller's context - afterwards the caller has [x]
    bound to [v] as a local and everything else (scopes, template name, counters,
    ...) exactly as before. *)
Theorem include_assign_is_visible_after g ld f tn x v c b :
  mem_str s_include (disabled c) = false ->
  assoc tn ld = Some [NAssign x (ELit v)] ->
  has_forloop v = false ->
  (depth_limit g <? scope_size c + 1)%Z = false ->
  render g ld (S (S (S f))) (NInclude (ELit (VStr tn)) None []) c b
  = mk SDone (set_locals c (dict_set x v (locals c))) b.
Proof.
  intros Hdis Hld Hf Hd.
  assert (Hd0 : (depth_limit g <? scope_size c)%Z = false) by (apply Z.ltb_ge; apply Z.ltb_ge in Hd; lia).
  change (render g ld (S (S (S f))))
    with (render_step g ld (eval (S (S f))) (render g ld (S (S f)))).
  cbn [render_step]. unfold render_include. rewrite Hdis.
  cbn [eval eval_step]. rewrite Hld.
  unfold eval_namespace. cbn [eval_pairs dict_of_pairs].
  unfold extend at 1. rewrite Hd0.
  unfold partial_template, extend.
  unfold scope_size in *. cbn [scopes set_tname set_scopes length].
  replace (Z.of_nat (S (length (scopes c))) + 4)%Z with (Z.of_nat (length (scopes c)) + 4 + 1)%Z by lia.
  rewrite Hd.
  change (render g ld (S (S f))) with (render_step g ld (eval (S f)) (render g ld (S f))).
  cbn [nodes render_step eval eval_step]. rewrite Hf.
  cbn [st cx bf mk nodes]. 
  destruct c; reflexivity.
Qed.

Example include_example :
  let g := {| suppress := false; depth_limit := 30 |} in
  let ld := [([112]%N, [NAssign [120]%N (ELit (VInt 7))])] in
  let c := fresh_ctx 30 [] [] in
  text (bf (nodes (render g ld 4) [NInclude (ELit (VStr [112]%N)) None []; NOutput (EPath [120]%N [])] c empty_buf)) = [55]%N
  /\ text (bf (nodes (render g ld 4) [NRender [112]%N None []; NOutput (EPath [120]%N [])] c empty_buf)) = [].
Proof. vm_compute. split; reflexivity. Qed.

(** * liquid tag, comment *)

(** `{% liquid ... %}` is exactly the block of its line statements; a comment
    writes nothing and changes nothing. *)
Lemma liquid_tag_is_its_block g ld f body c b :
  render g ld (S f) (NLiquid body) c b = block g (render g ld f) body c b.
Proof. reflexivity. Qed.

Lemma comment_is_inert g ld f c b : render g ld (S f) NComment c b = mk SDone c b.
Proof. reflexivity. Qed.
