(** Proofs/Render_lambda.v — arrow functions given to filters (Core/Render.v:
    lambda_map, lambda_result).  find / find_index / has stop consuming
    LambdaExpression.map at the first item whose value is truthy and defined:
    nothing after that item is evaluated, so neither the result nor an error
    can depend on it. *)
From LQ Require Import Core.Value Core.Syntax Core.Render.
From Coq Require Import Lia.

Section Lambda.
Variable ev : ctx -> expr -> eres.

Lemma lambda_map_stop_tail c p ip body pre m rv : forall i post post',
  ev (set_scopes c (lam_scope p ip m (i + Z.of_nat (length pre))%Z :: scopes c)) body = EOk rv ->
  lam_true rv = true ->
  lambda_map ev true c p ip body (pre ++ m :: post) i = lambda_map ev true c p ip body (pre ++ m :: post') i.
Proof.
  induction pre as [|x pre IH]; intros i post post' Hm Ht.
  - cbn [app lambda_map length Z.of_nat] in *. rewrite Z.add_0_r in Hm. rewrite Hm.
    cbn [andb]. rewrite Ht. reflexivity.
  - cbn [app lambda_map].
    destruct (ev (set_scopes c (lam_scope p ip x i :: scopes c)) body) as [rx| | |]; try reflexivity.
    destruct (true && lam_true rx); [reflexivity|].
    rewrite (IH (i + 1)%Z post post'); [reflexivity| |exact Ht].
    rewrite <- Hm. do 4 f_equal. cbn [length]. lia.
Qed.

Lemma lambda_map_stop_length c p ip body pre m rv : forall i post rvs,
  ev (set_scopes c (lam_scope p ip m (i + Z.of_nat (length pre))%Z :: scopes c)) body = EOk rv ->
  lam_true rv = true ->
  lambda_map ev true c p ip body (pre ++ m :: post) i = inr rvs ->
  length rvs <= length pre + 1.
Proof.
  induction pre as [|x pre IH]; intros i post rvs Hm Ht.
  - cbn [app lambda_map length Z.of_nat] in *. rewrite Z.add_0_r in Hm. rewrite Hm.
    cbn [andb]. rewrite Ht. intro H. inversion H. cbn. lia.
  - cbn [app lambda_map].
    destruct (ev (set_scopes c (lam_scope p ip x i :: scopes c)) body) as [rx| | |]; try discriminate.
    destruct (true && lam_true rx).
    + intro H. inversion H. cbn. lia.
    + destruct (lambda_map ev true c p ip body (pre ++ m :: post) (i + 1)%Z) as [r|rs] eqn:E; [discriminate|].
      intro H. inversion H. subst rvs. cbn [length].
      assert (length rs <= length pre + 1); [|lia].
      apply (IH (i + 1)%Z post rs); [|exact Ht|exact E].
      rewrite <- Hm. do 4 f_equal. cbn [length]. lia.
Qed.

Lemma lam_find_tail pre m : forall rvs i post post',
  length rvs <= length pre + 1 ->
  lam_find (pre ++ m :: post) rvs i = lam_find (pre ++ m :: post') rvs i.
Proof.
  induction pre as [|x pre IH]; intros rvs i post post' Hl.
  - destruct rvs as [|rv rvs]; [reflexivity|].
    destruct rvs; [|cbn in Hl; lia].
    cbn [app lam_find]. destruct (lam_true rv); [reflexivity|].
    destruct post, post'; reflexivity.
  - destruct rvs as [|rv rvs]; [reflexivity|].
    cbn [app lam_find]. destruct (lam_true rv); [reflexivity|].
    apply IH. cbn [length] in Hl. lia.
Qed.

Lemma lambda_result_tail lf pre m post post' rvs :
  lam_stops lf = true ->
  length rvs <= length pre + 1 ->
  lambda_result lf (pre ++ m :: post) rvs = lambda_result lf (pre ++ m :: post') rvs.
Proof.
  intros Hs Hl. destruct lf; try discriminate; unfold lambda_result;
    rewrite (lam_find_tail pre m rvs 0 post post' Hl); reflexivity.
Qed.

(** find / find_index / has: the items after the first match are irrelevant. *)
Theorem stopping_filter_ignores_tail c a a' lf p ip body v v' pre m post post' rv :
  lam_stops lf = true ->
  ev c a = EOk v -> ev c a' = EOk v' ->
  sequence_arg v = Some (pre ++ m :: post) ->
  sequence_arg v' = Some (pre ++ m :: post') ->
  ev (set_scopes c (lam_scope p ip m (Z.of_nat (length pre)) :: scopes c)) body = EOk rv ->
  lam_true rv = true ->
  eval_step ev c (EFilterL a lf p ip body) = eval_step ev c (EFilterL a' lf p ip body).
Proof.
  intros Hs Ha Ha' Hv Hv' Hm Ht. cbn [eval_step]. rewrite Ha, Ha', Hv, Hv'.
  destruct (dlimit c <? scope_size c)%Z; [reflexivity|].
  rewrite Hs.
  rewrite (lambda_map_stop_tail c p ip body pre m rv 0%Z post post') by (cbn; assumption).
  destruct (lambda_map ev true c p ip body (pre ++ m :: post') 0%Z) as [r|rvs] eqn:E; [reflexivity|].
  apply lambda_result_tail; [exact Hs|].
  apply (lambda_map_stop_length c p ip body pre m rv 0%Z post' rvs); [cbn; assumption|exact Ht|exact E].
Qed.

End Lambda.

(** The scope an arrow function's parameters live in exists only while its body
    is evaluated: evaluation returns a value and no context, so a parameter can
    neither outlive the filter application nor change an outer variable.  What
    the body sees is the caller's scopes under one more: *)
Lemma lambda_parameter_shadows c p ip it i :
  lookup (set_scopes c (lam_scope p ip it i :: scopes c)) p = Some it.
Proof.
  unfold lookup. cbn [scopes set_scopes chain_lookup].
  assert (H : assoc p (lam_scope p ip it i) = Some it).
  { unfold lam_scope. destruct ip; cbn [assoc]; rewrite str_eqb_refl; reflexivity. }
  rewrite H. reflexivity.
Qed.

(** Non-vacuity: [find: x => x > 1] over [1; 2; "a"] and over [1; 2; 5] (comparing
    the string "a" with 1 would raise) both give 2. *)
Example stopping_filter_example :
  let c := fresh_ctx 30 [] [109%N] in
  let body := ECmp OGt (EPath [120%N] []) (ELit (VInt 1)) in
  eval 5 c (EFilterL (ELit (VList [VInt 1; VInt 2; VStr [97%N]])) LFind [120%N] None body) = EOk (VInt 2)
  /\ eval 5 c (EFilterL (ELit (VList [VInt 1; VInt 2; VInt 5])) LFind [120%N] None body) = EOk (VInt 2)
  /\ eval 5 c (EFilterL (ELit (VList [VInt 1; VStr [97%N]; VInt 2])) LFind [120%N] None body) = EErr LiquidTypeError.
Proof. vm_compute. repeat split; reflexivity. Qed.
