(** Proofs/FiltersStr_proofs.v — laws of the string filters (C19). *)
From LQ Require Import Base.Str Kernels.FVal Kernels.FiltersNum Kernels.FiltersSeq Kernels.FiltersStr.
From Coq Require Import Lia.
Local Open Scope N_scope.

(** * append / prepend *)

Theorem append_prepend_app s t :
  append_f (FStr s) (FStr t) = Ok (FStr (s ++ t)) /\ prepend_f (FStr s) (FStr t) = Ok (FStr (t ++ s)).
Proof. split; reflexivity. Qed.

(** * strip = lstrip . rstrip = rstrip . lstrip *)

Section Strip.
  Variable p : N -> bool.

  Lemma lstrip_snoc_keep u c : p c = false -> lstrip_by p (u ++ [c]) = lstrip_by p u ++ [c].
  Proof.
    intro H. induction u as [|a u IH]; simpl; [rewrite H; reflexivity|].
    destruct (p a); [exact IH|reflexivity].
  Qed.

  Lemma lstrip_snoc_ws u c :
    p c = true ->
    lstrip_by p (u ++ [c]) = match lstrip_by p u with [] => [] | l => l ++ [c] end.
  Proof.
    intro H. induction u as [|a u IH]; simpl; [rewrite H; reflexivity|].
    destruct (p a); [exact IH|reflexivity].
  Qed.

  Lemma rstrip_cons_keep c t : p c = false -> rstrip_by p (c :: t) = c :: rstrip_by p t.
  Proof.
    intro H. unfold rstrip_by. simpl. rewrite lstrip_snoc_keep by exact H.
    rewrite rev_app_distr. reflexivity.
  Qed.

  Lemma rstrip_cons_ws c t :
    p c = true ->
    rstrip_by p (c :: t) = match rstrip_by p t with [] => [] | l => c :: l end.
  Proof.
    intro H. unfold rstrip_by. simpl. rewrite lstrip_snoc_ws by exact H.
    destruct (lstrip_by p (rev t)) as [|a l]; [reflexivity|].
    rewrite rev_app_distr. simpl. destruct (rev l ++ [a]) eqn:E; [|reflexivity].
    destruct (rev l); discriminate.
  Qed.

  Lemma strip_commute s : lstrip_by p (rstrip_by p s) = rstrip_by p (lstrip_by p s).
  Proof.
    induction s as [|c t IH]; [reflexivity|].
    destruct (p c) eqn:H.
    - rewrite rstrip_cons_ws by exact H. simpl lstrip_by at 2. rewrite H.
      destruct (rstrip_by p t) as [|a l] eqn:E.
      + rewrite <- IH. reflexivity.
      + simpl. rewrite H. rewrite <- IH. reflexivity.
    - rewrite rstrip_cons_keep by exact H. simpl. rewrite H. rewrite rstrip_cons_keep by exact H.
      reflexivity.
  Qed.

  Lemma lstrip_idem s : lstrip_by p (lstrip_by p s) = lstrip_by p s.
  Proof.
    induction s as [|c t IH]; [reflexivity|]. simpl. destruct (p c) eqn:H; [exact IH|].
    simpl. rewrite H. reflexivity.
  Qed.
  Lemma rstrip_idem s : rstrip_by p (rstrip_by p s) = rstrip_by p s.
  Proof. unfold rstrip_by. rewrite rev_involutive, lstrip_idem. reflexivity. Qed.
End Strip.

Theorem strip_is_lstrip_rstrip v :
  exists a, rstrip_f v = a /\
  match to_liquid_string v with
  | Ok s =>
      strip_f v = Ok (FStr (py_lstrip (py_rstrip s))) /\
      strip_f v = Ok (FStr (py_rstrip (py_lstrip s))) /\
      (exists r, rstrip_f v = Ok (FStr r) /\ lstrip_f (FStr r) = strip_f v) /\
      (exists l, lstrip_f v = Ok (FStr l) /\ rstrip_f (FStr l) = strip_f v)
  | _ => strip_f v = lstrip_f v /\ strip_f v = rstrip_f v
  end.
Proof.
  eexists. split; [reflexivity|].
  unfold strip_f, lstrip_f, rstrip_f, str_filter1.
  destruct (to_liquid_string v) as [s| | |]; simpl; auto.
  split; [reflexivity|]. split.
  - unfold py_strip, py_lstrip, py_rstrip. rewrite strip_commute. reflexivity.
  - split.
    + eexists. split; reflexivity.
    + eexists. split; [reflexivity|]. simpl. unfold py_strip, py_lstrip, py_rstrip.
      rewrite strip_commute. reflexivity.
Qed.

Theorem strip_idempotent s :
  exists t, strip_f (FStr s) = Ok (FStr t) /\ strip_f (FStr t) = Ok (FStr t).
Proof.
  eexists. split; [reflexivity|]. unfold strip_f, str_filter1. simpl. do 2 f_equal.
  unfold py_strip, py_lstrip, py_rstrip.
  rewrite (strip_commute py_isspace s) at 1.
  rewrite rstrip_idem. rewrite <- (strip_commute py_isspace s). apply lstrip_idem.
Qed.

(** * upcase / downcase *)

Lemma ascii_upper1_idem c : ascii_upper1 (ascii_upper1 c) = ascii_upper1 c.
Proof.
  unfold ascii_upper1.
  destruct ((97 <=? c) && (c <=? 122)) eqn:E; [|rewrite E; reflexivity].
  apply andb_true_iff in E as [E1 E2]. apply N.leb_le in E1, E2.
  destruct ((97 <=? c - 32) && (c - 32 <=? 122)) eqn:F; [|reflexivity].
  apply andb_true_iff in F as [F1 F2]. apply N.leb_le in F1, F2. lia.
Qed.

Lemma ascii_lower1_idem c : ascii_lower1 (ascii_lower1 c) = ascii_lower1 c.
Proof.
  unfold ascii_lower1.
  destruct ((65 <=? c) && (c <=? 90)) eqn:E; [|rewrite E; reflexivity].
  apply andb_true_iff in E as [E1 E2]. apply N.leb_le in E1, E2.
  destruct ((65 <=? c + 32) && (c + 32 <=? 90)) eqn:F; [|reflexivity].
  apply andb_true_iff in F as [F1 F2]. apply N.leb_le in F1, F2. lia.
Qed.

Theorem case_idempotent s :
  (exists u, upcase_f (FStr s) = Ok (FStr u) /\ upcase_f (FStr u) = Ok (FStr u)) /\
  (exists d, downcase_f (FStr s) = Ok (FStr d) /\ downcase_f (FStr d) = Ok (FStr d)).
Proof.
  split; eexists; (split; [reflexivity|]); unfold upcase_f, downcase_f, str_filter1; simpl;
    do 2 f_equal; unfold ascii_upper, ascii_lower; rewrite map_map; apply map_ext;
    [apply ascii_upper1_idem|apply ascii_lower1_idem].
Qed.

Theorem case_preserves_length s :
  length (ascii_upper s) = length s /\ length (ascii_lower s) = length s.
Proof. unfold ascii_upper, ascii_lower. rewrite !map_length. auto. Qed.

(** * remove x = replace x "" *)

Theorem remove_is_replace_empty left arg :
  remove_f left arg = replace_f left arg (FStr []) /\
  remove_first_f left arg = replace_first_f left arg (FStr []).
Proof.
  unfold remove_f, replace_f, remove_first_f, replace_first_f.
  destruct (to_liquid_string left); simpl; auto;
    destruct (to_liquid_string arg); simpl; auto.
Qed.

Theorem remove_last_is_replace_last_empty left arg :
  remove_last_f left arg = replace_last_f left arg (FStr []).
Proof.
  unfold remove_last_f, replace_last_f.
  destruct (to_liquid_string left) as [v| | |]; simpl; auto.
  destruct (to_liquid_string arg) as [a| | |]; simpl; auto.
  unfold remove_last_str, replace_last_str. destruct a; [rewrite app_nil_r; reflexivity|].
  destruct (rfind_sub _ v) as [[b c]|]; reflexivity.
Qed.

(** [replace_last] replaces exactly the found occurrence: the text before and
    after it is untouched. *)
Lemma rfind_sub_some sep s a b : rfind_sub sep s = Some (a, b) -> s = a ++ sep ++ b.
Proof.
  unfold rfind_sub. destruct (find_sub (rev sep) (rev s)) as [[x y]|] eqn:E; [|discriminate].
  intro H; inversion H; subst.
  assert (F : rev s = x ++ rev sep ++ y).
  { clear H. revert x y E. generalize (rev sep) as q. generalize (rev s) as t.
    induction t as [|c t IH]; intros q x y E.
    - simpl in E. destruct (prefixb q []) eqn:P; [|discriminate]. inversion E; subst.
      destruct q; [reflexivity|discriminate].
    - simpl in E. destruct (prefixb q (c :: t)) eqn:P.
      + inversion E; subst. simpl.
        clear -P. revert c t P. induction q as [|a q IHq]; intros c t P; [reflexivity|].
        simpl in P. apply andb_true_iff in P as [P1 P2]. apply N.eqb_eq in P1. subst.
        simpl. f_equal. destruct t as [|d t]; [destruct q; [reflexivity|discriminate]|].
        apply IHq, P2.
      + destruct (find_sub q t) as [[x' y']|] eqn:F; [|discriminate].
        inversion E; subst. simpl. f_equal. apply IH, F. }
  apply (f_equal (@rev N)) in F. rewrite rev_involutive in F.
  rewrite !rev_app_distr, rev_involutive in F. rewrite <- app_assoc in F. exact F.
Qed.

Theorem replace_last_spec seq sub v :
  seq <> [] ->
  match rfind_sub seq v with
  | Some (before, after) =>
      v = before ++ seq ++ after /\ replace_last_str seq sub v = before ++ sub ++ after /\
      remove_last_str seq v = before ++ after
  | None => replace_last_str seq sub v = v /\ remove_last_str seq v = v
  end.
Proof.
  intro H. unfold replace_last_str, remove_last_str. destruct seq; [contradiction|].
  destruct (rfind_sub _ v) as [[b a]|] eqn:E; [|auto].
  split; [apply rfind_sub_some, E|auto].
Qed.

(** A match at the very start of the string is replaced too (the defect
    "remove_last/replace_last ignored a match at the very start"). *)
Example remove_last_at_start :
  remove_last_f (FStr [97; 98; 99]) (FStr [97]) = Ok (FStr [98; 99]) /\
  replace_last_f (FStr [97; 98; 99]) (FStr [97]) (FStr [120]) = Ok (FStr [120; 98; 99]).
Proof. vm_compute. split; reflexivity. Qed.

(** * truncate *)

Local Open Scope Z_scope.

(** The specification: unchanged when it has at most [num] characters;
    otherwise the first max(0, num - |end|) characters followed by [end],
    never longer than max(num, |end|). *)
Theorem truncate_spec val num e :
  (Z.of_nat (length val) <= num -> truncate_chars val num e = val) /\
  (num < Z.of_nat (length val) ->
     truncate_chars val num e = firstn (Z.to_nat (Z.max 0 (num - Z.of_nat (length e)))) val ++ e /\
     Z.of_nat (length (truncate_chars val num e)) <= Z.max num (Z.of_nat (length e))).
Proof.
  unfold truncate_chars. split; intro H.
  - apply Z.leb_le in H. rewrite H. reflexivity.
  - destruct (Z.of_nat (length val) <=? num) eqn:E; [apply Z.leb_le in E; lia|].
    split; [reflexivity|]. rewrite app_length, firstn_length. lia.
Qed.

(** The code before the fix: [val[:num - len(end)]] with a negative bound
    keeps all but the last characters — the output is longer than both
    [num] and [end]. *)
Theorem truncate_unfixed_refuted :
  exists val num e,
    num < Z.of_nat (length val) /\
    Z.max num (Z.of_nat (length e)) < Z.of_nat (length (truncate_chars_unfixed val num e)).
Proof.
  exists [104; 101; 108; 108; 111]%N, 2, [46; 46; 46]%N. vm_compute. split; reflexivity.
Qed.

(** Where the old code was right (the bound is not negative) the fix changes nothing. *)
Theorem truncate_fix_conservative val num e :
  Z.of_nat (length e) <= num -> truncate_chars val num e = truncate_chars_unfixed val num e.
Proof.
  intro H. unfold truncate_chars, truncate_chars_unfixed.
  destruct (Z.of_nat (length val) <=? num); [reflexivity|]. f_equal.
  set (k := num - Z.of_nat (length e)). assert (Hk : 0 <= k) by (unfold k; lia).
  rewrite Z.max_r by lia. unfold py_slice. change (0 <? 0) with false. cbv iota.
  destruct (k <? 0) eqn:E; [apply Z.ltb_lt in E; lia|].
  set (n := Z.of_nat (length val)).
  assert (Hn : 0 <= n) by (unfold n; lia).
  rewrite (Z.min_l 0 n) by lia. change (Z.to_nat 0) with 0%nat. cbn [skipn]. rewrite Z.sub_0_r.
  destruct (Z.le_gt_cases k n) as [L|G].
  - rewrite Z.min_l by lia. reflexivity.
  - rewrite Z.min_r by lia. unfold n. rewrite Nat2Z.id.
    rewrite !firstn_all2; [reflexivity|lia|unfold n in G; lia].
Qed.

Example truncate_examples :
  truncate_f (FStr [104; 101; 108; 108; 111]%N) (Some (FInt 2)) None = Ok (FStr [46; 46; 46]%N) /\
  truncate_f (FStr [104; 101; 108; 108; 111]%N) (Some (FInt 4)) None = Ok (FStr [104; 46; 46; 46]%N) /\
  truncate_f (FStr [104; 101; 108; 108; 111]%N) (Some (FInt 6)) None = Ok (FStr [104; 101; 108; 108; 111]%N).
Proof. vm_compute. repeat split. Qed.

(** truncatewords: at most [num] words -> the words joined by one space (no
    [end]); otherwise the first [num] words and [end]. *)
Theorem truncatewords_spec v num e :
  let n := if num <=? 0 then 1 else num in
  n < MAX_TRUNC_WORDS ->
  (Z.of_nat (length (py_words v)) <= n -> truncatewords_str v num e = join_str [32%N] (py_words v)) /\
  (n < Z.of_nat (length (py_words v)) ->
     truncatewords_str v num e = join_str [32%N] (firstn (Z.to_nat n) (py_words v)) ++ e).
Proof.
  intros n Hn. unfold truncatewords_str. fold n.
  destruct (MAX_TRUNC_WORDS <=? n) eqn:E; [apply Z.leb_le in E; lia|].
  split; intro H.
  - apply Z.leb_le in H. rewrite H. reflexivity.
  - destruct (Z.of_nat (length (py_words v)) <=? n) eqn:F; [apply Z.leb_le in F; lia|reflexivity].
Qed.

(** Exactly [num] characters / words: nothing is cut and no ellipsis is added. *)
Example truncate_boundary :
  truncate_f (FStr [97; 98; 99]%N) (Some (FInt 3)) None = Ok (FStr [97; 98; 99]%N) /\
  truncate_f (FStr [97; 98; 99; 100]%N) (Some (FInt 3)) None = Ok (FStr [46; 46; 46]%N) /\
  truncatewords_f (FStr [97; 32; 98; 32; 99]%N) (Some (FInt 3)) None = Ok (FStr [97; 32; 98; 32; 99]%N) /\
  truncatewords_f (FStr [97; 32; 98; 32; 99]%N) (Some (FInt 2)) None = Ok (FStr [97; 32; 98; 46; 46; 46]%N).
Proof. vm_compute. repeat split. Qed.

Local Close Scope Z_scope.

(** * escape / escape_once, for any [html.unescape] that undoes [html.escape] *)

Section EscapeOnce.
  Variable unescape : str -> str.
  Hypothesis unescape_escape : forall s, unescape (html_escape s) = s.

  Definition escape_once_with (s : str) : str := html_escape (unescape s).

  Theorem escape_once_idempotent s :
    escape_once_with (escape_once_with s) = escape_once_with s.
  Proof. unfold escape_once_with. rewrite unescape_escape. reflexivity. Qed.

  Theorem escape_once_after_escape s : escape_once_with (html_escape s) = html_escape s.
  Proof. unfold escape_once_with. rewrite unescape_escape. reflexivity. Qed.
End EscapeOnce.

(** The executable model of [escape_once] is [escape_once_with] of any
    function that agrees with the modelled part of [html.unescape]. *)
Theorem escape_once_f_is_with unescape s :
  html_unescape s = Ok (unescape s) ->
  escape_once_f (FStr s) = Ok (FStr (escape_once_with unescape s)).
Proof. intro H. unfold escape_once_f. simpl. rewrite H. reflexivity. Qed.

(** [escape] leaves none of the five special characters. *)
Lemma html_escape1_clean c :
  Forall (fun d => d <> 60 /\ d <> 62 /\ d <> 34 /\ d <> 39) (html_escape1 c).
Proof.
  unfold html_escape1.
  destruct (c =? 38) eqn:E1; [vm_compute; repeat constructor; discriminate|].
  destruct (c =? 60) eqn:E2; [vm_compute; repeat constructor; discriminate|].
  destruct (c =? 62) eqn:E3; [vm_compute; repeat constructor; discriminate|].
  destruct (c =? 34) eqn:E4; [vm_compute; repeat constructor; discriminate|].
  destruct (c =? 39) eqn:E5; [vm_compute; repeat constructor; discriminate|].
  apply N.eqb_neq in E2, E3, E4, E5. repeat constructor; assumption.
Qed.

Theorem escape_no_specials s :
  Forall (fun d => d <> 60 /\ d <> 62 /\ d <> 34 /\ d <> 39) (html_escape s).
Proof.
  unfold html_escape. induction s as [|c s IH]; simpl; [constructor|].
  apply Forall_app. split; [apply html_escape1_clean|exact IH].
Qed.

(** * UTF-8: decoding undoes encoding on Unicode scalar values *)

From Coq Require Import Zify.
Local Ltac Zify.zify_post_hook ::= Z.to_euclidean_division_equations.

Ltac tst_true := first [apply N.ltb_lt; lia | apply N.leb_le; lia].
Ltac tst_false := first [apply N.ltb_ge; lia | apply N.leb_gt; lia].

Lemma is_cont_low x : is_cont (128 + x mod 64) = true.
Proof. unfold is_cont. apply andb_true_iff. split; tst_true. Qed.

Lemma utf8_decode_encode1 c rest :
  is_scalar c = true ->
  utf8_decode (utf8_encode1 c ++ rest) =
  match utf8_decode rest with Some t => Some (c :: t) | None => None end.
Proof.
  unfold is_scalar. intro S. apply andb_true_iff in S as [S1 S2].
  apply N.leb_le in S1. apply negb_true_iff in S2. unfold utf8_encode1.
  destruct (c <? 128) eqn:R1.
  { cbn [app utf8_decode]. rewrite R1. reflexivity. }
  apply N.ltb_ge in R1.
  destruct (c <? 2048) eqn:R2; [apply N.ltb_lt in R2|apply N.ltb_ge in R2].
  { cbn [app utf8_decode].
    replace (192 + c / 64 <? 128) with false by (symmetry; tst_false).
    replace (194 <=? 192 + c / 64) with true by (symmetry; tst_true).
    replace (192 + c / 64 <? 224) with true by (symmetry; tst_true).
    cbn [andb]. rewrite is_cont_low.
    replace ((192 + c / 64 - 192) * 64 + (128 + c mod 64 - 128)) with c by lia. reflexivity. }
  destruct (c <? 65536) eqn:R3; [apply N.ltb_lt in R3|apply N.ltb_ge in R3].
  { cbn [app utf8_decode].
    replace (224 + c / 4096 <? 128) with false by (symmetry; tst_false).
    replace (194 <=? 224 + c / 4096) with true by (symmetry; tst_true).
    replace (224 + c / 4096 <? 224) with false by (symmetry; tst_false).
    replace (224 <=? 224 + c / 4096) with true by (symmetry; tst_true).
    replace (224 + c / 4096 <? 240) with true by (symmetry; tst_true).
    cbn [andb]. rewrite !is_cont_low.
    replace ((224 + c / 4096 - 224) * 4096 + (128 + (c / 64) mod 64 - 128) * 64
             + (128 + c mod 64 - 128)) with c by lia.
    replace (2048 <=? c) with true by (symmetry; tst_true). rewrite S2. reflexivity. }
  cbn [app utf8_decode].
  replace (240 + c / 262144 <? 128) with false by (symmetry; tst_false).
  replace (194 <=? 240 + c / 262144) with true by (symmetry; tst_true).
  replace (240 + c / 262144 <? 224) with false by (symmetry; tst_false).
  replace (224 <=? 240 + c / 262144) with true by (symmetry; tst_true).
  replace (240 + c / 262144 <? 240) with false by (symmetry; tst_false).
  replace (240 <=? 240 + c / 262144) with true by (symmetry; tst_true).
  replace (240 + c / 262144 <? 245) with true by (symmetry; tst_true).
  cbn [andb]. rewrite !is_cont_low.
  replace ((240 + c / 262144 - 240) * 262144 + (128 + (c / 4096) mod 64 - 128) * 4096
           + (128 + (c / 64) mod 64 - 128) * 64 + (128 + c mod 64 - 128)) with c by lia.
  replace (65536 <=? c) with true by (symmetry; tst_true).
  replace (c <=? 1114111) with true by (symmetry; tst_true). reflexivity.
Qed.

Theorem utf8_roundtrip s : all_scalar s = true -> utf8_decode (utf8_encode s) = Some s.
Proof.
  unfold all_scalar, utf8_encode. induction s as [|c s IH]; simpl; intro H; [reflexivity|].
  apply andb_true_iff in H as [H1 H2]. rewrite utf8_decode_encode1 by exact H1.
  rewrite IH by exact H2. reflexivity.
Qed.

Lemma utf8_encode1_bytes c : c <= 1114111 -> Forall (fun b => b < 256) (utf8_encode1 c).
Proof.
  intro H. unfold utf8_encode1.
  destruct (c <? 128) eqn:R1; [apply N.ltb_lt in R1; repeat constructor; lia|].
  destruct (c <? 2048) eqn:R2; [apply N.ltb_lt in R2; repeat constructor; lia|].
  destruct (c <? 65536) eqn:R3; [apply N.ltb_lt in R3; repeat constructor; lia|].
  repeat constructor; lia.
Qed.

Lemma utf8_encode_bytes s : all_scalar s = true -> Forall (fun b => b < 256) (utf8_encode s).
Proof.
  unfold all_scalar, utf8_encode. induction s as [|c s IH]; simpl; intro H; [constructor|].
  apply andb_true_iff in H as [H1 H2]. apply Forall_app. split; [|apply IH, H2].
  apply utf8_encode1_bytes. unfold is_scalar in H1. apply andb_true_iff in H1 as [H1 _].
  apply N.leb_le, H1.
Qed.

(** * base64: decoding undoes encoding, both alphabets *)

Lemma b64_val_char v : v < 64 -> b64_val (b64_char false v) = Some v.
Proof.
  intro H. unfold b64_char, b64_val.
  destruct (v <? 26) eqn:A; [apply N.ltb_lt in A|apply N.ltb_ge in A].
  { replace ((65 <=? 65 + v) && (65 + v <=? 90)) with true; [f_equal; lia|].
    symmetry. apply andb_true_iff. split; tst_true. }
  destruct (v <? 52) eqn:B; [apply N.ltb_lt in B|apply N.ltb_ge in B].
  { replace ((65 <=? 97 + (v - 26)) && (97 + (v - 26) <=? 90)) with false
      by (symmetry; apply andb_false_iff; right; tst_false).
    replace ((97 <=? 97 + (v - 26)) && (97 + (v - 26) <=? 122)) with true; [f_equal; lia|].
    symmetry. apply andb_true_iff. split; tst_true. }
  destruct (v <? 62) eqn:C; [apply N.ltb_lt in C|apply N.ltb_ge in C].
  { replace ((65 <=? 48 + (v - 52)) && (48 + (v - 52) <=? 90)) with false
      by (symmetry; apply andb_false_iff; left; tst_false).
    replace ((97 <=? 48 + (v - 52)) && (48 + (v - 52) <=? 122)) with false
      by (symmetry; apply andb_false_iff; left; tst_false).
    replace ((48 <=? 48 + (v - 52)) && (48 + (v - 52) <=? 57)) with true; [f_equal; lia|].
    symmetry. apply andb_true_iff. split; tst_true. }
  destruct (v =? 62) eqn:D; [apply N.eqb_eq in D; subst; reflexivity|].
  apply N.eqb_neq in D. assert (v = 63) by lia. subst. reflexivity.
Qed.

Lemma b64_char_not_pad url v : v < 64 -> (b64_char url v =? 61) = false.
Proof.
  intro H. apply N.eqb_neq. unfold b64_char.
  destruct (v <? 26) eqn:A; [apply N.ltb_lt in A; lia|apply N.ltb_ge in A].
  destruct (v <? 52) eqn:B; [apply N.ltb_lt in B; lia|apply N.ltb_ge in B].
  destruct (v <? 62) eqn:C; [apply N.ltb_lt in C; lia|].
  destruct (v =? 62), url; lia.
Qed.

Lemma url_translate_char v : v < 64 ->
  (if b64_char true v =? 45 then 43 else if b64_char true v =? 95 then 47 else b64_char true v)
  = b64_char false v.
Proof.
  intro H. unfold b64_char.
  destruct (v <? 26) eqn:A; [apply N.ltb_lt in A|apply N.ltb_ge in A].
  { replace (65 + v =? 45) with false by (symmetry; apply N.eqb_neq; lia).
    replace (65 + v =? 95) with false by (symmetry; apply N.eqb_neq; lia). reflexivity. }
  destruct (v <? 52) eqn:B; [apply N.ltb_lt in B|apply N.ltb_ge in B].
  { replace (97 + (v - 26) =? 45) with false by (symmetry; apply N.eqb_neq; lia).
    replace (97 + (v - 26) =? 95) with false by (symmetry; apply N.eqb_neq; lia). reflexivity. }
  destruct (v <? 62) eqn:C; [apply N.ltb_lt in C|apply N.ltb_ge in C].
  { replace (48 + (v - 52) =? 45) with false by (symmetry; apply N.eqb_neq; lia).
    replace (48 + (v - 52) =? 95) with false by (symmetry; apply N.eqb_neq; lia). reflexivity. }
  destruct (v =? 62); reflexivity.
Qed.

(** One decoding step on an alphabet character. *)
Lemma a2b_step v r qp left pads :
  v < 64 ->
  a2b_base64 (b64_char false v :: r) qp left pads =
  match qp with
  | 0%nat => a2b_base64 r 1 v 0
  | 1%nat => match a2b_base64 r 2 (v mod 16) 0 with
             | Some t => Some ((left * 4 + v / 16) :: t) | None => None end
  | 2%nat => match a2b_base64 r 3 (v mod 4) 0 with
             | Some t => Some ((left * 16 + v / 4) :: t) | None => None end
  | _ => match a2b_base64 r 0 0 0 with
         | Some t => Some ((left * 64 + v) :: t) | None => None end
  end.
Proof.
  intro H. cbn [a2b_base64]. rewrite b64_char_not_pad by exact H.
  rewrite b64_val_char by exact H. reflexivity.
Qed.

Lemma list_ind3 {A} (P : list A -> Prop) :
  P [] -> (forall a, P [a]) -> (forall a b, P [a; b]) ->
  (forall a b c r, P r -> P (a :: b :: c :: r)) -> forall l, P l.
Proof.
  intros H0 H1 H2 H3.
  fix F 1. intros [|a [|b [|c r]]]; [exact H0|apply H1|apply H2|apply H3; apply F].
Qed.

Theorem b64_bytes_roundtrip bs :
  Forall (fun b => b < 256) bs -> a2b_base64 (b64_encode_bytes false bs) 0 0 0 = Some bs.
Proof.
  induction bs as [| a | a b | a b c r IH] using list_ind3; intro F.
  - reflexivity.
  - inversion F as [|? ? Ha _]; subst. cbn [b64_encode_bytes].
    rewrite a2b_step by lia. rewrite a2b_step by lia.
    cbn [a2b_base64]. simpl. do 2 f_equal. lia.
  - inversion F as [|? ? Ha F']; subst. inversion F' as [|? ? Hb _]; subst. cbn [b64_encode_bytes].
    rewrite a2b_step by lia. rewrite a2b_step by lia. rewrite a2b_step by lia.
    cbn [a2b_base64]. simpl. f_equal. f_equal; [lia|f_equal; lia].
  - inversion F as [|? ? Ha F']; subst. inversion F' as [|? ? Hb F'']; subst.
    inversion F'' as [|? ? Hc Fr]; subst. cbn [b64_encode_bytes].
    rewrite a2b_step by lia. rewrite a2b_step by lia. rewrite a2b_step by lia.
    rewrite a2b_step by lia. rewrite IH by exact Fr.
    f_equal. f_equal; [lia|f_equal; [lia|f_equal; lia]].
Qed.

Lemma b64_encode_url_translate bs :
  Forall (fun b => b < 256) bs ->
  url_translate (b64_encode_bytes true bs) = b64_encode_bytes false bs.
Proof.
  unfold url_translate.
  induction bs as [| a | a b | a b c r IH] using list_ind3; intro F.
  - reflexivity.
  - inversion F as [|? ? Ha _]; subst. cbn [b64_encode_bytes map].
    rewrite !url_translate_char by lia. reflexivity.
  - inversion F as [|? ? Ha F']; subst. inversion F' as [|? ? Hb _]; subst.
    cbn [b64_encode_bytes map]. rewrite !url_translate_char by lia. reflexivity.
  - inversion F as [|? ? Ha F']; subst. inversion F' as [|? ? Hb F'']; subst.
    inversion F'' as [|? ? Hc Fr]; subst. cbn [b64_encode_bytes map].
    rewrite !url_translate_char by lia. rewrite IH by exact Fr. reflexivity.
Qed.

Lemma b64_char_ascii url v : v < 64 -> b64_char url v < 128.
Proof.
  intro H. unfold b64_char.
  destruct (v <? 26) eqn:A; [apply N.ltb_lt in A; lia|apply N.ltb_ge in A].
  destruct (v <? 52) eqn:B; [apply N.ltb_lt in B; lia|apply N.ltb_ge in B].
  destruct (v <? 62) eqn:C; [apply N.ltb_lt in C; lia|].
  destruct (v =? 62), url; lia.
Qed.

Lemma b64_encode_ascii url bs :
  Forall (fun b => b < 256) bs -> all_ascii (b64_encode_bytes url bs) = true.
Proof.
  unfold all_ascii.
  induction bs as [| a | a b | a b c r IH] using list_ind3; intro F.
  - reflexivity.
  - inversion F as [|? ? Ha _]; subst. cbn [b64_encode_bytes forallb].
    rewrite !andb_true_iff. repeat split; try reflexivity; apply N.ltb_lt, b64_char_ascii; lia.
  - inversion F as [|? ? Ha F']; subst. inversion F' as [|? ? Hb _]; subst.
    cbn [b64_encode_bytes forallb].
    rewrite !andb_true_iff. repeat split; try reflexivity; apply N.ltb_lt, b64_char_ascii; lia.
  - inversion F as [|? ? Ha F']; subst. inversion F' as [|? ? Hb F'']; subst.
    inversion F'' as [|? ? Hc Fr]; subst. cbn [b64_encode_bytes forallb].
    rewrite !andb_true_iff. repeat split; try (apply N.ltb_lt, b64_char_ascii; lia). apply IH, Fr.
Qed.

(** [{{ s | base64_encode | base64_decode }}] and the URL-safe pair are the
    identity on every string of Unicode scalar values. *)
Theorem base64_roundtrip url s :
  all_scalar s = true ->
  exists e, b64_encode_f url (FStr s) = Ok (FStr e) /\ b64_decode_f url (FStr e) = Ok (FStr s).
Proof.
  intro S. exists (b64_encode_bytes url (utf8_encode s)). split.
  - unfold b64_encode_f. simpl. rewrite S. reflexivity.
  - pose proof (utf8_encode_bytes s S) as B.
    unfold b64_decode_f. simpl. rewrite b64_encode_ascii by exact B. simpl.
    assert (E : (if url then url_translate (b64_encode_bytes url (utf8_encode s))
                 else b64_encode_bytes url (utf8_encode s)) = b64_encode_bytes false (utf8_encode s)).
    { destruct url; [apply b64_encode_url_translate, B|reflexivity]. }
    rewrite E. rewrite b64_bytes_roundtrip by exact B. rewrite utf8_roundtrip by exact S. reflexivity.
Qed.

(** * url_encode / url_decode *)

Lemma hexval_hexdigit v : v < 16 -> hexval (hexdigit v) = Some v.
Proof.
  intro H. unfold hexdigit, hexval, is_digit.
  destruct (v <? 10) eqn:A; [apply N.ltb_lt in A|apply N.ltb_ge in A].
  - replace ((48 <=? 48 + v) && (48 + v <=? 57)) with true; [f_equal; lia|].
    symmetry. apply andb_true_iff. split; tst_true.
  - replace ((48 <=? 55 + v) && (55 + v <=? 57)) with false
      by (symmetry; apply andb_false_iff; right; tst_false).
    replace ((65 <=? 55 + v) && (55 + v <=? 70)) with true; [f_equal; lia|].
    symmetry. apply andb_true_iff. split; tst_true.
Qed.

Lemma hexdigit_not_plus v : v < 16 -> (hexdigit v =? 43) = false.
Proof. intro H. apply N.eqb_neq. unfold hexdigit. destruct (v <? 10); lia. Qed.

Lemma hexdigit_ascii v : v < 16 -> hexdigit v < 128.
Proof. intro H. unfold hexdigit. destruct (v <? 10); lia. Qed.

(** One percent-encoded byte decodes to that byte. *)
Lemma unq_pct b r : b < 256 -> unq (plus_to_space (pct b) ++ r) = b :: unq r.
Proof.
  intro H. unfold pct, plus_to_space. cbn [map app].
  rewrite !hexdigit_not_plus by lia. change (37 =? 43) with false. cbn iota.
  cbn [unq]. change (37 =? 37) with true. cbn iota.
  rewrite !hexval_hexdigit by lia. f_equal. lia.
Qed.

Lemma unq_pcts bs r :
  Forall (fun b => b < 256) bs -> unq (plus_to_space (flat_map pct bs) ++ r) = bs ++ unq r.
Proof.
  induction 1 as [|b bs Hb Hbs IH]; [reflexivity|].
  cbn [flat_map]. unfold plus_to_space in *. rewrite map_app, <- app_assoc.
  fold (plus_to_space (pct b)). rewrite unq_pct by exact Hb. rewrite IH. reflexivity.
Qed.

Lemma url_safe_facts c : url_safe c = true -> c < 128 /\ c <> 37 /\ c <> 43.
Proof.
  unfold url_safe, is_alpha, is_digit. intro H.
  repeat (apply orb_true_iff in H as [H|H]);
    repeat match goal with
           | H : (_ && _) = true |- _ => apply andb_true_iff in H as [? ?]
           | H : (_ <=? _) = true |- _ => apply N.leb_le in H
           | H : (_ =? _) = true |- _ => apply N.eqb_eq in H
           end; lia.
Qed.

Lemma unq_quote1 c r :
  is_scalar c = true ->
  unq (plus_to_space (quote_plus1 c) ++ r) = utf8_encode1 c ++ unq r.
Proof.
  intro S. unfold quote_plus1.
  destruct (url_safe c) eqn:U.
  - destruct (url_safe_facts c U) as (A & B & C).
    unfold plus_to_space. cbn [map app]. replace (c =? 43) with false by (symmetry; apply N.eqb_neq; lia).
    cbn [unq]. replace (c =? 37) with false by (symmetry; apply N.eqb_neq; lia).
    unfold utf8_encode1. replace (c <? 128) with true by (symmetry; apply N.ltb_lt; lia). reflexivity.
  - destruct (c =? 32) eqn:Sp.
    + apply N.eqb_eq in Sp. subst. reflexivity.
    + apply unq_pcts. apply utf8_encode1_bytes. unfold is_scalar in S.
      apply andb_true_iff in S as [S _]. apply N.leb_le, S.
Qed.

Lemma unq_quote s :
  all_scalar s = true -> unq (plus_to_space (quote_plus s)) = utf8_encode s.
Proof.
  unfold all_scalar, quote_plus, utf8_encode. induction s as [|c s IH]; intro H; [reflexivity|].
  cbn [forallb] in H. apply andb_true_iff in H as [H1 H2]. cbn [flat_map].
  unfold plus_to_space in *. rewrite map_app. fold (plus_to_space (quote_plus1 c)).
  rewrite unq_quote1 by exact H1. rewrite IH by exact H2. reflexivity.
Qed.

Lemma quote1_ascii c : is_scalar c = true -> forallb (fun d => d <? 128) (plus_to_space (quote_plus1 c)) = true.
Proof.
  intro S. unfold quote_plus1. destruct (url_safe c) eqn:U.
  - destruct (url_safe_facts c U) as (A & B & C). unfold plus_to_space. cbn [map forallb].
    replace (c =? 43) with false by (symmetry; apply N.eqb_neq; lia).
    rewrite andb_true_r. apply N.ltb_lt, A.
  - destruct (c =? 32); [reflexivity|].
    unfold is_scalar in S. apply andb_true_iff in S as [S _]. apply N.leb_le in S.
    pose proof (utf8_encode1_bytes c S) as B. induction B as [|b bs Hb Hbs IH]; [reflexivity|].
    cbn [flat_map]. unfold plus_to_space in *. rewrite map_app, forallb_app. rewrite IH, andb_true_r.
    unfold pct. cbn [map forallb]. rewrite !hexdigit_not_plus by lia.
    change (37 =? 43) with false. cbn iota.
    rewrite !andb_true_iff. repeat split; try reflexivity; apply N.ltb_lt, hexdigit_ascii; lia.
Qed.

Lemma quote_ascii s :
  all_scalar s = true -> forallb (fun d => d <? 128) (plus_to_space (quote_plus s)) = true.
Proof.
  unfold all_scalar, quote_plus. induction s as [|c s IH]; intro H; [reflexivity|].
  cbn [forallb] in H. apply andb_true_iff in H as [H1 H2]. cbn [flat_map].
  unfold plus_to_space in *. rewrite map_app, forallb_app.
  fold (plus_to_space (quote_plus1 c)). rewrite quote1_ascii by exact H1. rewrite IH by exact H2.
  reflexivity.
Qed.

Lemma unquote_runs_ascii t run :
  forallb (fun d => d <? 128) t = true -> unquote_runs t run = decode_run (rev run ++ t).
Proof.
  revert run; induction t as [|c t IH]; intros run H.
  - simpl. rewrite app_nil_r. reflexivity.
  - cbn [forallb] in H. apply andb_true_iff in H as [H1 H2]. cbn [unquote_runs]. rewrite H1.
    rewrite IH by exact H2. simpl. rewrite <- app_assoc. reflexivity.
Qed.

Lemma unq_no_pct q : existsb (fun c => c =? 37) q = false -> unq q = q.
Proof.
  induction q as [|c q IH]; intro H; [reflexivity|].
  cbn [existsb] in H. apply orb_false_iff in H as [H1 H2]. cbn [unq]. rewrite H1, IH by exact H2.
  reflexivity.
Qed.

Lemma utf8_decode_ascii q : forallb (fun d => d <? 128) q = true -> utf8_decode q = Some q.
Proof.
  induction q as [|c q IH]; intro H; [reflexivity|].
  cbn [forallb] in H. apply andb_true_iff in H as [H1 H2]. cbn [utf8_decode]. rewrite H1, IH by exact H2.
  reflexivity.
Qed.

Theorem unquote_quote s : all_scalar s = true -> unquote_plus (quote_plus s) = Ok s.
Proof.
  intro S. unfold unquote_plus. set (q := plus_to_space (quote_plus s)).
  pose proof (quote_ascii s S) as A. fold q in A.
  pose proof (unq_quote s S) as U. fold q in U.
  destruct (existsb (fun c => c =? 37) q) eqn:P.
  - rewrite unquote_runs_ascii by exact A. simpl. unfold decode_run. rewrite U.
    rewrite utf8_roundtrip by exact S. reflexivity.
  - (* nothing was escaped: the text is unchanged *)
    rewrite unq_no_pct in U by exact P.
    pose proof (utf8_decode_ascii q A) as D. rewrite U in D. rewrite utf8_roundtrip in D by exact S.
    inversion D as [E]. rewrite U. rewrite <- E. reflexivity.
Qed.

(** [{{ s | url_encode | url_decode }}] is [s]. *)
Theorem url_roundtrip s :
  all_scalar s = true ->
  exists e, url_encode_f (FStr s) = Ok (FStr e) /\ url_decode_f (FStr e) = Ok (FStr s).
Proof.
  intro S. exists (quote_plus s). split.
  - unfold url_encode_f. simpl. rewrite S. reflexivity.
  - unfold url_decode_f. simpl. rewrite unquote_quote by exact S. reflexivity.
Qed.

(** * The modelled part of html.unescape undoes html.escape *)

Lemma html_escape_cons c s : html_escape (c :: s) = html_escape1 c ++ html_escape s.
Proof. reflexivity. Qed.

Lemma unescape_escape_fuel s :
  forall fuel, (length (html_escape s) < fuel)%nat -> html_unescape_fuel fuel (html_escape s) = Ok s.
Proof.
  induction s as [|c s IH]; intros fuel Hf.
  - destruct fuel; reflexivity.
  - rewrite html_escape_cons in *. rewrite app_length in Hf.
    destruct fuel as [|f]; [lia|].
    unfold html_escape1 in *.
    destruct (c =? 38) eqn:E1.
    { apply N.eqb_eq in E1. subst c. change SLit.amp with [38; 97; 109; 112; 59] in *.
      set (rest := html_escape s) in *.
      change (html_unescape_fuel (S f) ([38; 97; 109; 112; 59] ++ rest))
        with (do t <- html_unescape_fuel f rest;; Ok (38 :: t)).
      rewrite IH by (simpl in Hf; lia). reflexivity. }
    destruct (c =? 60) eqn:E2.
    { apply N.eqb_eq in E2. subst c. change SLit.lt with [38; 108; 116; 59] in *.
      set (rest := html_escape s) in *.
      change (html_unescape_fuel (S f) ([38; 108; 116; 59] ++ rest))
        with (do t <- html_unescape_fuel f rest;; Ok (60 :: t)).
      rewrite IH by (simpl in Hf; lia). reflexivity. }
    destruct (c =? 62) eqn:E3.
    { apply N.eqb_eq in E3. subst c. change SLit.gt with [38; 103; 116; 59] in *.
      set (rest := html_escape s) in *.
      change (html_unescape_fuel (S f) ([38; 103; 116; 59] ++ rest))
        with (do t <- html_unescape_fuel f rest;; Ok (62 :: t)).
      rewrite IH by (simpl in Hf; lia). reflexivity. }
    destruct (c =? 34) eqn:E4.
    { apply N.eqb_eq in E4. subst c. change SLit.quot with [38; 113; 117; 111; 116; 59] in *.
      set (rest := html_escape s) in *.
      change (html_unescape_fuel (S f) ([38; 113; 117; 111; 116; 59] ++ rest))
        with (do t <- html_unescape_fuel f rest;; Ok (34 :: t)).
      rewrite IH by (simpl in Hf; lia). reflexivity. }
    destruct (c =? 39) eqn:E5.
    { apply N.eqb_eq in E5. subst c. change SLit.apos with [38; 35; 120; 50; 55; 59] in *.
      set (rest := html_escape s) in *.
      change (html_unescape_fuel (S f) ([38; 35; 120; 50; 55; 59] ++ rest))
        with (do t <- html_unescape_fuel f rest;; Ok (39 :: t)).
      rewrite IH by (simpl in Hf; lia). reflexivity. }
    cbn [app html_unescape_fuel]. rewrite E1. cbn [negb].
    rewrite IH by (simpl in Hf; lia). reflexivity.
Qed.

Theorem html_unescape_escape s : html_unescape (html_escape s) = Ok s.
Proof. unfold html_unescape. apply unescape_escape_fuel. lia. Qed.

(** So the hypothesis of the [escape_once] laws is satisfiable, and for the
    executable model they hold outright. *)
Definition unescape_total (s : str) : str := match html_unescape s with Ok u => u | _ => s end.

Lemma unescape_total_escape s : unescape_total (html_escape s) = s.
Proof. unfold unescape_total. rewrite html_unescape_escape. reflexivity. Qed.

Theorem escape_once_model_laws s :
  (exists e, escape_f (FStr s) = Ok (FStr e) /\ escape_once_f (FStr e) = Ok (FStr e)) /\
  (forall e, escape_once_f (FStr s) = Ok (FStr e) -> escape_once_f (FStr e) = Ok (FStr e)).
Proof.
  split.
  - exists (html_escape s). split; [reflexivity|].
    unfold escape_once_f. simpl. rewrite html_unescape_escape. reflexivity.
  - intros e H. unfold escape_once_f in *. simpl in *.
    destruct (html_unescape s) as [u| | |]; try discriminate. simpl in H. inversion H; subst.
    rewrite html_unescape_escape. reflexivity.
Qed.
