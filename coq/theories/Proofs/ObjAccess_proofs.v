(** Proofs/ObjAccess_proofs.v — proofs about Kernels/ObjAccess.v (property C05).

    Part A: the three getattr-by-name sites answer documented keys only.
    Part B: erasing Python attributes (all but the names the engine reads by a
            fixed name: [hook_names]) commutes with every access primitive,
            filter, expression and statement of the evaluator; hence rendering
            does not depend on them (noninterference).
    Part C: the full statement (all attributes) is refuted by the two hook
            sites; it holds for data without hook-named attributes. *)
From Coq Require Import Strings.String.
From LQ Require Import Base.Str Kernels.ObjAccess.
Local Open Scope list_scope.

(** * Part A — ForLoop / TableRow / BlockDrop [__getitem__] *)

Lemma forloop_getitem_public fl k v :
  forloop_getitem fl k = Ok v -> In k forloop_keys /\ v = forloop_public fl k.
Proof.
  unfold forloop_getitem, forloop_getattr.
  destruct (mem_str k forloop_keys) eqn:E; [|discriminate].
  intro H; inversion H; subst. split; [apply mem_str_In; exact E|reflexivity].
Qed.

Lemma forloop_getitem_private fl k :
  ~ In k forloop_keys -> forloop_getitem fl k = PyExc KeyError.
Proof.
  intro H. unfold forloop_getitem.
  destruct (mem_str k forloop_keys) eqn:E; [|reflexivity].
  apply mem_str_In in E. contradiction.
Qed.

(** What a documented key answers is never a Python-internal object. *)
Lemma forloop_public_not_opaque fl k t : forloop_public fl k <> FOpaque t.
Proof. unfold forloop_public. repeat (destruct (str_eqb _ _)); discriminate. Qed.

Lemma forloop_getitem_never_opaque fl k t : forloop_getitem fl k <> Ok (FOpaque t).
Proof.
  intro H. apply forloop_getitem_public in H as [_ H].
  symmetry in H. exact (forloop_public_not_opaque _ _ _ H).
Qed.

Lemma tablerow_getitem_public t k v :
  tablerow_getitem t k = Ok v -> In k tablerow_keys /\ v = tablerow_public t k.
Proof.
  unfold tablerow_getitem, tablerow_getattr.
  destruct (mem_str k tablerow_keys) eqn:E; [|discriminate].
  intro H; inversion H; subst. split; [apply mem_str_In; exact E|reflexivity].
Qed.

Lemma tablerow_getitem_private t k :
  ~ In k tablerow_keys -> tablerow_getitem t k = PyExc KeyError.
Proof.
  intro H. unfold tablerow_getitem.
  destruct (mem_str k tablerow_keys) eqn:E; [|reflexivity].
  apply mem_str_In in E. contradiction.
Qed.

Lemma tablerow_public_not_opaque t k tg : tablerow_public t k <> FOpaque tg.
Proof. unfold tablerow_public. repeat (destruct (str_eqb _ _)); discriminate. Qed.

Lemma blockdrop_getitem_public k v :
  blockdrop_getitem k = Ok v -> k = lit "super" /\ v = FSuper.
Proof.
  unfold blockdrop_getitem. destruct (str_eqb k (lit "super")) eqn:E; [|discriminate].
  intro H; inversion H. split; [apply str_eqb_eq; exact E|reflexivity].
Qed.

(** Non-vacuity: the private attributes exist (getattr answers them) and are
    nevertheless not reachable through [__getitem__]. *)
Example forloop_private_exist :
  let fl := {| fl_name := lit "x-a"; fl_length := 3; fl_index := 1 |} in
  forloop_getattr fl (lit "it") = Some (FOpaque 1)
  /\ forloop_getattr fl (lit "_index") = Some (FInt 1)
  /\ (exists t, forloop_getattr fl (lit "__class__") = Some (FOpaque t))
  /\ (exists t, forloop_getattr fl (lit "step") = Some (FOpaque t))
  /\ forloop_getitem fl (lit "it") = PyExc KeyError
  /\ forloop_getitem fl (lit "_index") = PyExc KeyError
  /\ forloop_getitem fl (lit "__class__") = PyExc KeyError
  /\ forloop_getitem fl (lit "step") = PyExc KeyError
  /\ forloop_getitem fl (lit "index") = Ok (FInt 2)
  /\ forloop_getitem fl (lit "rindex0") = Ok (FInt 1)
  /\ forloop_getitem fl (lit "last") = Ok (FBool false).
Proof. vm_compute. repeat split; eauto. Qed.

Example tablerow_private_exist :
  let t := tablerow_step (tablerow_init (lit "x-a") 3 2) in
  tablerow_getattr t (lit "ncols") = Some (FInt 2)
  /\ tablerow_getattr t (lit "_col") = Some (FInt 1)
  /\ tablerow_getattr t (lit "name") = Some (FStr (lit "x-a"))
  /\ tablerow_getitem t (lit "ncols") = PyExc KeyError
  /\ tablerow_getitem t (lit "_col") = PyExc KeyError
  /\ tablerow_getitem t (lit "name") = PyExc KeyError
  /\ tablerow_getitem t (lit "col") = Ok (FInt 1)
  /\ tablerow_getitem t (lit "col_first") = Ok (FBool true).
Proof. vm_compute. repeat split. Qed.

Example blockdrop_private_exist :
  blockdrop_getattr (lit "context") = Some (FOpaque 3)
  /\ blockdrop_getitem (lit "context") = PyExc KeyError
  /\ blockdrop_getitem (lit "super") = Ok FSuper.
Proof. vm_compute. repeat split. Qed.

(** * Part B — erasure commutes with the evaluator *)

(** ** Induction principles for the nested types *)

Section val_ind'.
  Variable P : val -> Prop.
  Hypothesis Hnil : P VNil.
  Hypothesis Hbool : forall b, P (VBool b).
  Hypothesis Hint : forall z, P (VInt z).
  Hypothesis Hstr : forall s, P (VStr s).
  Hypothesis Hlist : forall t l, Forall P l -> P (VList t l).
  Hypothesis Hdict : forall kvs, Forall (fun kv => P (snd kv)) kvs -> P (VDict kvs).
  Hypothesis Hundef : P VUndef.
  Hypothesis Hnull : P VNull.
  Hypothesis Hobj : forall h items aitems seq attrs,
      Forall (fun kv => P (snd kv)) items -> Forall (fun kv => P (snd kv)) aitems ->
      Forall P seq -> Forall (fun kv => P (snd kv)) attrs ->
      P (VObj h items aitems seq attrs).
  Hypothesis Hcall : forall r, P (VCallable r).
  Hypothesis Hopq : forall t, P (VOpaque t).

  Fixpoint val_ind' (v : val) : P v :=
    let lst := fix lst (l : list val) : Forall P l :=
      match l with
      | [] => Forall_nil _
      | x :: l' => Forall_cons _ (val_ind' x) (lst l')
      end in
    let kvl := fix kvl (l : list (str * val)) : Forall (fun kv => P (snd kv)) l :=
      match l with
      | [] => Forall_nil _
      | kv :: l' => Forall_cons _ (val_ind' (snd kv)) (kvl l')
      end in
    match v with
    | VNil => Hnil
    | VBool b => Hbool b
    | VInt z => Hint z
    | VStr s => Hstr s
    | VList t l => Hlist t l (lst l)
    | VDict kvs => Hdict kvs (kvl kvs)
    | VUndef => Hundef
    | VNull => Hnull
    | VObj h items aitems seq attrs =>
        Hobj h items aitems seq attrs (kvl items) (kvl aitems) (lst seq) (kvl attrs)
    | VCallable r => Hcall r
    | VOpaque t => Hopq t
    end.
End val_ind'.

Section seg_ind'.
  Variable P : seg -> Prop.
  Hypothesis HS : forall s, P (SegS s).
  Hypothesis HI : forall z, P (SegI z).
  Hypothesis HP : forall r ss, Forall P ss -> P (SegP r ss).
  Fixpoint seg_ind' (s : seg) : P s :=
    match s with
    | SegS x => HS x
    | SegI z => HI z
    | SegP r ss =>
        HP r ss ((fix lst (l : list seg) : Forall P l :=
                    match l with
                    | [] => Forall_nil _
                    | x :: l' => Forall_cons _ (seg_ind' x) (lst l')
                    end) ss)
    end.
End seg_ind'.

Section stmt_ind'.
  Variable P : stmt -> Prop.
  Hypothesis HT : forall s, P (SText s).
  Hypothesis HO : forall e, P (SOut e).
  Hypothesis HA : forall x e, P (SAssign x e).
  Hypothesis HIf : forall c th el, Forall P th -> Forall P el -> P (SIf c th el).
  Hypothesis HF : forall x lb it body els, Forall P body -> Forall P els -> P (SFor x lb it body els).
  Fixpoint stmt_ind' (s : stmt) : P s :=
    let lst := fix lst (l : list stmt) : Forall P l :=
      match l with
      | [] => Forall_nil _
      | x :: l' => Forall_cons _ (stmt_ind' x) (lst l')
      end in
    match s with
    | SText t => HT t
    | SOut e => HO e
    | SAssign x e => HA x e
    | SIf c th el => HIf c th el (lst th) (lst el)
    | SFor x lb it body els => HF x lb it body els (lst body) (lst els)
    end.
End stmt_ind'.

(** ** Generic facts *)

Lemma rmap_rmap {A B C} (f : A -> B) (g : B -> C) r : rmap g (rmap f r) = rmap (fun x => g (f x)) r.
Proof. destruct r; reflexivity. Qed.

Lemma rmap_id {A} (r : res A) : rmap (fun x => x) r = r.
Proof. destruct r; reflexivity. Qed.

Lemma rmap_ext {A B} (f g : A -> B) r : (forall x, f x = g x) -> rmap f r = rmap g r.
Proof. intro H. destruct r; simpl; congruence. Qed.

(** [bind] against an erased computation. *)
Lemma bind_comm {A B A' B'} (ea : A -> A') (eb : B -> B') (r : res A) (r' : res A')
      (k : A -> res B) (k' : A' -> res B') :
  r' = rmap ea r -> (forall x, k' (ea x) = rmap eb (k x)) ->
  bind r' k' = rmap eb (bind r k).
Proof. intros -> H. destruct r; simpl; auto. Qed.

(** [bind] when the bound value is not erased (bool, str, Z ...). *)
Lemma bind_comm0 {A B B'} (eb : B -> B') (r r' : res A) (k : A -> res B) (k' : A -> res B') :
  r' = r -> (forall x, k' x = rmap eb (k x)) ->
  bind r' k' = rmap eb (bind r k).
Proof. intros -> H. destruct r; simpl; auto. Qed.

Lemma mapM_comm {A B A' B'} (ea : A -> A') (eb : B -> B') (f : A -> res B) (f' : A' -> res B') l :
  (forall x, f' (ea x) = rmap eb (f x)) ->
  mapM f' (List.map ea l) = rmap (List.map eb) (mapM f l).
Proof.
  intro H. induction l as [|x l IH]; simpl; [reflexivity|].
  rewrite H. destruct (f x); simpl; try reflexivity.
  rewrite IH. destruct (mapM f l); reflexivity.
Qed.

Lemma mapM_comm0 {A A' B} (ea : A -> A') (f : A -> res B) (f' : A' -> res B) l :
  (forall x, f' (ea x) = f x) ->
  mapM f' (List.map ea l) = mapM f l.
Proof.
  intro H. induction l as [|x l IH]; simpl; [reflexivity|].
  rewrite H, IH. reflexivity.
Qed.

Lemma filterM_comm {A A'} (ea : A -> A') (f : A -> res bool) (f' : A' -> res bool) l :
  (forall x, f' (ea x) = f x) ->
  filterM f' (List.map ea l) = rmap (List.map ea) (filterM f l).
Proof.
  intro H. induction l as [|x l IH]; simpl; [reflexivity|].
  rewrite H. destruct (f x) as [b| | |]; simpl; try reflexivity.
  rewrite IH. destruct (filterM f l); simpl; try reflexivity. destruct b; reflexivity.
Qed.

Lemma assoc_map_snd {A B} (f : A -> B) k (l : list (str * A)) :
  assoc k (map_snd f l) = option_map f (assoc k l).
Proof.
  induction l as [|[k' v] l IH]; simpl; [reflexivity|].
  destruct (str_eqb k k'); [reflexivity|exact IH].
Qed.

Lemma dict_set_map_snd {A B} (f : A -> B) k v (l : list (str * A)) :
  dict_set k (f v) (map_snd f l) = map_snd f (dict_set k v l).
Proof.
  induction l as [|[k' v'] l IH]; simpl; [reflexivity|].
  destruct (str_eqb k k'); simpl; [reflexivity|]. unfold map_snd in *. simpl. rewrite IH. reflexivity.
Qed.

Lemma length_map_snd {A B} (f : A -> B) (l : list (str * A)) :
  List.length (map_snd f l) = List.length l.
Proof. apply map_length. Qed.

Lemma mapM_Forall0 {A A' B} (ea : A -> A') (f : A -> res B) (f' : A' -> res B) l :
  Forall (fun x => f' (ea x) = f x) l -> mapM f' (List.map ea l) = mapM f l.
Proof. induction 1 as [|x l Hx _ IH]; simpl; [reflexivity|]. rewrite Hx, IH. reflexivity. Qed.

Lemma py_index_map {A B} (f : A -> B) l i : py_index (List.map f l) i = rmap f (py_index l i).
Proof.
  unfold py_index, zlen. rewrite map_length.
  destruct (_ || _)%bool; [reflexivity|].
  rewrite nth_error_map. destruct (nth_error l _); reflexivity.
Qed.

(** Unfolding lemmas: the nested fixpoints of the model are [mapM]. *)
Lemma py_repr_list t l :
  py_repr (VList t l) =
  (do rs <- mapM py_repr l;; Ok (repr_brackets t rs)).
Proof.
  simpl. match goal with |- bind ?a _ = _ => assert (a = mapM py_repr l) as -> end; [|reflexivity].
  induction l as [|x l IH]; simpl; [reflexivity|]. rewrite IH. reflexivity.
Qed.

Definition repr_key (k : str) : res str :=
  if forallb repr_safe_char k then Ok (lit "'" ++ k ++ lit "'") else unmodelled.

Lemma py_repr_dict kvs :
  py_repr (VDict kvs) =
  (do rs <- mapM (fun kv : str * val => do rk <- repr_key (fst kv);; do r <- py_repr (snd kv);;
                                         Ok (rk ++ lit ": " ++ r)) kvs;;
   Ok (lit "{" ++ join_str (lit ", ") rs ++ lit "}")).
Proof.
  simpl. match goal with |- bind ?a _ = bind ?b _ => assert (a = b) as -> end; [|reflexivity].
  induction kvs as [|[k v] l IH]; simpl; [reflexivity|]. unfold repr_key at 1.
  destruct (forallb repr_safe_char k); simpl; [|reflexivity].
  destruct (py_repr v); simpl; try reflexivity. rewrite IH. reflexivity.
Qed.

Lemma to_liquid_string_list t l :
  to_liquid_string (VList t l) = rmap concat_str (mapM to_liquid_string l).
Proof.
  simpl. f_equal. induction l as [|x l IH]; simpl; [reflexivity|]. rewrite IH. reflexivity.
Qed.

Lemma to_liquid_string_obj h items aitems seq attrs :
  to_liquid_string (VObj h items aitems seq attrs) =
  if okind_eqb (o_kind h) KSequence then rmap concat_str (mapM to_liquid_string seq)
  else Ok (o_str h).
Proof.
  simpl. destruct (okind_eqb _ _); [|reflexivity]. f_equal.
  induction seq as [|x l IH]; simpl; [reflexivity|]. rewrite IH. reflexivity.
Qed.

(** [py_eq] through named helpers. *)
Definition items_of (v : val) : option (list (str * val)) :=
  match v with
  | VDict kvs => Some kvs
  | VObj h items _ _ _ => if okind_eqb (o_kind h) KMapping then Some items else None
  | _ => None
  end.

Fixpoint dict_eq (x y : list (str * val)) : res bool :=
  match x with
  | [] => Ok true
  | (k, v) :: x' =>
      match assoc k y with
      | None => Ok false
      | Some w => do e <- py_eq v w;; if e then dict_eq x' y else Ok false
      end
  end.

Fixpoint list_eq (x y : list val) : res bool :=
  match x, y with
  | [], [] => Ok true
  | v :: x', w :: y' => do e <- py_eq v w;; if e then list_eq x' y' else Ok false
  | _, _ => Ok false
  end.

Lemma py_eq_list t x b :
  py_eq (VList t x) b =
  match b with
  | VList t' y => if negb (Bool.eqb t t') then Ok false else list_eq x y
  | _ => Ok false
  end.
Proof. destruct b; reflexivity. Qed.

Lemma py_eq_dict x b :
  py_eq (VDict x) b =
  match b with
  | VUndef | VNull => Ok false
  | _ => if is_loopdrop b then unmodelled
         else match items_of b with
              | Some y => if Nat.eqb (List.length x) (List.length y) then dict_eq x y else Ok false
              | None => Ok false
              end
  end.
Proof. destruct b; reflexivity. Qed.

Lemma py_eq_obj h x ai sq at_ b :
  py_eq (VObj h x ai sq at_) b =
  if okind_eqb (o_kind h) KMapping then
    match (match b with VUndef => Some [] | _ => items_of b end) with
    | Some y =>
        if (o_loop h || is_loopdrop b)%bool then unmodelled
        else if Nat.eqb (List.length x) (List.length y) then dict_eq x y else Ok false
    | None => Ok false
    end
  else Ok (match b with VObj h' _ _ _ _ => N.eqb (o_id h) (o_id h') | _ => false end).
Proof. destruct b; reflexivity. Qed.

Arguments map_snd {A B} f l : simpl never.

Lemma map_snd_cons {A B} (f : A -> B) k v l : map_snd f ((k, v) :: l) = (k, f v) :: map_snd f l.
Proof. reflexivity. Qed.

Lemma map_snd_nil {A B} (f : A -> B) : map_snd f [] = [].
Proof. reflexivity. Qed.

Section Erase.
  Variable keep : str -> bool.
  Hypothesis keep_hooks : forall k, is_hook k = true -> keep k = true.

  Notation E := (erase_with keep).
  Notation Ens := (map_snd E).
  Definition Ectx (c : ctx) : ctx :=
    {| pushed := List.map Ens (pushed c); locals := Ens (locals c);
       globals := Ens (globals c); loops := List.map E (loops c) |}.

  Lemma E_obj h items aitems seq attrs :
    E (VObj h items aitems seq attrs) =
    VObj h (Ens items) (Ens aitems) (List.map E seq)
         (List.filter (fun kv => keep (fst kv)) (Ens attrs)).
  Proof. reflexivity. Qed.

  (** *** constructor-level observations are preserved *)
  Lemma E_is_mapping v : is_mapping (E v) = is_mapping v. Proof. destruct v; reflexivity. Qed.
  Lemma E_is_sequence v : is_sequence (E v) = is_sequence v. Proof. destruct v; reflexivity. Qed.
  Lemma E_is_sized v : is_sized (E v) = is_sized v.
  Proof. unfold is_sized. rewrite E_is_mapping, E_is_sequence. reflexivity. Qed.
  Lemma E_is_loopdrop v : is_loopdrop (E v) = is_loopdrop v. Proof. destruct v; reflexivity. Qed.
  Lemma E_hashable v : hashable (E v) = hashable v.
  Proof.
    induction v using val_ind'; try reflexivity.
    destruct t; [|reflexivity]. cbn [erase_with hashable].
    induction H as [|x l Hx _ IH]; [reflexivity|]. cbn [List.map forallb]. rewrite Hx, IH. reflexivity.
  Qed.
  Lemma E_has_getitem v : has_getitem (E v) = has_getitem v. Proof. destruct v; reflexivity. Qed.
  Lemma E_as_index v : as_index (E v) = as_index v. Proof. destruct v; reflexivity. Qed.
  Lemma E_is_undef v : is_undef (E v) = is_undef v. Proof. destruct v; reflexivity. Qed.
  Lemma E_is_nil v : is_nil (E v) = is_nil v. Proof. destruct v; reflexivity. Qed.
  Lemma E_key_class v : key_class (E v) = key_class v. Proof. destruct v; reflexivity. Qed.
  Lemma E_key_z v : key_z (E v) = key_z v. Proof. destruct v; reflexivity. Qed.
  Lemma E_key_s v : key_s (E v) = key_s v. Proof. destruct v; reflexivity. Qed.
  Lemma E_is_key v n : is_key (E v) n = is_key v n. Proof. destruct v; reflexivity. Qed.
  Lemma E_prim p : E (prim_val p) = prim_val p. Proof. destruct p; reflexivity. Qed.

  Lemma E_py_truthy v : py_truthy (E v) = py_truthy v.
  Proof. destruct v; simpl; rewrite ?map_length; reflexivity. Qed.

  Lemma E_py_len v : py_len (E v) = py_len v.
  Proof. destruct v; simpl; unfold zlen; rewrite ?map_length; reflexivity. Qed.

  Lemma E_liquid_hook v : liquid_hook (E v) = liquid_hook v.
  Proof. destruct v; reflexivity. Qed.

  Lemma E_unhook v : unhook (E v) = E (unhook v).
  Proof.
    unfold unhook. rewrite E_liquid_hook.
    destruct v; simpl; try reflexivity.
    destruct (o_liq h) as [p|]; simpl; [symmetry; apply E_prim|reflexivity].
  Qed.

  Lemma E_is_truthy v : is_truthy (E v) = is_truthy v.
  Proof.
    unfold is_truthy. rewrite E_unhook. destruct (unhook v); try reflexivity.
  Qed.

  Lemma E_lookup_key k kvs : lookup_key (E k) (Ens kvs) = rmap E (lookup_key k kvs).
  Proof.
    destruct k; try reflexivity. simpl. rewrite assoc_map_snd.
    destruct (assoc s kvs); reflexivity.
  Qed.

  Lemma E_py_getitem a o k : py_getitem a (E o) (E k) = rmap E (py_getitem a o k).
  Proof.
    destruct o; try reflexivity.
    - simpl. rewrite E_as_index. destruct (as_index k); [|reflexivity].
      rewrite rmap_rmap. destruct (py_index s z); reflexivity.
    - simpl. rewrite E_as_index. destruct (as_index k); [apply py_index_map|reflexivity].
    - simpl. rewrite E_hashable. destruct (hashable k); [apply E_lookup_key|reflexivity].
    - rewrite E_obj. simpl. destruct (a && o_async h)%bool; [apply E_lookup_key|].
      destruct (o_kind h).
      + reflexivity.
      + rewrite E_hashable. destruct (o_loop h && negb (hashable k))%bool;
          [reflexivity|apply E_lookup_key].
      + rewrite E_as_index. destruct (as_index k); [apply py_index_map|reflexivity].
  Qed.

  Lemma assoc_filter_keep k (l : list (str * val)) :
    keep k = true ->
    assoc k (List.filter (fun kv => keep (fst kv)) l) = assoc k l.
  Proof.
    intro Hk. induction l as [|[k' v] l IH]; [reflexivity|].
    cbn [List.filter fst]. destruct (keep k') eqn:Ek'; cbn [assoc].
    - destruct (str_eqb k k'); [reflexivity|exact IH].
    - destruct (str_eqb k k') eqn:Ekk; [|exact IH].
      apply str_eqb_eq in Ekk. subst. congruence.
  Qed.

  (** *** string conversions *)
  Lemma E_py_repr v : py_repr (E v) = py_repr v.
  Proof.
    induction v using val_ind'; try reflexivity.
    - change (E (VList t l)) with (VList t (List.map E l)). rewrite !py_repr_list.
      rewrite (mapM_Forall0 E py_repr py_repr l H). reflexivity.
    - change (E (VDict kvs)) with (VDict (Ens kvs)). rewrite !py_repr_dict.
      unfold map_snd.
      rewrite (mapM_Forall0 (fun kv : str * val => (fst kv, E (snd kv)))
                 (fun kv => do rk <- repr_key (fst kv);; do r <- py_repr (snd kv);;
                            Ok (rk ++ lit ": " ++ r))); [reflexivity|].
      eapply Forall_impl; [|exact H]. intros [k v] Hv. simpl in *. rewrite Hv. reflexivity.
    - rewrite E_obj. cbn [py_repr]. destruct (o_loop h); [reflexivity|].
      rewrite assoc_filter_keep by (apply keep_hooks; reflexivity).
      rewrite assoc_map_snd. destruct (assoc (lit "__repr__") attrs) as [[]|]; reflexivity.
  Qed.

  Lemma E_to_liquid_string v : to_liquid_string (E v) = to_liquid_string v.
  Proof.
    induction v using val_ind'; try reflexivity.
    - change (E (VList t l)) with (VList t (List.map E l)). rewrite !to_liquid_string_list.
      rewrite (mapM_Forall0 E to_liquid_string to_liquid_string l H). reflexivity.
    - apply (E_py_repr (VDict kvs)).
    - rewrite E_obj, !to_liquid_string_obj.
      destruct (okind_eqb _ _); [|reflexivity].
      rewrite (mapM_Forall0 E to_liquid_string to_liquid_string seq H1). reflexivity.
  Qed.

  Lemma E_py_str v : py_str (E v) = py_str v.
  Proof.
    destruct v; try reflexivity.
    - apply (E_py_repr (VList tup l)).
    - apply (E_py_repr (VDict kvs)).
  Qed.

  (** *** Python equality *)
  Lemma E_items_of v : items_of (E v) = option_map Ens (items_of v).
  Proof.
    destruct v; try reflexivity. rewrite E_obj. simpl.
    destruct (okind_eqb _ _); reflexivity.
  Qed.

  Lemma E_dict_eq x y :
    Forall (fun kv => forall b, py_eq (E (snd kv)) (E b) = py_eq (snd kv) b) x ->
    dict_eq (Ens x) (Ens y) = dict_eq x y.
  Proof.
    induction 1 as [|[k v] l Hv _ IH]; [reflexivity|].
    rewrite map_snd_cons. cbn [dict_eq]. rewrite assoc_map_snd.
    destruct (assoc k y) as [w|]; cbn [option_map]; [|reflexivity].
    cbn [snd] in Hv. rewrite Hv. destruct (py_eq v w) as [[|]| | |]; try reflexivity. exact IH.
  Qed.

  Lemma E_list_eq x : forall y,
    Forall (fun v => forall b, py_eq (E v) (E b) = py_eq v b) x ->
    list_eq (List.map E x) (List.map E y) = list_eq x y.
  Proof.
    intros y H. revert y. induction H as [|v l Hv _ IH]; intros [|w y]; try reflexivity.
    cbn [List.map list_eq]. rewrite Hv. destruct (py_eq v w) as [[|]| | |]; try reflexivity. apply IH.
  Qed.

  Lemma E_py_eq a : forall b, py_eq (E a) (E b) = py_eq a b.
  Proof.
    induction a using val_ind'; intro b0; try (destruct b0; reflexivity).
    - change (E (VList t l)) with (VList t (List.map E l)). rewrite !py_eq_list.
      destruct b0; try reflexivity. cbn [erase_with].
      destruct (negb (Bool.eqb t tup)); [reflexivity|]. apply E_list_eq; exact H.
    - change (E (VDict kvs)) with (VDict (Ens kvs)). rewrite !py_eq_dict.
      rewrite E_is_loopdrop, E_items_of.
      destruct b0; try reflexivity.
      + cbn [is_loopdrop items_of option_map]. rewrite !length_map_snd, E_dict_eq by exact H.
        reflexivity.
      + destruct (is_loopdrop _); [reflexivity|].
        destruct (items_of (VObj h items aitems seq attrs)) as [y|]; cbn [option_map]; [|reflexivity].
        rewrite !length_map_snd, E_dict_eq by exact H. reflexivity.
    - rewrite E_obj, !py_eq_obj. destruct (okind_eqb (o_kind h) KMapping).
      + rewrite E_is_loopdrop.
        assert (HI : match E b0 with VUndef => Some [] | _ => items_of (E b0) end
                     = option_map Ens (match b0 with VUndef => Some [] | _ => items_of b0 end)).
        { destruct b0; try reflexivity. apply (E_items_of (VObj h0 items0 aitems0 seq0 attrs0)). }
        rewrite HI. destruct (match b0 with VUndef => Some [] | _ => items_of b0 end) as [y|];
          cbn [option_map]; [|reflexivity].
        destruct (o_loop h || is_loopdrop b0)%bool; [reflexivity|].
        rewrite !length_map_snd, E_dict_eq by exact H. reflexivity.
      + destruct b0; reflexivity.
  Qed.

  Lemma E_py_list_contains l x : py_list_contains (List.map E l) (E x) = py_list_contains l x.
  Proof.
    induction l as [|y l IH]; simpl; [reflexivity|]. rewrite E_py_eq, IH. reflexivity.
  Qed.

  Ltac by_py_eq :=
    match goal with |- py_eq _ _ = py_eq ?u ?w => exact (E_py_eq u w) end.

  (** *** Liquid-level predicates *)
  Lemma E_liq_eq a b : liq_eq (E a) (E b) = liq_eq a b.
  Proof.
    unfold liq_eq. rewrite !E_unhook.
    destruct (unhook b); destruct (unhook a); try reflexivity; cbn [erase_with]; by_py_eq.
  Qed.

  Lemma E_liq_lt a b : liq_lt (E a) (E b) = liq_lt a b.
  Proof.
    unfold liq_lt. rewrite !E_unhook.
    destruct (unhook a); destruct (unhook b); reflexivity.
  Qed.

  Lemma E_liq_contains a b : liq_contains (E a) (E b) = liq_contains a b.
  Proof.
    destruct a; try reflexivity.
    - simpl. rewrite E_py_str. reflexivity.
    - apply E_py_list_contains.
    - change (E (VDict kvs)) with (VDict (Ens kvs)). cbn [liq_contains].
      rewrite E_hashable. destruct (hashable b); [|reflexivity].
      destruct b; try reflexivity. cbn [erase_with]. rewrite assoc_map_snd.
      destruct (assoc s kvs); reflexivity.
    - rewrite E_obj. cbn [liq_contains]. destruct (o_kind h) eqn:Ek; try reflexivity.
      + rewrite <- E_obj, E_py_getitem.
        destruct (py_getitem false (VObj h items aitems seq attrs) b) as [| |[]|]; reflexivity.
      + apply E_py_list_contains.
  Qed.

  (** *** Path resolution *)
  Lemma E_catch3 r h : catch3 (rmap E r) (rmap E h) = rmap E (catch3 r h).
  Proof. destruct r as [| |[]|]; reflexivity. Qed.

  Lemma E_get_item a o k : get_item a (E o) (E k) = rmap E (get_item a o k).
  Proof.
    unfold get_item. rewrite E_unhook, !E_is_key.
    set (k' := unhook k).
    destruct (is_key k' "size").
    { rewrite E_py_getitem, <- E_catch3. f_equal.
      rewrite E_is_sized. destruct (is_sized o); [|reflexivity].
      rewrite E_py_len, rmap_rmap. reflexivity. }
    destruct (is_key k' "first").
    { rewrite E_py_getitem, <- E_catch3. f_equal.
      rewrite E_is_mapping, E_py_truthy, E_is_sequence.
      destruct (is_mapping o && py_truthy o)%bool.
      - destruct o; try reflexivity.
        + destruct kvs as [|[kk v] t]; reflexivity.
        + rewrite E_obj. destruct items as [|[kk v] t]; [reflexivity|].
          rewrite map_snd_cons. destruct (o_loop h); reflexivity.
      - destruct (is_sequence o); [|reflexivity].
        exact (E_py_getitem false o (VInt 0)). }
    destruct (is_key k' "last").
    { rewrite E_py_getitem, <- E_catch3. f_equal.
      rewrite E_is_sequence. destruct (is_sequence o); [|reflexivity].
      exact (E_py_getitem false o (VInt (-1))). }
    apply E_py_getitem.
  Qed.

  Lemma E_lookup_pushed n p :
    lookup_pushed n (List.map Ens p) = option_map E (lookup_pushed n p).
  Proof.
    induction p as [|x p IH]; simpl; [reflexivity|].
    rewrite assoc_map_snd. destruct (assoc n x); simpl; [reflexivity|exact IH].
  Qed.

  Lemma E_scope_lookup c n : scope_lookup (Ectx c) n = option_map E (scope_lookup c n).
  Proof.
    unfold scope_lookup, Ectx. simpl. rewrite E_lookup_pushed.
    destruct (lookup_pushed n (pushed c)); simpl; [reflexivity|].
    rewrite assoc_map_snd. destruct (assoc n (locals c)); simpl; [reflexivity|].
    apply assoc_map_snd.
  Qed.

  Lemma E_walk a ks : forall o,
    walk a (E o) (List.map E ks) = rmap E (walk a o ks).
  Proof.
    induction ks as [|k ks IH]; intro o; simpl; [reflexivity|].
    rewrite E_get_item. destruct (get_item a o k) as [v| |[]|]; simpl; try reflexivity. apply IH.
  Qed.

  Lemma eval_seg_path a c r ss :
    eval_seg a c (SegP r ss) =
    (do keys <- mapM (eval_seg a c) ss;;
     match scope_lookup c r with None => Ok VUndef | Some obj => walk a obj keys end).
  Proof.
    simpl. match goal with |- bind ?x _ = bind ?y _ => assert (x = y) as -> end; [|reflexivity].
    induction ss as [|s l IH]; simpl; [reflexivity|]. rewrite IH. reflexivity.
  Qed.

  Lemma E_eval_seg a c s : eval_seg a (Ectx c) s = rmap E (eval_seg a c s).
  Proof.
    induction s using seg_ind'; try reflexivity.
    rewrite !eval_seg_path.
    assert (HM : mapM (eval_seg a (Ectx c)) ss = rmap (List.map E) (mapM (eval_seg a c) ss)).
    { induction H as [|s l Hs _ IH]; simpl; [reflexivity|].
      rewrite Hs. destruct (eval_seg a c s); simpl; try reflexivity.
      rewrite IH. destruct (mapM (eval_seg a c) l); reflexivity. }
    rewrite HM. destruct (mapM (eval_seg a c) ss) as [keys| | |]; simpl; try reflexivity.
    rewrite E_scope_lookup. destruct (scope_lookup c r); simpl; [apply E_walk|reflexivity].
  Qed.

  Lemma E_eval_pexpr a c e : eval_pexpr a (Ectx c) e = rmap E (eval_pexpr a c e).
  Proof. destruct e; try reflexivity. apply (E_eval_seg a c (SegP root segs)). Qed.

  Lemma E_eval_cmp op l r : eval_cmp op (E l) (E r) = eval_cmp op l r.
  Proof.
    destruct op; simpl; rewrite ?E_liq_eq, ?E_liq_lt, ?E_liq_contains; reflexivity.
  Qed.

  Lemma E_eval_bexpr a b : forall c, eval_bexpr a (Ectx c) b = rmap E (eval_bexpr a c b).
  Proof.
    induction b; intro c; simpl.
    - apply E_eval_pexpr.
    - rewrite IHb. destruct (eval_bexpr a c b); simpl; try reflexivity.
      rewrite E_is_truthy. reflexivity.
    - rewrite IHb1. destruct (eval_bexpr a c b1); simpl; try reflexivity.
      rewrite E_is_truthy. destruct (is_truthy a0); [|reflexivity].
      rewrite IHb2. destruct (eval_bexpr a c b2); simpl; try reflexivity.
      rewrite E_is_truthy. reflexivity.
    - rewrite IHb1. destruct (eval_bexpr a c b1); simpl; try reflexivity.
      rewrite E_is_truthy. destruct (is_truthy a0); [reflexivity|].
      rewrite IHb2. destruct (eval_bexpr a c b2); simpl; try reflexivity.
      rewrite E_is_truthy. reflexivity.
    - rewrite IHb1. destruct (eval_bexpr a c b1); simpl; try reflexivity.
      rewrite IHb2. destruct (eval_bexpr a c b2); simpl; try reflexivity.
      rewrite E_eval_cmp. destruct (eval_cmp op a0 a1); reflexivity.
  Qed.

  (** *** Filter helpers *)
  Lemma E_flatten n : forall l, flatten n (List.map E l) = List.map E (flatten n l).
  Proof.
    induction n as [|n IH]; intro l; [reflexivity|].
    cbn [flatten]. induction l as [|v l IHl]; [reflexivity|].
    cbn [List.map flat_map]. rewrite map_app, IHl. f_equal.
    destruct v; try reflexivity. cbn [erase_with]. apply IH.
  Qed.

  Lemma E_sequence_arg v : sequence_arg (E v) = List.map E (sequence_arg v).
  Proof.
    destruct v; try reflexivity.
    - simpl. rewrite map_map. reflexivity.
    - apply (E_flatten 5 l).
    - rewrite E_obj. cbn [sequence_arg]. destruct (okind_eqb _ _); [apply E_flatten|reflexivity].
  Qed.

  Lemma E_f_getitem o k d : f_getitem (E o) (E k) (E d) = rmap E (f_getitem o k d).
  Proof.
    unfold f_getitem. rewrite E_py_getitem, E_has_getitem.
    destruct (py_getitem false o k) as [| |[]|]; try reflexivity.
    destruct (has_getitem o); reflexivity.
  Qed.

  Lemma E_find_getitem o k : find_getitem (E o) (E k) = rmap E (find_getitem o k).
  Proof.
    unfold find_getitem. rewrite E_py_getitem.
    destruct (py_getitem false o k) as [| |[]|]; try reflexivity.
    destruct o; try reflexivity; destruct k; try reflexivity.
    cbn [erase_with]. destruct (is_infix s0 s); reflexivity.
  Qed.

  Lemma E_f_property o k : f_property (E o) (E k) = rmap E (f_property o k).
  Proof.
    unfold f_property. rewrite E_py_getitem.
    destruct (py_getitem false o k) as [| |[]|]; reflexivity.
  Qed.

  Lemma E_push c n : push (Ectx c) (Ens n) = Ectx (push c n).
  Proof. reflexivity. Qed.

  Lemma E_lambda_scope ps i x :
    lambda_scope ps i (E x) = option_map (fun n => Ens n) (lambda_scope ps i x).
  Proof.
    destruct ps as [|p [|q t]]; try reflexivity.
    cbn [lambda_scope option_map].
    rewrite <- (dict_set_map_snd E p x [(q, VInt i)]). reflexivity.
  Qed.

  Lemma E_lambda_map c ps body l : forall i,
    lambda_map (Ectx c) ps body (List.map E l) i = rmap (List.map E) (lambda_map c ps body l i).
  Proof.
    induction l as [|x l IH]; intro i; [reflexivity|].
    cbn [List.map lambda_map]. rewrite E_lambda_scope.
    destruct (lambda_scope ps i x) as [n|]; cbn [option_map]; [|reflexivity].
    rewrite E_push, E_eval_bexpr.
    destruct (eval_bexpr false (push c n) body); simpl; try reflexivity.
    rewrite IH. destruct (lambda_map c ps body l (i + 1)); reflexivity.
  Qed.

  Definition Efound (r : option (Z * val)) : option (Z * val) :=
    option_map (fun p => (fst p, E (snd p))) r.

  Lemma E_lambda_find c ps body l : forall i,
    lambda_find (Ectx c) ps body (List.map E l) i = rmap Efound (lambda_find c ps body l i).
  Proof.
    induction l as [|x l IH]; intro i; [reflexivity|].
    cbn [List.map lambda_find]. rewrite E_lambda_scope.
    destruct (lambda_scope ps i x) as [n|]; cbn [option_map]; [|reflexivity].
    rewrite E_push, E_eval_bexpr.
    destruct (eval_bexpr false (push c n) body); simpl; try reflexivity.
    rewrite E_is_undef, E_is_truthy.
    destruct (negb (is_undef a) && is_truthy a)%bool; [reflexivity|apply IH].
  Qed.

  Lemma findM_comm (f f' : val -> res bool) l :
    (forall x, f' (E x) = f x) ->
    forall n, findM f' (List.map E l) n = rmap Efound (findM f l n).
  Proof.
    intro H. induction l as [|x l IH]; intro n; [reflexivity|].
    cbn [List.map findM]. rewrite H. destruct (f x) as [[|]| | |]; try reflexivity. apply IH.
  Qed.

  (** sorting *)
  Lemma E_key_ltb a b : key_ltb (E a) (E b) = key_ltb a b.
  Proof. unfold key_ltb. rewrite E_key_class, !E_key_z, !E_key_s. reflexivity. Qed.

  Definition Epair (p : val * val) : val * val := (E (fst p), E (snd p)).

  Lemma E_insert_by p l :
    insert_by (Epair p) (List.map Epair l) = List.map Epair (insert_by p l).
  Proof.
    induction l as [|q l IH]; [reflexivity|].
    cbn [List.map insert_by]. unfold Epair at 1 2. cbn [fst]. rewrite E_key_ltb.
    destruct (key_ltb (fst q) (fst p)); cbn [List.map]; [rewrite <- IH|]; reflexivity.
  Qed.

  Lemma E_sort_pairs l : sort_pairs (List.map Epair l) = List.map Epair (sort_pairs l).
  Proof.
    unfold sort_pairs. induction l as [|p l IH]; [reflexivity|].
    cbn [List.map fold_right]. rewrite IH. apply E_insert_by.
  Qed.

  Lemma E_all_class kc l : all_class kc (List.map Epair l) = all_class kc l.
  Proof.
    unfold all_class. induction l as [|[k v] l IH]; [reflexivity|].
    cbn [List.map forallb Epair fst]. rewrite E_key_class, IH. reflexivity.
  Qed.

  Lemma E_py_sorted l : py_sorted (List.map Epair l) = rmap (List.map E) (py_sorted l).
  Proof.
    destruct l as [|p [|q t]]; try reflexivity.
    unfold py_sorted.
    change (List.map Epair (p :: q :: t)) with (Epair p :: Epair q :: List.map Epair t).
    cbv iota. change (Epair p :: Epair q :: List.map Epair t) with (List.map Epair (p :: q :: t)).
    set (l := p :: q :: t). rewrite !E_all_class.
    destruct (all_class KCInt l || all_class KCStr l)%bool.
    - rewrite E_sort_pairs. cbn [rmap]. rewrite !map_map. reflexivity.
    - assert (Hx : existsb (fun p => match fst p with VList _ _ => true | _ => false end)
                            (List.map Epair l)
                   = existsb (fun p => match fst p with VList _ _ => true | _ => false end) l).
      { clear. induction l as [|[k v] l IH]; [reflexivity|].
        cbn [List.map existsb Epair fst]. rewrite IH. destruct k; reflexivity. }
      rewrite Hx. destruct (existsb _ l); reflexivity.
  Qed.

  (** uniq *)
  Lemma E_same_obj a b : same_obj (E a) (E b) = same_obj a b.
  Proof. destruct a; destruct b; reflexivity. Qed.

  Lemma E_liq_list_contains l x : liq_list_contains (List.map E l) (E x) = liq_list_contains l x.
  Proof.
    induction l as [|y l IH]; [reflexivity|].
    cbn [List.map liq_list_contains]. rewrite E_same_obj, E_liq_eq, IH. reflexivity.
  Qed.

  Definition Ekey (p : val * option val) : val * option val := (E (fst p), option_map E (snd p)).

  Lemma E_uniq_keys l : forall m keys,
    uniq_keys (List.map Ekey l) m (List.map E keys) = rmap (List.map E) (uniq_keys l m keys).
  Proof.
    induction l as [|[obj [k|]] l IH]; intros m keys; [reflexivity| |].
    - cbn [List.map uniq_keys Ekey fst snd option_map].
      rewrite E_liq_list_contains.
      destruct (liq_list_contains keys k) as [[|]| | |]; cbn [bind]; try reflexivity.
      + apply IH.
      + change (List.map E keys ++ [E k]) with (List.map E keys ++ List.map E [k]).
        rewrite <- map_app, IH, rmap_rmap. destruct (uniq_keys l m (keys ++ [k])); reflexivity.
    - cbn [List.map uniq_keys Ekey fst snd option_map].
      destruct m; [apply IH|].
      rewrite IH, rmap_rmap. destruct (uniq_keys l true keys); reflexivity.
  Qed.

  Lemma E_uniq_prop k l : forall m keys,
    uniq_prop (E k) (List.map E l) m (List.map E keys) = rmap (List.map E) (uniq_prop k l m keys).
  Proof.
    induction l as [|obj l IH]; intros m keys; [reflexivity|].
    cbn [List.map uniq_prop]. rewrite E_py_getitem.
    destruct (py_getitem false obj k) as [item| |[]|]; cbn [rmap]; try reflexivity.
    - rewrite E_liq_list_contains.
      destruct (liq_list_contains keys item) as [[|]| | |]; cbn [bind]; try reflexivity.
      + apply IH.
      + change (List.map E keys ++ [E item]) with (List.map E keys ++ List.map E [item]).
        rewrite <- map_app, IH, rmap_rmap. destruct (uniq_prop k l m (keys ++ [item])); reflexivity.
    - destruct m; [apply IH|].
      rewrite IH, rmap_rmap. destruct (uniq_prop k l true keys); reflexivity.
    - destruct m; [apply IH|].
      rewrite IH, rmap_rmap. destruct (uniq_prop k l true keys); reflexivity.
  Qed.

  Lemma E_uniq_items l : forall items,
    uniq_items (List.map E l) (List.map E items) = rmap (List.map E) (uniq_items l items).
  Proof.
    induction l as [|obj l IH]; intro items; [reflexivity|].
    cbn [List.map uniq_items]. rewrite E_liq_list_contains.
    destruct (liq_list_contains items obj) as [[|]| | |]; cbn [bind]; try reflexivity.
    - apply IH.
    - change (List.map E items ++ [E obj]) with (List.map E items ++ List.map E [obj]).
      rewrite <- map_app, IH, rmap_rmap. destruct (uniq_items l (items ++ [obj])); reflexivity.
  Qed.

  Lemma E_uniq_plain l : uniq_plain (List.map E l) = rmap (List.map E) (uniq_plain l).
  Proof. exact (E_uniq_items l []). Qed.

  Lemma E_decimal_arg0 v : decimal_arg0 (E v) = decimal_arg0 v.
  Proof. destruct v; reflexivity. Qed.

  Lemma combine_map_E l rs :
    combine (List.map E l) (List.map E rs) = List.map Epair (combine l rs).
  Proof.
    revert rs. induction l as [|x l IH]; intros [|r rs]; try reflexivity.
    cbn [List.map combine]. rewrite IH. reflexivity.
  Qed.

  Lemma filter_map_Epair (f : val * val -> bool) l :
    (forall p, f (Epair p) = f p) ->
    List.filter f (List.map Epair l) = List.map Epair (List.filter f l).
  Proof.
    intro H. induction l as [|p l IH]; [reflexivity|].
    cbn [List.map List.filter]. rewrite H. destruct (f p); cbn [List.map]; rewrite IH; reflexivity.
  Qed.

  Lemma E_select_by b l rs :
    select_by b (List.map E l) (List.map E rs) = List.map E (select_by b l rs).
  Proof.
    unfold select_by. rewrite combine_map_E, filter_map_Epair.
    - rewrite !map_map. reflexivity.
    - intros [x r]. cbn [Epair fst snd]. rewrite E_is_undef, E_is_truthy. reflexivity.
  Qed.

  Lemma E_default_core l d : default_core (E l) (E d) = rmap E (default_core l d).
  Proof.
    unfold default_core. rewrite E_unhook.
    rewrite (E_py_eq VNil (unhook l) : py_eq VNil (E (unhook l)) = _).
    rewrite (E_py_eq (VBool false) (unhook l) : py_eq (VBool false) (E (unhook l)) = _).
    destruct l; try reflexivity;
      try (destruct (py_eq VNil _) as [[|]| | |]; try reflexivity;
           destruct (py_eq (VBool false) _) as [[|]| | |]; try reflexivity).
    all: cbn [orb bind rmap].
    all: try (destruct (unhook _) as [| | |[|]|[|] [|]|[|]| | | | |]; reflexivity).
  Qed.

  (** *** The hook sites *)
  Lemma E_obj_attr v k : is_hook k = true -> obj_attr (E v) k = option_map E (obj_attr v k).
  Proof.
    intro Hk. destruct v; try reflexivity. rewrite E_obj. cbn [obj_attr].
    rewrite assoc_filter_keep by (apply keep_hooks; exact Hk). apply assoc_map_snd.
  Qed.

  Lemma E_tr_gettext c msg : tr_gettext (Ectx c) msg = tr_gettext c msg.
  Proof.
    unfold tr_gettext. rewrite E_scope_lookup.
    destruct (scope_lookup c (lit "translations")) as [p|]; cbn [option_map]; [|reflexivity].
    rewrite E_obj_attr by reflexivity.
    destruct (obj_attr p (lit "gettext")) as [[]|]; reflexivity.
  Qed.

  Lemma E_arg_val a c x : arg_val a (Ectx c) x = rmap E (arg_val a c x).
  Proof. destruct x; try reflexivity; apply E_eval_pexpr. Qed.

  Lemma wrap_rmap {A B} (f : A -> B) r : wrap_type_error (rmap f r) = rmap f (wrap_type_error r).
  Proof. destruct r as [| |[]|]; reflexivity. Qed.

  (** *** apply_filter *)
  Lemma E_f_getitem_nil o k : f_getitem (E o) (E k) VNil = rmap E (f_getitem o k VNil).
  Proof. exact (E_f_getitem o k VNil). Qed.
  Lemma E_f_getitem_zero o k : f_getitem (E o) (E k) (VInt 0) = rmap E (f_getitem o k (VInt 0)).
  Proof. exact (E_f_getitem o k (VInt 0)). Qed.
  Lemma E_f_getitem_str o s d :
    f_getitem (E o) (VStr s) (E d) = rmap E (f_getitem o (VStr s) d).
  Proof. exact (E_f_getitem o (VStr s) d). Qed.

  Lemma H_filter (p p' : val -> res bool) left :
    (forall x, p' (E x) = p x) ->
    rmap (VList false) (filterM p' (sequence_arg (E left)))
    = rmap E (rmap (VList false) (filterM p (sequence_arg left))).
  Proof.
    intro H. rewrite E_sequence_arg, (filterM_comm E p p') by exact H.
    rewrite !rmap_rmap. reflexivity.
  Qed.

  Lemma H_map (f f' : val -> res val) left :
    (forall x, f' (E x) = rmap E (f x)) ->
    rmap (VList false) (mapM f' (sequence_arg (E left)))
    = rmap E (rmap (VList false) (mapM f (sequence_arg left))).
  Proof.
    intro H. rewrite E_sequence_arg, (mapM_comm E E f f') by exact H.
    rewrite !rmap_rmap. reflexivity.
  Qed.

  Lemma H_find (p p' : val -> res bool) left :
    (forall x, p' (E x) = p x) ->
    findM p' (sequence_arg (E left)) 0 = rmap Efound (findM p (sequence_arg left) 0).
  Proof. intro H. rewrite E_sequence_arg. apply findM_comm. exact H. Qed.

  (** the item predicates of where / reject / find / has *)
  Lemma P_truthy_key k x :
    (do y <- f_getitem (E x) (E k) VNil;; Ok (is_truthy y))
    = (do y <- f_getitem x k VNil;; Ok (is_truthy y)).
  Proof.
    rewrite E_f_getitem_nil. destruct (f_getitem x k VNil); cbn [rmap bind]; try reflexivity.
    rewrite E_is_truthy. reflexivity.
  Qed.

  Lemma P_falsy_key k x :
    (do y <- f_getitem (E x) (E k) VNil;; Ok (negb (is_truthy y)))
    = (do y <- f_getitem x k VNil;; Ok (negb (is_truthy y))).
  Proof.
    rewrite E_f_getitem_nil. destruct (f_getitem x k VNil); cbn [rmap bind]; try reflexivity.
    rewrite E_is_truthy. reflexivity.
  Qed.

  Lemma P_eq_key k v x :
    (do y <- f_getitem (E x) (E k) VNil;; liq_eq y (E v))
    = (do y <- f_getitem x k VNil;; liq_eq y v).
  Proof.
    rewrite E_f_getitem_nil. destruct (f_getitem x k VNil); cbn [rmap bind]; try reflexivity.
    apply E_liq_eq.
  Qed.

  Lemma P_ne_key k v x :
    (do y <- f_getitem (E x) (E k) VNil;; rmap negb (liq_eq y (E v)))
    = (do y <- f_getitem x k VNil;; rmap negb (liq_eq y v)).
  Proof.
    rewrite E_f_getitem_nil. destruct (f_getitem x k VNil); cbn [rmap bind]; try reflexivity.
    rewrite E_liq_eq. reflexivity.
  Qed.

  Lemma P_find_truthy k x :
    (do y <- find_getitem (E x) (E k);; Ok (is_truthy y))
    = (do y <- find_getitem x k;; Ok (is_truthy y)).
  Proof.
    rewrite E_find_getitem. destruct (find_getitem x k); cbn [rmap bind]; try reflexivity.
    rewrite E_is_truthy. reflexivity.
  Qed.

  Lemma P_find_val k v x :
    (do y <- find_getitem (E x) (E k);;
     if (is_nil (E v) || is_undef (E v))%bool then Ok (is_truthy y) else liq_eq y (E v))
    = (do y <- find_getitem x k;;
       if (is_nil v || is_undef v)%bool then Ok (is_truthy y) else liq_eq y v).
  Proof.
    rewrite E_find_getitem, E_is_nil, E_is_undef.
    destruct (find_getitem x k); cbn [rmap bind]; try reflexivity.
    destruct (is_nil v || is_undef v)%bool; [rewrite E_is_truthy; reflexivity|apply E_liq_eq].
  Qed.

  Lemma P_compact_key k x :
    (do y <- f_property (E x) (E k);; Ok (negb (is_nil y)))
    = (do y <- f_property x k;; Ok (negb (is_nil y))).
  Proof.
    rewrite E_f_property. destruct (f_property x k); cbn [rmap bind]; try reflexivity.
    rewrite E_is_nil. reflexivity.
  Qed.

  Lemma filter_map_E (f : val -> bool) l :
    (forall x, f (E x) = f x) ->
    List.filter f (List.map E l) = List.map E (List.filter f l).
  Proof.
    intro H. induction l as [|p l IH]; [reflexivity|].
    cbn [List.map List.filter]. rewrite H. destruct (f p); cbn [List.map]; rewrite IH; reflexivity.
  Qed.

  Lemma E_sum zs' zs : zs' = zs -> Ok (VInt (fold_left Z.add zs' 0%Z)) = rmap E (Ok (VInt (fold_left Z.add zs 0%Z))).
  Proof. intros ->. reflexivity. Qed.

  (** evaluate a positional argument on both sides *)
  Ltac ev e :=
    rewrite (E_eval_pexpr _ _ e);
    let k := fresh "k" in
    destruct (eval_pexpr _ _ e) as [k| | |]; cbn [rmap bind]; try reflexivity.

  Ltac lam :=
    rewrite ?E_sequence_arg, E_lambda_map;
    match goal with
    | |- context [lambda_map ?c ?ps ?b ?l ?i] =>
        let rs := fresh "rs" in
        destruct (lambda_map c ps b l i) as [rs| | |]; cbn [rmap bind]; try reflexivity
    end.

  Lemma dup_map l :
    List.map (fun x : val => (x, x)) (List.map E l) = List.map Epair (List.map (fun x => (x, x)) l).
  Proof. rewrite !map_map. reflexivity. Qed.

  Lemma sort_keys_map rs l :
    combine (List.map (fun r => if is_undef r then max_ch else r) (List.map E rs)) (List.map E l)
    = List.map Epair (combine (List.map (fun r => if is_undef r then max_ch else r) rs) l).
  Proof.
    revert l. induction rs as [|r rs IH]; intros [|x l]; try reflexivity.
    cbn [List.map combine]. rewrite IH. unfold Epair at 2. cbn [fst snd].
    rewrite E_is_undef. destruct (is_undef r); reflexivity.
  Qed.

  Lemma L_index left i :
    match py_getitem false (E left) (VInt i) with
    | Ok v => Ok v
    | PyExc TypeError | PyExc KeyError | PyExc IndexError => Ok VNil
    | r => r
    end
    = rmap E match py_getitem false left (VInt i) with
             | Ok v => Ok v
             | PyExc TypeError | PyExc KeyError | PyExc IndexError => Ok VNil
             | r => r
             end.
  Proof.
    rewrite (E_py_getitem false left (VInt i) : py_getitem false (E left) (VInt i) = _).
    destruct (py_getitem false left (VInt i)) as [| |[]|]; reflexivity.
  Qed.

  Lemma E_mapM_arg_val a c args :
    mapM (arg_val a (Ectx c)) args = rmap (List.map E) (mapM (arg_val a c) args).
  Proof.
    induction args as [|x l IH]; [reflexivity|].
    cbn [mapM]. rewrite E_arg_val. destruct (arg_val a c x); cbn [rmap bind]; try reflexivity.
    rewrite IH. destruct (mapM (arg_val a c) l); reflexivity.
  Qed.

  Lemma E_apply_filter a c f left :
    apply_filter a (Ectx c) f (E left) = rmap E (apply_filter a c f left).
  Proof.
    unfold apply_filter. rewrite <- wrap_rmap. f_equal.
    destruct f as [n args]. cbn [f_name f_args].
    destruct n.
    - (* FMap *)
      destruct args as [|[e|kw e|ps body] [|x2 t]]; try reflexivity.
      + ev e. rewrite E_py_str. destruct (py_str k); cbn [rmap bind]; try reflexivity.
        apply H_map. intro x. apply E_f_getitem_str with (d := VNil).
      + lam. cbn [erase_with]. rewrite !map_map. do 2 f_equal. apply map_ext. intro r.
        rewrite E_is_undef. destruct (is_undef r); reflexivity.
    - (* FWhere *)
      destruct args as [|[e|kw e|ps body] [|[e2|kw2 e2|ps2 b2] [|x3 t]]]; try reflexivity.
      + ev e. apply H_filter. intro x. apply P_truthy_key.
      + ev e. ev e2. rewrite E_is_nil, E_is_undef.
        destruct (is_nil k0 || is_undef k0)%bool; apply H_filter; intro x;
          [apply P_truthy_key|apply P_eq_key].
      + lam. rewrite E_select_by. reflexivity.
    - (* FReject *)
      destruct args as [|[e|kw e|ps body] [|[e2|kw2 e2|ps2 b2] [|x3 t]]]; try reflexivity.
      + ev e. apply H_filter. intro x. apply P_falsy_key.
      + ev e. ev e2. rewrite E_is_nil, E_is_undef.
        destruct (is_nil k0 || is_undef k0)%bool; apply H_filter; intro x;
          [apply P_falsy_key|apply P_ne_key].
      + lam. rewrite E_select_by. reflexivity.
    - (* FCompact *)
      destruct args as [|[e|kw e|ps body] [|x2 t]]; try reflexivity.
      + rewrite E_sequence_arg, filter_map_E; [reflexivity|].
        intro x. rewrite E_is_nil. reflexivity.
      + ev e. rewrite E_is_nil, E_is_undef. destruct (is_nil k || is_undef k)%bool.
        * rewrite E_sequence_arg, filter_map_E; [reflexivity|].
          intro x. rewrite E_is_nil. reflexivity.
        * apply H_filter. intro x. apply P_compact_key.
      + lam. rewrite combine_map_E, filter_map_Epair.
        * cbn [erase_with]. rewrite !map_map. reflexivity.
        * intros [x r]. cbn [Epair fst snd]. rewrite E_is_undef, E_is_nil. reflexivity.
    - (* FUniq *)
      destruct args as [|[e|kw e|ps body] [|x2 t]]; try reflexivity.
      + rewrite E_sequence_arg, E_uniq_plain, !rmap_rmap. reflexivity.
      + ev e. rewrite E_is_nil, E_is_undef. destruct (is_nil k || is_undef k)%bool.
        * rewrite E_sequence_arg, E_uniq_plain, !rmap_rmap. reflexivity.
        * rewrite E_sequence_arg.
          rewrite (E_uniq_prop k (sequence_arg left) false [] :
                     uniq_prop (E k) (List.map E (sequence_arg left)) false [] = _).
          rewrite !rmap_rmap. reflexivity.
      + lam.
        assert (HK : combine (List.map E (sequence_arg left))
                       (List.map (fun r => if is_undef r then None else Some r) (List.map E rs))
                     = List.map Ekey (combine (sequence_arg left)
                         (List.map (fun r => if is_undef r then None else Some r) rs))).
        { generalize (sequence_arg left) as l. clear. induction rs as [|r rs IH]; intros [|x l];
            try reflexivity.
          cbn [List.map combine]. rewrite IH. unfold Ekey at 2. cbn [fst snd].
          rewrite E_is_undef. destruct (is_undef r); reflexivity. }
        rewrite HK.
        rewrite (E_uniq_keys _ false [] : uniq_keys (List.map Ekey _) false [] = _).
        rewrite !rmap_rmap. reflexivity.
    - (* FSort *)
      destruct args as [|[e|kw e|ps body] [|x2 t]]; try reflexivity.
      + rewrite E_sequence_arg, dup_map, E_py_sorted, !rmap_rmap. reflexivity.
      + ev e. rewrite E_py_truthy. destruct (py_truthy k).
        * rewrite E_py_str. destruct (py_str k) as [ks| | |]; cbn [rmap bind]; try reflexivity.
          rewrite E_sequence_arg.
          rewrite (mapM_comm E E (fun itm => f_getitem itm (VStr ks) max_ch)
                     (fun itm => f_getitem itm (VStr ks) max_ch))
            by (intro x; apply E_f_getitem_str with (d := max_ch)).
          destruct (mapM _ (sequence_arg left)) as [keys| | |]; cbn [rmap bind]; try reflexivity.
          rewrite combine_map_E, E_py_sorted, !rmap_rmap. reflexivity.
        * rewrite E_sequence_arg, dup_map, E_py_sorted, !rmap_rmap. reflexivity.
      + lam. rewrite sort_keys_map, E_py_sorted, !rmap_rmap. reflexivity.
    - (* FSum *)
      destruct args as [|[e|kw e|ps body] [|x2 t]]; try reflexivity.
      + rewrite E_sequence_arg, (mapM_comm0 E decimal_arg0 decimal_arg0) by apply E_decimal_arg0.
        destruct (mapM decimal_arg0 (sequence_arg left)); reflexivity.
      + ev e. rewrite E_is_nil, E_is_undef. destruct (is_nil k || is_undef k)%bool.
        * rewrite E_sequence_arg, (mapM_comm0 E decimal_arg0 decimal_arg0) by apply E_decimal_arg0.
          destruct (mapM decimal_arg0 (sequence_arg left)); reflexivity.
        * rewrite E_sequence_arg.
          rewrite (mapM_comm0 E (fun itm => do x <- f_getitem itm k (VInt 0);; decimal_arg0 x)
                     (fun itm => do x <- f_getitem itm (E k) (VInt 0);; decimal_arg0 x)).
          -- destruct (mapM _ (sequence_arg left)); reflexivity.
          -- intro x. rewrite E_f_getitem_zero.
             destruct (f_getitem x k (VInt 0)); cbn [rmap bind]; try reflexivity.
             apply E_decimal_arg0.
      + lam. rewrite filter_map_E by (intro x; rewrite E_is_undef; reflexivity).
        rewrite (mapM_comm0 E decimal_arg0 decimal_arg0) by apply E_decimal_arg0.
        destruct (mapM decimal_arg0 _); reflexivity.
    - (* FFind *)
      destruct args as [|[e|kw e|ps body] [|[e2|kw2 e2|ps2 b2] [|x3 t]]]; try reflexivity.
      + ev e. rewrite (H_find _ _ left (P_find_truthy k)).
        destruct (findM _ (sequence_arg left) 0) as [[[i x]|]| | |]; reflexivity.
      + ev e. ev e2. rewrite (H_find _ _ left (P_find_val k k0)).
        destruct (findM _ (sequence_arg left) 0) as [[[i x]|]| | |]; reflexivity.
      + rewrite E_sequence_arg, E_lambda_find.
        destruct (lambda_find c ps body (sequence_arg left) 0) as [[[i x]|]| | |]; reflexivity.
    - (* FFindIndex *)
      destruct args as [|[e|kw e|ps body] [|[e2|kw2 e2|ps2 b2] [|x3 t]]]; try reflexivity.
      + ev e. rewrite (H_find _ _ left (P_find_truthy k)).
        destruct (findM _ (sequence_arg left) 0) as [[[i x]|]| | |]; reflexivity.
      + ev e. ev e2. rewrite (H_find _ _ left (P_find_val k k0)).
        destruct (findM _ (sequence_arg left) 0) as [[[i x]|]| | |]; reflexivity.
      + rewrite E_sequence_arg, E_lambda_find.
        destruct (lambda_find c ps body (sequence_arg left) 0) as [[[i x]|]| | |]; reflexivity.
    - (* FHas *)
      destruct args as [|[e|kw e|ps body] [|[e2|kw2 e2|ps2 b2] [|x3 t]]]; try reflexivity.
      + ev e. rewrite (H_find _ _ left (P_find_truthy k)).
        destruct (findM _ (sequence_arg left) 0) as [[[i x]|]| | |]; reflexivity.
      + ev e. ev e2. rewrite (H_find _ _ left (P_find_val k k0)).
        destruct (findM _ (sequence_arg left) 0) as [[[i x]|]| | |]; reflexivity.
      + rewrite E_sequence_arg, E_lambda_find.
        destruct (lambda_find c ps body (sequence_arg left) 0) as [[[i x]|]| | |]; reflexivity.
    - (* FFirst *)
      destruct args; [|reflexivity].
      destruct left; try reflexivity; try (apply L_index with (i := 0%Z)).
      + destruct kvs as [|[k v] t]; reflexivity.
      + cbn [is_mapping erase_with]. destruct (okind_eqb (o_kind h) KMapping).
        * destruct (o_loop h); [reflexivity|]. destruct items as [|[k v] t]; reflexivity.
        * apply (L_index (VObj h items aitems seq attrs) 0%Z).
    - (* FLast *)
      destruct args; [|reflexivity].
      destruct left; try reflexivity; try (apply L_index with (i := (-1)%Z)).
    - (* FSize *)
      destruct args; [|reflexivity].
      rewrite E_py_len. destruct (py_len left) as [| |[]|]; reflexivity.
    - (* FJoin *)
      destruct args as [|[e|kw e|ps body] [|x2 t]]; try reflexivity.
      + rewrite E_sequence_arg, (mapM_comm0 E to_liquid_string to_liquid_string)
          by apply E_to_liquid_string.
        destruct (mapM to_liquid_string (sequence_arg left)); reflexivity.
      + ev e. rewrite E_to_liquid_string. destruct (to_liquid_string k); cbn [rmap bind]; try reflexivity.
        rewrite E_sequence_arg, (mapM_comm0 E to_liquid_string to_liquid_string)
          by apply E_to_liquid_string.
        destruct (mapM to_liquid_string (sequence_arg left)); reflexivity.
    - (* FDefault *)
      destruct args as [|[e|kw e|ps body] [|x2 t]]; try reflexivity.
      + cbn [bind]. rewrite E_obj_attr by reflexivity.
        destruct (obj_attr left _) as [at_|]; cbn [option_map].
        * rewrite E_py_truthy. destruct (py_truthy at_); [reflexivity|].
          exact (E_default_core left (VStr [])).
        * exact (E_default_core left (VStr [])).
      + ev e. rewrite E_obj_attr by reflexivity.
        destruct (obj_attr left _) as [at_|]; cbn [option_map].
        * rewrite E_py_truthy. destruct (py_truthy at_); [reflexivity|]. apply E_default_core.
        * apply E_default_core.
    - (* FT *)
      destruct (forallb _ args); [|reflexivity].
      rewrite E_mapM_arg_val. destruct (mapM (arg_val a c) args); cbn [rmap bind]; try reflexivity.
      destruct (existsb _ args); [reflexivity|].
      rewrite E_to_liquid_string. destruct (to_liquid_string left); cbn [bind]; try reflexivity.
      rewrite E_tr_gettext. destruct (tr_gettext c a1); cbn [bind]; try reflexivity.
      destruct (format_message a2); reflexivity.
    - (* FGettext *)
      destruct (forallb _ args); [|reflexivity].
      rewrite E_mapM_arg_val. destruct (mapM (arg_val a c) args); cbn [rmap bind]; try reflexivity.
      destruct (existsb _ args); [reflexivity|].
      rewrite E_to_liquid_string. destruct (to_liquid_string left); cbn [bind]; try reflexivity.
      rewrite E_tr_gettext. destruct (tr_gettext c a1); cbn [bind]; try reflexivity.
      destruct (format_message a2); reflexivity.
  Qed.

  (** *** Expressions with filters, statements *)
  Lemma E_eval_expr a c e : eval_expr a (Ectx c) e = rmap E (eval_expr a c e).
  Proof.
    unfold eval_expr. rewrite E_eval_pexpr.
    destruct (eval_pexpr a c (e_left e)) as [v| | |]; cbn [rmap bind]; try reflexivity.
    change (Ok (E v)) with (rmap E (Ok v)). generalize (Ok v) as acc.
    induction (e_filters e) as [|f fs IH]; intro acc; [reflexivity|].
    cbn [fold_left].
    assert (HS : (do x <- rmap E acc;; apply_filter a (Ectx c) f x)
                 = rmap E (do x <- acc;; apply_filter a c f x)).
    { destruct acc; cbn [rmap bind]; try reflexivity. apply E_apply_filter. }
    rewrite HS. apply IH.
  Qed.

  Lemma E_to_iter v : to_iter (E v) = rmap (List.map E) (to_iter v).
  Proof.
    unfold to_iter. rewrite E_is_loopdrop, E_is_mapping, E_is_sequence.
    destruct (is_loopdrop v); [reflexivity|].
    destruct (is_mapping v).
    - destruct v; try reflexivity.
      + cbn [erase_with rmap]. rewrite !map_map. reflexivity.
      + rewrite E_obj. cbn [rmap]. unfold map_snd. rewrite !map_map. reflexivity.
    - destruct (is_sequence v); [|reflexivity].
      destruct v; try reflexivity. cbn [erase_with seq_items rmap]. rewrite !map_map. reflexivity.
  Qed.

  Lemma E_fval_val p f : E (fval_val p f) = fval_val (E p) f.
  Proof. destruct f; reflexivity. Qed.

  Lemma E_forloop_val d fl p : forloop_val d fl (E p) = E (forloop_val d fl p).
  Proof.
    unfold forloop_val. rewrite E_obj.
    assert (HI : forall keys,
               flat_map (fun k => match forloop_getitem fl k with
                                  | Ok f => [(k, fval_val (E p) f)]
                                  | _ => []
                                  end) keys
               = Ens (flat_map (fun k => match forloop_getitem fl k with
                                         | Ok f => [(k, fval_val p f)]
                                         | _ => []
                                         end) keys)).
    { induction keys as [|k l IH]; [reflexivity|].
      cbn [flat_map]. unfold map_snd in *. rewrite map_app, <- IH. f_equal.
      destruct (forloop_getitem fl k); try reflexivity.
      cbn [List.map fst snd]. rewrite E_fval_val. reflexivity. }
    rewrite HI. reflexivity.
  Qed.

  Definition Eres (r : ctx * str) : ctx * str := (Ectx (fst r), snd r).

  (** the loop of ForNode.render_to_output, named *)
  Fixpoint for_loop (a : bool) (x label : str) (len : Z) (parent : val) (depth : N)
           (body : list stmt) (items : list val) (i : Z) (c : ctx) (out : str) : res (ctx * str) :=
    match items with
    | [] => Ok (c, out)
    | itm :: rest =>
        let fl := forloop_val depth {| fl_name := label; fl_length := len; fl_index := i |} parent in
        let c1 := {| pushed := dict_set x itm [(lit "forloop", fl)] :: pushed c;
                     locals := locals c; globals := globals c; loops := fl :: loops c |} in
        do r <- exec_list a body c1 out;;
        for_loop a x label len parent depth body rest (i + 1)%Z (set_locals c (locals (fst r))) (snd r)
    end.

  Lemma exec_list_local a l : forall c out,
    (fix el (l : list stmt) (c : ctx) (out : str) {struct l} : res (ctx * str) :=
       match l with
       | [] => Ok (c, out)
       | s' :: l' => do r <- exec a s' c out;; el l' (fst r) (snd r)
       end) l c out = exec_list a l c out.
  Proof.
    induction l as [|s l IH]; intros c out; [reflexivity|].
    cbn [exec_list]. destruct (exec a s c out); cbn [bind]; try reflexivity. apply IH.
  Qed.

  Lemma exec_if a cond th el c out :
    exec a (SIf cond th el) c out =
    (do v <- eval_bexpr a c cond;;
     if is_truthy v then exec_list a th c out else exec_list a el c out).
  Proof. cbn [exec]. rewrite !exec_list_local. reflexivity. Qed.

  Lemma exec_for a x label it body els c out :
    exec a (SFor x label it body els) c out =
    (do v <- eval_pexpr a c it;;
     do items <- to_iter v;;
     match items with
     | [] => exec_list a els c out
     | _ => for_loop a x label (zlen items)
              (match loops c with p :: _ => p | [] => VUndef end)
              (N.of_nat (List.length (loops c))) body items 0%Z c out
     end).
  Proof.
    cbn [exec]. destruct (eval_pexpr a c it); cbn [bind]; try reflexivity.
    destruct (to_iter a0) as [items| | |]; cbn [bind]; try reflexivity.
    generalize (zlen items) as len. intro len.
    generalize (match loops c with p :: _ => p | [] => VUndef end) as par. intro par.
    generalize (N.of_nat (List.length (loops c))) as dep. intro dep.
    match goal with
    | |- match items with [] => _ | _ :: _ => ?L items 0%Z c out end = _ =>
        assert (HL : forall its i c' o',
                   L its i c' o' = for_loop a x label len par dep body its i c' o')
    end.
    { induction its as [|itm rest IH]; intros i c' o'; [reflexivity|].
      cbn -[forloop_val exec exec_list dict_set lit]. rewrite exec_list_local.
      match goal with |- bind ?w _ = _ => destruct w as [r| | |] end; cbn [bind]; try reflexivity.
      apply IH. }
    destruct items as [|itm rest]; [apply exec_list_local|].
    exact (HL (itm :: rest) 0%Z c out).
  Qed.

  Lemma E_exec_list_of a l :
    Forall (fun s => forall c out, exec a s (Ectx c) out = rmap Eres (exec a s c out)) l ->
    forall c out, exec_list a l (Ectx c) out = rmap Eres (exec_list a l c out).
  Proof.
    induction 1 as [|s l Hs _ IH]; intros c out; [reflexivity|].
    cbn [exec_list]. rewrite Hs.
    destruct (exec a s c out) as [[c' o']| | |]; cbn [rmap bind]; try reflexivity. apply IH.
  Qed.

  Lemma E_for_loop a x label len par dep body :
    (forall c out, exec_list a body (Ectx c) out = rmap Eres (exec_list a body c out)) ->
    forall items i c out,
      for_loop a x label len (E par) dep body (List.map E items) i (Ectx c) out
      = rmap Eres (for_loop a x label len par dep body items i c out).
  Proof.
    intros HB items. induction items as [|itm rest IH]; intros i c out; [reflexivity|].
    cbn [List.map for_loop]. rewrite E_forloop_val.
    set (fl := forloop_val dep {| fl_name := label; fl_length := len; fl_index := i |} par).
    assert (HC : {| pushed := dict_set x (E itm) [(lit "forloop", E fl)] :: pushed (Ectx c);
                    locals := locals (Ectx c); globals := globals (Ectx c);
                    loops := E fl :: loops (Ectx c) |}
                 = Ectx {| pushed := dict_set x itm [(lit "forloop", fl)] :: pushed c;
                           locals := locals c; globals := globals c; loops := fl :: loops c |}).
    { unfold Ectx. cbn [pushed locals globals loops List.map]. f_equal. f_equal.
      exact (dict_set_map_snd E x itm [(lit "forloop", fl)]). }
    rewrite HC, HB.
    destruct (exec_list a body _ out) as [[c' o']| | |]; cbn [rmap bind]; try reflexivity.
    exact (IH (i + 1)%Z (set_locals c (locals c')) o').
  Qed.

  Lemma E_exec a s : forall cx out, exec a s (Ectx cx) out = rmap Eres (exec a s cx out).
  Proof.
    induction s using stmt_ind'; intros cx out.
    - reflexivity.
    - cbn [exec]. rewrite E_eval_expr. destruct (eval_expr a cx e); cbn [rmap bind]; try reflexivity.
      rewrite E_to_liquid_string. destruct (to_liquid_string a0); reflexivity.
    - cbn [exec]. rewrite E_eval_expr. destruct (eval_expr a cx e); cbn [rmap bind]; try reflexivity.
      unfold Eres, set_locals, Ectx. cbn [fst snd pushed locals globals loops].
      rewrite <- dict_set_map_snd. reflexivity.
    - rewrite !exec_if, E_eval_bexpr.
      destruct (eval_bexpr a cx c); cbn [rmap bind]; try reflexivity.
      rewrite E_is_truthy. destruct (is_truthy a0); apply E_exec_list_of; assumption.
    - rewrite !exec_for, E_eval_pexpr.
      destruct (eval_pexpr a cx it); cbn [rmap bind]; try reflexivity.
      rewrite E_to_iter. destruct (to_iter a0) as [items| | |]; cbn [rmap bind]; try reflexivity.
      destruct items as [|itm rest]; [apply E_exec_list_of; assumption|].
      change (List.map E (itm :: rest)) with (E itm :: List.map E rest). cbv iota.
      change (E itm :: List.map E rest) with (List.map E (itm :: rest)).
      assert (HZ : zlen (List.map E (itm :: rest)) = zlen (itm :: rest))
        by (unfold zlen; rewrite map_length; reflexivity).
      assert (HP : match loops (Ectx cx) with p :: _ => p | [] => VUndef end
                   = E (match loops cx with p :: _ => p | [] => VUndef end))
        by (unfold Ectx; cbn [loops]; destruct (loops cx); reflexivity).
      assert (HD : List.length (loops (Ectx cx)) = List.length (loops cx))
        by (unfold Ectx; cbn [loops]; apply map_length).
      rewrite HZ, HP, HD.
      apply E_for_loop. apply E_exec_list_of; assumption.
  Qed.

  Lemma E_exec_list a l c out : exec_list a l (Ectx c) out = rmap Eres (exec_list a l c out).
  Proof.
    apply E_exec_list_of. apply Forall_forall. intros s _. apply E_exec.
  Qed.

  (** Rendering does not depend on the erased attributes. *)
  Lemma render_erase a p d : render a p (Ens d) = render a p d.
  Proof.
    unfold render.
    change {| pushed := []; locals := []; globals := Ens d; loops := [] |}
      with (Ectx {| pushed := []; locals := []; globals := d; loops := [] |}).
    rewrite E_exec_list, rmap_rmap. apply rmap_ext. intros [c o]. reflexivity.
  Qed.
End Erase.

(** * Part C — noninterference *)

(** Exact statement: rendering depends on no Python attribute other than the
    two names the engine reads by a fixed name ([hook_names]). *)
Theorem attrs_noninterference async p d d' :
  map_snd erase d = map_snd erase d' -> render async p d = render async p d'.
Proof.
  intro H. unfold erase in H.
  rewrite <- (render_erase is_hook (fun k Hk => Hk) async p d).
  rewrite <- (render_erase is_hook (fun k Hk => Hk) async p d').
  rewrite H. reflexivity.
Qed.

Lemma filter_none {A} (f : A -> bool) l : forallb (fun x => negb (f x)) l = true -> List.filter f l = [].
Proof.
  induction l as [|x l IH]; [reflexivity|]. cbn [forallb List.filter]. intro H.
  apply andb_true_iff in H as [H1 H2]. destruct (f x); [discriminate|]. apply IH, H2.
Qed.

Lemma map_snd_Forall {A B} (f g : A -> B) (l : list (str * A)) :
  Forall (fun kv => f (snd kv) = g (snd kv)) l -> map_snd f l = map_snd g l.
Proof.
  induction 1 as [|[k v] l Hv _ IH]; [reflexivity|].
  rewrite !map_snd_cons, IH. cbn [snd] in Hv. rewrite Hv. reflexivity.
Qed.

Lemma Forall_forallb_imp {A} (P : A -> Prop) (f : A -> bool) (Q : A -> Prop) l :
  Forall (fun x => f x = true -> Q x) l -> forallb f l = true -> Forall Q l.
Proof.
  induction 1 as [|x l Hx _ IH]; intro H; [constructor|].
  cbn [forallb] in H. apply andb_true_iff in H as [H1 H2]. constructor; auto.
Qed.

Lemma hook_free_erase v : hook_free v = true -> erase v = erase_all v.
Proof.
  unfold erase, erase_all.
  induction v using val_ind'; intro HF; try reflexivity.
  - cbn [erase_with]. f_equal. cbn [hook_free] in HF.
    apply map_ext_Forall. eapply Forall_forallb_imp with (f := hook_free); [exact (fun _ => True)| |exact HF].
    eapply Forall_impl; [|exact H]. auto.
  - cbn [erase_with]. f_equal. cbn [hook_free] in HF.
    apply (map_snd_Forall (erase_with is_hook) (erase_with (fun _ => false))).
    eapply Forall_forallb_imp with (f := fun kv => hook_free (snd kv)); [exact (fun _ => True)| |exact HF].
    eapply Forall_impl; [|exact H]. auto.
  - cbn [hook_free] in HF.
    apply andb_true_iff in HF as [HF Ha]. apply andb_true_iff in HF as [HF Hs].
    apply andb_true_iff in HF as [Hi Hai].
    cbn [erase_with].
    assert (E1 : map_snd (erase_with is_hook) items = map_snd (erase_with (fun _ => false)) items).
    { apply map_snd_Forall.
      eapply Forall_forallb_imp with (f := fun kv => hook_free (snd kv)); [exact (fun _ => True)| |exact Hi].
      eapply Forall_impl; [|exact H]. auto. }
    assert (E2 : map_snd (erase_with is_hook) aitems = map_snd (erase_with (fun _ => false)) aitems).
    { apply map_snd_Forall.
      eapply Forall_forallb_imp with (f := fun kv => hook_free (snd kv)); [exact (fun _ => True)| |exact Hai].
      eapply Forall_impl; [|exact H0]. auto. }
    assert (E3 : List.map (erase_with is_hook) seq = List.map (erase_with (fun _ => false)) seq).
    { apply map_ext_Forall.
      eapply Forall_forallb_imp with (f := hook_free); [exact (fun _ => True)| |exact Hs].
      eapply Forall_impl; [|exact H1]. auto. }
    change (List.map (fun kv : str * val => (fst kv, erase_with is_hook (snd kv))) items)
      with (map_snd (erase_with is_hook) items).
    change (List.map (fun kv : str * val => (fst kv, erase_with is_hook (snd kv))) aitems)
      with (map_snd (erase_with is_hook) aitems).
    rewrite E1, E2, E3. f_equal.
    transitivity (@nil (str * val)).
    + apply filter_none.
      clear - Ha. induction attrs as [|[k v] l IH]; [reflexivity|].
      cbn [forallb List.map fst snd] in *. apply andb_true_iff in Ha as [H1 H2].
      apply andb_true_iff in H1 as [H1 _]. rewrite H1. apply IH, H2.
    + symmetry. apply filter_none.
      clear. induction attrs as [|[k v] l IH]; [reflexivity|]. cbn [forallb List.map]. exact IH.
Qed.

Lemma hook_free_ns_erase d : hook_free_ns d = true -> map_snd erase d = map_snd erase_all d.
Proof.
  unfold hook_free_ns. induction d as [|[k v] d IH]; intro H; [reflexivity|].
  cbn [forallb snd] in H. apply andb_true_iff in H as [H1 H2].
  rewrite !map_snd_cons, IH by exact H2. rewrite hook_free_erase by exact H1. reflexivity.
Qed.

(** Full statement, under the guard that excludes the two hook sites. *)
Theorem attrs_noninterference_partial async p d d' :
  hook_free_ns d = true -> hook_free_ns d' = true -> proto_eq d d' ->
  render async p d = render async p d'.
Proof.
  intros H1 H2 HP. apply attrs_noninterference.
  rewrite (hook_free_ns_erase d H1), (hook_free_ns_erase d' H2). exact HP.
Qed.

(** The full statement is false: two witnesses. *)
Definition plain_obj (id : N) (attrs : list (str * val)) : val :=
  VObj {| o_id := id; o_kind := KPlain; o_hg := false; o_async := false;
          o_str := lit "P#1"; o_liq := None; o_loop := false |} [] [] [] attrs.

(** {{ o | default: 'D' }} *)
Definition w_default : list stmt :=
  [SOut {| e_left := EPath (lit "o") [];
           e_filters := [{| f_name := FDefault; f_args := [APos (EStr (lit "D"))] |}] |}].

Theorem attrs_noninterference_refuted :
  exists async p d d', proto_eq d d' /\ render async p d <> render async p d'.
Proof.
  exists false, w_default,
    [(lit "o", plain_obj 1 [(lit "force_liquid_default", VBool true)])],
    [(lit "o", plain_obj 1 [])].
  split; [reflexivity|]. vm_compute. discriminate.
Qed.

(** {% assign translations = o %}{{ 'x' | t }} *)
Definition w_translations : list stmt :=
  [SAssign (lit "translations") {| e_left := EPath (lit "o") []; e_filters := [] |};
   SOut {| e_left := EStr (lit "x"); e_filters := [{| f_name := FT; f_args := [] |}] |}].

Theorem translations_provider_refuted :
  exists d d', proto_eq d d' /\ hook_free_ns d' = true
               /\ render false w_translations d = Ok (lit "S3CR3T")
               /\ render false w_translations d' = LErr LiquidTypeError None.
Proof.
  exists [(lit "o", plain_obj 1 [(lit "gettext", VCallable (lit "S3CR3T"))])],
         [(lit "o", plain_obj 1 [(lit "secret", VStr (lit "S3CR3T"))])].
  repeat split.
Qed.

(** Non-vacuity: data that differ in (non-hook) attributes, a program whose
    every lookup names an attribute, and a non-trivial common output. *)
Definition ex_obj (attrs : list (str * val)) : val :=
  VObj {| o_id := 1; o_kind := KMapping; o_hg := true; o_async := false;
          o_str := lit "M#1"; o_liq := None; o_loop := false |}
       [(lit "title", VStr (lit "T")); (lit "n", VInt 2)] [] [] attrs.

Definition ex_prog : list stmt :=
  [SOut {| e_left := EPath (lit "o") [SegS (lit "secret")]; e_filters := [] |};
   SOut {| e_left := EPath (lit "o") [SegS (lit "__class__")]; e_filters := [] |};
   SOut {| e_left := EPath (lit "o") [SegS (lit "title")]; e_filters := [] |};
   SText (lit "|");
   SOut {| e_left := EPath (lit "l") [];
           e_filters := [{| f_name := FMap; f_args := [APos (EStr (lit "secret"))] |};
                         {| f_name := FJoin; f_args := [APos (EStr (lit ","))] |}] |};
   SText (lit "|");
   SOut {| e_left := EPath (lit "l") [];
           e_filters := [{| f_name := FMap;
                            f_args := [ALam [lit "x"] (BPrim (EPath (lit "x") [SegS (lit "n")]))] |};
                         {| f_name := FJoin; f_args := [APos (EStr (lit ","))] |}] |};
   SFor (lit "x") (lit "x-l") (EPath (lit "l") [])
        [SOut {| e_left := EPath (lit "forloop") [SegS (lit "index")]; e_filters := [] |};
         SOut {| e_left := EPath (lit "forloop") [SegS (lit "_index")]; e_filters := [] |};
         SOut {| e_left := EPath (lit "x") [SegS (lit "token")]; e_filters := [] |}] []].

Example noninterference_nonvacuous :
  let d  := [(lit "o", ex_obj [(lit "secret", VStr (lit "S3CR3T")); (lit "token", VOpaque 1)]);
             (lit "l", VList false [ex_obj [(lit "secret", VStr (lit "S3CR3T"))]; VDict [(lit "n", VInt 5)]])] in
  let d' := [(lit "o", ex_obj [(lit "secret", VStr (lit "other")); (lit "title", VStr (lit "hidden"))]);
             (lit "l", VList false [ex_obj []; VDict [(lit "n", VInt 5)]])] in
  d <> d' /\ proto_eq d d' /\ hook_free_ns d = true /\ hook_free_ns d' = true
  /\ map_snd erase d = map_snd erase d'
  /\ render false ex_prog d = Ok (lit "T|,|2,512")
  /\ render false ex_prog d' = Ok (lit "T|,|2,512").
Proof. vm_compute. repeat split. discriminate. Qed.

(** {{ d }} for a dict holding an object: str(dict) shows repr(obj). *)
Definition w_repr : list stmt :=
  [SOut {| e_left := EPath (lit "d") []; e_filters := [] |}].

Theorem repr_reachable_refuted :
  exists d d', proto_eq d d' /\ hook_free_ns d' = true
               /\ render false w_repr d = Ok (lit "{'k': O(secret='S3CR3T')}")
               /\ render false w_repr d' = Ok (lit "{'k': P#1}").
Proof.
  exists [(lit "d", VDict [(lit "k", plain_obj 1 [(lit "__repr__", VCallable (lit "O(secret='S3CR3T')"))])])],
         [(lit "d", VDict [(lit "k", plain_obj 1 [(lit "secret", VStr (lit "S3CR3T"))])])].
  repeat split.
Qed.
