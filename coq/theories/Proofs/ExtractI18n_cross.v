(** Proofs/ExtractI18n_cross.v — cross-model equalities: the line-boundary set
    and the whitespace set of the C15 kernels are the tables of the lexer /
    error-context kernels (Kernels/LexUni.v, validated against CPython over all
    0x110000 code points by harness/c17.py).  So "line number" means the same
    thing — the [str.splitlines] convention — in message extraction (C15) and
    in error messages (C17/C02). *)
From LQ Require Import Base.Str Kernels.Translate Kernels.ExtractI18n.
From LQ Require Kernels.LexUni.

Local Open Scope N_scope.

(** Decide a pointwise equality of two classifiers below a bound by
    enumeration, and above it by arithmetic. *)
Lemma below_bound_enumerated (f g : N -> bool) (bound : nat) :
  forallb (fun n => Bool.eqb (f (N.of_nat n)) (g (N.of_nat n))) (seq 0 bound) = true ->
  forall c, (c < N.of_nat bound) -> f c = g c.
Proof.
  intros H c L. rewrite forallb_forall in H.
  specialize (H (N.to_nat c)). rewrite N2Nat.id in H.
  apply Bool.eqb_prop. apply H. apply in_seq. lia.
Qed.

Theorem is_linebreak_eq_LexUni : forall c,
  ExtractI18n.is_linebreak c = LexUni.is_linebreak c.
Proof.
  intro c. destruct (N.ltb c 8234) eqn:E.
  - apply N.ltb_lt in E.
    apply (below_bound_enumerated _ _ 8234); [vm_compute; reflexivity|exact E].
  - apply N.ltb_ge in E.
    unfold ExtractI18n.is_linebreak, LexUni.is_linebreak, LexUni.linebreak_ranges.
    cbn [existsb LexUni.in_ranges].
    repeat match goal with
           | |- context [N.eqb c ?k] => replace (N.eqb c k) with false by (symmetry; apply N.eqb_neq; lia)
           end.
    repeat match goal with
           | |- context [N.ltb c ?k] => replace (N.ltb c k) with false by (symmetry; apply N.ltb_ge; lia)
           | |- context [N.leb c ?k] => replace (N.leb c k) with false by (symmetry; apply N.leb_gt; lia)
           end.
    reflexivity.
Qed.

Theorem is_space_eq_LexUni : forall c,
  Translate.is_space c = LexUni.is_space c.
Proof.
  intro c. destruct (N.ltb c 12289) eqn:E.
  - apply N.ltb_lt in E.
    apply (below_bound_enumerated _ _ 12289); [vm_compute; reflexivity|exact E].
  - apply N.ltb_ge in E.
    unfold Translate.is_space, Translate.ws_chars, LexUni.is_space, LexUni.space_ranges.
    cbn [existsb LexUni.in_ranges].
    repeat match goal with
           | |- context [N.eqb c ?k] => replace (N.eqb c k) with false by (symmetry; apply N.eqb_neq; lia)
           end.
    repeat match goal with
           | |- context [N.ltb c ?k] => replace (N.ltb c k) with false by (symmetry; apply N.ltb_ge; lia)
           | |- context [N.leb c ?k] => replace (N.leb c k) with false by (symmetry; apply N.leb_gt; lia)
           end.
    reflexivity.
Qed.
