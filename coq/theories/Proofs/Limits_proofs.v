(** Proofs/Limits_proofs.v — loop-iteration, context-depth and local-namespace
    limits are hard bounds; recursion terminates; limits that are not exceeded
    are invisible.  Model: Kernels/Limits.v. *)
From LQ Require Import Base.Str Kernels.Limits.
Local Open Scope N_scope.

(** * Arithmetic *)

Lemma fold_left_mul : forall l i, fold_left N.mul l i = i * product l.
Proof.
  induction l as [|x l IH]; intros i; simpl.
  - lia.
  - rewrite IH. unfold product. simpl. lia.
Qed.

(** Within the limit: no loop is running, or the product of the running loops
    is at most the limit (with a limit of 0 only loops of length 0 run). *)
Definition within (L : N) (lens : list N) : Prop := lens = [] \/ product lens <= L.


Definition effl (cy : N) (lps : list N) : N := loop_product lps cy.

Lemma effl_eq cy lps : effl cy lps = cy * product lps.
Proof. unfold effl, loop_product. apply fold_left_mul. Qed.

Lemma eff_effl s : eff s = effl (carry (cur s)) (cur_loops s).
Proof. reflexivity. Qed.

Lemma loop_product_eff lps cy n : loop_product lps (n * cy) = n * effl cy lps.
Proof. unfold loop_product. rewrite fold_left_mul, effl_eq. lia. Qed.

(** [raise_for_loop_limit] raises exactly when (length x product of the active
    loops x carry) exceeds an active limit. *)
Lemma raise_for_loop_limit_spec c s n :
  raise_for_loop_limit c (cur s) (cur_loops s) n =
    match active (loop_limit c) with
    | Some l => if l <? n * eff s then LErr LoopIterationLimitError None else Ok tt
    | None => Ok tt
    end.
Proof. unfold raise_for_loop_limit. rewrite loop_product_eff. reflexivity. Qed.

(** * Generic induction over a render *)

Lemma spec_open_cons o ops stk : spec_open (o :: ops) stk = spec_open ops (spec_open [o] stk).
Proof. destruct o; reflexivity. Qed.

Lemma render_ok_step c s o ops s' :
  render c s (o :: ops) = Ok s' ->
  exists s1, step c s o = (Ok tt, s1) /\ render c s1 ops = Ok s'.
Proof.
  cbn [render]. destruct (step c s o) as [[[]| | |] s1]; try discriminate.
  intros H. exists s1. auto.
Qed.

Lemma render_invariant c (guard : op -> Prop) (P : state -> list sbracket -> Prop) :
  (forall s stk o s', P s stk -> guard o -> step c s o = (Ok tt, s') ->
                      P s' (spec_open [o] stk)) ->
  forall ops s0 stk0 s,
    P s0 stk0 -> Forall guard ops -> render c s0 ops = Ok s -> P s (spec_open ops stk0).
Proof.
  intros Hstep. induction ops as [|o ops IH]; intros s0 stk0 s HP Hg E.
  - simpl in E. inversion E; subst. exact HP.
  - apply render_ok_step in E as (s1 & E1 & E2). inversion Hg; subst.
    rewrite spec_open_cons. eapply IH; eauto.
Qed.

Lemma set_scope_undo f : set_scope (set_scope f (scope f + 1)) (N.pred (scope (set_scope f (scope f + 1)))) = f.
Proof. destruct f; unfold set_scope; simpl. f_equal. lia. Qed.

(** * The loop limit covers every nest of loops *)

(** The model state agrees with the bracket structure read off the operation
    sequence; in particular (current loops x carry) is the product of ALL
    enclosing loops, and this is again so after leaving any number of brackets.
    Only the carries, the sharing flags and the loop lists matter. *)
Fixpoint linv (f : frame) (ps : list frame) (gs : list (list N)) (o : list bracket)
  (stk : list sbracket) {struct o} : Prop :=
  effl (carry f) (hd [] gs) = product (loop_lengths stk) /\
  match o, stk with
  | [], [] => True
  | BFor :: o', SLoop n :: stk' =>
      (exists l', hd [] gs = n :: l') /\ linv f ps (set_cur_loops gs (tl (hd [] gs))) o' stk'
  | BCarry sv :: o', SLoop n :: stk' =>
      carry f = sv * n /\ linv (set_carry f sv) ps gs o' stk'
  | BExt :: o', SOther :: stk' => linv f ps gs o' stk'
  | BCopy :: o', SCopy :: stk' =>
      match ps with
      | p :: ps' => linv p ps' (if shared f then gs else tl gs) o' stk'
      | [] => False
      end
  | _, _ => False
  end.

Lemma linv_ext : forall o f f' ps gs stk,
  carry f = carry f' -> shared f = shared f' -> linv f ps gs o stk -> linv f' ps gs o stk.
Proof.
  induction o as [|b o IH]; intros f f' ps gs stk Hc Hs; cbn [linv]; intros [He H];
    (split; [rewrite <- Hc; exact He|]).
  - exact H.
  - destruct b, stk as [|[n| |] stk']; try contradiction.
    + destruct H as [Hx H]. split; [exact Hx|]. eapply IH; eauto.
    + destruct H as [Hx H]. split; [rewrite <- Hc; exact Hx|].
      eapply IH; [| |exact H]; destruct f, f'; simpl in *; congruence.
    + eapply IH; eauto.
    + rewrite <- Hs. exact H.
Qed.

(** A missing list reads as an empty one. *)
Lemma linv_nil : forall o f ps stk, linv f ps [] o stk -> linv f ps [[]] o stk.
Proof.
  induction o as [|b o IH]; intros f ps stk; cbn [linv hd]; intros [He H]; (split; [exact He|]).
  - exact H.
  - destruct b, stk as [|[m| |] stk']; try contradiction.
    + destruct H as [[l' Hx] _]. discriminate.
    + destruct H as [Hx H]. split; [exact Hx|]. apply IH. exact H.
    + apply IH. exact H.
    + destruct ps as [|p ps']; [contradiction|]. destruct (shared f).
      * apply IH. exact H.
      * cbn [tl] in *. exact H.
Qed.

Lemma linv_norm o f ps gs stk : linv f ps gs o stk -> linv f ps (hd [] gs :: tl gs) o stk.
Proof. destruct gs as [|g gs']; [apply linv_nil|exact (fun H => H)]. Qed.

Definition sinv (s : state) (stk : list sbracket) : Prop :=
  linv (cur s) (parents s) (groups s) (opened s) stk.

Lemma product_loops_cons n l : product (n :: l) = n * product l.
Proof. reflexivity. Qed.

Lemma sinv_eff s stk : sinv s stk -> eff s = product (loop_lengths stk).
Proof. unfold sinv. rewrite eff_effl. unfold cur_loops. destruct (opened s); intros H; apply H. Qed.

Lemma sinv_step c s stk o s' :
  sinv s stk -> counted o -> step c s o = (Ok tt, s') -> sinv s' (spec_open [o] stk).
Proof.
  intros Hi Hg. pose proof (sinv_eff _ _ Hi) as He. rewrite eff_effl in He.
  unfold sinv in *. destruct s as [f ps gs op]. unfold cur_loops in *.
  cbn [cur parents groups opened] in *.
  destruct o; cbn [step cur parents groups opened spec_open]; unfold cur_loops;
    cbn [cur parents groups opened].
  - (* EnterFor *)
    destruct (raise_for_loop_limit c f (hd [] gs) n) as [[]| | |]; try (intros E; discriminate).
    destruct (extend_check c f) as [[]| | |]; try (intros E; discriminate).
    intros E; inversion E; subst. cbn [cur parents groups opened linv loop_lengths].
    unfold set_cur_loops at 1 2. cbn [hd tl].
    split.
    + rewrite effl_eq in *. cbn [carry set_scope]. rewrite !product_loops_cons, <- He. lia.
    + split; [eauto|]. eapply linv_ext with (f := f); [reflexivity|reflexivity|].
      change (set_cur_loops (set_cur_loops gs (n :: hd [] gs))
                (tl (hd [] (set_cur_loops gs (n :: hd [] gs)))))
        with (hd [] gs :: tl gs).
      apply linv_norm. exact Hi.
  - (* EnterCarry *)
    destruct (raise_for_loop_limit c f (hd [] gs) n) as [[]| | |]; try (intros E; discriminate).
    intros E; inversion E; subst. cbn [push cur parents groups opened linv loop_lengths].
    split.
    + rewrite effl_eq in *. cbn [carry set_carry]. rewrite !product_loops_cons, <- He. lia.
    + split; [reflexivity|]. eapply linv_ext; [| |exact Hi]; reflexivity.
  - (* Extend *)
    destruct (extend_check c f) as [[]| | |]; try (intros E; discriminate).
    intros E; inversion E; subst. cbn [push cur parents groups opened linv loop_lengths].
    split; [exact He|]. eapply linv_ext; [| |exact Hi]; reflexivity.
  - (* EnterCopy *)
    destruct (copy_check c f) as [[]| | |]; try (intros E; discriminate).
    intros E; inversion E; subst. cbn [cur parents groups opened linv loop_lengths].
    destruct block_scope.
    + split; [cbn [carry copy_frame]; exact He|]. cbn [shared copy_frame]. exact Hi.
    + destruct carry_loops; [|contradiction].
      split; [|cbn [shared copy_frame tl]; exact Hi].
      cbn [carry copy_frame hd]. rewrite effl_eq. fold (effl (carry f) (hd [] gs)).
      rewrite He. unfold product. simpl. lia.
  - (* Exit *)
    unfold exit_bracket, cur_loops. cbn [cur parents groups opened].
    destruct op as [|b op]; [intros E; discriminate|].
    cbn [linv] in Hi. destruct Hi as [_ Hi].
    destruct b, stk as [|[n| |] stk']; try contradiction.
    + intros E; inversion E; subst. cbn [cur parents groups opened tl].
      destruct Hi as [_ Hi]. eapply linv_ext; [| |exact Hi]; reflexivity.
    + intros E; inversion E; subst. cbn [cur parents groups opened tl].
      destruct Hi as [_ Hi]. exact Hi.
    + intros E; inversion E; subst. cbn [cur parents groups opened tl].
      eapply linv_ext; [| |exact Hi]; reflexivity.
    + destruct ps as [|p ps']; [contradiction|].
      intros E; inversion E; subst. cbn [cur parents groups opened tl]. exact Hi.
  - (* Assign *)
    destruct (active (ns_limit c)) as [l|].
    + destruct (l <? _); intros E; inversion E; subst.
      cbn [with_cur cur parents groups opened]. eapply linv_ext; [| |exact Hi]; reflexivity.
    + intros E; inversion E; subst.
      cbn [with_cur cur parents groups opened]. eapply linv_ext; [| |exact Hi]; reflexivity.
  - (* CheckLoop *)
    intros E; inversion E; subst. exact Hi.
  - contradiction.
Qed.

Lemma sinv_init : sinv init [].
Proof. unfold sinv, init. simpl. split; [reflexivity|exact I]. Qed.

(** (current loops x carry) = product of all enclosing loops, in every state a
    render can reach. *)
Theorem eff_is_nest_product : forall c ops s,
  Forall counted ops -> render c init ops = Ok s ->
  eff s = nest_product ops.
Proof.
  intros c ops s Hg E. unfold nest_product. apply sinv_eff.
  exact (render_invariant c counted sinv (sinv_step c) ops init [] s sinv_init Hg E).
Qed.

(** Every enclosing nest (the current one and each one we return to) is within
    the limit. *)
Fixpoint all_bounded (L : N) (stk : list sbracket) : Prop :=
  within L (loop_lengths stk) /\
  match stk with [] => True | _ :: r => all_bounded L r end.

Definition binv2 (L : N) (s : state) (stk : list sbracket) : Prop :=
  sinv s stk /\ all_bounded L stk.

Lemma all_bounded_head L stk : all_bounded L stk -> within L (loop_lengths stk).
Proof. destruct stk; intros H; apply H. Qed.

Lemma binv2_step c L s stk o s' :
  active (loop_limit c) = Some L ->
  binv2 L s stk -> counted o -> step c s o = (Ok tt, s') -> binv2 L s' (spec_open [o] stk).
Proof.
  intros HL [Hs Hb] Hg E. split; [eapply sinv_step; eauto|].
  pose proof (sinv_eff _ _ Hs) as He. pose proof (all_bounded_head _ _ Hb) as Hh.
  destruct o; try contradiction;
    cbn [spec_open all_bounded loop_lengths]; try (split; assumption); try assumption.
  - (* EnterFor *)
    split; [|exact Hb]. cbn [step] in E. rewrite raise_for_loop_limit_spec, HL in E.
    destruct (N.ltb_spec L (n * eff s)) as [Hlt|Hge]; [discriminate|].
    right. rewrite product_loops_cons, <- He. exact Hge.
  - (* EnterCarry *)
    split; [|exact Hb]. cbn [step] in E. rewrite raise_for_loop_limit_spec, HL in E.
    destruct (N.ltb_spec L (n * eff s)) as [Hlt|Hge]; [discriminate|].
    right. rewrite product_loops_cons, <- He. exact Hge.
  - (* Exit *)
    destruct stk as [|x stk']; [exact Hb|]. cbn [tl]. apply Hb.
Qed.

(** [loop_nest_bounded_partial] (guard [counted]: no parent block rendered through
    block.super): in every state a render reaches, the product of the
    lengths of ALL enclosing loops — for, tablerow, include-for, render-for, in
    this template or any template / macro / block that (transitively) rendered
    it — is within the limit. *)
Theorem loop_nest_bounded_partial : forall c L ops s,
  active (loop_limit c) = Some L -> Forall counted ops ->
  render c init ops = Ok s ->
  enclosing_loops ops = [] \/ nest_product ops <= L.
Proof.
  intros c L ops s HL Hg E. unfold nest_product, enclosing_loops. apply all_bounded_head.
  assert (binv2 L init []) as H0.
  { split; [exact sinv_init|]. simpl. split; [left; reflexivity|exact I]. }
  exact (proj2 (render_invariant c counted (binv2 L)
                  (fun s stk o s' => binv2_step c L s stk o s' HL) ops init [] s H0 Hg E)).
Qed.

(** ... and entering a loop that would take the product over the limit raises
    LoopIterationLimitError at that step, whatever kind of loop it is. *)
Theorem loop_over_limit_raises : forall c L ops s n,
  active (loop_limit c) = Some L -> Forall counted ops ->
  render c init ops = Ok s ->
  L < n * nest_product ops ->
  fst (step c s (EnterFor n)) = LErr LoopIterationLimitError None
  /\ fst (step c s (EnterCarry n)) = LErr LoopIterationLimitError None
  /\ fst (step c s (CheckLoop n)) = LErr LoopIterationLimitError None.
Proof.
  intros c L ops s n HL Hg E Hlt.
  rewrite <- (eff_is_nest_product c ops s Hg E) in Hlt.
  cbn [step]. rewrite raise_for_loop_limit_spec, HL.
  destruct (N.ltb_spec L (n * eff s)); [|lia]. repeat split; reflexivity.
Qed.

(** Conversely a loop that keeps the product within the limit is not refused
    by the loop limit. *)
Theorem loop_within_limit_passes : forall c L ops s n,
  active (loop_limit c) = Some L -> Forall counted ops ->
  render c init ops = Ok s ->
  n * nest_product ops <= L ->
  raise_for_loop_limit c (cur s) (cur_loops s) n = Ok tt.
Proof.
  intros c L ops s n HL Hg E Hle.
  rewrite <- (eff_is_nest_product c ops s Hg E) in Hle.
  rewrite raise_for_loop_limit_spec, HL.
  destruct (N.ltb_spec L (n * eff s)); [lia|reflexivity].
Qed.

(** A step that raises leaves every context as it was (no stale loop-stack or
    scope entry), except that a refused [assign] keeps the new binding. *)
Theorem failed_step_keeps_state : forall c s o r s',
  step c s o = (r, s') -> r <> Ok tt ->
  match o with
  | Assign k sz => s' = with_cur s (set_locals (cur s) (dict_set k sz (locals (cur s))))
  | _ => s' = s
  end.
Proof.
  intros c s o r s'. destruct o; cbn [step].
  - destruct (raise_for_loop_limit c (cur s) (cur_loops s) n) as [[]| | |];
      try (intros E _; inversion E; reflexivity).
    destruct (extend_check c (cur s)) as [[]| | |];
      intros E Hr; inversion E; subst; try reflexivity; congruence.
  - destruct (raise_for_loop_limit c (cur s) (cur_loops s) n) as [[]| | |];
      intros E Hr; inversion E; subst; try reflexivity; congruence.
  - destruct (extend_check c (cur s)) as [[]| | |];
      intros E Hr; inversion E; subst; try reflexivity; congruence.
  - destruct (copy_check c (cur s)) as [[]| | |];
      intros E Hr; inversion E; subst; try reflexivity; congruence.
  - destruct (exit_bracket s); intros E Hr; inversion E; subst; try reflexivity; congruence.
  - destruct (active (ns_limit c)); [destruct (_ <? _)|];
      intros E Hr; inversion E; subst; try reflexivity; congruence.
  - intros E _; inversion E; reflexivity.
  - destruct (nth_error (parents s) k); [destruct (extend_check c f) as [[]| | |]|];
      intros E Hr; inversion E; subst; try reflexivity; congruence.
Qed.

(** * Context depth *)

(** Invariant of the states a render reaches: every context has its copy depth
    equal to the number of contexts below it and at most limit+1; its scope
    chain has between 4 and max(4, limit+1) maps; and this is again so after
    leaving any number of brackets (so [scope.pop()] never pops one of the
    four base maps). *)
Fixpoint dinv (D : N) (f : frame) (ps : list frame) (o : list bracket) {struct o} : Prop :=
  4 <= scope f /\ scope f <= N.max 4 (D + 1)
  /\ depth f = N.of_nat (length ps) /\ depth f <= D + 1 /\
  match o with
  | [] => ps = [] /\ scope f = 4
  | BFor :: o' => 5 <= scope f /\ dinv D (set_scope f (N.pred (scope f))) ps o'
  | BCarry _ :: o' => dinv D f ps o'
  | BExt :: o' => 5 <= scope f /\ dinv D (set_scope f (N.pred (scope f))) ps o'
  | BCopy :: o' =>
      scope f = 4 /\ match ps with p :: ps' => dinv D p ps' o' | [] => False end
  | BSuper _ _ _ :: _ => False
  end.

Lemma dinv_ext D : forall o f f' ps,
  scope f = scope f' -> depth f = depth f' -> dinv D f ps o -> dinv D f' ps o.
Proof.
  induction o as [|b o IH]; intros f f' ps Hs Hd; cbn [dinv]; rewrite <- Hs, <- Hd;
    intros (H1 & H2 & H3 & H4 & H); (repeat (split; [assumption|])).
  - exact H.
  - destruct b.
    + destruct H as [H5 H]. split; [exact H5|].
      eapply IH; [| |exact H]; destruct f, f'; simpl in *; congruence.
    + eapply IH; eauto.
    + destruct H as [H5 H]. split; [exact H5|].
      eapply IH; [| |exact H]; destruct f, f'; simpl in *; congruence.
    + exact H.
    + exact H.
Qed.

Definition good (c : cfg) (s : state) : Prop :=
  dinv (depth_limit c) (cur s) (parents s) (opened s).

Lemma good_init c : good c init.
Proof. unfold good, init; simpl. repeat split; lia. Qed.

Lemma extend_check_ok c f : extend_check c f = Ok tt -> scope f <= depth_limit c.
Proof. unfold extend_check. destruct (N.ltb_spec (depth_limit c) (scope f)); [discriminate|auto]. Qed.

Lemma copy_check_ok c f : copy_check c f = Ok tt -> depth f <= depth_limit c.
Proof. unfold copy_check. destruct (N.ltb_spec (depth_limit c) (depth f)); [discriminate|auto]. Qed.

Lemma dinv_head D f ps o : dinv D f ps o ->
  4 <= scope f /\ scope f <= N.max 4 (D + 1) /\ depth f = N.of_nat (length ps) /\ depth f <= D + 1.
Proof. destruct o; cbn [dinv]; tauto. Qed.

Lemma good_step c s o s' : good c s -> plain o -> step c s o = (Ok tt, s') -> good c s'.
Proof.
  unfold good. destruct s as [f ps gs op]. cbn [cur parents groups opened].
  intros Hi Hpl. pose proof (dinv_head _ _ _ _ Hi) as (H1 & H2 & H3 & H4).
  destruct o; cbn [step cur parents groups opened].
  - destruct (raise_for_loop_limit c f _ n) as [[]| | |]; try (intros E; discriminate).
    destruct (extend_check c f) as [[]| | |] eqn:X; try (intros E; discriminate).
    apply extend_check_ok in X.
    intros E; inversion E; subst. cbn [push cur parents groups opened dinv].
    cbn [scope depth set_scope].
    repeat split; try lia.
    eapply dinv_ext; [| |exact Hi]; simpl; lia.
  - destruct (raise_for_loop_limit c f _ n) as [[]| | |]; try (intros E; discriminate).
    intros E; inversion E; subst. cbn [push cur parents groups opened dinv].
    cbn [scope depth set_carry]. repeat split; try lia.
    eapply dinv_ext; [| |exact Hi]; reflexivity.
  - destruct (extend_check c f) as [[]| | |] eqn:X; try (intros E; discriminate).
    apply extend_check_ok in X.
    intros E; inversion E; subst. cbn [push cur parents groups opened dinv].
    cbn [scope depth set_scope]. repeat split; try lia.
    eapply dinv_ext; [| |exact Hi]; simpl; lia.
  - destruct (copy_check c f) as [[]| | |] eqn:X; try (intros E; discriminate).
    apply copy_check_ok in X.
    intros E; inversion E; subst. cbn [cur parents groups opened dinv].
    cbn [scope depth copy_frame length]. repeat split; try lia. exact Hi.
  - unfold exit_bracket. cbn [cur parents groups opened].
    destruct op as [|b op]; [intros E; discriminate|].
    cbn [dinv] in Hi. destruct Hi as (_ & _ & _ & _ & Hi).
    destruct b.
    + intros E; inversion E; subst. cbn [cur parents opened]. destruct Hi as [_ Hi].
      eapply dinv_ext; [| |exact Hi]; reflexivity.
    + intros E; inversion E; subst. cbn [cur parents opened].
      eapply dinv_ext; [| |exact Hi]; reflexivity.
    + intros E; inversion E; subst. cbn [cur parents opened]. destruct Hi as [_ Hi]. exact Hi.
    + destruct ps as [|p ps']; [intros E; discriminate|].
      intros E; inversion E; subst. cbn [cur parents opened]. apply Hi.
    + contradiction.
  - destruct (active (ns_limit c)) as [l|]; [destruct (l <? _)|];
      intros E; inversion E; subst; cbn [with_cur cur parents groups opened];
      (eapply dinv_ext; [| |exact Hi]; reflexivity).
  - intros E; inversion E; subst. exact Hi.
  - contradiction.
Qed.

Lemma good_render c : forall ops s s',
  good c s -> Forall plain ops -> render c s ops = Ok s' -> good c s'.
Proof.
  induction ops as [|o ops IH]; intros s s' Hg Hp E.
  - simpl in E. inversion E; subst; exact Hg.
  - apply render_ok_step in E as (s1 & E1 & E2). inversion Hp; subst.
    eapply IH; [|eassumption|exact E2]. eapply good_step; eauto.
Qed.

(** [depth_bounded]: copy depth counts the copies below and never exceeds
    limit+1; no scope chain is longer than max(4, limit+1); copy depth strictly
    increases along render/call/block edges. *)
Theorem depth_bounded : forall c ops s,
  Forall plain ops -> render c init ops = Ok s ->
  depth (cur s) = N.of_nat (length (parents s))
  /\ depth (cur s) <= depth_limit c + 1
  /\ 4 <= scope (cur s) <= N.max 4 (depth_limit c + 1).
Proof.
  intros c ops s Hp E. pose proof (good_render c ops _ _ (good_init c) Hp E) as H.
  apply dinv_head in H. tauto.
Qed.

Theorem copy_increases_depth : forall c s cl bs s',
  step c s (EnterCopy cl bs) = (Ok tt, s') ->
  depth (cur s') = depth (cur s) + 1 /\ depth (cur s) <= depth_limit c
  /\ parents s' = cur s :: parents s.
Proof.
  intros c s cl bs s'. cbn [step]. destruct (copy_check c (cur s)) as [[]| | |] eqn:X;
    try (intros E; discriminate).
  apply copy_check_ok in X. intros E; inversion E; subst. simpl. auto.
Qed.

(** The depth tests raise ContextDepthError exactly at the bound. *)
Theorem depth_limit_raises : forall c s,
  (depth_limit c < scope (cur s) ->
     fst (step c s Extend) = LErr ContextDepthError None)
  /\ (depth_limit c < depth (cur s) ->
     forall cl bs, fst (step c s (EnterCopy cl bs)) = LErr ContextDepthError None).
Proof.
  intros c s. split.
  - intros H. cbn [step]. unfold extend_check.
    destruct (N.ltb_spec (depth_limit c) (scope (cur s))); [reflexivity|lia].
  - intros H cl bs. cbn [step]. unfold copy_check.
    destruct (N.ltb_spec (depth_limit c) (depth (cur s))); [reflexivity|lia].
Qed.

(** Number of depth-consuming brackets = (scope maps beyond the base four, over
    all live contexts) + (number of copies). *)
Definition extra (f : frame) : nat := N.to_nat (scope f - 4).

Lemma dinv_depth_open D : forall o f ps,
  dinv D f ps o ->
  depth_open o = (extra f + fold_right (fun p a => extra p + a) 0 ps + length ps)%nat
  /\ Forall (fun p => scope p <= N.max 4 (D + 1)) ps.
Proof.
  induction o as [|b o IH]; intros f ps; cbn [dinv depth_open].
  - intros (_ & _ & _ & _ & -> & E). unfold extra. rewrite E. simpl. auto.
  - intros (H1 & H2 & H3 & H4 & H). destruct b.
    + destruct H as [H5 H]. destruct (IH _ _ H) as [E F]. split; [|exact F].
      rewrite E. unfold extra. cbn [scope set_scope]. lia.
    + exact (IH _ _ H).
    + destruct H as [H5 H]. destruct (IH _ _ H) as [E F]. split; [|exact F].
      rewrite E. unfold extra. cbn [scope set_scope]. lia.
    + destruct H as [H5 H]. destruct ps as [|p ps']; [contradiction|].
      destruct (IH _ _ H) as [E F]. pose proof (dinv_head _ _ _ _ H) as (_ & Hp & _).
      split; [|constructor; assumption].
      rewrite E. unfold extra at 3. rewrite H5. simpl. lia.
    + contradiction.
Qed.

Lemma sum_extra_le (m : nat) : forall ps,
  Forall (fun p => (extra p <= m)%nat) ps ->
  (fold_right (fun p a => extra p + a) 0 ps <= length ps * m)%nat.
Proof.
  induction ps as [|p ps IH]; intros H; simpl; [lia|].
  inversion H; subst. specialize (IH H3). lia.
Qed.

(** [descent_bounded]: the number of open extend / loop / copy brackets — the
    depth of the recursion through include, render, call, block, with and for —
    is bounded by a function of the depth limit alone. *)
Lemma good_depth_open c s : good c s -> (depth_open (opened s) <= depth_bound c)%nat.
Proof.
  intros H. unfold good in H. destruct (dinv_depth_open _ _ _ _ H) as [Eq F].
  pose proof (dinv_head _ _ _ _ H) as (H1 & H2 & H3 & H4).
  set (d := N.to_nat (depth_limit c)).
  assert (Hm : forall p, scope p <= N.max 4 (depth_limit c + 1) -> (extra p <= d + 1)%nat).
  { intros p Hp. unfold extra, d. lia. }
  assert (Hl : (length (parents s) <= d + 1)%nat) by (unfold d; lia).
  assert (Hs : (fold_right (fun p a => extra p + a) 0 (parents s) <= length (parents s) * (d + 1))%nat).
  { apply sum_extra_le. eapply Forall_impl; [|exact F]. intros p Hp. apply Hm. exact Hp. }
  specialize (Hm _ H2). rewrite Eq. unfold depth_bound. fold d. nia.
Qed.

Theorem descent_bounded : forall c ops s,
  Forall plain ops -> render c init ops = Ok s ->
  (depth_open (opened s) <= depth_bound c)%nat.
Proof.
  intros c ops s Hp E. apply good_depth_open. exact (good_render c ops _ _ (good_init c) Hp E).
Qed.

(** * Local namespace *)

Definition total (f : frame) : N := sum_sizes (locals f) + ns_carry f.

(** Every live context is within the limit, and the carry of a copied context
    is the total of the context it was copied from. *)
Fixpoint ns_chain (l : N) (f : frame) (ps : list frame) : Prop :=
  total f <= l /\
  match ps with
  | [] => ns_carry f = 0
  | p :: ps' => ns_carry f = total p /\ ns_chain l p ps'
  end.

Definition ninv (l : N) (s : state) : Prop := ns_chain l (cur s) (parents s).

Lemma ns_chain_ext l f f' ps :
  locals f = locals f' -> ns_carry f = ns_carry f' -> ns_chain l f ps -> ns_chain l f' ps.
Proof.
  unfold ns_chain, total. destruct ps; intros -> ->; auto.
Qed.

Lemma ninv_step c l s o s' :
  active (ns_limit c) = Some l -> good c s -> plain o ->
  ninv l s -> step c s o = (Ok tt, s') -> ninv l s'.
Proof.
  unfold ninv, good. destruct s as [f ps gs op]. cbn [cur parents groups opened]. intros HL Hgood Hpl Hi.
  destruct o; cbn [step cur parents groups opened].
  - destruct (raise_for_loop_limit c f _ n) as [[]| | |]; try (intros E; discriminate).
    destruct (extend_check c f) as [[]| | |]; try (intros E; discriminate).
    intros E; inversion E; subst. cbn [push cur parents].
    eapply ns_chain_ext; [| |exact Hi]; reflexivity.
  - destruct (raise_for_loop_limit c f _ n) as [[]| | |]; try (intros E; discriminate).
    intros E; inversion E; subst. cbn [push cur parents].
    eapply ns_chain_ext; [| |exact Hi]; reflexivity.
  - destruct (extend_check c f) as [[]| | |]; try (intros E; discriminate).
    intros E; inversion E; subst. cbn [push cur parents].
    eapply ns_chain_ext; [| |exact Hi]; reflexivity.
  - destruct (copy_check c f) as [[]| | |]; try (intros E; discriminate).
    intros E; inversion E; subst. cbn [cur parents ns_chain].
    assert (Ht : total f <= l) by (destruct ps; apply Hi).
    unfold total at 1 2. cbn [locals ns_carry copy_frame sum_sizes].
    unfold size_of_locals. rewrite HL. fold (total f). repeat split; try lia. exact Hi.
  - unfold exit_bracket. cbn [cur parents groups opened].
    destruct op as [|b op]; [intros E; discriminate|]. destruct b.
    + intros E; inversion E; subst. cbn [cur parents].
      eapply ns_chain_ext; [| |exact Hi]; reflexivity.
    + intros E; inversion E; subst. cbn [cur parents].
      eapply ns_chain_ext; [| |exact Hi]; reflexivity.
    + intros E; inversion E; subst. cbn [cur parents].
      eapply ns_chain_ext; [| |exact Hi]; reflexivity.
    + destruct ps as [|p ps']; [intros E; discriminate|].
      intros E; inversion E; subst. cbn [cur parents]. cbn [ns_chain] in Hi. apply Hi.
    + cbn [dinv] in Hgood. tauto.
  - rewrite HL. unfold size_of_locals. rewrite HL.
    destruct (N.ltb_spec l (sum_sizes (locals (set_locals f (dict_set k sz (locals f))))
                            + ns_carry (set_locals f (dict_set k sz (locals f)))));
      intros E; inversion E; subst. cbn [with_cur cur parents].
    destruct ps as [|p ps']; cbn [ns_chain] in *; unfold total at 1; cbn [ns_carry set_locals] in *.
    + split; [exact H|apply Hi].
    + split; [exact H|apply Hi].
  - intros E; inversion E; subst. exact Hi.
  - contradiction.
Qed.

Lemma ninv_render c l : active (ns_limit c) = Some l ->
  forall ops s s', good c s -> Forall plain ops -> ninv l s -> render c s ops = Ok s' -> ninv l s'.
Proof.
  intros HL. induction ops as [|o ops IH]; intros s s' Hg Hp Hi E.
  - simpl in E. inversion E; subst; exact Hi.
  - apply render_ok_step in E as (s1 & E1 & E2). inversion Hp; subst.
    eapply IH; [| |eapply ninv_step; eauto|exact E2]; [eapply good_step; eauto|assumption].
Qed.

Lemma ns_chain_all l : forall ps f, ns_chain l f ps ->
  ns_carry f = fold_right (fun p a => sum_sizes (locals p) + a) 0 ps.
Proof.
  induction ps as [|p ps IH]; intros f; cbn [ns_chain fold_right].
  - tauto.
  - intros (_ & -> & H). unfold total. rewrite (IH _ H). reflexivity.
Qed.

(** [locals_le_limit_partial] (guard [plain]: no parent block rendered through
    block.super): in every state a render reaches, the sizes of the local
    variables of the current context AND of all contexts it was copied from add
    up to at most the limit; the size the next [assign] is tested against
    ([get_size_of_locals]) is exactly that sum. *)
Theorem locals_le_limit_partial : forall c l ops s,
  active (ns_limit c) = Some l -> Forall plain ops ->
  render c init ops = Ok s ->
  all_locals_size s <= l /\ size_of_locals c (cur s) = all_locals_size s.
Proof.
  intros c l ops s HL Hp E.
  assert (H0 : ninv l init) by (unfold ninv, init; simpl; unfold total; simpl; split; lia).
  pose proof (ninv_render c l HL ops _ _ (good_init c) Hp H0 E) as H. unfold ninv in H.
  pose proof (ns_chain_all _ _ _ H) as Hc.
  assert (Ht : total (cur s) <= l) by (destruct (parents s); apply H).
  unfold all_locals_size, size_of_locals. rewrite HL, <- Hc. fold (total (cur s)). auto.
Qed.

(** An [assign] that takes the sum over the limit raises
    LocalNamespaceLimitError. *)
Theorem assign_over_limit_raises : forall c l ops s k sz,
  active (ns_limit c) = Some l -> Forall plain ops ->
  render c init ops = Ok s ->
  l < all_locals_size (with_cur s (set_locals (cur s) (dict_set k sz (locals (cur s))))) ->
  fst (step c s (Assign k sz)) = LErr LocalNamespaceLimitError None.
Proof.
  intros c l ops s k sz HL Hp E Hlt.
  assert (H0 : ninv l init) by (unfold ninv, init; simpl; unfold total; simpl; split; lia).
  pose proof (ninv_render c l HL ops _ _ (good_init c) Hp H0 E) as H. unfold ninv in H.
  pose proof (ns_chain_all _ _ _ H) as Hc.
  cbn [step]. rewrite HL. unfold size_of_locals. rewrite HL.
  unfold all_locals_size in Hlt. cbn [with_cur cur parents] in Hlt. rewrite <- Hc in Hlt.
  cbn [ns_carry set_locals].
  destruct (N.ltb_spec l (sum_sizes (locals (set_locals (cur s) (dict_set k sz (locals (cur s)))))
                          + ns_carry (cur s))); [reflexivity|lia].
Qed.

(** * Limits that are not exceeded are invisible *)




Definition nosuper (b : bracket) : Prop :=
  match b with BSuper _ _ _ => False | _ => True end.

Definition rsim (c' : cfg) (s s' : state) : Prop :=
  erase s = erase s' /\ Forall nosuper (opened s) /\ (active (ns_limit c') <> None -> s = s').

Lemma erase_f_fields f f' : erase_f f = erase_f f' ->
  depth f = depth f' /\ carry f = carry f' /\ shared f = shared f' /\ scope f = scope f'
  /\ locals f = locals f'.
Proof. destruct f, f'; unfold erase_f; simpl. intros E; inversion E; subst; auto. Qed.

Lemma raise_relaxed c c' f f' lps n :
  relaxed c c' -> carry f = carry f' ->
  raise_for_loop_limit c f lps n = Ok tt -> raise_for_loop_limit c' f' lps n = Ok tt.
Proof.
  intros (_ & Hl & _) Hc. unfold raise_for_loop_limit. rewrite <- Hc.
  destruct (active (loop_limit c')) as [y|]; [|reflexivity].
  simpl in Hl. destruct (active (loop_limit c)) as [x|]; [|contradiction].
  destruct (N.ltb_spec x (loop_product lps (n * carry f))); [discriminate|].
  intros _. destruct (N.ltb_spec y (loop_product lps (n * carry f))); [lia|reflexivity].
Qed.

Lemma erase_f_set_scope f f' n : erase_f f = erase_f f' -> erase_f (set_scope f n) = erase_f (set_scope f' n).
Proof. destruct f, f'; unfold erase_f, set_scope; simpl. intros E; inversion E; subst; reflexivity. Qed.

Lemma erase_f_set_carry f f' n : erase_f f = erase_f f' -> erase_f (set_carry f n) = erase_f (set_carry f' n).
Proof. destruct f, f'; unfold erase_f, set_carry; simpl. intros E; inversion E; subst; reflexivity. Qed.

Lemma erase_f_set_locals f f' l : erase_f f = erase_f f' -> erase_f (set_locals f l) = erase_f (set_locals f' l).
Proof. destruct f, f'; unfold erase_f, set_locals; simpl. intros E; inversion E; subst; reflexivity. Qed.

Lemma rsim_step c c' s s' o s1 :
  relaxed c c' -> plain o -> rsim c' s s' -> step c s o = (Ok tt, s1) ->
  exists s1', step c' s' o = (Ok tt, s1') /\ rsim c' s1 s1'.
Proof.
  intros Hr Hpl (He & Hns & Hq) E. pose proof Hr as (Hd & Hl & Hn).
  destruct s as [f ps gs op], s' as [f' ps' gs' op'].
  unfold erase in He. cbn [cur parents groups opened] in He, Hns.
  pose proof (f_equal cur He) as Hf. pose proof (f_equal parents He) as Hps.
  pose proof (f_equal groups He) as Hgs.
  pose proof (f_equal opened He) as Hop. cbn [cur parents groups opened] in Hf, Hps, Hgs, Hop.
  subst op' gs'. clear He.
  pose proof (erase_f_fields _ _ Hf) as (F1 & F2 & F3 & F4 & F5).
  assert (Hsame : forall x y : state, active (ns_limit c') <> None ->
            {| cur := f; parents := ps; groups := gs; opened := op |}
            = {| cur := f'; parents := ps'; groups := gs; opened := op |} -> f = f' /\ ps = ps').
  { intros _ _ _ Hx. inversion Hx; auto. }
  destruct o; cbn [step cur parents groups opened] in *; unfold cur_loops in *;
    cbn [cur parents groups opened] in *.
  - (* EnterFor *)
    destruct (raise_for_loop_limit c f _ n) as [[]| | |] eqn:R; try discriminate.
    rewrite (raise_relaxed c c' f f' _ n Hr F2 R).
    unfold extend_check in *. rewrite <- F4.
    destruct (N.ltb_spec (depth_limit c) (scope f)); [discriminate|].
    destruct (N.ltb_spec (depth_limit c') (scope f)); [lia|].
    inversion E; subst. eexists; split; [reflexivity|].
    split; [|split].
    + unfold erase. cbn [cur parents groups opened]. rewrite Hps, F4.
      rewrite (erase_f_set_scope f f' _ Hf). reflexivity.
    + constructor; [exact I|exact Hns].
    + intros Ha. specialize (Hq Ha). inversion Hq; subst. reflexivity.
  - (* EnterCarry *)
    destruct (raise_for_loop_limit c f _ n) as [[]| | |] eqn:R; try discriminate.
    rewrite (raise_relaxed c c' f f' _ n Hr F2 R).
    inversion E; subst. eexists; split; [reflexivity|].
    split; [|split].
    + unfold erase, push. cbn [cur parents groups opened]. rewrite F2, Hps.
      rewrite (erase_f_set_carry f f' _ Hf). reflexivity.
    + constructor; [exact I|exact Hns].
    + intros Ha. specialize (Hq Ha). inversion Hq; subst. reflexivity.
  - (* Extend *)
    unfold extend_check in *. rewrite <- F4.
    destruct (N.ltb_spec (depth_limit c) (scope f)); [discriminate|].
    destruct (N.ltb_spec (depth_limit c') (scope f)); [lia|].
    inversion E; subst. eexists; split; [reflexivity|].
    split; [|split].
    + unfold erase, push. cbn [cur parents groups opened]. rewrite Hps, F4.
      rewrite (erase_f_set_scope f f' _ Hf). reflexivity.
    + constructor; [exact I|exact Hns].
    + intros Ha. specialize (Hq Ha). inversion Hq; subst. reflexivity.
  - (* EnterCopy *)
    unfold copy_check in *. rewrite <- F1.
    destruct (N.ltb_spec (depth_limit c) (depth f)); [discriminate|].
    destruct (N.ltb_spec (depth_limit c') (depth f)); [lia|].
    inversion E; subst. eexists; split; [reflexivity|].
    split; [|split].
    + unfold erase. cbn [cur parents groups opened map]. rewrite Hf, Hps. f_equal.
      unfold copy_frame, erase_f. cbn [depth carry shared scope locals].
      rewrite F1, F2. reflexivity.
    + constructor; [exact I|exact Hns].
    + intros Ha. specialize (Hq Ha). inversion Hq; subst.
      f_equal. unfold copy_frame. f_equal. unfold size_of_locals.
      destruct (active (ns_limit c')) as [y|]; [|congruence].
      simpl in Hn. destruct (active (ns_limit c)); [reflexivity|contradiction].
  - (* Exit *)
    unfold exit_bracket, cur_loops in *. cbn [cur parents groups opened] in *.
    destruct op as [|b op]; [discriminate|]. inversion Hns as [|? ? Hb Hns']; subst.
    destruct b; try contradiction.
    + inversion E; subst. eexists; split; [reflexivity|]. split; [|split].
      * unfold erase. cbn [cur parents groups opened]. rewrite Hps, F4.
        rewrite (erase_f_set_scope f f' _ Hf). reflexivity.
      * exact Hns'.
      * intros Ha. specialize (Hq Ha). inversion Hq; subst. reflexivity.
    + inversion E; subst. eexists; split; [reflexivity|]. split; [|split].
      * unfold erase. cbn [cur parents groups opened]. rewrite Hps.
        rewrite (erase_f_set_carry f f' _ Hf). reflexivity.
      * exact Hns'.
      * intros Ha. specialize (Hq Ha). inversion Hq; subst. reflexivity.
    + inversion E; subst. eexists; split; [reflexivity|]. split; [|split].
      * unfold erase. cbn [cur parents groups opened]. rewrite Hps, F4.
        rewrite (erase_f_set_scope f f' _ Hf). reflexivity.
      * exact Hns'.
      * intros Ha. specialize (Hq Ha). inversion Hq; subst. reflexivity.
    + destruct ps as [|p ps0]; [discriminate|]. destruct ps' as [|p' ps0']; [discriminate|].
      cbn [map] in Hps. pose proof (f_equal (hd (erase_f p)) Hps) as Hp.
      pose proof (f_equal (@tl _) Hps) as Hps0. cbn [hd tl] in Hp, Hps0.
      inversion E; subst. eexists; split; [reflexivity|]. split; [|split].
      * unfold erase. cbn [cur parents groups opened]. rewrite Hp, Hps0, F3. reflexivity.
      * exact Hns'.
      * intros Ha. specialize (Hq Ha). inversion Hq; subst. reflexivity.
  - (* Assign *)
    assert (Eq : erase (with_cur {| cur := f; parents := ps; groups := gs; opened := op |}
                          (set_locals f (dict_set k sz (locals f))))
                 = erase (with_cur {| cur := f'; parents := ps'; groups := gs; opened := op |}
                            (set_locals f' (dict_set k sz (locals f'))))).
    { unfold erase, with_cur. cbn [cur parents groups opened]. rewrite Hps, F5.
      rewrite (erase_f_set_locals f f' _ Hf). reflexivity. }
    destruct (active (ns_limit c')) as [y|] eqn:A'.
    + assert (Hq' : {| cur := f; parents := ps; groups := gs; opened := op |}
                    = {| cur := f'; parents := ps'; groups := gs; opened := op |})
        by (apply Hq; congruence).
      inversion Hq'; subst f' ps'.
      simpl in Hn. destruct (active (ns_limit c)) as [x|] eqn:A; [|contradiction].
      unfold size_of_locals in *. rewrite A in E. rewrite A'.
      destruct (N.ltb_spec x (sum_sizes (locals (set_locals f (dict_set k sz (locals f))))
                              + ns_carry (set_locals f (dict_set k sz (locals f)))));
        [discriminate|].
      destruct (N.ltb_spec y (sum_sizes (locals (set_locals f (dict_set k sz (locals f))))
                              + ns_carry (set_locals f (dict_set k sz (locals f))))); [lia|].
      inversion E; subst. eexists; split; [reflexivity|].
      split; [reflexivity|]. split; [exact Hns|auto].
    + assert (s1 = with_cur {| cur := f; parents := ps; groups := gs; opened := op |}
                     (set_locals f (dict_set k sz (locals f)))) as ->.
      { destruct (active (ns_limit c)); [destruct (_ <? _)|]; inversion E; reflexivity. }
      eexists; split; [reflexivity|]. split; [exact Eq|]. split; [exact Hns|congruence].
  - (* CheckLoop *)
    destruct (raise_for_loop_limit c f _ n) as [[]| | |] eqn:R; try discriminate.
    rewrite (raise_relaxed c c' f f' _ n Hr F2 R).
    inversion E; subst. eexists; split; [reflexivity|].
    split; [unfold erase; cbn [cur parents groups opened]; rewrite Hf, Hps; reflexivity|].
    split; [exact Hns|exact Hq].
  - contradiction.
Qed.

Lemma rsim_render c c' : relaxed c c' -> forall ops s s' s1,
  Forall plain ops -> rsim c' s s' -> render c s ops = Ok s1 ->
  exists s1', render c' s' ops = Ok s1' /\ rsim c' s1 s1'.
Proof.
  intros Hr. induction ops as [|o ops IH]; intros s s' s1 Hp Hs E.
  - simpl in E. inversion E; subst. exists s'. split; [reflexivity|exact Hs].
  - apply render_ok_step in E as (s2 & E1 & E2). inversion Hp; subst.
    destruct (rsim_step c c' _ _ _ _ Hr H1 Hs E1) as (s2' & E1' & Hs2).
    destruct (IH _ _ _ H2 Hs2 E2) as (s1' & E' & Hs1).
    exists s1'. cbn [render]. rewrite E1'. auto.
Qed.

(** [unexceeded_limits_invisible]: a render that stays within its limits does
    exactly the same under any larger limits or none: same contexts, loops,
    scopes and local variables after the same operations. *)
Theorem unexceeded_limits_invisible : forall c c' ops s,
  relaxed c c' -> Forall plain ops -> render c init ops = Ok s ->
  exists s', render c' init ops = Ok s' /\ erase s' = erase s.
Proof.
  intros c c' ops s Hr Hp E.
  assert (H0 : rsim c' init init) by (split; [reflexivity|split; [constructor|auto]]).
  destruct (rsim_render c c' Hr ops _ _ _ Hp H0 E) as (s' & E' & [He _]).
  exists s'. split; [exact E'|symmetry; exact He].
Qed.


Lemma relaxed_unlimited c d : depth_limit c <= d -> relaxed c (unlimited d).
Proof. intros H. unfold relaxed, unlimited; simpl. auto. Qed.

(** * Recursion terminates *)

Section node_induction.
  Variable P : node -> Prop.
  Hypothesis HA : forall k sz, P (NAssign k sz).
  Hypothesis HF : forall n body, Forall P body -> P (NFor n body).
  Hypothesis HT : forall n body, Forall P body -> P (NTablerow n body).
  Hypothesis HW : forall body, Forall P body -> P (NWith body).
  Hypothesis HI : forall p, P (NInclude p).
  Hypothesis HIF : forall n p, P (NIncludeFor n p).
  Hypothesis HR : forall p, P (NRender p).
  Hypothesis HRF : forall n p, P (NRenderFor n p).
  Hypothesis HC : forall p, P (NCall p).
  Hypothesis HE : forall p, P (NExtends p).

  Fixpoint node_ind' (nd : node) : P nd :=
    let all := fix all (l : list node) : Forall P l :=
      match l with
      | [] => Forall_nil P
      | x :: l' => Forall_cons x (node_ind' x) (all l')
      end in
    match nd with
    | NAssign k sz => HA k sz
    | NFor n body => HF n body (all body)
    | NTablerow n body => HT n body (all body)
    | NWith body => HW body (all body)
    | NInclude p => HI p
    | NIncludeFor n p => HIF n p
    | NRender p => HR p
    | NRenderFor n p => HRF n p
    | NCall p => HC p
    | NExtends p => HE p
    end.
End node_induction.


Lemma fine_bind (r : res state) (k : state -> res state) :
  fine r -> (forall s, r = Ok s -> fine (k s)) -> fine (bind r k).
Proof. destruct r; simpl; auto. Qed.

Lemma bind_ok {A B} (r : res A) (k : A -> res B) b :
  bind r k = Ok b -> exists a, r = Ok a /\ k a = Ok b.
Proof. destruct r; simpl; try discriminate. eauto. Qed.

Lemma ostep_ok c s o s' : ostep c s o = Ok s' <-> step c s o = (Ok tt, s').
Proof.
  unfold ostep. destruct (step c s o) as [[[]| | |] s1]; split; intros E;
    inversion E; subst; reflexivity.
Qed.

Lemma raise_fine c f lps n : raise_for_loop_limit c f lps n = Ok tt
  \/ raise_for_loop_limit c f lps n = LErr LoopIterationLimitError None.
Proof.
  unfold raise_for_loop_limit. destruct (active (loop_limit c)); [destruct (_ <? _)|]; auto.
Qed.

(** Entering never fails with anything but the matching limit error. *)
Lemma ostep_enter_fine c s o :
  o <> Exit -> plain o -> fine (ostep c s o).
Proof.
  intros Hne Hpl. unfold ostep. destruct o; cbn [step]; try congruence; try contradiction.
  - destruct (raise_fine c (cur s) (cur_loops s) n) as [-> | ->]; [|exact I].
    unfold extend_check. destruct (_ <? _); exact I.
  - destruct (raise_fine c (cur s) (cur_loops s) n) as [-> | ->]; exact I.
  - unfold extend_check. destruct (_ <? _); exact I.
  - unfold copy_check. destruct (_ <? _); exact I.
  - destruct (active (ns_limit c)); [destruct (_ <? _)|]; exact I.
  - destruct (raise_fine c (cur s) (cur_loops s) n) as [-> | ->]; exact I.
Qed.

Lemma step_opened c s o s' :
  step c s o = (Ok tt, s') ->
  match o with
  | EnterFor _ => opened s' = BFor :: opened s
  | EnterCarry _ => opened s' = BCarry (carry (cur s)) :: opened s
  | Extend => opened s' = BExt :: opened s
  | EnterCopy _ _ => opened s' = BCopy :: opened s
  | Exit => exists b, opened s = b :: opened s'
  | EnterSuper _ => exists ch bt ls, opened s' = BSuper ch bt ls :: opened s
  | _ => opened s' = opened s
  end.
Proof.
  destruct o; cbn [step].
  - destruct (raise_for_loop_limit c (cur s) (cur_loops s) n) as [[]| | |]; try discriminate.
    destruct (extend_check c (cur s)) as [[]| | |]; try discriminate.
    intros E; inversion E; reflexivity.
  - destruct (raise_for_loop_limit c (cur s) (cur_loops s) n) as [[]| | |]; try discriminate.
    intros E; inversion E; reflexivity.
  - destruct (extend_check c (cur s)) as [[]| | |]; try discriminate.
    intros E; inversion E; reflexivity.
  - destruct (copy_check c (cur s)) as [[]| | |]; try discriminate.
    intros E; inversion E; reflexivity.
  - unfold exit_bracket. destruct (opened s) as [|b o]; [discriminate|].
    destruct b; try (intros E; inversion E; subst; eexists; reflexivity).
    destruct (parents s); [discriminate|]. intros E; inversion E; subst; eexists; reflexivity.
  - destruct (active (ns_limit c)); [destruct (_ <? _)|]; intros E; inversion E; reflexivity.
  - destruct (raise_for_loop_limit c (cur s) (cur_loops s) n) as [[]| | |]; intros E; inversion E; reflexivity.
  - destruct (nth_error (parents s) k); [|discriminate].
    destruct (extend_check c f) as [[]| | |]; try discriminate.
    intros E; inversion E; subst. eexists; eexists; eexists; reflexivity.
Qed.

(** In a good state with something open, Exit succeeds. *)
Lemma exit_ok c s b o :
  good c s -> opened s = b :: o ->
  exists s', ostep c s Exit = Ok s' /\ good c s' /\ opened s' = o.
Proof.
  intros Hg Ho.
  assert (exists s', step c s Exit = (Ok tt, s')) as [s' E].
  { cbn [step]. unfold exit_bracket. rewrite Ho. destruct b; try (eexists; reflexivity).
    unfold good in Hg. rewrite Ho in Hg. cbn [dinv] in Hg.
    destruct (parents s); [tauto|]. eexists; reflexivity. }
  exists s'. split; [apply ostep_ok; exact E|]. split; [exact (good_step c s Exit s' Hg I E)|].
  apply step_opened in E. destruct E as [b' E]. rewrite Ho in E. congruence.
Qed.

(** [bal s s']: rendering something from [s] ended in [s'] with the same
    brackets open, in a good state. *)
Definition bal (c : cfg) (s s' : state) : Prop := good c s' /\ opened s' = opened s.

Definition pres (c : cfg) (f : state -> res state) : Prop :=
  forall s s', good c s -> f s = Ok s' -> bal c s s'.

Lemma pres_repeat c body : pres c body -> forall k, pres c (repeat_body k body).
Proof.
  intros Hb. induction k as [|k IH]; intros s s' Hg; cbn [repeat_body].
  - intros E; inversion E; subst. split; [exact Hg|reflexivity].
  - intros E. apply bind_ok in E as (s1 & E1 & E2).
    destruct (Hb _ _ Hg E1) as [Hg1 Ho1]. destruct (IH _ _ Hg1 E2) as [Hg2 Ho2].
    split; [exact Hg2|congruence].
Qed.

(** Enter; body; Exit. *)
Definition around (c : cfg) (o : op) (body : state -> res state) (s : state) : res state :=
  do s1 <- ostep c s o;; do s2 <- body s1;; ostep c s2 Exit.

Definition is_enter (o : op) : Prop :=
  match o with EnterFor _ | EnterCarry _ | Extend | EnterCopy _ _ => True | _ => False end.

Lemma bracket2_flat c o1 o2 body s :
  (do s1 <- ostep c s o1;; do s2 <- ostep c s1 o2;; do s3 <- body s2;;
   do s4 <- ostep c s3 Exit;; ostep c s4 Exit)
  = around c o1 (around c o2 body) s.
Proof.
  unfold around. destruct (ostep c s o1); cbn [bind]; try reflexivity.
  destruct (ostep c a o2); cbn [bind]; try reflexivity.
  destruct (body a0); cbn [bind]; reflexivity.
Qed.

(** Enter; body; Exit is balanced when the body is. *)
Lemma pres_bracket c o body :
  is_enter o -> pres c body -> pres c (around c o body).
Proof.
  intros Ho Hb s s' Hg E. unfold around in E.
  apply bind_ok in E as (s1 & E1 & E). apply bind_ok in E as (s2 & E2 & E3).
  apply ostep_ok in E1.
  assert (Hpl : plain o) by (destruct o; try contradiction; exact I).
  pose proof (good_step _ _ _ _ Hg Hpl E1) as Hg1.
  destruct (Hb _ _ Hg1 E2) as [Hg2 Ho2].
  pose proof (step_opened _ _ _ _ E1) as Hop.
  assert (exists b, opened s1 = b :: opened s) as [b Hb1]
    by (destruct o; try contradiction; eexists; exact Hop).
  rewrite Hb1 in Ho2.
  destruct (exit_ok c s2 b (opened s) Hg2 Ho2) as (s3 & E3' & Hg3 & Ho3).
  rewrite E3 in E3'. inversion E3'; subst. split; assumption.
Qed.

Lemma pres_plain c o :
  (match o with Assign _ _ | CheckLoop _ => True | _ => False end) ->
  pres c (fun s => ostep c s o).
Proof.
  intros Ho s s' Hg E. apply ostep_ok in E.
  assert (Hpl : plain o) by (destruct o; try contradiction; exact I).
  split; [exact (good_step c s o s' Hg Hpl E)|].
  apply step_opened in E. destruct o; try contradiction; exact E.
Qed.

Lemma pres_seq c f g : pres c f -> pres c g -> pres c (fun s => do s1 <- f s;; g s1).
Proof.
  intros Hf Hg s s' Hgd E. apply bind_ok in E as (s1 & E1 & E2).
  destruct (Hf _ _ Hgd E1) as [G1 O1]. destruct (Hg _ _ G1 E2) as [G2 O2].
  split; [exact G2|congruence].
Qed.

(** Unfolding equations of [go] (the inner list recursion is [go_list]). *)
Section GoEq.
  Variable c : cfg.
  Variables partial macro : nat -> state -> res state.
  Let G := go c partial macro.
  Let GL := go_list c partial macro.

  Lemma go_for n body s : G (NFor n body) s =
    if n =? 0 then Ok s else
    do s1 <- ostep c s (EnterFor n);;
    do s2 <- repeat_body (N.to_nat n) (GL body) s1;; ostep c s2 Exit.
  Proof. reflexivity. Qed.

  Lemma go_tablerow n body s : G (NTablerow n body) s =
    do s0 <- ostep c s (CheckLoop n);;
    do s1 <- ostep c s0 (EnterCarry n);;
    do s2 <- ostep c s1 Extend;;
    do s3 <- repeat_body (N.to_nat n) (GL body) s2;;
    do s4 <- ostep c s3 Exit;; ostep c s4 Exit.
  Proof. reflexivity. Qed.

  Lemma go_with body s : G (NWith body) s =
    do s1 <- ostep c s Extend;; do s2 <- GL body s1;; ostep c s2 Exit.
  Proof. reflexivity. Qed.
End GoEq.

(** Balance, given that partial templates and macro bodies are balanced. *)
Section GoBal.
  Variable c : cfg.
  Variables partial macro : nat -> state -> res state.
  Hypothesis Hp : forall p, pres c (partial p).
  Hypothesis Hm : forall p, pres c (macro p).

  Lemma pres_go_list_of body :
    Forall (fun x => pres c (go c partial macro x)) body -> pres c (go_list c partial macro body).
  Proof.
    induction 1 as [|x l Hx Hl IH]; intros s s' Hg; cbn [go_list].
    - intros E; inversion E; subst. split; [exact Hg|reflexivity].
    - intros E. apply bind_ok in E as (s1 & E1 & E2).
      destruct (Hx _ _ Hg E1) as [G1 O1]. destruct (IH _ _ G1 E2) as [G2 O2].
      split; [exact G2|congruence].
  Qed.

  Lemma pres_go : forall nd, pres c (go c partial macro nd).
  Proof.
    induction nd using node_ind'.
    - apply (pres_plain c (Assign k sz)). exact I.
    - intros s s' Hg. rewrite go_for. destruct (n =? 0).
      + intros E; inversion E; subst. split; [exact Hg|reflexivity].
      + apply (pres_bracket c (EnterFor n)); [exact I| |exact Hg].
        apply pres_repeat. apply pres_go_list_of. exact H.
    - intros s s' Hg E. rewrite go_tablerow in E.
      assert (E' : (do s0 <- ostep c s (CheckLoop n);;
                    around c (EnterCarry n)
                      (around c Extend (repeat_body (N.to_nat n) (go_list c partial macro body))) s0)
                   = Ok s').
      { rewrite <- E. destruct (ostep c s (CheckLoop n)); cbn [bind]; try reflexivity.
        symmetry. apply bracket2_flat. }
      refine (pres_seq c (fun s => ostep c s (CheckLoop n)) _
                (pres_plain c (CheckLoop n) I) _ s s' Hg E').
      apply pres_bracket; [exact I|]. apply pres_bracket; [exact I|].
      apply pres_repeat. apply pres_go_list_of. exact H.
    - intros s s' Hg. rewrite go_with.
      apply (pres_bracket c Extend); [exact I| |exact Hg].
      apply pres_go_list_of. exact H.
    - apply (pres_bracket c Extend); [exact I|apply Hp].
    - intros s s' Hg. cbn [go]. rewrite bracket2_flat. revert s s' Hg.
      apply pres_bracket; [exact I|]. apply pres_bracket; [exact I|].
      apply pres_repeat. apply Hp.
    - apply (pres_bracket c (EnterCopy true false)); [exact I|apply Hp].
    - intros s s' Hg. cbn [go]. rewrite bracket2_flat. revert s s' Hg.
      apply pres_bracket; [exact I|]. apply pres_bracket; [exact I|].
      apply pres_repeat. apply Hp.
    - apply Hm.
    - apply Hp.
  Qed.

  Lemma pres_go_list : forall l, pres c (go_list c partial macro l).
  Proof.
    intros l. apply pres_go_list_of. apply Forall_forall. intros x _. apply pres_go.
  Qed.
End GoBal.

(** [finep C f]: from a good state whose open brackets satisfy [C], [f] ends
    with a legitimate outcome. *)
Definition finep (c : cfg) (C : list bracket -> Prop) (f : state -> res state) : Prop :=
  forall s, good c s -> C (opened s) -> fine (f s).

Lemma finep_plain c C o : o <> Exit -> plain o -> finep c C (fun s => ostep c s o).
Proof. intros Hne Hpl s _ _. apply ostep_enter_fine; assumption. Qed.

Lemma finep_bracket c (C C' : list bracket -> Prop) o body :
  is_enter o ->
  (forall s s1, step c s o = (Ok tt, s1) -> C (opened s) -> C' (opened s1)) ->
  pres c body -> finep c C' body -> finep c C (around c o body).
Proof.
  intros Ho HC Hb Hf s Hg Hc. unfold around.
  assert (Hpl : plain o) by (destruct o; try contradiction; exact I).
  apply fine_bind; [apply ostep_enter_fine; [destruct o; try contradiction; discriminate|exact Hpl]|].
  intros s1 E1. apply ostep_ok in E1. pose proof (good_step _ _ _ _ Hg Hpl E1) as Hg1.
  apply fine_bind; [apply Hf; [exact Hg1|eapply HC; eauto]|].
  intros s2 E2. destruct (Hb _ _ Hg1 E2) as [Hg2 Ho2].
  pose proof (step_opened _ _ _ _ E1) as Hop.
  assert (exists b, opened s1 = b :: opened s) as [b Hb1]
    by (destruct o; try contradiction; eexists; exact Hop).
  rewrite Hb1 in Ho2.
  destruct (exit_ok c s2 b (opened s) Hg2 Ho2) as (s3 & E3 & _). rewrite E3. exact I.
Qed.

Lemma finep_repeat c C body :
  pres c body -> finep c C body -> forall k, finep c C (repeat_body k body).
Proof.
  intros Hb Hf. induction k as [|k IH]; intros s Hg Hc; cbn [repeat_body]; [exact I|].
  apply fine_bind; [apply Hf; assumption|]. intros s1 E1.
  destruct (Hb _ _ Hg E1) as [Hg1 Ho1]. apply IH; [exact Hg1|]. rewrite Ho1. exact Hc.
Qed.

Lemma finep_seq c C f g :
  pres c f -> finep c C f -> finep c C g -> finep c C (fun s => do s1 <- f s;; g s1).
Proof.
  intros Hp Hf Hg s Hgd Hc. apply fine_bind; [apply Hf; assumption|].
  intros s1 E1. destruct (Hp _ _ Hgd E1) as [G1 O1]. apply Hg; [exact G1|]. rewrite O1. exact Hc.
Qed.

Section GoFine.
  Variable c : cfg.
  Variables partial macro : nat -> state -> res state.
  Variable C : list bracket -> Prop.
  Hypothesis HC : forall b l, C l -> C (b :: l).
  Hypothesis Hp : forall p, pres c (partial p).
  Hypothesis Hm : forall p, pres c (macro p).
  Hypothesis Hpf : forall p, finep c C (partial p).
  Hypothesis Hmf : forall p, finep c C (macro p).

  Lemma enter_C o : is_enter o ->
    forall s s1, step c s o = (Ok tt, s1) -> C (opened s) -> C (opened s1).
  Proof.
    intros Ho s s1 E Hc. apply step_opened in E.
    destruct o; try contradiction; rewrite E; apply HC; exact Hc.
  Qed.

  Lemma finep_go_list_of body :
    Forall (fun x => finep c C (go c partial macro x)) body ->
    finep c C (go_list c partial macro body).
  Proof.
    induction 1 as [|x l Hx Hl IH]; intros s Hg Hc; cbn [go_list]; [exact I|].
    apply fine_bind; [apply Hx; assumption|]. intros s1 E1.
    destruct (pres_go c partial macro Hp Hm x _ _ Hg E1) as [G1 O1].
    apply IH; [exact G1|]. rewrite O1. exact Hc.
  Qed.

  Lemma finep_go : forall nd, finep c C (go c partial macro nd).
  Proof.
    induction nd using node_ind'.
    - apply finep_plain; [discriminate|exact I].
    - intros s Hg Hc. rewrite go_for. destruct (n =? 0); [exact I|].
      apply (finep_bracket c C C (EnterFor n)); try assumption; [exact I|apply enter_C; exact I| |].
      + apply pres_repeat. apply pres_go_list; assumption.
      + apply finep_repeat; [apply pres_go_list; assumption|]. apply finep_go_list_of. exact H.
    - intros s Hg Hc. rewrite go_tablerow.
      assert (E : (do s0 <- ostep c s (CheckLoop n);;
                   do s1 <- ostep c s0 (EnterCarry n);;
                   do s2 <- ostep c s1 Extend;;
                   do s3 <- repeat_body (N.to_nat n) (go_list c partial macro body) s2;;
                   do s4 <- ostep c s3 Exit;; ostep c s4 Exit)
                  = (do s0 <- ostep c s (CheckLoop n);;
                     around c (EnterCarry n)
                       (around c Extend (repeat_body (N.to_nat n) (go_list c partial macro body))) s0)).
      { destruct (ostep c s (CheckLoop n)); cbn [bind]; try reflexivity. apply bracket2_flat. }
      rewrite E.
      refine (finep_seq c C (fun s => ostep c s (CheckLoop n)) _
                (pres_plain c (CheckLoop n) I) (finep_plain c C (CheckLoop n) _ I) _ s Hg Hc);
        [discriminate|].
      apply (finep_bracket c C C); [exact I|apply enter_C; exact I| |].
      + apply pres_bracket; [exact I|]. apply pres_repeat. apply pres_go_list; assumption.
      + apply (finep_bracket c C C); [exact I|apply enter_C; exact I| |].
        * apply pres_repeat. apply pres_go_list; assumption.
        * apply finep_repeat; [apply pres_go_list; assumption|]. apply finep_go_list_of. exact H.
    - intros s Hg Hc. rewrite go_with.
      apply (finep_bracket c C C Extend); try assumption; [exact I|apply enter_C; exact I| |].
      + apply pres_go_list; assumption.
      + apply finep_go_list_of. exact H.
    - apply (finep_bracket c C C Extend); [exact I|apply enter_C; exact I|apply Hp|apply Hpf].
    - intros s Hg Hc. cbn [go]. rewrite bracket2_flat. revert s Hg Hc.
      apply (finep_bracket c C C); [exact I|apply enter_C; exact I| |].
      + apply pres_bracket; [exact I|]. apply pres_repeat. apply Hp.
      + apply (finep_bracket c C C); [exact I|apply enter_C; exact I| |].
        * apply pres_repeat. apply Hp.
        * apply finep_repeat; [apply Hp|apply Hpf].
    - apply (finep_bracket c C C (EnterCopy true false)); [exact I|apply enter_C; exact I|apply Hp|apply Hpf].
    - intros s Hg Hc. cbn [go]. rewrite bracket2_flat. revert s Hg Hc.
      apply (finep_bracket c C C); [exact I|apply enter_C; exact I| |].
      + apply pres_bracket; [exact I|]. apply pres_repeat. apply Hp.
      + apply (finep_bracket c C C); [exact I|apply enter_C; exact I| |].
        * apply pres_repeat. apply Hp.
        * apply finep_repeat; [apply Hp|apply Hpf].
    - apply Hmf.
    - apply Hpf.
  Qed.

  Lemma finep_go_list : forall l, finep c C (go_list c partial macro l).
  Proof.
    intros l. apply finep_go_list_of. apply Forall_forall. intros x _. apply finep_go.
  Qed.
End GoFine.

(** The two ways [exec] follows an edge of the template graph. *)
Definition partial_of (fuel : nat) (c : cfg) (env : tenv) (p : nat) (s : state) : res state :=
  match fuel with
  | O => OutOfFuel
  | S fuel' =>
      do b <- lookup env p;;
      do s1 <- ostep c s Extend;;
      do s2 <- exec fuel' c env b s1;;
      ostep c s2 Exit
  end.

Definition macro_of (fuel : nat) (c : cfg) (env : tenv) (p : nat) (s : state) : res state :=
  match fuel with
  | O => OutOfFuel
  | S fuel' =>
      do b <- lookup env p;;
      do s1 <- ostep c s (EnterCopy true false);;
      do s2 <- exec fuel' c env b s1;;
      ostep c s2 Exit
  end.

Lemma exec_eq fuel c env l s :
  exec fuel c env l s = go_list c (partial_of fuel c env) (macro_of fuel c env) l s.
Proof. destruct fuel; reflexivity. Qed.

Lemma exec_pres c env : forall fuel l, pres c (exec fuel c env l).
Proof.
  induction fuel as [|fuel IH]; intros l s s' Hg; rewrite exec_eq; revert s s' Hg;
    apply pres_go_list.
  - intros p s s' _ E. discriminate.
  - intros p s s' _ E. discriminate.
  - intros p s s' Hg. cbn [partial_of]. destruct (lookup env p) as [b| | |]; cbn [bind]; try discriminate.
    apply (pres_bracket c Extend (exec fuel c env b)); [exact I|apply IH|exact Hg].
  - intros p s s' Hg. cbn [macro_of]. destruct (lookup env p) as [b| | |]; cbn [bind]; try discriminate.
    apply (pres_bracket c (EnterCopy true false) (exec fuel c env b)); [exact I|apply IH|exact Hg].
Qed.

Definition enough (c : cfg) (fuel : nat) (l : list bracket) : Prop :=
  (depth_bound c < fuel + depth_open l)%nat.

Lemma enough_push c fuel b l : enough c fuel l -> enough c fuel (b :: l).
Proof. unfold enough. destruct b; simpl; lia. Qed.

Lemma lookup_cases env p : (exists b, lookup env p = Ok b) \/ lookup env p = LErr TemplateNotFoundError None.
Proof. unfold lookup. destruct (nth_error env p); eauto. Qed.

Lemma partial_of_pres c env fuel p : pres c (partial_of fuel c env p).
Proof.
  destruct fuel as [|fuel]; intros s s' Hg; cbn [partial_of]; [discriminate|].
  destruct (lookup env p) as [b| | |]; cbn [bind]; try discriminate.
  apply (pres_bracket c Extend (exec fuel c env b)); [exact I|apply exec_pres|exact Hg].
Qed.

Lemma macro_of_pres c env fuel p : pres c (macro_of fuel c env p).
Proof.
  destruct fuel as [|fuel]; intros s s' Hg; cbn [macro_of]; [discriminate|].
  destruct (lookup env p) as [b| | |]; cbn [bind]; try discriminate.
  apply (pres_bracket c (EnterCopy true false) (exec fuel c env b)); [exact I|apply exec_pres|exact Hg].
Qed.

Lemma exec_fine c env : forall fuel l, finep c (enough c fuel) (exec fuel c env l).
Proof.
  induction fuel as [|fuel IH]; intros l s Hg Hc.
  - exfalso. unfold enough in Hc. pose proof (good_depth_open c s Hg). lia.
  - rewrite exec_eq. revert s Hg Hc.
    apply finep_go_list.
    + apply enough_push.
    + apply partial_of_pres.
    + apply macro_of_pres.
    + intros p s Hg Hc. cbn [partial_of].
      destruct (lookup_cases env p) as [[b ->] | ->]; cbn [bind]; [|exact I].
      revert s Hg Hc.
      apply (finep_bracket c (enough c (S fuel)) (enough c fuel) Extend);
        [exact I| |apply exec_pres|apply IH].
      intros s s1 E Hc. apply step_opened in E. rewrite E. unfold enough in *. simpl. lia.
    + intros p s Hg Hc. cbn [macro_of].
      destruct (lookup_cases env p) as [[b ->] | ->]; cbn [bind]; [|exact I].
      revert s Hg Hc.
      apply (finep_bracket c (enough c (S fuel)) (enough c fuel) (EnterCopy true false));
        [exact I| |apply exec_pres|apply IH].
      intros s s1 E Hc. apply step_opened in E. rewrite E. unfold enough in *. simpl. lia.
Qed.

(** [recursion_terminates]: for every set of templates, macros and blocks —
    any graph of include / render / call / extends edges, cycles included — and
    every program, a fuel of (depth bound + 1), a number that depends on the
    context depth limit only, is enough: the render ends with success or with
    ContextDepthError / LoopIterationLimitError / LocalNamespaceLimitError /
    TemplateNotFoundError, never by exhausting the interpreter. *)
Theorem recursion_terminates : forall c env l,
  fine (exec (S (depth_bound c)) c env l init).
Proof.
  intros c env l. apply exec_fine; [apply good_init|]. unfold enough. simpl. lia.
Qed.

Corollary recursion_never_out_of_fuel : forall c env l fuel,
  (depth_bound c < fuel)%nat -> exec fuel c env l init <> OutOfFuel.
Proof.
  intros c env l fuel Hf E.
  assert (H : fine (exec fuel c env l init))
    by (apply exec_fine; [apply good_init|unfold enough; simpl; lia]).
  rewrite E in H. exact H.
Qed.

(** A successful render leaves the root context with nothing open. *)
Theorem exec_balanced : forall c env fuel l s,
  exec fuel c env l init = Ok s -> opened s = [] /\ parents s = [] /\ scope (cur s) = 4.
Proof.
  intros c env fuel l s E.
  destruct (exec_pres c env fuel l init s (good_init c) E) as [Hg Ho].
  simpl in Ho. unfold good in Hg. rewrite Ho in Hg. cbn [dinv] in Hg. tauto.
Qed.

(** * Template inheritance: the "seen" guard terminates the parent walk *)

Lemma assoc_in_keys {V} k : forall (l : list (str * V)) v, assoc k l = Some v -> In k (map fst l).
Proof.
  induction l as [|[k' v'] l IH]; intros v; simpl; [discriminate|].
  destruct (str_eqb k k') eqn:E.
  - intros _. left. apply str_eqb_eq in E. auto.
  - intros H. right. eapply IH; eauto.
Qed.


Lemma build_block_stacks_fine (ld : loader) : forall fuel seen t,
  NoDup seen -> incl seen (map fst ld) ->
  (length ld - length seen < fuel)%nat ->
  inh_fine (build_block_stacks fuel ld seen t).
Proof.
  induction fuel as [|fuel IH]; intros seen t Hnd Hin Hf; [lia|].
  cbn [build_block_stacks]. unfold stack_template_blocks.
  destruct (assoc t ld) as [[parent|]|]; cbn [bind]; try exact I.
  destruct (mem_str parent seen) eqn:M; cbn [bind]; [exact I|].
  destruct (assoc parent ld) as [x|] eqn:A; cbn [bind]; [|exact I].
  assert (Hnotin : ~ In parent seen).
  { intros Hi. apply mem_str_In in Hi. congruence. }
  assert (Hnd' : NoDup (parent :: seen)) by (constructor; assumption).
  assert (Hin' : incl (parent :: seen) (map fst ld)).
  { intros y [<-|Hy]; [eapply assoc_in_keys; eauto|apply Hin; exact Hy]. }
  pose proof (NoDup_incl_length Hnd' Hin') as Hlen. rewrite map_length in Hlen. simpl in Hlen.
  apply IH; try assumption. simpl. lia.
Qed.

(** [inheritance_terminates]: with a finite loader, following [extends] from
    any template ends within (number of templates + 1) steps with the base
    template, TemplateInheritanceError (circular extends) or
    TemplateNotFoundError — whatever the graph of parents looks like. *)
Theorem inheritance_terminates : forall (ld : loader) t,
  inh_fine (build_block_stacks (S (length ld)) ld [] t).
Proof.
  intros ld t. apply build_block_stacks_fine; [constructor|intros y []|simpl; lia].
Qed.

(** * What block.super breaks (known finding)

    [{{ block.super }}] renders the parent block with the context the block tag
    was rendered with, not with the block-scope copy that renders the
    overriding block. That context knows nothing of the loops that run around
    [{{ block.super }}] in the overriding block nor of its local variables. *)

(** The full statement of [loop_nest_bounded] is false:
    block { include-for / tablerow (5) { block.super { for (5) ... runs 25
    iterations under limit 10: the loop around block.super is counted in the
    carry of the block's context, which the outer context does not have. *)
Theorem loop_nest_bounded_refuted : exists c L ops s,
  active (loop_limit c) = Some L /\ Forall (fun o => o <> EnterCopy false false) ops /\
  render c init ops = Ok s /\ L < nest_product ops.
Proof.
  exists {| depth_limit := 30; loop_limit := Some 10; ns_limit := None |}, 10,
    [Extend; EnterCopy true true; EnterCarry 5; EnterSuper 0; EnterFor 5].
  eexists. split; [reflexivity|]. split; [repeat constructor; discriminate|].
  split; [vm_compute; reflexivity|]. vm_compute. reflexivity.
Qed.

(** The full statement of [locals_le_limit] is false: 50 bytes in the root
    context, 50 in the overriding block, then the parent block (rendered through
    block.super with the root context) assigns 40 more: 140 under limit 100. *)
Theorem locals_le_limit_refuted : exists c l ops s,
  active (ns_limit c) = Some l /\ render c init ops = Ok s /\ l < all_locals_size s.
Proof.
  exists {| depth_limit := 30; loop_limit := None; ns_limit := Some 100 |}, 100,
    [Assign [120] 50; EnterCopy true true; Assign [121] 50; EnterSuper 0; Assign [122] 40; Exit].
  eexists. split; [reflexivity|]. split; [vm_compute; reflexivity|]. vm_compute. reflexivity.
Qed.

(** A [for] loop around block.super IS counted since the block-scoped copy
    continues the loop list of the outer context (e5160a7): block { for (5) {
    block.super { for (5) is refused under limit 10. *)
Theorem super_inside_for_is_counted :
  render {| depth_limit := 30; loop_limit := Some 10; ns_limit := None |} init
    [Extend; EnterCopy true true; EnterFor 5; EnterSuper 0; EnterFor 5]
  = LErr LoopIterationLimitError None.
Proof. reflexivity. Qed.

(** The depth test is applied to the context block.super extends. *)
Theorem super_depth_limit_raises : forall c s k t,
  nth_error (parents s) k = Some t -> depth_limit c < scope t ->
  fst (step c s (EnterSuper k)) = LErr ContextDepthError None.
Proof.
  intros c s k t Hn Hlt. cbn [step]. rewrite Hn. unfold extend_check.
  destruct (N.ltb_spec (depth_limit c) (scope t)); [reflexivity|lia].
Qed.

(** Leaving the parent block restores the suspended contexts exactly. *)
Theorem super_exit_restores : forall c s k s1,
  step c s (EnterSuper k) = (Ok tt, s1) ->
  (k < length (parents s))%nat /\
  exists s2, step c s1 Exit = (Ok tt, s2) /\ s2 = s.
Proof.
  intros c s k s1. cbn [step]. destruct (nth_error (parents s) k) as [t|] eqn:Hn; [|discriminate].
  destruct (extend_check c t) as [[]| | |]; try discriminate.
  intros E; inversion E; subst. clear E.
  split; [apply nth_error_Some; congruence|].
  eexists. split; [reflexivity|].
  unfold exit_bracket. cbn [cur parents groups opened].
  destruct s as [f ps gs op]. cbn [cur parents groups opened] in *.
  assert (set_scope (set_scope t (scope t + 1)) (N.pred (scope (set_scope t (scope t + 1)))) = t) as ->
    by apply set_scope_undo.
  rewrite firstn_skipn. f_equal. f_equal.
  clear -Hn. revert k Hn. induction ps as [|p ps IH]; intros [|k]; simpl; try discriminate.
  - intros E; inversion E; reflexivity.
  - intros E. f_equal. apply IH. exact E.
Qed.

(** * Non-vacuity *)

Definition cfg_ex : cfg := {| depth_limit := 6; loop_limit := Some 10; ns_limit := Some 100 |}.

(** for (2) { render { for (5) { assign } } } is fine under limit 10 ... *)
Example nest_ok_example :
  let ops := [Extend; EnterFor 2; EnterCopy true false; Extend; EnterFor 5; Assign [120] 28] in
  exists s, render cfg_ex init ops = Ok s /\ nest_product ops = 10
            /\ eff s = 10 /\ all_locals_size s = 28 /\ depth_open (opened s) = 5%nat.
Proof. eexists. vm_compute. repeat split; reflexivity. Qed.

(** ... render-for (3) { for (4) } is refused (12 > 10) at the inner loop,
    although neither 3 nor 4 exceeds the limit (defect 22, fixed) ... *)
Example nest_refused_example :
  render cfg_ex init [Extend; EnterCopy true false; EnterCarry 3; Extend; EnterFor 4]
  = LErr LoopIterationLimitError None
  /\ exists s, render cfg_ex init [Extend; EnterCopy true false; EnterCarry 3; Extend] = Ok s
               /\ nest_product [Extend; EnterCopy true false; EnterCarry 3; Extend] = 3.
Proof. split; [reflexivity|]. eexists. vm_compute. split; reflexivity. Qed.

(** ... a self-including template stops with ContextDepthError, a
    self-rendering one too, a render/include/call cycle of three templates
    too, with fuel (6+2)^2+1 = 65 ... *)
Example cyclic_examples :
  exec (S (depth_bound cfg_ex)) cfg_ex [[NInclude 0]] [NInclude 0] init = LErr ContextDepthError None
  /\ exec (S (depth_bound cfg_ex)) cfg_ex [[NRender 0]] [NRender 0] init = LErr ContextDepthError None
  /\ exec (S (depth_bound cfg_ex)) cfg_ex
       [[NFor 1 [NRender 1]]; [NInclude 2]; [NCall 0]] [NRender 0] init
     = LErr ContextDepthError None
  /\ depth_bound cfg_ex = 64%nat.
Proof. vm_compute. repeat split; reflexivity. Qed.

(** ... an acyclic program succeeds and is balanced ... *)
Example acyclic_example :
  exists s, exec 3 {| depth_limit := 10; loop_limit := Some 10; ns_limit := Some 100 |}
              [[NFor 2 [NAssign [121] 30]]; [NTablerow 2 [NInclude 0]]]
              [NAssign [120] 28; NRenderFor 2 1; NIncludeFor 1 0] init = Ok s
            /\ opened s = [] /\ locals (cur s) = [([120], 28); ([121], 30)].
Proof. eexists. vm_compute. repeat split; reflexivity. Qed.

(** ... the namespace limit counts the locals of the copying context ... *)
Example ns_example :
  render cfg_ex init [Assign [120] 60; EnterCopy true false; Assign [121] 41]
  = LErr LocalNamespaceLimitError None
  /\ exists s, render cfg_ex init [Assign [120] 60; EnterCopy true false; Assign [121] 40] = Ok s
               /\ all_locals_size s = 100.
Proof. split; [reflexivity|]. eexists. vm_compute. split; reflexivity. Qed.

(** ... and circular / linear inheritance chains. *)
Example inheritance_examples :
  build_block_stacks 4 [([97], Some [98]); ([98], Some [99]); ([99], Some [97])] [] [97]
  = LErr TemplateInheritanceError None
  /\ build_block_stacks 4 [([97], Some [98]); ([98], Some [99]); ([99], None)] [] [97] = Ok [99]
  /\ build_block_stacks 2 [([97], Some [97])] [] [97] = LErr TemplateInheritanceError None.
Proof. vm_compute. repeat split; reflexivity. Qed.

Example relaxed_example : relaxed cfg_ex (unlimited 30) /\ relaxed cfg_ex cfg_ex.
Proof. unfold relaxed, cfg_ex, unlimited; simpl. repeat split; lia. Qed.

(** A block inside a loop of the base template, overridden by a block with a
    loop: the block's context continues the loop list, the nest is counted once. *)
Example block_scope_copy_example :
  (exists s, render cfg_ex init [Extend; EnterFor 3; EnterCopy true true; EnterFor 3] = Ok s
             /\ eff s = 9 /\ cur_loops s = [3; 3] /\ carry (cur s) = 1)
  /\ render cfg_ex init [Extend; EnterFor 3; EnterCopy true true; EnterFor 4]
     = LErr LoopIterationLimitError None.
Proof. split; [eexists; vm_compute; repeat split; reflexivity|reflexivity]. Qed.
