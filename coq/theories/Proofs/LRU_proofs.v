(** Proofs about Kernels/LRU.v: invariant, refinement to the recency-list spec. *)
From LQ Require Import Base.Str Kernels.LRU.
From Coq Require Import Lia.

Section P.
Context {V : Type}.
Implicit Types (l : list (str * V)) (c : lru V).

(** ** association-list facts *)

Lemma assoc_None_notin k l : assoc k l = None <-> ~ In k (keys l).
Proof.
  induction l as [|[k' v] l IH]; simpl; [tauto|].
  destruct (str_eqb k k') eqn:E.
  - apply str_eqb_eq in E; subst. split; [discriminate|intro H; exfalso; apply H; auto].
  - apply str_eqb_neq in E. rewrite IH. split; intro H.
    + intros [H1|H1]; [congruence|auto].
    + intro H1; apply H; auto.
Qed.

Lemma assoc_Some_in k v l : assoc k l = Some v -> In k (keys l).
Proof.
  intro H. destruct (in_dec (list_eq_dec N.eq_dec) k (keys l)) as [i|n]; [exact i|].
  apply assoc_None_notin in n. congruence.
Qed.

Lemma remove_key_notin k l : ~ In k (keys l) -> remove_key k l = l.
Proof.
  induction l as [|[k' v] l IH]; simpl; intro H; [reflexivity|].
  destruct (str_eqb k k') eqn:E.
  - apply str_eqb_eq in E; subst. exfalso; apply H; auto.
  - f_equal. apply IH. intro; apply H; auto.
Qed.

Lemma keys_remove_key_subset k k0 l : In k0 (keys (remove_key k l)) -> In k0 (keys l) /\ k0 <> k.
Proof.
  induction l as [|[k' v] l IH]; simpl; [tauto|].
  destruct (str_eqb k k') eqn:E.
  - apply str_eqb_eq in E; subst. intro H; apply IH in H. tauto.
  - apply str_eqb_neq in E. simpl. intros [H|H]; [subst; split; auto; congruence|].
    apply IH in H. tauto.
Qed.

Lemma keys_remove_key_in k k0 l : In k0 (keys l) -> k0 <> k -> In k0 (keys (remove_key k l)).
Proof.
  induction l as [|[k' v] l IH]; simpl; [tauto|]. intros H N.
  destruct (str_eqb k k') eqn:E.
  - apply str_eqb_eq in E; subst. destruct H as [H|H]; [congruence|auto].
  - simpl. destruct H as [H|H]; auto.
Qed.

Lemma NoDup_remove_key k l : NoDup (keys l) -> NoDup (keys (remove_key k l)).
Proof.
  induction l as [|[k' v] l IH]; simpl; intro H; [constructor|].
  inversion H as [|? ? Hn Hd]; subst.
  destruct (str_eqb k k'); [auto|]. simpl. constructor; [|auto].
  intro Hi. apply keys_remove_key_subset in Hi. tauto.
Qed.

Lemma length_remove_key_present k v l :
  NoDup (keys l) -> assoc k l = Some v -> S (length (remove_key k l)) = length l.
Proof.
  induction l as [|[k' v'] l IH]; simpl; intros Hd H; [discriminate|].
  inversion Hd as [|? ? Hn Hd']; subst.
  destruct (str_eqb k k') eqn:E.
  - apply str_eqb_eq in E; subst. rewrite remove_key_notin; auto.
  - simpl. f_equal. apply IH; auto.
Qed.

Lemma keys_app l1 l2 : keys (l1 ++ l2) = keys l1 ++ keys l2.
Proof. unfold keys. apply map_app. Qed.

Lemma keys_rev l : keys (rev l) = rev (keys l).
Proof. unfold keys. apply map_rev. Qed.

Lemma assoc_app k l1 l2 :
  assoc k (l1 ++ l2) = match assoc k l1 with Some v => Some v | None => assoc k l2 end.
Proof.
  induction l1 as [|[k' v] l1 IH]; simpl; [reflexivity|].
  destruct (str_eqb k k'); auto.
Qed.

Lemma assoc_rev k l : NoDup (keys l) -> assoc k (rev l) = assoc k l.
Proof.
  induction l as [|[k' v] l IH]; simpl; intro H; [reflexivity|].
  inversion H as [|? ? Hn Hd]; subst.
  rewrite assoc_app, IH by assumption. simpl.
  destruct (str_eqb k k') eqn:E.
  - apply str_eqb_eq in E; subst.
    apply assoc_None_notin in Hn. rewrite Hn. reflexivity.
  - destruct (assoc k l); reflexivity.
Qed.

Lemma remove_key_app k l1 l2 : remove_key k (l1 ++ l2) = remove_key k l1 ++ remove_key k l2.
Proof.
  induction l1 as [|[k' v] l1 IH]; simpl; [reflexivity|].
  destruct (str_eqb k k'); simpl; rewrite IH; reflexivity.
Qed.

Lemma remove_key_rev k l : remove_key k (rev l) = rev (remove_key k l).
Proof.
  induction l as [|[k' v] l IH]; simpl; [reflexivity|].
  rewrite remove_key_app, IH. simpl.
  destruct (str_eqb k k'); simpl; [rewrite app_nil_r|]; reflexivity.
Qed.

Lemma NoDup_keys_snoc k v l : NoDup (keys l) -> ~ In k (keys l) -> NoDup (keys (l ++ [(k, v)])).
Proof.
  intros Hd Hn. rewrite keys_app. simpl.
  apply NoDup_rev in Hd. rewrite <- (rev_involutive (keys l ++ [k])).
  apply NoDup_rev. rewrite rev_app_distr. simpl. constructor; [|exact Hd].
  rewrite <- in_rev. exact Hn.
Qed.

Lemma NoDup_tl {A} (xs : list A) : NoDup xs -> NoDup (tl xs).
Proof. destruct xs; simpl; intro H; [constructor|inversion H; auto]. Qed.

Lemma keys_tl l : keys (tl l) = tl (keys l).
Proof. destruct l; reflexivity. Qed.

Lemma In_tl {A} (x : A) (xs : list A) : In x (tl xs) -> In x xs.
Proof. destruct xs; simpl; auto. Qed.

(** ** the invariant *)

Definition lru_inv c : Prop :=
  NoDup (keys (od c)) /\ length (od c) <= cap c /\ 1 <= cap c.

Lemma lru_empty_inv n : 1 <= n -> lru_inv (lru_empty (V:=V) n).
Proof. intro H. repeat split; simpl; [constructor|lia|exact H]. Qed.

Lemma not_in_remove_key k l : ~ In k (keys (remove_key k l)).
Proof. intro H. apply keys_remove_key_subset in H. tauto. Qed.

Lemma move_to_end_props k v v0 l :
  NoDup (keys l) -> assoc k l = Some v0 ->
  NoDup (keys (od_move_to_end k v l)) /\ length (od_move_to_end k v l) = length l.
Proof.
  intros Hd Ha. unfold od_move_to_end. split.
  - apply NoDup_keys_snoc; [apply NoDup_remove_key; exact Hd|apply not_in_remove_key].
  - rewrite app_length. simpl. rewrite <- (length_remove_key_present k v0 l Hd Ha). lia.
Qed.

Lemma lru_get_inv c k v c' : lru_inv c -> lru_get c k = Some (v, c') -> lru_inv c' /\ cap c' = cap c.
Proof.
  intros (Hd & Hl & Hc). unfold lru_get. destruct (assoc k (od c)) as [v0|] eqn:Ha; [|discriminate].
  intro E; inversion E; subst; clear E. simpl.
  destruct (move_to_end_props k v v (od c) Hd Ha) as [H1 H2].
  split; [repeat split; simpl; [exact H1|rewrite H2; exact Hl|exact Hc]|reflexivity].
Qed.

Lemma lru_set_inv c k v : lru_inv c -> lru_inv (lru_set c k v) /\ cap (lru_set c k v) = cap c.
Proof.
  intros (Hd & Hl & Hc). unfold lru_set.
  destruct (assoc k (od c)) as [v0|] eqn:Ha; simpl.
  - destruct (move_to_end_props k v v0 (od c) Hd Ha) as [H1 H2].
    split; [repeat split; simpl; [exact H1|rewrite H2; exact Hl|exact Hc]|reflexivity].
  - apply assoc_None_notin in Ha.
    split; [|reflexivity].
    destruct (Nat.leb (cap c) (length (od c))) eqn:E; repeat split; simpl.
    + apply NoDup_keys_snoc.
      * rewrite keys_tl. apply NoDup_tl. exact Hd.
      * rewrite keys_tl. intro H; apply In_tl in H. contradiction.
    + rewrite app_length. simpl. destruct (od c); simpl in *; lia.
    + exact Hc.
    + apply NoDup_keys_snoc; assumption.
    + rewrite app_length. simpl. apply Nat.leb_gt in E. lia.
    + exact Hc.
Qed.

Lemma od_mutate_keys k f l : keys (od_mutate k f l) = keys l.
Proof.
  induction l as [|[k' v] l IH]; simpl; [reflexivity|].
  destruct (str_eqb k k'); simpl; [reflexivity|f_equal; exact IH].
Qed.

Lemma od_mutate_length k f l : length (od_mutate k f l) = length l.
Proof.
  induction l as [|[k' v] l IH]; simpl; [reflexivity|].
  destruct (str_eqb k k'); simpl; [reflexivity|f_equal; exact IH].
Qed.

Lemma lru_mutate_inv c k f : lru_inv c -> lru_inv (lru_mutate c k f).
Proof.
  intros (Hd & Hl & Hc). repeat split; simpl.
  - rewrite od_mutate_keys. exact Hd.
  - rewrite od_mutate_length. exact Hl.
  - exact Hc.
Qed.

(** ** refinement to the recency-list specification *)

Theorem lru_get_refines c k :
  lru_inv c ->
  match lru_get c k with
  | Some (v, c') => spec_get (lru_abs c) k = Some (v, lru_abs c')
  | None => spec_get (lru_abs c) k = None
  end.
Proof.
  intros (Hd & _ & _). unfold lru_get, spec_get, lru_abs.
  rewrite assoc_rev by exact Hd.
  destruct (assoc k (od c)) as [v|]; [|reflexivity]. simpl.
  unfold od_move_to_end, spec_use. rewrite rev_app_distr. simpl.
  rewrite remove_key_rev. reflexivity.
Qed.

Lemma firstn_all_le {A} n (xs : list A) : length xs <= n -> firstn n xs = xs.
Proof. intro H. apply firstn_all2. exact H. Qed.

Theorem lru_set_refines c k v :
  lru_inv c -> lru_abs (lru_set c k v) = spec_set (cap c) (lru_abs c) k v.
Proof.
  intros (Hd & Hl & Hc). unfold lru_set, spec_set, spec_use, lru_abs.
  destruct (assoc k (od c)) as [v0|] eqn:Ha; simpl.
  - unfold od_move_to_end. rewrite rev_app_distr. simpl. rewrite remove_key_rev.
    symmetry. apply firstn_all_le. simpl. rewrite rev_length.
    rewrite (length_remove_key_present k v0 (od c) Hd Ha). exact Hl.
  - apply assoc_None_notin in Ha.
    rewrite remove_key_rev, (remove_key_notin k (od c) Ha).
    destruct (Nat.leb (cap c) (length (od c))) eqn:E.
    + apply Nat.leb_le in E. assert (El : length (od c) = cap c) by lia.
      rewrite rev_app_distr. simpl.
      destruct (cap c) as [|n] eqn:Ec; [lia|]. simpl. f_equal.
      destruct (od c) as [|x l]; simpl in *; [lia|].
      rewrite firstn_app. rewrite rev_length.
      assert (length l = n) by lia. subst n.
      rewrite Nat.sub_diag. simpl. rewrite app_nil_r.
      apply eq_sym, firstn_all_le. rewrite rev_length. lia.
    + apply Nat.leb_gt in E. rewrite rev_app_distr. simpl.
      symmetry. apply firstn_all_le. simpl. rewrite rev_length. lia.
Qed.

(** Eviction removes exactly the least recently used entry: after inserting a
    new key into a full cache, the recency list is the new entry followed by
    the old list without its last element. *)
Theorem lru_evicts_least_recent c k v :
  lru_inv c -> assoc k (od c) = None -> length (od c) = cap c ->
  lru_abs (lru_set c k v) = (k, v) :: removelast (lru_abs c).
Proof.
  intros Hi Ha Hfull. rewrite lru_set_refines by exact Hi.
  destruct Hi as (Hd & Hl & Hc). unfold spec_set, spec_use, lru_abs.
  apply assoc_None_notin in Ha.
  rewrite remove_key_rev, (remove_key_notin k (od c) Ha).
  destruct (cap c) as [|n] eqn:Ec; [lia|]. simpl. f_equal.
  destruct (od c) as [|x l]; simpl in *; [lia|].
  rewrite removelast_app by discriminate. simpl. rewrite app_nil_r.
  rewrite firstn_app, rev_length. assert (length l = n) by lia. subst n.
  rewrite Nat.sub_diag. simpl. rewrite app_nil_r.
  apply firstn_all_le. rewrite rev_length. lia.
Qed.

End P.
