(** Proofs/CrossModel_decimal.v — two independently written renderings of Python's
    [str(int)] are the same function on ALL integers: [Core.Value.str_of_Z]
    (repeated division by ten, C01/C07 interpreter) and [FVal.z_to_str] (the
    standard library's binary-to-decimal conversion, C19/C02 filter kernels). *)
From LQ Require Import Base.Str Core.Value Core.Render Proofs.Value_decimal.
From LQ Require Kernels.FVal.
From Coq Require Import ZArith NArith List Lia Bool Decimal.
From Coq Require Ascii String DecimalString DecimalPos DecimalZ DecimalFacts.
Import DecimalString DecimalPos.
Import ListNotations.
Local Open Scope N_scope.

Definition digit_of (k : N) (d : uint) : uint :=
  match k with
  | 0 => D0 d | 1 => D1 d | 2 => D2 d | 3 => D3 d | 4 => D4 d
  | 5 => D5 d | 6 => D6 d | 7 => D7 d | 8 => D8 d | _ => D9 d
  end.

Fixpoint uint_of_digits (s : str) : uint :=
  match s with
  | [] => Nil
  | c :: s' => digit_of (c - 48) (uint_of_digits s')
  end.

Definition is_digit (c : N) : bool := (48 <=? c) && (c <=? 57).

Lemma digit_cases c : is_digit c = true ->
  c = 48 \/ c = 49 \/ c = 50 \/ c = 51 \/ c = 52 \/ c = 53 \/ c = 54 \/ c = 55 \/ c = 56 \/ c = 57.
Proof. unfold is_digit. intro H. apply andb_true_iff in H. destruct H as [A B].
  apply N.leb_le in A. apply N.leb_le in B. lia. Qed.

(** (A) printing the decimal number gives the digit string back *)
Lemma string_of_digits s : forallb is_digit s = true ->
  FVal.s2l (NilEmpty.string_of_uint (uint_of_digits s)) = s.
Proof.
  induction s as [|c s IH]; [reflexivity|].
  cbn [forallb]. intro H. apply andb_true_iff in H. destruct H as [Hc Hs].
  specialize (IH Hs). cbn [uint_of_digits].
  destruct (digit_cases c Hc) as [E|[E|[E|[E|[E|[E|[E|[E|[E|E]]]]]]]]]; subst c;
    cbn; unfold FVal.s2l in IH; rewrite IH; reflexivity.
Qed.

Lemma usize_digits s : Unsigned.usize (uint_of_digits s) = N.of_nat (length s).
Proof.
  induction s as [|c s IH]; [reflexivity|].
  cbn [uint_of_digits length]. rewrite Nat2N.inj_succ, <- IH.
  unfold digit_of. destruct (c - 48) as [|p]; [reflexivity|].
  do 4 (destruct p as [p|p|]; try reflexivity).
Qed.

(** (B) its value is what reading the digits gives *)
Lemma digits_val_of_lu s : forallb is_digit s = true -> forall acc,
  digits_val s acc =
  Some (acc * 10 ^ Z.of_nat (length s) + Z.of_N (Unsigned.of_lu (Decimal.rev (uint_of_digits s))))%Z.
Proof.
  induction s as [|c s IH]; intros Hs acc.
  - cbn. f_equal. lia.
  - cbn [forallb] in Hs. apply andb_true_iff in Hs. destruct Hs as [Hc Hs].
    cbn [digits_val]. unfold is_digit in Hc. rewrite Hc. rewrite (IH Hs). f_equal.
    cbn [uint_of_digits length]. rewrite Nat2Z.inj_succ, Z.pow_succ_r by lia.
    assert (Hrev : Unsigned.of_lu (Decimal.rev (digit_of (c - 48) (uint_of_digits s)))
                   = Unsigned.of_lu (Decimal.rev (uint_of_digits s)) + (c - 48) * 10 ^ N.of_nat (length s)).
    { rewrite <- usize_digits.
      fold (is_digit c) in Hc.
      assert (Hk : c - 48 < 10) by (destruct (digit_cases c Hc) as [E|[E|[E|[E|[E|[E|[E|[E|[E|E]]]]]]]]]; subst c; reflexivity).
      generalize dependent (c - 48). intros k Hk.
      assert (D : k = 0 \/ k = 1 \/ k = 2 \/ k = 3 \/ k = 4 \/ k = 5 \/ k = 6 \/ k = 7 \/ k = 8 \/ k = 9) by lia.
      destruct D as [E|[E|[E|[E|[E|[E|[E|[E|[E|E]]]]]]]]]; subst k;
        unfold Decimal.rev; cbn [digit_of revapp];
        rewrite Unsigned.of_lu_revapp; reflexivity. }
    rewrite Hrev. rewrite N2Z.inj_add, N2Z.inj_mul, N2Z.inj_pow, nat_N_Z.
    change (Z.of_N 10) with 10%Z. ring.
Qed.

Lemma of_uint_digits s : forallb is_digit s = true ->
  digits_val s 0 = Some (Z.of_N (Pos.of_uint (uint_of_digits s))).
Proof.
  intro H. rewrite (digits_val_of_lu s H 0). rewrite Unsigned.of_uint_alt. f_equal.
Qed.

(** the digits [pos_digits] writes *)
Lemma pos_digits_digits fuel : forall n acc,
  forallb is_digit acc = true -> forallb is_digit (pos_digits fuel n acc) = true.
Proof.
  induction fuel as [|f IH]; intros n acc Ha; [exact Ha|].
  cbn [pos_digits].
  assert (Hd : is_digit (48 + n mod 10) = true).
  { pose proof (N.mod_lt n 10) as H. generalize dependent (n mod 10). intros m H.
    unfold is_digit. apply andb_true_iff; split; apply N.leb_le; lia. }
  destruct (n / 10 =? 0).
  - cbn [forallb]. rewrite Hd, Ha. reflexivity.
  - apply IH. cbn [forallb]. rewrite Hd, Ha. reflexivity.
Qed.

(** no leading zero *)
Lemma pos_digits_head_nonzero fuel : forall n acc,
  n < 2 ^ N.of_nat fuel -> (0 < fuel)%nat -> n <> 0 ->
  exists c s, pos_digits fuel n acc = c :: s /\ c <> 48 /\ is_digit c = true.
Proof.
  induction fuel as [|f IH]; intros n acc Hn Hf Hnz; [lia|].
  cbn [pos_digits].
  assert (Hdm : n = 10 * (n / 10) + n mod 10) by (apply N.div_mod; discriminate).
  assert (Hm : n mod 10 < 10) by (apply N.mod_lt; discriminate).
  assert (Hlt : n / 10 < 2 ^ N.of_nat f).
  { rewrite Nat2N.inj_succ, N.pow_succ_r' in Hn.
    apply N.div_lt_upper_bound; [discriminate|]. lia. }
  remember (n mod 10) as m eqn:Em. remember (n / 10) as q eqn:Eq. clear Em Eq.
  destruct (q =? 0) eqn:E.
  - apply N.eqb_eq in E. exists (48 + m), acc. split; [reflexivity|].
    split; [lia|]. unfold is_digit. apply andb_true_iff; split; apply N.leb_le; lia.
  - apply N.eqb_neq in E. apply IH; [exact Hlt| |exact E].
    destruct f; [|lia]. change (2 ^ N.of_nat 0) with 1 in Hlt. lia.
Qed.

Lemma unorm_nonzero_head c s : c <> 48 -> is_digit c = true ->
  unorm (uint_of_digits (c :: s)) = uint_of_digits (c :: s)
  /\ nzhead (uint_of_digits (c :: s)) = uint_of_digits (c :: s)
  /\ uint_of_digits (c :: s) <> Nil.
Proof.
  intros Hc Hd. cbn [uint_of_digits].
  destruct (digit_cases c Hd) as [E|[E|[E|[E|[E|[E|[E|[E|[E|E]]]]]]]]]; subst c;
    try contradiction; cbn; repeat split; discriminate.
Qed.

(** the standard library's conversion of a positive number is the digit string of [str_of_N] *)
Lemma to_uint_str_of_N p : Pos.to_uint p = uint_of_digits (str_of_N (Npos p)).
Proof.
  pose proof (str_of_N_val (Npos p)) as Hval.
  assert (Hdig : forallb is_digit (str_of_N (Npos p)) = true)
    by (apply pos_digits_digits; reflexivity).
  destruct (pos_digits_head_nonzero (S (N.to_nat (N.log2 (Npos p)))) (Npos p) []) as (c & s & E & Hc & Hd).
  { rewrite Nat2N.inj_succ, N2Nat.id. apply N.log2_spec. reflexivity. }
  { lia. }
  { discriminate. }
  fold (str_of_N (Npos p)) in E.
  rewrite (of_uint_digits _ Hdig) in Hval. inversion Hval as [Hv]. change (Z.pos p) with (Z.of_N (N.pos p)) in Hv. apply N2Z.inj in Hv.
  pose proof (Unsigned.to_of (uint_of_digits (str_of_N (Npos p)))) as Hto.
  rewrite Hv in Hto. cbn [N.to_uint] in Hto. rewrite Hto. rewrite E.
  apply (unorm_nonzero_head c s Hc Hd).
Qed.

Lemma string_of_uint_digits c s : forallb is_digit (c :: s) = true ->
  FVal.s2l (NilZero.string_of_uint (uint_of_digits (c :: s))) = c :: s.
Proof.
  intro H. rewrite <- (string_of_digits (c :: s) H) at 2.
  unfold NilZero.string_of_uint.
  destruct (uint_of_digits (c :: s)) eqn:E; try reflexivity.
  exfalso. cbn [uint_of_digits] in E. unfold digit_of in E.
  destruct (c - 48) as [|q]; [discriminate|]. do 4 (destruct q as [q|q|]; try discriminate).
Qed.

Theorem str_of_Z_models_agree (z : Z) : str_of_Z z = FVal.z_to_str z.
Proof.
  destruct z as [|p|p]; [reflexivity| |].
  - unfold FVal.z_to_str. cbn [Z.to_int NilZero.string_of_int str_of_Z].
    rewrite to_uint_str_of_N.
    assert (Hdig : forallb is_digit (str_of_N (Npos p)) = true)
      by (apply pos_digits_digits; reflexivity).
    destruct (str_of_N (Npos p)) as [|c s] eqn:E.
    + exfalso. revert E. apply pos_digits_nonempty. lia.
    + symmetry. apply string_of_uint_digits. exact Hdig.
  - unfold FVal.z_to_str. cbn [Z.to_int NilZero.string_of_int str_of_Z].
    rewrite to_uint_str_of_N.
    assert (Hdig : forallb is_digit (str_of_N (Npos p)) = true)
      by (apply pos_digits_digits; reflexivity).
    destruct (str_of_N (Npos p)) as [|c s] eqn:E.
    + exfalso. revert E. apply pos_digits_nonempty. lia.
    + unfold FVal.s2l. cbn [String.list_ascii_of_string map]. fold (FVal.s2l (NilZero.string_of_uint (uint_of_digits (c :: s)))).
      rewrite (string_of_uint_digits c s Hdig). reflexivity.
Qed.

(** * The other kernels' printers

    Json.Z_dec (C20), Undefined.str_of_Z (C16), Markup.Z_to_str (C04),
    Printer.show_Z (C12) and ObjAccess.z_to_str (C05) are five more
    transcriptions of [str(int)]; all seven denote one function. *)
From LQ Require Kernels.Json Kernels.Undefined Kernels.Markup Kernels.Printer Kernels.ObjAccess.

Lemma pos_digits_fuel f1 : forall f2 n acc,
  n < 2 ^ N.of_nat f1 -> n < 2 ^ N.of_nat f2 -> (0 < f1)%nat -> (0 < f2)%nat ->
  pos_digits f1 n acc = pos_digits f2 n acc.
Proof.
  induction f1 as [|f1 IH]; intros f2 n acc H1 H2 P1 P2; [lia|].
  destruct f2 as [|f2]; [lia|].
  cbn [pos_digits].
  destruct (n / 10 =? 0) eqn:E; [reflexivity|].
  apply N.eqb_neq in E.
  assert (Q1 : n / 10 < 2 ^ N.of_nat f1).
  { rewrite Nat2N.inj_succ, N.pow_succ_r' in H1. apply N.div_lt_upper_bound; [discriminate|]. lia. }
  assert (Q2 : n / 10 < 2 ^ N.of_nat f2).
  { rewrite Nat2N.inj_succ, N.pow_succ_r' in H2. apply N.div_lt_upper_bound; [discriminate|]. lia. }
  remember (n / 10) as q eqn:Eq. clear Eq.
  apply IH; try assumption.
  - destruct f1; [|lia]. change (2 ^ N.of_nat 0) with 1 in Q1. lia.
  - destruct f2; [|lia]. change (2 ^ N.of_nat 0) with 1 in Q2. lia.
Qed.

Lemma small_iff n : (n <? 10) = (n / 10 =? 0).
Proof.
  destruct (N.ltb_spec n 10) as [H|H].
  - symmetry. apply N.eqb_eq. apply N.div_small. exact H.
  - symmetry. apply N.eqb_neq. intro K. apply N.div_small_iff in K; [lia|discriminate].
Qed.

Lemma undefined_dec_aux f : forall n acc, Undefined.dec_aux f n acc = pos_digits f n acc.
Proof.
  induction f as [|f IH]; intros n acc; [reflexivity|].
  cbn [Undefined.dec_aux pos_digits]. rewrite small_iff. destruct (n / 10 =? 0); [reflexivity|apply IH].
Qed.

Lemma json_dec_digits f : forall n acc, Json.dec_digits f n acc = pos_digits f n acc.
Proof.
  induction f as [|f IH]; intros n acc; [reflexivity|].
  cbn [Json.dec_digits pos_digits]. rewrite small_iff.
  destruct (n / 10 =? 0) eqn:E; [|apply IH].
  apply N.eqb_eq in E. apply N.div_small_iff in E; [|discriminate].
  rewrite (N.mod_small n 10 E). reflexivity.
Qed.

Lemma pos_lt_pow_size p : Npos p < 2 ^ N.of_nat (Pos.size_nat p).
Proof.
  induction p as [p IH|p IH|]; cbn [Pos.size_nat]; rewrite ?Nat2N.inj_succ, ?N.pow_succ_r'; try lia; try reflexivity.
Qed.

Lemma lt_pow_log2 p : Npos p < 2 ^ N.of_nat (S (N.to_nat (N.log2 (Npos p)))).
Proof. rewrite Nat2N.inj_succ, N2Nat.id. apply N.log2_spec. reflexivity. Qed.

Lemma undefined_dec_of_N p : Undefined.dec_of_N (Npos p) = str_of_N (Npos p).
Proof.
  unfold Undefined.dec_of_N, str_of_N. rewrite undefined_dec_aux.
  apply pos_digits_fuel; try lia; [|apply lt_pow_log2].
  cbn [N.size_nat]. rewrite Nat2N.inj_succ, N.pow_succ_r'. pose proof (pos_lt_pow_size p). lia.
Qed.

Lemma json_N_dec p : Json.N_dec (Npos p) = str_of_N (Npos p).
Proof.
  unfold Json.N_dec, str_of_N. rewrite json_dec_digits.
  apply pos_digits_fuel; try lia; [|apply lt_pow_log2].
  rewrite Nat2N.inj_succ, N2Nat.id, N.pow_succ_r'. pose proof (N.size_gt (Npos p)). lia.
Qed.

Lemma markup_uint_digits s : forallb is_digit s = true -> Markup.uint_digits (uint_of_digits s) = s.
Proof.
  induction s as [|c s IH]; [reflexivity|].
  cbn [forallb]. intro H. apply andb_true_iff in H. destruct H as [Hc Hs].
  specialize (IH Hs). cbn [uint_of_digits].
  destruct (digit_cases c Hc) as [E|[E|[E|[E|[E|[E|[E|[E|[E|E]]]]]]]]]; subst c; cbn; rewrite IH; reflexivity.
Qed.

Lemma printer_uint_digits s : forallb is_digit s = true -> Printer.uint_digits (uint_of_digits s) = s.
Proof.
  induction s as [|c s IH]; [reflexivity|].
  cbn [forallb]. intro H. apply andb_true_iff in H. destruct H as [Hc Hs].
  specialize (IH Hs). cbn [uint_of_digits].
  destruct (digit_cases c Hc) as [E|[E|[E|[E|[E|[E|[E|[E|[E|E]]]]]]]]]; subst c; cbn; rewrite IH; reflexivity.
Qed.

Theorem integer_renderings_all_agree (z : Z) :
  FVal.z_to_str z = str_of_Z z
  /\ ObjAccess.z_to_str z = str_of_Z z
  /\ Undefined.str_of_Z z = str_of_Z z
  /\ Json.Z_dec z = str_of_Z z
  /\ Markup.Z_to_str z = str_of_Z z
  /\ Printer.show_Z z = str_of_Z z.
Proof.
  assert (Hdig : forall p, forallb is_digit (str_of_N (Npos p)) = true)
    by (intro p; apply pos_digits_digits; reflexivity).
  split; [symmetry; apply str_of_Z_models_agree|].
  split; [change (ObjAccess.z_to_str z) with (FVal.z_to_str z); symmetry; apply str_of_Z_models_agree|].
  destruct z as [|p|p]; repeat split; try reflexivity.
  - unfold Undefined.str_of_Z. cbn [Z.ltb Z.compare Z.to_N]. apply undefined_dec_of_N.
  - cbn [Json.Z_dec str_of_Z]. apply json_N_dec.
  - cbn [Markup.Z_to_str str_of_Z]. unfold Markup.N_to_str. cbn [N.to_uint].
    rewrite to_uint_str_of_N. apply markup_uint_digits. apply Hdig.
  - cbn [Printer.show_Z str_of_Z]. rewrite to_uint_str_of_N. apply printer_uint_digits. apply Hdig.
  - unfold Undefined.str_of_Z. cbn [Z.ltb Z.compare Z.opp Z.to_N str_of_Z]. f_equal. apply undefined_dec_of_N.
  - cbn [Json.Z_dec str_of_Z]. f_equal. apply json_N_dec.
  - cbn [Markup.Z_to_str str_of_Z]. f_equal. unfold Markup.N_to_str. cbn [N.to_uint].
    rewrite to_uint_str_of_N. apply markup_uint_digits. apply Hdig.
  - cbn [Printer.show_Z str_of_Z]. f_equal. rewrite to_uint_str_of_N. apply printer_uint_digits. apply Hdig.
Qed.
