(** Proofs/ExtractI18n_proofs.v — the three statements of property C15 on the
    model of Kernels/ExtractI18n.v, for all templates of the abstract syntax,
    all data and every [int(str)] function:

      extraction_covers_lookups
      comments_attach_to_next_message_only
      extraction_total                                                     *)
From LQ Require Import Base.Str Kernels.Translate Kernels.ExtractI18n
  Proofs.Translate_proofs.

Local Open Scope list_scope.

(** * Line numbers are total on offsets inside the source *)

Definition sumN (l : list N) : N := fold_right N.add 0%N l.

Lemma line_lengths_sum n : forall s cur,
  (length s <= n)%nat ->
  sumN (line_lengths s cur) = (N.of_nat (length s) + cur)%N.
Proof.
  induction n as [|n IH]; intros s cur L.
  - destruct s; [|simpl in L; lia]. simpl.
    destruct (N.eqb cur 0) eqn:E; simpl; [apply N.eqb_eq in E|]; lia.
  - destruct s as [|c s'].
    + simpl. destruct (N.eqb cur 0) eqn:E; simpl; [apply N.eqb_eq in E|]; lia.
    + simpl in L. cbn [line_lengths].
      destruct (N.eqb c 13).
      * destruct s' as [|c2 s''].
        -- cbn [line_lengths]. rewrite N.eqb_refl. cbn [sumN fold_right length]. lia.
        -- destruct (N.eqb c2 10).
           ++ cbn [sumN fold_right]. fold (sumN (line_lengths s'' 0)).
              rewrite IH by (simpl in L; lia).
              cbn [length]. lia.
           ++ cbn [sumN fold_right]. fold (sumN (line_lengths (c2 :: s'') 0)).
              rewrite IH by lia. cbn [length]. lia.
      * destruct (is_linebreak c).
        -- cbn [sumN fold_right]. fold (sumN (line_lengths s' 0)).
           rewrite IH by lia. cbn [length]. lia.
        -- rewrite IH by lia. cbn [length]. lia.
Qed.

Lemma find_line_total : forall lens start cum idx,
  (cum <= start)%N -> (start < cum + sumN lens)%N ->
  exists l, find_line lens start cum idx = Ok l /\ (idx < l)%N.
Proof.
  induction lens as [|x r IH]; intros start cum idx L1 L2.
  - simpl in L2. lia.
  - cbn [find_line]. destruct (N.ltb start (cum + x)) eqn:E.
    + eexists; split; [reflexivity|lia].
    + apply N.ltb_ge in E.
      destruct (IH start (cum + x)%N (idx + 1)%N) as [l [H1 H2]]; [lia| |].
      * cbn [sumN fold_right] in L2. fold (sumN r) in L2. lia.
      * exists l. split; [exact H1|lia].
Qed.

Lemma line_number_total src pos :
  (pos < N.of_nat (length src))%N ->
  exists l, line_number src pos = Ok l /\ (1 <= l)%N.
Proof.
  intro L. unfold line_number.
  destruct (find_line_total (line_lengths src 0) pos 0 0) as [l [H1 H2]].
  - lia.
  - rewrite (line_lengths_sum (length src)) by lia. lia.
  - exists l. split; [exact H1|lia].
Qed.

(** * [run_events] *)

Definition is_msg (e : ev) : bool := match e with EvMsg _ _ => true | _ => false end.

(** The comment is a translator comment: its stripped text starts with a
    comment tag. *)
Definition is_translator_comment (text : str) : bool :=
  startswith translators_tag (strip text).

Definition is_tcomment (e : ev) : bool :=
  match e with EvComment _ t => is_translator_comment t | _ => false end.

(** The state of [_comments] after the visitor has processed [evs]. *)
Fixpoint state_after (src : str) (evs : list ev) (st : cstate) : res cstate :=
  match evs with
  | [] => Ok st
  | EvLine pos :: r => do _ <- line_number src pos ;; state_after src r st
  | EvComment pos text :: r =>
      do l <- line_number src pos ;;
      if is_translator_comment text then state_after src r [(l, strip text)]
      else state_after src r st
  | EvMsg pos _ :: r => do _ <- line_number src pos ;; state_after src r []
  end.

(** Every message event of a successful run yields a tuple with its line. *)
Lemma run_events_msg_in src : forall evs st ms pos m,
  run_events src evs st = Ok ms ->
  In (EvMsg pos m) evs ->
  exists l cs, line_number src pos = Ok l /\
               In {| mt_line := l; mt_msg := m; mt_comments := cs |} ms.
Proof.
  induction evs as [|e r IH]; intros st ms pos m H I; [destruct I|].
  destruct e as [p|p t|p m0]; cbn [run_events] in H; unfold bind in H.
  - destruct (line_number src p); try discriminate.
    destruct I as [I|I]; [discriminate|]. eapply IH; eauto.
  - destruct (line_number src p); try discriminate.
    destruct I as [I|I]; [discriminate|].
    destruct (startswith translators_tag (strip t)); eapply IH; eauto.
  - destruct (line_number src p) as [l| | |] eqn:E; try discriminate.
    destruct (run_events src r []) as [rest| | |] eqn:R; try discriminate.
    inversion H; subst; clear H.
    destruct I as [I|I].
    + inversion I; subst. exists l. eexists. split; [exact E|left; reflexivity].
    + destruct (IH _ _ _ _ R I) as [l' [cs [H1 H2]]].
      exists l', cs. split; [exact H1|right; exact H2].
Qed.

Lemma run_events_total src : forall evs st,
  Forall (fun e => (ev_pos e < N.of_nat (length src))%N) evs ->
  exists ms, run_events src evs st = Ok ms.
Proof.
  induction evs as [|e r IH]; intros st F; [eexists; reflexivity|].
  inversion F as [|? ? Hp Fr]; subst.
  destruct (line_number_total src (ev_pos e) Hp) as [l [El _]].
  destruct e as [p|p t|p m]; cbn [run_events ev_pos] in *; unfold bind; rewrite El.
  - apply IH; assumption.
  - destruct (startswith translators_tag (strip t)); apply IH; assumption.
  - destruct (IH [] Fr) as [rest R]. rewrite R. eexists; reflexivity.
Qed.

(** Splitting a run at a message: the tuples before it, the tuple of the
    message with the comments the state holds at that moment, and the tuples
    after it — which are computed from an EMPTY comment state. *)
Lemma run_events_split src : forall pre st pos m post ms,
  run_events src (pre ++ EvMsg pos m :: post) st = Ok ms ->
  exists ms1 st' l ms2,
    run_events src pre st = Ok ms1 /\
    state_after src pre st = Ok st' /\
    line_number src pos = Ok l /\
    run_events src post [] = Ok ms2 /\
    ms = ms1 ++ {| mt_line := l; mt_msg := m;
                   mt_comments := map snd (keep_comments st' l) |} :: ms2.
Proof.
  induction pre as [|e r IH]; intros st pos m post ms H.
  - cbn [app run_events] in H. unfold bind in H.
    destruct (line_number src pos) as [l| | |] eqn:E; try discriminate.
    destruct (run_events src post []) as [rest| | |] eqn:R; try discriminate.
    inversion H; subst.
    exists [], st, l, rest. repeat split; reflexivity.
  - destruct e as [p|p t|p m0]; cbn [app run_events state_after] in *; unfold bind in *.
    + destruct (line_number src p); try discriminate.
      apply IH in H. exact H.
    + destruct (line_number src p); try discriminate.
      unfold is_translator_comment.
      destruct (startswith translators_tag (strip t)); apply IH in H; exact H.
    + destruct (line_number src p) as [l0| | |]; try discriminate.
      destruct (run_events src (r ++ EvMsg pos m :: post) []) as [rest| | |] eqn:R; try discriminate.
      inversion H; subst; clear H.
      destruct (IH _ _ _ _ _ R) as [ms1 [st' [l [ms2 [H1 [H2 [H3 [H4 H5]]]]]]]].
      rewrite H1. eexists _, st', l, ms2. repeat split; try eassumption.
      rewrite H5. reflexivity.
Qed.

(** What the comment state can hold: nothing, or the LAST translator comment,
    with no message and no other translator comment after it. *)
Definition quiet (mid : list ev) : bool :=
  forallb (fun e => negb (is_msg e) && negb (is_tcomment e)) mid.

Inductive holds_last (src : str) (evs : list ev) : cstate -> Prop :=
| HL_none : holds_last src evs []
| HL_one : forall pre cpos raw mid cl,
    evs = pre ++ EvComment cpos raw :: mid ->
    quiet mid = true ->
    is_translator_comment raw = true ->
    line_number src cpos = Ok cl ->
    holds_last src evs [(cl, strip raw)].

Lemma holds_last_snoc_quiet src evs e st :
  holds_last src evs st ->
  negb (is_msg e) && negb (is_tcomment e) = true ->
  holds_last src (evs ++ [e]) st.
Proof.
  intros H Q. destruct H as [|pre cpos raw mid cl E Qm T L]; [constructor|].
  apply (HL_one src _ pre cpos raw (mid ++ [e]) cl); auto.
  - rewrite E, <- app_assoc. reflexivity.
  - unfold quiet in *. rewrite forallb_app, Qm. simpl. rewrite Q. reflexivity.
Qed.

Lemma state_after_holds src : forall evs done st st',
  holds_last src done st ->
  state_after src evs st = Ok st' ->
  holds_last src (done ++ evs) st'.
Proof.
  induction evs as [|e r IH]; intros done st st' HL H.
  - cbn in H. inversion H; subst. rewrite app_nil_r. exact HL.
  - replace (done ++ e :: r) with ((done ++ [e]) ++ r) by (rewrite <- app_assoc; reflexivity).
    destruct e as [p|p t|p m]; cbn [state_after] in H; unfold bind in H.
    + destruct (line_number src p); try discriminate.
      eapply IH; [|exact H]. apply holds_last_snoc_quiet; auto.
    + destruct (line_number src p) as [l| | |] eqn:E; try discriminate.
      destruct (is_translator_comment t) eqn:T.
      * eapply IH; [|exact H].
        apply (HL_one src _ done p t [] l); auto.
      * eapply IH; [|exact H]. apply holds_last_snoc_quiet; auto.
        simpl. rewrite T. reflexivity.
    + destruct (line_number src p); try discriminate.
      eapply IH; [|exact H]. constructor.
Qed.

Lemma keep_comments_one cl t l :
  keep_comments [(cl, t)] l = [] \/
  (keep_comments [(cl, t)] l = [(cl, t)] /\ (Z.of_N l - 1 <= Z.of_N cl)%Z).
Proof.
  unfold keep_comments. cbn [rev app].
  destruct (Z.ltb (Z.of_N cl) (Z.of_N l - 1)) eqn:E; [left; reflexivity|].
  right. split; [reflexivity|]. apply Z.ltb_ge in E. exact E.
Qed.

(** ** Translator comments attach to the next message only. *)
Theorem comments_attach_to_next_message_only_events :
  forall src pre pos m post ms,
    run_events src (pre ++ EvMsg pos m :: post) [] = Ok ms ->
    exists ms1 l cs ms2,
      run_events src pre [] = Ok ms1 /\
      line_number src pos = Ok l /\
      run_events src post [] = Ok ms2 /\
      ms = ms1 ++ {| mt_line := l; mt_msg := m; mt_comments := cs |} :: ms2 /\
      (cs = [] \/
       exists pre1 cpos raw mid cl,
         pre = pre1 ++ EvComment cpos raw :: mid /\
         quiet mid = true /\
         is_translator_comment raw = true /\
         line_number src cpos = Ok cl /\
         (Z.of_N l - 1 <= Z.of_N cl)%Z /\
         cs = [strip raw]).
Proof.
  intros src pre pos m post ms H.
  destruct (run_events_split _ _ _ _ _ _ _ H) as [ms1 [st' [l [ms2 [H1 [H2 [H3 [H4 H5]]]]]]]].
  exists ms1, l, (map snd (keep_comments st' l)), ms2.
  repeat split; auto.
  pose proof (state_after_holds src pre [] [] st' (HL_none _ _) H2) as HL.
  cbn [app] in HL.
  destruct HL as [|pre1 cpos raw mid cl E Q T L].
  - left. reflexivity.
  - destruct (keep_comments_one cl (strip raw) l) as [K|[K Z]]; rewrite K.
    + left. reflexivity.
    + right. exists pre1, cpos, raw, mid, cl. repeat split; auto.
Qed.

(** * Mutual induction over the syntax *)

Scheme node_mind := Induction for node Sort Prop
  with block_mind := Induction for block Sort Prop
  with nodes_mind := Induction for nodes Sort Prop
  with altlist_mind := Induction for altlist Sort Prop
  with optblock_mind := Induction for optblock Sort Prop.
Combined Scheme syntax_mutind from
  node_mind, block_mind, nodes_mind, altlist_mind, optblock_mind.

(** * Extraction covers every lookup made for a literal site *)

Section Cover.
Variable pyint : str -> option Z.
Variable d : data.

(** Every literal-site lookup in [tr] is a message
    event of [evs] at the position of its origin. *)
Definition covered (evs : list ev) (tr : trace) : Prop :=
  forall tc m,
    In tc tr -> tc_lit tc = true ->
    mtext_of_call (tc_call tc) = Some m ->
    In (EvMsg (tc_pos tc) m) evs.

Lemma covered_nil evs : covered evs [].
Proof. intros tc m []. Qed.

Lemma covered_incl evs evs' tr :
  incl evs evs' -> covered evs tr -> covered evs' tr.
Proof. intros I C tc m H1 H2 H3. apply I. eapply C; eauto. Qed.

Lemma covered_app e1 e2 t1 t2 :
  covered e1 t1 -> covered e2 t2 -> covered (e1 ++ e2) (t1 ++ t2).
Proof.
  intros C1 C2 tc m H1 H2 H3. apply in_or_app.
  apply in_app_or in H1 as [H1|H1]; [left; eapply C1|right; eapply C2]; eauto.
Qed.

Lemma covered_seq e1 e2 (a b : rout) :
  covered e1 (fst a) -> covered e2 (fst b) -> covered (e1 ++ e2) (fst (r_seq a b)).
Proof.
  intros C1 C2. unfold r_seq. destruct (snd a).
  - cbn [fst]. apply covered_app; assumption.
  - eapply covered_incl; [apply incl_appl, incl_refl|exact C1].
  - eapply covered_incl; [apply incl_appl, incl_refl|exact C1].
  - eapply covered_incl; [apply incl_appl, incl_refl|exact C1].
Qed.

Lemma covered_seq_same evs (a b : rout) :
  covered evs (fst a) -> covered evs (fst b) -> covered evs (fst (r_seq a b)).
Proof.
  intros C1 C2. unfold r_seq. destruct (snd a); auto.
  cbn [fst]. intros tc m H1. apply in_app_or in H1 as [H1|H1]; [eapply C1|eapply C2]; eauto.
Qed.

Lemma covered_repeat evs r : forall k,
  covered evs (fst r) -> covered evs (fst (repeat_rout k r)).
Proof.
  induction k as [|k IH]; intro C; cbn [repeat_rout].
  - apply covered_nil.
  - apply covered_seq_same; auto.
Qed.

(** Calls made after the first filter never count as literal sites. *)
Lemma apply_filters_nolit : forall fs pos left tc,
  In tc (fst (apply_filters pyint d pos false left fs)) -> tc_lit tc = false.
Proof.
  induction fs as [|f r IH]; intros pos left tc H; cbn [apply_filters] in H.
  - destruct H.
  - destruct (apply_filter pyint d left f) as [[c|]| | |]; cbn [fst] in H.
    + unfold r_seq in H. cbn [snd fst] in H. cbn [app] in H.
      destruct H as [H|H]; [subst; reflexivity|]. eapply IH; eauto.
    + eapply IH; eauto.
    + destruct H.
    + destruct H.
    + destruct H.
Qed.

Lemma apply_filters_lit : forall fs pos left tc,
  In tc (fst (apply_filters pyint d pos true left fs)) -> tc_lit tc = true ->
  exists f r, fs = f :: r /\
    apply_filter pyint d left f = Ok (Some (tc_call tc)) /\
    operands_literal f = true /\ tc_pos tc = pos.
Proof.
  intros [|f r] pos left tc H L; cbn [apply_filters] in H; [destruct H|].
  destruct (apply_filter pyint d left f) as [[c|]| | |] eqn:E; cbn [fst] in H.
  - unfold r_seq in H. cbn [snd fst app] in H.
    destruct H as [H|H].
    + subst tc. cbn in L. cbn. exists f, r. auto.
    + apply apply_filters_nolit in H. congruence.
  - apply apply_filters_nolit in H. congruence.
  - destruct H.
  - destruct H.
  - destruct H.
Qed.

Lemma eval_branch_covered pos p fs :
  covered (map (EvMsg pos) (first_filter_message p fs))
          (fst (eval_branch pyint d pos p fs)).
Proof.
  intros tc m H L M. unfold eval_branch in H.
  destruct p as [s|k|z| |b];
    try (apply apply_filters_nolit in H; congruence).
  cbn [eval_prim tls] in H.
  destruct (apply_filters_lit _ _ _ _ H L) as [f [r [E [A [O P]]]]]. subst fs.
  destruct (apply_filter_literal _ _ _ _ _ A O) as [m' [F M']].
  rewrite M in M'. inversion M'; subst m'.
  cbn [first_filter_message]. rewrite F. cbn. left. congruence.
Qed.

Lemma eval_texpr_covered e :
  covered (expr_events e) (fst (eval_texpr pyint d e)).
Proof.
  unfold expr_events.
  apply (covered_incl (map (EvMsg (texpr_pos e)) (expr_messages e)));
    [apply incl_tl, incl_refl|].
  destruct e as [pos p|pos l fs|pos l fs c alt afs tfs]; cbn [eval_texpr texpr_pos expr_messages].
  - apply covered_nil.
  - apply eval_branch_covered.
  - apply covered_seq_same.
    + rewrite map_app.
      destruct (liquid_truthy (eval_prim d c)).
      * eapply covered_incl; [apply incl_appl, incl_refl|apply eval_branch_covered].
      * destruct alt as [a|]; [|apply covered_nil].
        eapply covered_incl; [apply incl_appr, incl_refl|apply eval_branch_covered].
    + intros tc m H L. apply apply_filters_nolit in H. congruence.
Qed.

Lemma translate_covered pos args sing plural :
  covered (visit (NTranslate pos args sing plural))
          (fst (render_node pyint d (NTranslate pos args sing plural))).
Proof.
  intros tc m H L M. cbn [render_node] in H.
  assert (P : mb_parts sing <> [] \/ plural <> None ->
              In tc (fst match tr_call pyint d args sing plural with
                         | Ok c => ([{| tc_call := c; tc_pos := pos; tc_lit := tr_literal args |}], Ok tt)
                         | e => ([], res_unit e)
                         end) ->
              In (EvMsg (tc_pos tc) m) (visit (NTranslate pos args sing plural))).
  { intros NE H'.
    destruct (tr_call pyint d args sing plural) as [c| | |] eqn:E; cbn [fst] in H';
      try (destruct H'; fail).
    destruct H' as [H'|[]]. subst tc. cbn [tc_call tc_pos tc_lit] in *.
    destruct (tr_call_literal _ _ _ _ _ _ E L NE) as [m' [T M']].
    rewrite M in M'. inversion M'; subst m'.
    cbn [visit]. right. apply in_or_app. left. rewrite T. cbn. left. reflexivity. }
  destruct (mb_parts sing) as [|p ps] eqn:EP.
  - destruct plural as [pb|].
    + apply P; [right; discriminate|exact H].
    + destruct H.
  - apply P; [left; discriminate|exact H].
Qed.

Lemma covered_cons_skip e evs tr : covered evs tr -> covered (e :: evs) tr.
Proof. apply covered_incl, incl_tl, incl_refl. Qed.

(** Unfolding equations of the mutual fixpoints. *)
Lemma render_node_if pos cpos c conseq alts default :
  render_node pyint d (NIf pos cpos c conseq alts default) =
  if liquid_truthy (eval_prim d c) then render_block pyint d conseq
  else match render_alts pyint d alts with
       | Some r => r
       | None => render_opt pyint d default
       end.
Proof. reflexivity. Qed.

Lemma render_node_for pos ipos s body default :
  render_node pyint d (NFor pos ipos s body default) =
  match range_len pyint (eval_prim d s) with
  | O => render_opt pyint d default
  | k => repeat_rout k (render_block pyint d body)
  end.
Proof. reflexivity. Qed.

Lemma render_node_liquid pos body :
  render_node pyint d (NLiquid pos body) = render_block pyint d body.
Proof. reflexivity. Qed.

Lemma render_node_expr k pos e :
  render_node pyint d (NExpr k pos e) = eval_texpr pyint d e.
Proof. reflexivity. Qed.

Lemma render_block_eq pos ns :
  render_block pyint d (Block pos ns) = render_nodes pyint d ns.
Proof. reflexivity. Qed.

Lemma render_nodes_cons n ns :
  render_nodes pyint d (NCons n ns) = r_seq (render_node pyint d n) (render_nodes pyint d ns).
Proof. reflexivity. Qed.

Lemma render_alts_cons pos cpos c b rest :
  render_alts pyint d (ACons pos cpos c b rest) =
  if liquid_truthy (eval_prim d c) then Some (render_block pyint d b)
  else render_alts pyint d rest.
Proof. reflexivity. Qed.

Lemma visit_if pos cpos c conseq alts default :
  visit (NIf pos cpos c conseq alts default) =
  EvLine pos :: expr_events (TPlain cpos c)
  ++ visit_block conseq ++ visit_alts alts ++ visit_opt default.
Proof. reflexivity. Qed.

Lemma visit_for pos ipos s body default :
  visit (NFor pos ipos s body default) =
  EvLine pos :: expr_events (TPlain ipos s) ++ visit_block body ++ visit_opt default.
Proof. reflexivity. Qed.

Lemma visit_liquid pos body : visit (NLiquid pos body) = EvLine pos :: visit_block body.
Proof. reflexivity. Qed.

Lemma visit_block_eq pos ns : visit_block (Block pos ns) = EvLine pos :: visit_nodes ns.
Proof. reflexivity. Qed.

Lemma visit_nodes_cons n ns :
  visit_nodes (NCons n ns) = visit n ++ visit_nodes ns.
Proof. reflexivity. Qed.

Lemma visit_alts_cons pos cpos c b rest :
  visit_alts (ACons pos cpos c b rest) =
  EvLine pos :: expr_events (TPlain cpos c) ++ visit_block b ++ visit_alts rest.
Proof. reflexivity. Qed.

Lemma render_covered :
  (forall n, covered (visit n) (fst (render_node pyint d n))) /\
  (forall b, covered (visit_block b) (fst (render_block pyint d b))) /\
  (forall ns, covered (visit_nodes ns) (fst (render_nodes pyint d ns))) /\
  (forall a, forall r, render_alts pyint d a = Some r -> covered (visit_alts a) (fst r)) /\
  (forall o, covered (visit_opt o) (fst (render_opt pyint d o))).
Proof.
  apply syntax_mutind.
  - (* NText *) intros pos. apply covered_nil.
  - (* NComment *) intros pos text. apply covered_nil.
  - (* NExpr *)
    intros k pos e. rewrite render_node_expr. cbn [visit].
    apply covered_cons_skip, eval_texpr_covered.
  - (* NIf *)
    intros pos cpos c conseq Hc alts Ha default Hd.
    rewrite render_node_if, visit_if.
    eapply (covered_incl (visit_block conseq ++ visit_alts alts ++ visit_opt default)).
    { apply incl_tl, incl_appr, incl_refl. }
    destruct (liquid_truthy (eval_prim d c)).
    + eapply covered_incl; [apply incl_appl, incl_refl|apply Hc].
    + destruct (render_alts pyint d alts) as [r|] eqn:E.
      * eapply covered_incl; [|apply (Ha r eq_refl)].
        apply incl_appr, incl_appl, incl_refl.
      * eapply covered_incl; [|apply Hd].
        apply incl_appr, incl_appr, incl_refl.
  - (* NFor *)
    intros pos ipos stop body Hb default Hd.
    rewrite render_node_for, visit_for.
    eapply (covered_incl (visit_block body ++ visit_opt default)).
    { apply incl_tl, incl_appr, incl_refl. }
    destruct (range_len pyint (eval_prim d stop)) as [|k].
    + eapply covered_incl; [apply incl_appr, incl_refl|apply Hd].
    + eapply covered_incl; [apply incl_appl, incl_refl|].
      apply covered_repeat, Hb.
  - (* NTranslate *)
    intros pos args sing plural. apply translate_covered.
  - (* NLiquid *)
    intros pos body Hb. rewrite render_node_liquid, visit_liquid.
    apply covered_cons_skip, Hb.
  - (* Block *)
    intros pos ns Hn. rewrite render_block_eq, visit_block_eq. apply covered_cons_skip, Hn.
  - (* NNil *) apply covered_nil.
  - (* NCons *)
    intros n Hn ns Hns. rewrite render_nodes_cons, visit_nodes_cons.
    apply covered_seq; assumption.
  - (* ANil *) intros r H. discriminate.
  - (* ACons *)
    intros pos cpos c b Hb rest Hr r H. rewrite render_alts_cons in H. rewrite visit_alts_cons.
    eapply (covered_incl (visit_block b ++ visit_alts rest)).
    { apply incl_tl, incl_appr, incl_refl. }
    destruct (liquid_truthy (eval_prim d c)).
    + inversion H; subst. eapply covered_incl; [apply incl_appl, incl_refl|apply Hb].
    + eapply covered_incl; [apply incl_appr, incl_refl|apply (Hr r H)].
  - (* NoBlock *) apply covered_nil.
  - (* SomeBlock *) intros b Hb. exact Hb.
Qed.

(** ** The coverage theorem *)
Theorem extraction_covers_lookups : forall t ms tc m,
  extract t = Ok ms ->
  In tc (fst (render pyint d t)) ->
  tc_lit tc = true ->
  mtext_of_call (tc_call tc) = Some m ->
  exists l cs,
    line_number (t_source t) (tc_pos tc) = Ok l /\
    In {| mt_line := l; mt_msg := m; mt_comments := cs |} ms.
Proof.
  intros t ms tc m E I L M.
  destruct render_covered as [_ [_ [Hns _]]].
  pose proof (Hns (t_nodes t) tc m I L M) as Hin.
  unfold extract in E. unfold template_events in E.
  destruct (t_nodes t) eqn:N.
  - destruct Hin.
  - rewrite <- N in E. unfold template_events in E. rewrite N in E.
    eapply run_events_msg_in; eauto.
Qed.

End Cover.

(** After fix 0010 an empty translate tag does not consult the catalog, so no
    guard on the message id is needed: the only guard left is [tc_lit]. *)
Definition empty_block_template : template :=
  {| t_source := [123; 37; 32; 116; 32; 37; 125; 123; 37; 32; 101; 32; 37; 125]%N;
     t_nodes := NCons (NTranslate 0 [] {| mb_pos := 7; mb_parts := [] |} None) NNil |}.

Lemma empty_tag_makes_no_lookup :
  fst (render (fun _ => None) [] empty_block_template) = []
  /\ extract empty_block_template = Ok [].
Proof. vm_compute. split; reflexivity. Qed.

(** The guard [tc_lit] cannot be dropped (known findings
    translate-nonliteral-context, filter-nonliteral-operand): a message
    context or plural operand that is not a string literal is looked up with
    its run-time value, while extraction reports another family or nothing.

    [{% translate context: 5 %}a{% endtranslate %}] asks for pgettext("5","a"),
    extraction reports gettext("a"); [{{ 'a' | t: plural: nil }}] asks for
    gettext("a"), extraction reports nothing. *)
Definition nonliteral_context_template : template :=
  {| t_source := [123; 37; 32; 116; 32; 53; 32; 37; 125; 97; 123; 37; 32; 101; 32; 37; 125]%N;
     t_nodes := NCons (NTranslate 0 [(TaContext, (5%N, PInt 5))]
                         {| mb_pos := 9; mb_parts := [MText 9 [97%N]] |} None) NNil |}.

Definition nonliteral_plural_template : template :=
  {| t_source := [123; 123; 32; 39; 97; 39; 32; 124; 32; 116; 58; 32; 112; 58; 32; 110; 32; 125; 125]%N;
     t_nodes := NCons (NExpr KOutput 0
                         (TFiltered 4 (PStr [97%N])
                            [{| f_name := FT; f_args := [FKw KwPlural PNil] |}])) NNil |}.

Definition uncovered (t : template) : Prop :=
  exists ms tc m,
    extract t = Ok ms /\
    In tc (fst (render (fun _ => None) [] t)) /\
    mtext_of_call (tc_call tc) = Some m /\
    forall mt, In mt ms -> mt_msg mt <> m.

Lemma extraction_covers_lookups_refuted :
  uncovered nonliteral_context_template /\ uncovered nonliteral_plural_template.
Proof.
  split.
  - exists [{| mt_line := 1; mt_msg := MGettext [97%N]; mt_comments := [] |}],
           {| tc_call := CPgettext [53%N] (Some [97%N]); tc_pos := 0%N; tc_lit := false |},
           (MPgettext [53%N] [97%N]).
    split; [vm_compute; reflexivity|]. split; [vm_compute; auto|].
    split; [reflexivity|].
    intros mt [H|[]]. subst mt. discriminate.
  - exists [], {| tc_call := CGettext (Some [97%N]); tc_pos := 4%N; tc_lit := false |},
           (MGettext [97%N]).
    split; [vm_compute; reflexivity|]. split; [vm_compute; auto|].
    split; [reflexivity|].
    intros mt [].
Qed.

(** * Translator comments, on templates *)

Theorem comments_attach_to_next_message_only :
  forall t pre pos m post ms,
    template_events t = pre ++ EvMsg pos m :: post ->
    extract t = Ok ms ->
    exists ms1 l cs ms2,
      run_events (t_source t) pre [] = Ok ms1 /\
      line_number (t_source t) pos = Ok l /\
      run_events (t_source t) post [] = Ok ms2 /\
      ms = ms1 ++ {| mt_line := l; mt_msg := m; mt_comments := cs |} :: ms2 /\
      (cs = [] \/
       exists pre1 cpos raw mid cl,
         pre = pre1 ++ EvComment cpos raw :: mid /\
         quiet mid = true /\
         is_translator_comment raw = true /\
         line_number (t_source t) cpos = Ok cl /\
         (Z.of_N l - 1 <= Z.of_N cl)%Z /\
         cs = [strip raw]).
Proof.
  intros t pre pos m post ms E X.
  apply comments_attach_to_next_message_only_events.
  unfold extract in X. rewrite <- E.
  destruct (t_nodes t) eqn:N; [|exact X].
  unfold template_events in E. rewrite N in E. cbn in E.
  destruct pre; discriminate.
Qed.

(** Every extracted tuple carries at most one comment. *)
Lemma run_events_at_most_one_comment src : forall evs st ms,
  (length st <= 1)%nat ->
  run_events src evs st = Ok ms ->
  Forall (fun mt => (length (mt_comments mt) <= 1)%nat) ms.
Proof.
  induction evs as [|e r IH]; intros st ms L H.
  - inversion H. constructor.
  - destruct e as [p|p t|p m]; cbn [run_events] in H; unfold bind in H.
    + destruct (line_number src p); try discriminate. eapply IH; eauto.
    + destruct (line_number src p); try discriminate.
      destruct (startswith translators_tag (strip t)); (eapply IH; [|exact H]);
        [simpl; lia|exact L].
    + destruct (line_number src p) as [l| | |]; try discriminate.
      destruct (run_events src r []) as [rest| | |] eqn:R; try discriminate.
      inversion H; subst. constructor.
      * cbn [mt_comments]. rewrite map_length. unfold keep_comments.
        destruct (rev st) as [|[cl ?] ?]; [exact L|].
        destruct (Z.ltb (Z.of_N cl) (Z.of_N l - 1)); [simpl; lia|exact L].
      * eapply IH; [|exact R]. simpl. lia.
Qed.

Theorem at_most_one_comment_per_message : forall t ms,
  extract t = Ok ms ->
  Forall (fun mt => (length (mt_comments mt) <= 1)%nat) ms.
Proof.
  intros t ms H. unfold extract in H.
  destruct (t_nodes t).
  - inversion H. constructor.
  - eapply run_events_at_most_one_comment; [|exact H]. simpl. lia.
Qed.

(** * Extraction is total *)

Theorem extraction_total : forall t,
  positions_in_source t -> exists ms, extract t = Ok ms.
Proof.
  intros t P. unfold extract.
  destruct (t_nodes t); [eexists; reflexivity|].
  apply run_events_total. exact P.
Qed.

(** The empty template (no nodes) needs no hypothesis. *)
Theorem extraction_total_empty : forall src,
  extract {| t_source := src; t_nodes := NNil |} = Ok [].
Proof. reflexivity. Qed.

(** Reported line numbers are genuine 1-based lines of the source. *)
Lemma line_number_pos src pos l : line_number src pos = Ok l -> (1 <= l)%N.
Proof.
  unfold line_number.
  assert (G : forall lens start cum idx l0, find_line lens start cum idx = Ok l0 -> (idx < l0)%N).
  { induction lens as [|x r IH]; intros start cum idx l0 H; cbn [find_line] in H; [discriminate|].
    destruct (N.ltb start (cum + x)).
    - inversion H. lia.
    - apply IH in H. lia. }
  intro H. apply G in H. lia.
Qed.

(** * Non-vacuity: a template whose render makes literal-site lookups inside
    an else branch and a loop, with a translator comment, all hypotheses of
    the theorems above hold and their conclusions are not trivial. *)

(*  {# Translators: c #}\n{% if v0 %}{% else %}{{ 'a' | t: 'x' }}{% endif %}
    \n{% translate count: 0 %}b{% plural %}c{% endtranslate %}               *)
Definition sample_template : template :=
  {| t_source :=
       [123;35;32;84;114;97;110;115;108;97;116;111;114;115;58;32;99;32;35;125;10;
        123;37;32;105;102;32;118;48;32;37;125;123;37;32;101;108;115;101;32;37;125;
        123;123;32;39;97;39;32;124;32;116;58;32;39;120;39;32;125;125;
        123;37;32;101;110;100;105;102;32;37;125;10;
        123;37;32;116;114;97;110;115;108;97;116;101;32;99;111;117;110;116;58;32;48;32;37;125;
        98;123;37;32;112;108;117;114;97;108;32;37;125;99;
        123;37;32;101;110;100;116;114;97;110;115;108;97;116;101;32;37;125]%N;
     t_nodes :=
       NCons (NComment 0 [32;84;114;97;110;115;108;97;116;111;114;115;58;32;99;32]%N)
      (NCons (NText 20)
      (NCons (NIf 21 27 (PVar 0) (Block 32 NNil) ANil
                (SomeBlock (Block 32
                   (NCons (NExpr KOutput 42
                             (TFiltered 46 (PStr [97%N])
                                [{| f_name := FT; f_args := [FPos (PStr [120%N])] |}])) NNil))))
      (NCons (NText 71)
      (NCons (NTranslate 72 [(TaCount, (92%N, PInt 0))]
                {| mb_pos := 96; mb_parts := [MText 96 [98%N]] |}
                (Some {| mb_pos := 97; mb_parts := [MText 109 [99%N]] |})) NNil)))) |}.

Example sample_positions : positions_in_source sample_template.
Proof.
  unfold positions_in_source. apply Forall_forall. intros e H.
  vm_compute in H. repeat (destruct H as [H|H]; [subst e; vm_compute; reflexivity|]).
  destruct H.
Qed.

Example sample_extract :
  extract sample_template =
  Ok [ {| mt_line := 2; mt_msg := MPgettext [120%N] [97%N];
          mt_comments := [[84;114;97;110;115;108;97;116;111;114;115;58;32;99]%N] |};
       {| mt_line := 3; mt_msg := MNgettext [98%N] [99%N]; mt_comments := [] |} ].
Proof. vm_compute. reflexivity. Qed.

Example sample_render :
  fst (render (fun _ => None) [] sample_template) =
  [ {| tc_call := CPgettext [120%N] (Some [97%N]); tc_pos := 46; tc_lit := true |};
    {| tc_call := CNgettext (Some [98%N]) [99%N] 0; tc_pos := 72; tc_lit := true |} ].
Proof. vm_compute. reflexivity. Qed.

Example sample_comment_split :
  exists pre post,
    template_events sample_template
    = pre ++ EvMsg 46 (MPgettext [120%N] [97%N]) :: post /\
    exists pre1 mid, pre = pre1 ++ EvComment 0 [32;84;114;97;110;115;108;97;116;111;114;115;58;32;99;32]%N :: mid
                     /\ quiet mid = true.
Proof.
  eexists (firstn 8 (template_events sample_template)), _.
  split; [vm_compute; reflexivity|].
  exists [], (tl (firstn 8 (template_events sample_template))).
  vm_compute. split; reflexivity.
Qed.
