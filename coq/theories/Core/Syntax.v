(** Core/Syntax.v — abstract syntax of the Core Liquid Fragment (CLF) and the
    static [blank] flag of every node (Node.__init__ default True and the
    per-class overrides, liquid2/ast.py:38, content.py:41, output.py:31, each
    tag module).  Model file: definitions only. *)
From LQ Require Export Base.Str Core.Value.

Inductive cmpop := OEq | ONe | OLt | OGt | OLe | OGe | OContains | OIn.

Inductive fname :=
| FUpcase | FDowncase | FAppend | FPrepend | FSize | FDefault
| FPlus | FMinus | FTimes | FJoin | FFirst | FLast.

(** lambda-aware filters called with an arrow function [x => e] or [(x, i) => e] *)
Inductive lfname := LMap | LWhere | LReject | LFind | LFindIndex | LHas.

Inductive expr :=
| ELit (v : val)                       (* nil true false int string empty blank *)
| ERange (lo hi : expr)
| EArray (items : list expr)
| EPath (root : str) (segs : list seg)
| ENot (e : expr)
| EAnd (a b : expr)
| EOr (a b : expr)
| ECmp (op : cmpop) (a b : expr)
| EFilter (e : expr) (f : fname) (args : list expr)
| ETernary (cond a : expr) (alt : option expr)   (* a if cond else alt *)
| EFilterL (e : expr) (f : lfname) (param : str) (iparam : option str) (body : expr)
                                       (* e | f: param => body,  e | f: (param, iparam) => body *)
| ETemplate (parts : list expr)        (* "a ${x | f} b": literal chunks and interpolated expressions *)
with seg :=
| SKey (k : str)
| SIdx (i : Z)
| SExpr (e : expr).                    (* nested path: a[b.c] *)

Inductive offset_spec := OffNone | OffContinue | OffExpr (e : expr).

Inductive node :=
| NContent (text : str) (blank : bool)  (* text after trimming; blank = untrimmed text is whitespace *)
| NOutput (e : expr)
| NEcho (e : expr)
| NAssign (x : str) (e : expr)
| NCapture (x : str) (body : list node)
| NIf (c : expr) (conseq : list node) (alts : list (expr * list node)) (els : option (list node))
| NUnless (c : expr) (conseq : list node) (alts : list (expr * list node)) (els : option (list node))
| NCase (e : expr) (whens : list (list expr * list node)) (els : option (list node))
| NFor (x : str) (key : str) (iter : expr) (lim : option expr) (off : offset_spec)
       (reversed : bool) (body : list node) (els : option (list node))
| NBreak | NContinue
| NIncrement (x : str) | NDecrement (x : str)
| NCycle (group : option str) (items : list expr)
| NRaw (text : str)
| NComment
| NWith (args : list (str * expr)) (body : list node)
| NLiquid (body : list node)            (* {% liquid ... %}: line statements *)
| NRender (name : str) (var : option (bool * expr * option str)) (args : list (str * expr))
| NInclude (name : expr) (var : option (expr * option str)) (args : list (str * expr))
| NMacro (name : str) (params : list (str * option expr)) (body : list node)
| NCall (name : str) (args : list expr) (kwargs : list (str * expr)).

(** A loader: template name -> parsed template. *)
Definition loader := list (str * list node).

Definition opt_all {A} (f : A -> bool) (o : option A) : bool :=
  match o with Some a => f a | None => true end.

(** The static [blank] flag. *)
Fixpoint node_blank (n : node) : bool :=
  let all := fix all (l : list node) : bool :=
    match l with [] => true | x :: l' => node_blank x && all l' end in
  let all_alts := fix aa (l : list (expr * list node)) : bool :=
    match l with [] => true | (_, b) :: l' => all b && aa l' end in
  match n with
  | NContent _ b => b
  | NOutput _ | NEcho _ => false
  | NAssign _ _ => true
  | NCapture _ _ => true
  | NIf _ c alts els | NUnless _ c alts els =>
      all c && all_alts alts && match els with Some b => all b | None => true end
  | NCase _ whens els =>
      (fix aw (l : list (list expr * list node)) : bool :=
         match l with [] => true | (_, b) :: l' => all b && aw l' end) whens
      && match els with Some b => all b | None => true end
  | NFor _ _ _ _ _ _ body els =>
      all body && match els with Some b => all b | None => true end
  | NBreak | NContinue => true
  | NIncrement _ | NDecrement _ => false
  | NCycle _ _ => false
  | NRaw text => match text with [] => true | _ => false end
  | NComment => true
  | NWith _ body => all body
  | NLiquid body => all body
  | NRender _ _ _ | NInclude _ _ _ => false
  | NMacro _ _ _ => true
  | NCall _ _ _ => false
  end.

Fixpoint block_blank (l : list node) : bool :=
  match l with [] => true | x :: l' => node_blank x && block_blank l' end.
