(** Core/Value.v — Liquid values and the value semantics of
    liquid2/builtin/expressions.py:2023-2085 (is_truthy, _eq, _lt, _contains),
    liquid2/stringify.py (to_liquid_string, auto_escape off),
    liquid2/context.py:195-227 (get_item with size/first/last fallbacks),
    liquid2/undefined.py (the default Undefined) and
    liquid2/builtin/tags/for_tag.py:210-290 (ForLoop as a mapping).

    Where Python's behaviour on a combination of types is not modelled the
    functions return [None] ("outside the model"); the correspondence run counts
    and skips such cases, it never compares against a made-up value.
    Model file: definitions only. *)
From LQ Require Export Base.Str.

Inductive val :=
| VNil
| VBool (b : bool)
| VInt (z : Z)
| VStr (s : str)
| VList (l : list val)                 (* list; also the (key, value) tuples of a mapping iteration *)
| VDict (kvs : list (str * val))       (* insertion ordered, keys unique *)
| VRange (lo hi : Z)                   (* range(lo, hi + 1); the empty range is VRange 0 (-1) *)
| VUndef                               (* liquid2.undefined.Undefined *)
| VEmpty | VBlank                      (* the `empty` / `blank` keywords *)
| VForLoop (name : str) (length index : Z) (parent : val).

(** [is_truthy]: __liquid__() of Undefined is None. *)
Definition is_truthy (v : val) : bool :=
  match v with
  | VNil | VUndef | VBool false => false
  | _ => true
  end.

Definition is_ws_char (c : N) : bool :=
  (* str.isspace() for the code points the generators use (ASCII + NBSP etc.);
     the full table is validated against CPython by the C18 check *)
  existsb (N.eqb c) [9; 10; 11; 12; 13; 28; 29; 30; 31; 32; 133; 160; 5760;
                     8232; 8233; 8239; 8287; 12288]%N
  || ((8192 <=? c) && (c <=? 8202))%N.

Definition str_isspace (s : str) : bool :=
  match s with [] => false | _ => forallb is_ws_char s end.

(** Python [==] between values that occur nested inside containers
    ([True == 1], [None == Undefined], dicts unordered). *)
Fixpoint py_eq (a b : val) {struct a} : option bool :=
  match a, b with
  | VNil, VNil | VNil, VUndef | VUndef, VNil | VUndef, VUndef => Some true
  | VBool x, VBool y => Some (Bool.eqb x y)
  | VBool x, VInt y => Some (Z.eqb (if x then 1 else 0) y)
  | VInt x, VBool y => Some (Z.eqb x (if y then 1 else 0))
  | VInt x, VInt y => Some (Z.eqb x y)
  | VStr x, VStr y => Some (str_eqb x y)
  | VList x, VList y =>
      (fix go (x y : list val) : option bool :=
         match x, y with
         | [], [] => Some true
         | v :: x', w :: y' =>
             match py_eq v w with
             | Some true => go x' y'
             | r => r
             end
         | _, _ => Some false
         end) x y
  | VDict x, VDict y =>
      if negb (Nat.eqb (length x) (length y)) then Some false
      else
        (fix go (x : list (str * val)) : option bool :=
           match x with
           | [] => Some true
           | (k, v) :: x' =>
               match assoc k y with
               | None => Some false
               | Some w =>
                   match py_eq v w with
                   | Some true => go x'
                   | r => r
                   end
               end
           end) x
  | VRange l h, VRange l' h' =>
      (* ranges compare as sequences *)
      Some (if (h <? l)%Z then (h' <? l')%Z else (Z.eqb l l' && Z.eqb h h'))
  | VEmpty, VEmpty | VBlank, VBlank => Some true
  | VEmpty, VBlank | VBlank, VEmpty => Some false
  | VEmpty, VStr s | VStr s, VEmpty => Some (match s with [] => true | _ => false end)
  | VEmpty, VList l | VList l, VEmpty => Some (match l with [] => true | _ => false end)
  | VEmpty, VDict l | VDict l, VEmpty => Some (match l with [] => true | _ => false end)
  | VBlank, VStr s | VStr s, VBlank => Some (match s with [] => true | _ => str_isspace s end)
  | VBlank, VList l | VList l, VBlank => Some (match l with [] => true | _ => false end)
  | VBlank, VDict l | VDict l, VBlank => Some (match l with [] => true | _ => false end)
  | VForLoop _ _ _ _, _ | _, VForLoop _ _ _ _ => None
  | VList _, VRange _ _ | VRange _ _, VList _ => Some false
  | _, _ => Some false
  end.

(** [_eq]: booleans only equal booleans at the top level. *)
Definition liq_eq (a b : val) : option bool :=
  let norm v := match v with VUndef => VNil | _ => v end in
  let a := norm a in let b := norm b in
  match a, b with
  | VBool x, VBool y => Some (Bool.eqb x y)
  | VBool _, _ | _, VBool _ => Some false
  | _, _ => py_eq a b
  end.

Fixpoint str_ltb (a b : str) : bool :=
  match a, b with
  | _, [] => false
  | [], _ :: _ => true
  | x :: a', y :: b' => if (x <? y)%N then true else if (y <? x)%N then false else str_ltb a' b'
  end.

(** [_lt]: [None] here means LiquidTypeError. *)
Definition liq_lt (a b : val) : option bool :=
  match a, b with
  | VStr x, VStr y => Some (str_ltb x y)
  | VBool _, _ | _, VBool _ => Some false
  | VInt x, VInt y => Some (x <? y)%Z
  | _, _ => None
  end.

(** Decimal rendering of integers (Python [str(int)]). *)
Fixpoint pos_digits (fuel : nat) (n : N) (acc : str) : str :=
  match fuel with
  | O => acc
  | S f =>
      let d := (48 + n mod 10)%N in
      let q := (n / 10)%N in
      if (q =? 0)%N then d :: acc else pos_digits f q (d :: acc)
  end.

Definition str_of_N (n : N) : str := pos_digits (S (N.to_nat (N.log2 n))) n [].

Definition str_of_Z (z : Z) : str :=
  match z with
  | Z0 => [48%N]
  | Zpos p => str_of_N (Npos p)
  | Zneg p => 45%N :: str_of_N (Npos p)
  end.

Definition s_true : str := [116; 114; 117; 101]%N.
Definition s_false : str := [102; 97; 108; 115; 101]%N.
Definition s_dotdot : str := [46; 46]%N.
Definition s_ForLoop : str := [70; 111; 114; 76; 111; 111; 112]%N.

Definition s_None_ : str := [78; 111; 110; 101]%N.
Definition s_True_ : str := [84; 114; 117; 101]%N.
Definition s_False_ : str := [70; 97; 108; 115; 101]%N.

(** Python [repr] of JSON-like data (what [str(dict)] prints).  Strings are
    modelled when every character is printable ASCII other than backslash, or
    U+00E9; anything else is outside the model. *)
Definition repr_safe_char (ch : N) : bool :=
  (((32 <=? ch) && (ch <=? 126)) && negb (ch =? 92) || (ch =? 233))%N.

Definition repr_str (s : str) : option str :=
  if forallb repr_safe_char s then
    let has_sq := existsb (N.eqb 39) s in
    let has_dq := existsb (N.eqb 34) s in
    if has_sq && negb has_dq then Some (34 :: s ++ [34])%N
    else Some ((39%N :: flat_map (fun ch => if (ch =? 39)%N then [92; 39]%N else [ch]) s) ++ [39%N])
  else None.

Fixpoint py_repr (v : val) : option str :=
  match v with
  | VNil => Some s_None_
  | VBool b => Some (if b then s_True_ else s_False_)
  | VInt z => Some (str_of_Z z)
  | VStr s => repr_str s
  | VList l =>
      match (fix go (l : list val) (first : bool) : option str :=
               match l with
               | [] => Some []
               | x :: l' =>
                   match py_repr x, go l' false with
                   | Some a, Some b => Some ((if first then [] else [44; 32]%N) ++ a ++ b)
                   | _, _ => None
                   end
               end) l true with
      | Some body => Some (91%N :: body ++ [93%N])
      | None => None
      end
  | VDict kvs =>
      match (fix go (l : list (str * val)) (first : bool) : option str :=
               match l with
               | [] => Some []
               | (k, x) :: l' =>
                   match repr_str k, py_repr x, go l' false with
                   | Some kk, Some a, Some b =>
                       Some ((if first then [] else [44; 32]%N) ++ kk ++ [58; 32]%N ++ a ++ b)
                   | _, _, _ => None
                   end
               end) kvs true with
      | Some body => Some (123%N :: body ++ [125%N])
      | None => None
      end
  | _ => None
  end.

(** [to_liquid_string] (auto_escape off). A dict prints as its Python repr. *)
Fixpoint to_liquid_string (v : val) : option str :=
  match v with
  | VStr s => Some s
  | VBool b => Some (if b then s_true else s_false)
  | VNil | VUndef | VEmpty | VBlank => Some []
  | VInt z => Some (str_of_Z z)
  | VRange lo hi => Some (str_of_Z lo ++ s_dotdot ++ str_of_Z hi)
  | VList l =>
      (fix go (l : list val) : option str :=
         match l with
         | [] => Some []
         | x :: l' =>
             match to_liquid_string x, go l' with
             | Some a, Some b => Some (a ++ b)
             | _, _ => None
             end
         end) l
  | VDict _ => py_repr v
  | VForLoop _ _ _ _ => Some s_ForLoop
  end.

(** Python [str(x)] as used by [_contains] on a string haystack: only the
    cases where it coincides with something simple are modelled. *)
Definition py_str (v : val) : option str :=
  match v with
  | VStr s => Some s
  | VInt z => Some (str_of_Z z)
  | VUndef => Some []
  | _ => None
  end.

Fixpoint is_prefix (p s : str) : bool :=
  match p, s with
  | [], _ => true
  | x :: p', y :: s' => N.eqb x y && is_prefix p' s'
  | _ :: _, [] => false
  end.

Fixpoint str_contains (needle hay : str) : bool :=
  is_prefix needle hay || match hay with [] => false | _ :: h' => str_contains needle h' end.

Fixpoint range_list (n : nat) (lo : Z) : list val :=
  match n with O => [] | S n' => VInt lo :: range_list n' (lo + 1) end.

Definition range_len (lo hi : Z) : nat := Z.to_nat (hi - lo + 1).

(** [_contains left right]: outer [None] = outside the model,
    inner [None] = LiquidTypeError. *)
Definition liq_contains (left right : val) : option (option bool) :=
  match left with
  | VStr h => match py_str right with Some n => Some (Some (str_contains n h)) | None => None end
  | VList l =>
      (fix go (l : list val) : option (option bool) :=
         match l with
         | [] => Some (Some false)
         | x :: l' =>
             match py_eq x right with
             | Some true => Some (Some true)
             | Some false => go l'
             | None => None
             end
         end) l
  | VDict kvs =>
      match right with
      | VStr k => Some (Some (match assoc k kvs with Some _ => true | None => false end))
      | VInt _ | VNil => Some (Some false)
      | _ => None
      end
  | VRange lo hi =>
      match right with
      | VInt z => Some (Some ((lo <=? z)%Z && (z <=? hi)%Z))
      | VStr _ | VNil => Some (Some false)
      | _ => None
      end
  | VUndef => Some (Some false)          (* Undefined.__contains__ *)
  | VForLoop _ _ _ _ => None
  | _ => Some None                      (* not a str / Collection: LiquidTypeError *)
  end.

(** * Item access: RenderContext.get_item.
    [GMiss] stands for KeyError / IndexError / TypeError (all make the path
    undefined). *)
Inductive getres := GOk (v : val) | GMiss | GUnmodelled.

Definition py_index {A} (l : list A) (i : Z) : option A :=
  let n := Z.of_nat (length l) in
  let j := if (i <? 0)%Z then (i + n)%Z else i in
  if ((j <? 0) || (n <=? j))%Z then None else nth_error l (Z.to_nat j).

Definition s_size : str := [115; 105; 122; 101]%N.
Definition s_first : str := [102; 105; 114; 115; 116]%N.
Definition s_last : str := [108; 97; 115; 116]%N.
Definition s_name : str := [110; 97; 109; 101]%N.
Definition s_length : str := [108; 101; 110; 103; 116; 104]%N.
Definition s_index : str := [105; 110; 100; 101; 120]%N.
Definition s_index0 : str := [105; 110; 100; 101; 120; 48]%N.
Definition s_rindex : str := [114; 105; 110; 100; 101; 120]%N.
Definition s_rindex0 : str := [114; 105; 110; 100; 101; 120; 48]%N.
Definition s_parentloop : str := [112; 97; 114; 101; 110; 116; 108; 111; 111; 112]%N.

(** [obj[key]] *)
Definition raw_getitem (obj key : val) : getres :=
  match obj, key with
  | VUndef, _ => GOk VUndef                 (* Undefined.__getitem__ returns self *)
  | _, (VList _ | VDict _ | VRange _ _ | VEmpty | VBlank) =>
      (* unhashable / not an index: TypeError or KeyError *)
      match obj with VForLoop _ _ _ _ => GUnmodelled | _ => GMiss end
  | VDict kvs, VStr k => match assoc k kvs with Some v => GOk v | None => GMiss end
  | VDict _, (VInt _ | VNil | VBool _) => GMiss
  | VList l, VInt i => match py_index l i with Some v => GOk v | None => GMiss end
  | VList l, VBool b => match py_index l (if b then 1 else 0)%Z with Some v => GOk v | None => GMiss end
  | VList _, (VStr _ | VNil) => GMiss
  | VStr s, VInt i => match py_index s i with Some c => GOk (VStr [c]) | None => GMiss end
  | VStr s, VBool b => match py_index s (if b then 1 else 0)%Z with Some c => GOk (VStr [c]) | None => GMiss end
  | VStr _, (VStr _ | VNil) => GMiss
  | VRange lo hi, VInt i =>
      let n := Z.of_nat (range_len lo hi) in
      let j := if (i <? 0)%Z then (i + n)%Z else i in
      if ((j <? 0) || (n <=? j))%Z then GMiss else GOk (VInt (lo + j))
  | VRange _ _, (VStr _ | VNil) => GMiss
  | (VNil | VBool _ | VInt _ | VEmpty | VBlank), (VStr _ | VInt _ | VNil | VBool _) => GMiss
  | VForLoop name len idx parent, VStr k =>
      if str_eqb k s_name then GOk (VStr name)
      else if str_eqb k s_length then GOk (VInt len)
      else if str_eqb k s_index then GOk (VInt (idx + 1))
      else if str_eqb k s_index0 then GOk (VInt idx)
      else if str_eqb k s_rindex then GOk (VInt (len - idx))
      else if str_eqb k s_rindex0 then GOk (VInt (len - idx - 1))
      else if str_eqb k s_first then GOk (VBool (Z.eqb idx 0))
      else if str_eqb k s_last then GOk (VBool (Z.eqb idx (len - 1)))
      else if str_eqb k s_parentloop then GOk parent
      else GMiss
  | VForLoop _ _ _ _, (VInt _ | VNil | VBool _) => GMiss
  | _, _ => GUnmodelled
  end.

Definition sized_len (obj : val) : option Z :=
  match obj with
  | VStr s => Some (Z.of_nat (length s))
  | VList l => Some (Z.of_nat (length l))
  | VDict l => Some (Z.of_nat (length l))
  | VRange lo hi => Some (Z.of_nat (range_len lo hi))
  | VUndef => Some 0%Z
  | VForLoop _ _ _ _ => Some 9%Z
  | _ => None
  end.

Definition get_item (obj key : val) : getres :=
  match key with
  | VStr k =>
      if str_eqb k s_size then
        match raw_getitem obj key with
        | GMiss => match sized_len obj with Some n => GOk (VInt n) | None => GMiss end
        | r => r
        end
      else if str_eqb k s_first then
        match raw_getitem obj key with
        | GMiss =>
            match obj with
            | VDict ((k0, v0) :: _) => GOk (VList [VStr k0; v0])
            | VDict [] => GMiss
            | VList l => match l with x :: _ => GOk x | [] => GMiss end
            | VStr s => match s with c :: _ => GOk (VStr [c]) | [] => GMiss end
            | VRange lo hi => if (hi <? lo)%Z then GMiss else GOk (VInt lo)
            | _ => GMiss
            end
        | r => r
        end
      else if str_eqb k s_last then
        match raw_getitem obj key with
        | GMiss =>
            match obj with
            | VList l => match rev l with x :: _ => GOk x | [] => GMiss end
            | VStr s => match rev s with c :: _ => GOk (VStr [c]) | [] => GMiss end
            | VRange lo hi => if (hi <? lo)%Z then GMiss else GOk (VInt hi)
            | _ => GMiss
            end
        | r => r
        end
      else raw_getitem obj key
  | _ => raw_getitem obj key
  end.

(** A ForLoop object is live: its index moves on with the loop.  The model holds
    a snapshot, which is what every read inside the same iteration sees; a
    snapshot that outlives the iteration (kept by [assign]) would not. *)
Fixpoint has_forloop (v : val) : bool :=
  match v with
  | VForLoop _ _ _ _ => true
  | VList l => (fix go (l : list val) : bool := match l with [] => false | x :: l' => has_forloop x || go l' end) l
  | VDict kvs =>
      (fix go (l : list (str * val)) : bool := match l with [] => false | kv :: l' => has_forloop (snd kv) || go l' end) kvs
  | _ => false
  end.

(** Boolean equality on values, for the correspondence runner. *)
Fixpoint val_eqb (a b : val) {struct a} : bool :=
  match a, b with
  | VNil, VNil | VUndef, VUndef | VEmpty, VEmpty | VBlank, VBlank => true
  | VBool x, VBool y => Bool.eqb x y
  | VInt x, VInt y => Z.eqb x y
  | VStr x, VStr y => str_eqb x y
  | VList x, VList y =>
      (fix go (x y : list val) : bool :=
         match x, y with
         | [], [] => true
         | v :: x', w :: y' => val_eqb v w && go x' y'
         | _, _ => false
         end) x y
  | VDict x, VDict y =>
      (fix go (x y : list (str * val)) : bool :=
         match x, y with
         | [], [] => true
         | (k, v) :: x', (k', w) :: y' => str_eqb k k' && val_eqb v w && go x' y'
         | _, _ => false
         end) x y
  | VRange l h, VRange l' h' => Z.eqb l l' && Z.eqb h h'
  | VForLoop n l i p, VForLoop n' l' i' p' =>
      str_eqb n n' && Z.eqb l l' && Z.eqb i i' && val_eqb p p'
  | _, _ => false
  end.
