(** Core/Render.v — a fuelled big-step interpreter for the Core Liquid
    Fragment whose shape follows the Python: same order of evaluation, same
    place for every scope push/pop, BlockNode suppression through a null
    buffer, isolated copies for render/call, shared context for include.

    Transcribed from: liquid2/template.py:78-135 (render, render_with_context),
    liquid2/context.py (RenderContext.__init__, get, extend, copy, loop, cycle,
    increment, decrement, stopindex, parentloop), liquid2/ast.py:151-169
    (BlockNode), liquid2/builtin/expressions.py (evaluate of each expression,
    LoopExpression._slice), liquid2/builtin/output.py, content.py and the tag
    modules if/unless/case/for/assign/capture/increment/decrement/cycle/raw/
    with/render/include/macro/echo.

    Model file: definitions only.  Auto-escape off, default Undefined policy,
    no resource limits other than the context depth limit. *)
From LQ Require Export Core.Syntax.

Definition ns := list (str * val).

Record macro := { m_params : list (str * option expr); m_body : list node }.

Record cfg := {
  suppress : bool;          (* suppress_blank_control_flow_blocks *)
  depth_limit : Z           (* context_depth_limit *)
}.

Record ctx := {
  scopes : list ns;         (* pushed by extend(), innermost first *)
  locals : ns;
  globals : list ns;        (* ReadOnlyChainMap layers of self.globals *)
  root_globals : list ns;
  counters : list (str * Z);
  cycles : list (str * Z);
  stopindex : list (str * Z);
  macros : list (str * macro);
  loops : list val;         (* ForLoop objects of the active for tags, innermost first *)
  disabled : list str;
  copy_depth : Z;
  tname : str;
  dlimit : Z               (* env.context_depth_limit, read by extend() *)
}.

Record buf := { text : str; null : bool }.

Inductive status :=
| SDone | SBrk | SCont
| SErr (c : lclass)
| SFuel
| SUnmodelled.

Record rstate := { st : status; cx : ctx; bf : buf }.

Inductive eres := EOk (v : val) | EErr (c : lclass) | EUnm | EFuel.

Definition write (b : buf) (s : str) : buf :=
  if null b then b else {| text := text b ++ s; null := false |}.

(** * Context operations *)

Definition set_scopes (c : ctx) (s : list ns) : ctx :=
  {| scopes := s; locals := locals c; globals := globals c; root_globals := root_globals c;
     counters := counters c; cycles := cycles c; stopindex := stopindex c; macros := macros c;
     loops := loops c; disabled := disabled c; copy_depth := copy_depth c; tname := tname c; dlimit := dlimit c |}.
Definition set_locals (c : ctx) (l : ns) : ctx :=
  {| scopes := scopes c; locals := l; globals := globals c; root_globals := root_globals c;
     counters := counters c; cycles := cycles c; stopindex := stopindex c; macros := macros c;
     loops := loops c; disabled := disabled c; copy_depth := copy_depth c; tname := tname c; dlimit := dlimit c |}.
Definition set_globals (c : ctx) (g : list ns) : ctx :=
  {| scopes := scopes c; locals := locals c; globals := g; root_globals := root_globals c;
     counters := counters c; cycles := cycles c; stopindex := stopindex c; macros := macros c;
     loops := loops c; disabled := disabled c; copy_depth := copy_depth c; tname := tname c; dlimit := dlimit c |}.
Definition set_counters (c : ctx) (x : list (str * Z)) : ctx :=
  {| scopes := scopes c; locals := locals c; globals := globals c; root_globals := root_globals c;
     counters := x; cycles := cycles c; stopindex := stopindex c; macros := macros c;
     loops := loops c; disabled := disabled c; copy_depth := copy_depth c; tname := tname c; dlimit := dlimit c |}.
Definition set_cycles (c : ctx) (x : list (str * Z)) : ctx :=
  {| scopes := scopes c; locals := locals c; globals := globals c; root_globals := root_globals c;
     counters := counters c; cycles := x; stopindex := stopindex c; macros := macros c;
     loops := loops c; disabled := disabled c; copy_depth := copy_depth c; tname := tname c; dlimit := dlimit c |}.
Definition set_stopindex (c : ctx) (x : list (str * Z)) : ctx :=
  {| scopes := scopes c; locals := locals c; globals := globals c; root_globals := root_globals c;
     counters := counters c; cycles := cycles c; stopindex := x; macros := macros c;
     loops := loops c; disabled := disabled c; copy_depth := copy_depth c; tname := tname c; dlimit := dlimit c |}.
Definition set_macros (c : ctx) (x : list (str * macro)) : ctx :=
  {| scopes := scopes c; locals := locals c; globals := globals c; root_globals := root_globals c;
     counters := counters c; cycles := cycles c; stopindex := stopindex c; macros := x;
     loops := loops c; disabled := disabled c; copy_depth := copy_depth c; tname := tname c; dlimit := dlimit c |}.
Definition set_loops (c : ctx) (x : list val) : ctx :=
  {| scopes := scopes c; locals := locals c; globals := globals c; root_globals := root_globals c;
     counters := counters c; cycles := cycles c; stopindex := stopindex c; macros := macros c;
     loops := x; disabled := disabled c; copy_depth := copy_depth c; tname := tname c; dlimit := dlimit c |}.
Definition set_tname (c : ctx) (x : str) : ctx :=
  {| scopes := scopes c; locals := locals c; globals := globals c; root_globals := root_globals c;
     counters := counters c; cycles := cycles c; stopindex := stopindex c; macros := macros c;
     loops := loops c; disabled := disabled c; copy_depth := copy_depth c; tname := x; dlimit := dlimit c |}.

Fixpoint chain_lookup (k : str) (layers : list ns) : option val :=
  match layers with
  | [] => None
  | l :: rest => match assoc k l with Some v => Some v | None => chain_lookup k rest end
  end.

(** self.scope[name]: pushed scopes, locals, globals, (builtin), counters. *)
Definition lookup (c : ctx) (k : str) : option val :=
  match chain_lookup k (scopes c) with
  | Some v => Some v
  | None =>
      match assoc k (locals c) with
      | Some v => Some v
      | None =>
          match chain_lookup k (globals c) with
          | Some v => Some v
          | None => match assoc k (counters c) with Some z => Some (VInt z) | None => None end
          end
      end
  end.

(** scope.size(): pushed scopes + locals + globals + builtin + counters. *)
Definition scope_size (c : ctx) : Z := Z.of_nat (length (scopes c)) + 4.

(** extend(): [None] = ContextDepthError. *)
Definition extend (g : cfg) (c : ctx) (n : ns) : option ctx :=
  if (depth_limit g <? scope_size c)%Z then None else Some (set_scopes c (n :: scopes c)).

Definition pop_scope (c : ctx) : ctx := set_scopes c (tl (scopes c)).

Definition set_top_scope (c : ctx) (n : ns) : ctx := set_scopes c (n :: tl (scopes c)).

(** copy() without block scope (render, call): [None] = ContextDepthError. *)
Definition copy_isolated (g : cfg) (c : ctx) (n : ns) (dis : list str) (tn : str) : option ctx :=
  if (depth_limit g <? copy_depth c)%Z then None
  else Some {| scopes := []; locals := []; globals := n :: root_globals c;
               root_globals := root_globals c; counters := []; cycles := [];
               stopindex := []; macros := []; loops := []; disabled := dis;
               copy_depth := copy_depth c + 1; tname := tn; dlimit := dlimit c |}.

(** * Filters of the fragment *)

Definition ascii (s : str) : bool := forallb (fun c => (c <? 128)%N) s.
Definition up1 (c : N) : N := if ((97 <=? c) && (c <=? 122))%N then (c - 32)%N else c.
Definition down1 (c : N) : N := if ((65 <=? c) && (c <=? 90))%N then (c + 32)%N else c.

Definition s_True : str := [84; 114; 117; 101]%N.
Definition s_False : str := [70; 97; 108; 115; 101]%N.
Definition s_None : str := [78; 111; 110; 101]%N.

(** Python str() of a filter argument. *)
Definition py_str_arg (v : val) : option str :=
  match v with
  | VStr s => Some s
  | VInt z => Some (str_of_Z z)
  | VBool b => Some (if b then s_True else s_False)
  | VNil => Some s_None
  | VUndef => Some []
  | _ => None      (* str() of a list or dict is its Python repr, and the model
                      does not tell the (key, value) tuples of a dict from lists *)
  end.

(** Decimal digits of a numeric string: [^-?[0-9]+$]. *)
Fixpoint digits_val (s : str) (acc : Z) : option Z :=
  match s with
  | [] => Some acc
  | ch :: s' =>
      if ((48 <=? ch) && (ch <=? 57))%N then digits_val s' (acc * 10 + Z.of_N (ch - 48))
      else None
  end.

Definition int_of_str (s : str) : option Z :=
  match s with
  | [] => None
  | 45%N :: c1 :: rest => option_map Z.opp (digits_val (c1 :: rest) 0)
  | _ => digits_val s 0
  end.

(** A string that neither int() nor float() can parse: it is empty, or
    contains an ASCII character that occurs in no numeric spelling (a letter
    outside "infinity", "nan", "e", or one of < > ! , ;). *)
Definition never_numeric_char (ch : N) : bool :=
  existsb (N.eqb ch)
    [98; 99; 100; 103; 104; 106; 107; 108; 109; 111; 112; 113; 114; 115; 117; 118; 119; 120; 122;
     66; 67; 68; 71; 72; 74; 75; 76; 77; 79; 80; 81; 82; 83; 85; 86; 87; 88; 90;
     60; 62; 33; 44; 59]%N.

Definition not_a_number (s : str) : bool :=
  match s with [] => true | _ => existsb never_numeric_char s end.

(** num_arg(v, default=0) restricted to integers: [None] = outside the model
    (floats and unusual numeric spellings). *)
Definition num_arg0 (v : val) : option Z :=
  match v with
  | VInt z => Some z
  | VBool b => Some (if b then 1 else 0)%Z
  | VStr s =>
      match int_of_str s with
      | Some z => Some z
      | None => if not_a_number s then Some 0%Z else None
      end
  | VForLoop _ _ _ _ => None
  | _ => Some 0%Z
  end.

Fixpoint flatten (level : nat) : list val -> list val :=
  fix go (l : list val) : list val :=
    match l with
    | [] => []
    | x :: l' =>
        match level, x with
        | S lv, VList inner => flatten lv inner ++ go l'
        | _, _ => x :: go l'
        end
    end.

(** sequence_arg *)
Definition sequence_arg (v : val) : option (list val) :=
  match v with
  | VUndef => Some []
  | VStr s => Some (map (fun c => VStr [c]) s)
  | VList l => Some (flatten 5 l)
  | VRange lo hi => Some (range_list (range_len lo hi) lo)
  | VDict _ => Some [v]
  | VForLoop _ _ _ _ => None
  | _ => Some [v]
  end.

Fixpoint join_strs (sep : str) (l : list str) : str :=
  match l with
  | [] => []
  | [x] => x
  | x :: l' => x ++ sep ++ join_strs sep l'
  end.

Fixpoint all_some {A} (l : list (option A)) : option (list A) :=
  match l with
  | [] => Some []
  | Some x :: l' => match all_some l' with Some r => Some (x :: r) | None => None end
  | None :: _ => None
  end.

Definition apply_filter (f : fname) (v : val) (args : list val) : eres :=
  match f, args with
  | FUpcase, [] =>
      match to_liquid_string v with
      | Some s => if ascii s then EOk (VStr (map up1 s)) else EUnm
      | None => EUnm
      end
  | FDowncase, [] =>
      match to_liquid_string v with
      | Some s => if ascii s then EOk (VStr (map down1 s)) else EUnm
      | None => EUnm
      end
  | FAppend, [a] =>
      (* since /repo f4fb334 the argument takes its Liquid string form, like prepend *)
      match to_liquid_string v, to_liquid_string a with
      | Some s, Some t => EOk (VStr (s ++ t))
      | _, _ => EUnm
      end
  | FPrepend, [a] =>
      match to_liquid_string v, to_liquid_string a with
      | Some s, Some t => EOk (VStr (t ++ s))
      | _, _ => EUnm
      end
  | FSize, [] =>
      match sized_len v with Some n => EOk (VInt n) | None => EOk (VInt 0) end
  | FDefault, [] | FDefault, [_] =>
      let d := match args with [a] => a | _ => VStr [] end in
      match v with
      | VInt _ => EOk v
      | VNil | VUndef | VBool false => EOk d
      | VStr [] | VList [] | VDict [] => EOk d
      | VBool true | VStr _ | VList _ | VDict _ | VRange _ _ => EOk v
      | _ => EUnm
      end
  | FPlus, [a] =>
      match num_arg0 v, num_arg0 a with Some x, Some y => EOk (VInt (x + y)) | _, _ => EUnm end
  | FMinus, [a] =>
      match num_arg0 v, num_arg0 a with Some x, Some y => EOk (VInt (x - y)) | _, _ => EUnm end
  | FTimes, [a] =>
      match num_arg0 v, num_arg0 a with Some x, Some y => EOk (VInt (x * y)) | _, _ => EUnm end
  | FJoin, [] | FJoin, [_] =>
      let sep := match args with
                 | [a] => to_liquid_string a      (* Liquid string form since /repo f4fb334 *)
                 | _ => Some [32%N]
                 end in
      match sep, sequence_arg v with
      | Some sp, Some items =>
          match all_some (map to_liquid_string items) with
          | Some strs => EOk (VStr (join_strs sp strs))
          | None => EUnm
          end
      | _, _ => EUnm
      end
  | FFirst, [] =>
      match v with
      | VStr _ => EOk VNil
      | VDict [] => EOk VNil
      | VDict ((k, x) :: _) => EOk (VList [VStr k; x])
      | VList [] => EOk VNil
      | VList (x :: _) => EOk x
      | VRange lo hi => if (hi <? lo)%Z then EOk VNil else EOk (VInt lo)
      | VUndef => EOk VNil      (* Undefined is an (empty) Mapping: nil since /repo d21fa41 *)
      | VForLoop _ _ idx _ =>
          (* a ForLoop is a Mapping whose items are sorted by key: the first pair is
             ("first", forloop.first) (first on any Mapping since /repo d21fa41) *)
          EOk (VList [VStr s_first; VBool (Z.eqb idx 0)])
      | VNil | VBool _ | VInt _ => EOk VNil
      | _ => EUnm
      end
  | FLast, [] =>
      match v with
      | VStr _ => EOk VNil
      | VDict _ => EOk VNil
      | VList l => match rev l with x :: _ => EOk x | [] => EOk VNil end
      | VRange lo hi => if (hi <? lo)%Z then EOk VNil else EOk (VInt hi)
      | VUndef => EOk VUndef
      | VNil | VBool _ | VInt _ | VForLoop _ _ _ _ => EOk VNil
      | _ => EUnm
      end
  | _, _ => EUnm      (* wrong arity: LiquidTypeError in Python; never generated *)
  end.

(** * Expressions *)

(** to_int for range bounds / loop limits. *)
Inductive intres := IOk (z : Z) | ITypeErr | IUnm.
Definition to_int_loop (v : val) : intres :=
  match v with
  | VInt z => IOk z
  | VBool b => IOk (if b then 1 else 0)%Z
  | VUndef => IOk 0%Z
  | VStr s =>
      match int_of_str s with
      | Some z => IOk z
      | None => if not_a_number s then ITypeErr else IUnm   (* int(s): ValueError *)
      end
  | VForLoop _ _ _ _ => IUnm
  | _ => ITypeErr
  end.

(** RangeLiteral._make_range: ValueError, TypeError and OverflowError -> 0. *)
Definition to_int_range (v : val) : option Z :=
  match v with
  | VInt z => Some z
  | VBool b => Some (if b then 1 else 0)%Z
  | VStr s =>
      match int_of_str s with
      | Some z => Some z
      | None => if not_a_number s then Some 0%Z else None
      end
  | _ => Some 0%Z          (* ValueError / TypeError -> 0 *)
  end.

Definition cmp_vals (op : cmpop) (a b : val) : eres :=
  let ofb (o : option bool) := match o with Some x => EOk (VBool x) | None => EUnm end in
  let lt x y := match liq_lt x y with Some r => Some (Some r) | None =>
                  match x, y with
                  | VForLoop _ _ _ _, _ | _, VForLoop _ _ _ _ => None
                  | _, _ => Some None
                  end end in
  match op with
  | OEq => ofb (liq_eq a b)
  | ONe => ofb (option_map negb (liq_eq a b))
  | OLt => match lt a b with Some (Some r) => EOk (VBool r) | Some None => EErr LiquidTypeError | None => EUnm end
  | OGt => match lt b a with Some (Some r) => EOk (VBool r) | Some None => EErr LiquidTypeError | None => EUnm end
  | OLe =>
      match liq_eq a b with
      | Some true => EOk (VBool true)
      | Some false => match lt a b with Some (Some r) => EOk (VBool r) | Some None => EErr LiquidTypeError | None => EUnm end
      | None => EUnm
      end
  | OGe =>
      match liq_eq a b with
      | Some true => EOk (VBool true)
      | Some false => match lt b a with Some (Some r) => EOk (VBool r) | Some None => EErr LiquidTypeError | None => EUnm end
      | None => EUnm
      end
  | OContains =>
      match liq_contains a b with
      | Some (Some r) => EOk (VBool r) | Some None => EErr LiquidTypeError | None => EUnm end
  | OIn =>
      match liq_contains b a with
      | Some (Some r) => EOk (VBool r) | Some None => EErr LiquidTypeError | None => EUnm end
  end.

(** RenderContext.get: walk the segments with get_item; a miss anywhere makes
    the whole path undefined. *)
Fixpoint walk (obj : val) (keys : list val) : eres :=
  match keys with
  | [] => EOk obj
  | k :: keys' =>
      match k with
      | VStr _ | VInt _ | VNil | VBool _ | VList _ | VDict _ | VRange _ _ =>
          match get_item obj k with
          | GOk v => walk v keys'
          | GMiss => EOk VUndef
          | GUnmodelled => EUnm
          end
      | VUndef =>
          (* hasattr(key, "__liquid__"): the key becomes None *)
          match get_item obj VNil with
          | GOk v => walk v keys'
          | GMiss => EOk VUndef
          | GUnmodelled => EUnm
          end
      | _ => EUnm
      end
  end.

(** What each lambda-aware filter makes of the items and the values of the
    arrow function on them (map_filter.py, filtering_filters.py, find_filters.py). *)
Definition lam_true (rv : val) : bool :=
  match rv with VUndef => false | _ => is_truthy rv end.

Fixpoint lam_select (keep : bool) (items rvs : list val) : list val :=
  match items, rvs with
  | it :: items', rv :: rvs' =>
      if Bool.eqb (lam_true rv) keep then it :: lam_select keep items' rvs' else lam_select keep items' rvs'
  | _, _ => []
  end.

Fixpoint lam_find (items rvs : list val) (i : Z) : option (val * Z) :=
  match items, rvs with
  | it :: items', rv :: rvs' => if lam_true rv then Some (it, i) else lam_find items' rvs' (i + 1)%Z
  | _, _ => None
  end.

Definition lam_scope (param : str) (iparam : option str) (it : val) (i : Z) : list (str * val) :=
  match iparam with
  | Some ip => [(param, it); (ip, VInt i)]
  | None => [(param, it)]
  end.

Definition lam_stops (lf : lfname) : bool :=
  match lf with LFind | LFindIndex | LHas => true | _ => false end.

Definition lambda_result (lf : lfname) (items rvs : list val) : eres :=
  match lf with
  | LMap => EOk (VList (map (fun rv => match rv with VUndef => VNil | _ => rv end) rvs))
  | LWhere => EOk (VList (lam_select true items rvs))
  | LReject => EOk (VList (lam_select false items rvs))
  | LFind => EOk (match lam_find items rvs 0 with Some (it, _) => it | None => VNil end)
  | LFindIndex => EOk (match lam_find items rvs 0 with Some (_, i) => VInt i | None => VNil end)
  | LHas => EOk (VBool (match lam_find items rvs 0 with Some _ => true | None => false end))
  end.

(** TemplateString.evaluate: the Liquid string forms of the parts, joined. *)
Fixpoint concat_liquid (vs : list val) : option str :=
  match vs with
  | [] => Some []
  | v :: vs' =>
      match to_liquid_string v, concat_liquid vs' with
      | Some s, Some t => Some (s ++ t)
      | _, _ => None
      end
  end.

(** One step of expression evaluation, parameterised by the recursive call. *)
Section EvalStep.
Variable ev : ctx -> expr -> eres.

Fixpoint eval_list (c : ctx) (l : list expr) : eres + list val :=
  match l with
  | [] => inr []
  | x :: l' =>
      match ev c x with
      | EOk v => match eval_list c l' with inr vs => inr (v :: vs) | inl r => inl r end
      | r => inl r
      end
  end.

(** segments that are nested paths are evaluated first, left to right *)
Fixpoint eval_segs (c : ctx) (l : list seg) : eres + list val :=
  match l with
  | [] => inr []
  | s :: l' =>
      let r := match s with
               | SKey k => EOk (VStr k)
               | SIdx i => EOk (VInt i)
               | SExpr e' => ev c e'
               end in
      match r with
      | EOk v => match eval_segs c l' with inr vs => inr (v :: vs) | inl r' => inl r' end
      | r' => inl r'
      end
  end.

(** LambdaExpression.map is a generator: the scope it pushes binds the item
    (and, for a two-parameter arrow function, its index; the item is stored last,
    so it wins when both parameters have the same name).  where/reject/map
    exhaust the generator; find/find_index/has ([stop]) abandon it at the first
    item whose value is truthy and defined, so later items are never evaluated. *)
Fixpoint lambda_map (stop : bool) (c : ctx) (param : str) (iparam : option str) (body : expr)
         (items : list val) (i : Z) : eres + list val :=
  match items with
  | [] => inr []
  | it :: items' =>
      match ev (set_scopes c (lam_scope param iparam it i :: scopes c)) body with
      | EOk rv =>
          if stop && lam_true rv then inr [rv]
          else match lambda_map stop c param iparam body items' (i + 1)%Z with
               | inr rs => inr (rv :: rs)
               | inl r => inl r
               end
      | r => inl r
      end
  end.

Definition eval_step (c : ctx) (e : expr) : eres :=
  match e with
  | ELit v => EOk v
  | ERange lo hi =>
      match ev c lo with
      | EOk a =>
          match ev c hi with
          | EOk b =>
              match to_int_range a, to_int_range b with
              | Some x, Some y => if (y <? x)%Z then EOk (VRange 0 (-1)) else EOk (VRange x y)
              | _, _ => EUnm
              end
          | r => r
          end
      | r => r
      end
  | EArray items =>
      match eval_list c items with inr vs => EOk (VList vs) | inl r => r end
  | EPath root segs =>
      match eval_segs c segs with
      | inl r => r
      | inr keys =>
          match lookup c root with
          | None => EOk VUndef
          | Some obj => walk obj keys
          end
      end
  | ENot a =>
      match ev c a with EOk v => EOk (VBool (negb (is_truthy v))) | r => r end
  | EAnd a b =>
      match ev c a with
      | EOk v =>
          if is_truthy v then
            match ev c b with EOk w => EOk (VBool (is_truthy w)) | r => r end
          else EOk (VBool false)
      | r => r
      end
  | EOr a b =>
      match ev c a with
      | EOk v =>
          if is_truthy v then EOk (VBool true)
          else match ev c b with EOk w => EOk (VBool (is_truthy w)) | r => r end
      | r => r
      end
  | ECmp op a b =>
      (* `in` evaluates its right operand first *)
      match op with
      | OIn =>
          match ev c b with
          | EOk y => match ev c a with EOk x => cmp_vals op x y | r => r end
          | r => r
          end
      | _ =>
          match ev c a with
          | EOk x => match ev c b with EOk y => cmp_vals op x y | r => r end
          | r => r
          end
      end
  | EFilter a fn args =>
      match ev c a with
      | EOk v =>
          match eval_list c args with
          | inr vs => apply_filter fn v vs
          | inl r => r
          end
      | r => r
      end
  | ETernary cond a alt =>
      match ev c cond with
      | EOk cv =>
          if is_truthy cv then ev c a
          else match alt with Some b => ev c b | None => EOk VNil end
      | r => r
      end
  | EFilterL a lf param iparam body =>
      (* a filter given an arrow function: LambdaExpression.map
         extends the context with a scope that binds the parameter to each item
         in turn; the scope is popped when the filter has finished with the
         generator (also when it stops early or the body raises) *)
      match ev c a with
      | EOk v =>
          match sequence_arg v with
          | None => EUnm
          | Some items =>
              (* the generator body runs up to its `with context.extend(scope)` even
                 for an empty sequence (zip(strict=True) / the comprehension asks it
                 for an item) *)
              if (dlimit c <? scope_size c)%Z then EErr ContextDepthError
              else
                match lambda_map (lam_stops lf) c param iparam body items 0%Z with
                | inr rvs => lambda_result lf items rvs
                | inl r => r
                end
          end
      | r => r
      end
  | ETemplate parts =>
      match eval_list c parts with
      | inr vs => match concat_liquid vs with Some s => EOk (VStr s) | None => EUnm end
      | inl r => r
      end
  end.

End EvalStep.

Fixpoint eval (fuel : nat) (c : ctx) (e : expr) {struct fuel} : eres :=
  match fuel with
  | O => EFuel
  | S f => eval_step (eval f) c e
  end.

(** * Loop expression: _to_iter and _slice *)

Definition to_iter (v : val) : option (option (list val)) :=
  (* outer None = outside model, inner None = LiquidTypeError *)
  match v with
  | VDict kvs => Some (Some (map (fun kv => VList [VStr (fst kv); snd kv]) kvs))
  | VRange lo hi => Some (Some (range_list (range_len lo hi) lo))
  | VList l => Some (Some l)
  | VStr s => Some (Some (map (fun ch => VStr [ch]) s))
  | VUndef => Some (Some [])
  | VForLoop _ _ _ _ => None
  | _ => Some None
  end.

(** _slice: returns the items, the length and the new stop index. All of
    limit / offset are non-negative here (negative ones are outside). *)
Definition loop_slice (items : list val) (limit offset : option Z) (is_continue : bool)
  (stop_prev : Z) (reversed : bool) : list val * Z * Z :=
  let length0 := Z.of_nat (length items) in
  match limit, offset, is_continue with
  | None, None, false =>
      ((if reversed then rev items else items), length0, length0)
  | _, _, _ =>
      let off := if is_continue then Some stop_prev else offset in
      let len1 := match off with Some o => Z.max (length0 - o) 0 | None => length0 end in
      let len2 := match limit with Some l => Z.min len1 l | None => len1 end in
      let o := match off with Some o => o | None => 0%Z end in
      let stop := (if (o =? 0)%Z then len2 else o + len2)%Z in
      let sl := firstn (Z.to_nat (stop - o)) (skipn (Z.to_nat o) items) in
      ((if reversed then rev sl else sl), len2, stop)
  end.

(** * Rendering *)

Definition mk (s : status) (c : ctx) (b : buf) : rstate := {| st := s; cx := c; bf := b |}.

Definition of_eres_status (r : eres) : status :=
  match r with EOk _ => SDone | EErr cl => SErr cl | EUnm => SUnmodelled | EFuel => SFuel end.

Definition s_forloop : str := [102; 111; 114; 108; 111; 111; 112]%N.
Definition s_include : str := [105; 110; 99; 108; 117; 100; 101]%N.
Definition s_block : str := [98; 108; 111; 99; 107]%N.
Definition s_args : str := [97; 114; 103; 115]%N.
Definition s_kwargs : str := [107; 119; 97; 114; 103; 115]%N.

Definition cycle_next (c : ctx) (key : str) (n : Z) : Z * ctx :=
  let idx := match assoc key (cycles c) with Some i => i | None => 0%Z end in
  ((idx mod n)%Z, set_cycles c (dict_set key (idx + 1)%Z (cycles c))).

(** dict(pairs) keeps the first position and the last value of a duplicate key *)
Fixpoint dict_of_pairs (l : ns) (acc : ns) : ns :=
  match l with [] => acc | (k, v) :: l' => dict_of_pairs l' (dict_set k v acc) end.

Definition template_key (name : str) : str :=
  (* template.name.split(".")[0] *)
  (fix go (s : str) : str :=
     match s with [] => [] | ch :: s' => if (ch =? 46)%N then [] else ch :: go s' end) name.

Definition top_scope (c : ctx) : ns := match scopes c with t :: _ => t | [] => [] end.

(** ** One step of the interpreter, parameterised by the recursive calls
    ([ev] = expression evaluation at the remaining fuel, [rec] = node rendering
    at the remaining fuel).  Each loop of the Python is a named function so
    that proofs can treat it separately. *)
Section Step.
Variable g : cfg.
Variable ld : loader.
Variable ev : ctx -> expr -> eres.
Variable rec : node -> ctx -> buf -> rstate.

(** a list of nodes rendered in sequence: template.nodes, or a block's nodes *)
Fixpoint nodes (l : list node) (c : ctx) (b : buf) : rstate :=
  match l with
  | [] => mk SDone c b
  | x :: l' =>
      let r := rec x c b in
      match st r with
      | SDone => nodes l' (cx r) (bf r)
      | _ => r
      end
  end.

(** BlockNode.render_to_output *)
Definition block (l : list node) (c : ctx) (b : buf) : rstate :=
  if suppress g && block_blank l then
    let r := nodes l c {| text := []; null := true |} in
    mk (st r) (cx r) b
  else nodes l c b.

Definition oblock (o : option (list node)) (c : ctx) (b : buf) : rstate :=
  match o with Some l => block l c b | None => mk SDone c b end.

(** Template.render_with_context(partial=True, block_scope) *)
Definition partial_template (body : list node) (c : ctx) (b : buf) (block_scope : bool) : rstate :=
  match extend g c [] with
  | None => mk (SErr ContextDepthError) c b
  | Some c1 =>
      let r := nodes body c1 b in
      let c2 := pop_scope (cx r) in
      match st r with
      | SBrk | SCont =>
          if block_scope then mk (SErr LiquidSyntaxError) c2 (bf r) else mk (st r) c2 (bf r)
      | s => mk s c2 (bf r)
      end
  end.

Fixpoint eval_pairs (c : ctx) (l : list (str * expr)) : eres + ns :=
  match l with
  | [] => inr []
  | (k, e) :: l' =>
      match ev c e with
      | EOk v => match eval_pairs c l' with inr r => inr ((k, v) :: r) | inl r => inl r end
      | r => inl r
      end
  end.

Definition eval_namespace (c : ctx) (l : list (str * expr)) : eres + ns :=
  match eval_pairs c l with inr ps => inr (dict_of_pairs ps []) | inl r => inl r end.

(** elsif alternatives, then else *)
Fixpoint if_alts (els : option (list node)) (l : list (expr * list node)) (c : ctx) (b : buf) : rstate :=
  match l with
  | [] => oblock els c b
  | (ce, body) :: l' =>
      match ev c ce with
      | EOk w => if is_truthy w then block body c b else if_alts els l' c b
      | r => mk (of_eres_status r) c b
      end
  end.

(** _AnyExpression.evaluate *)
Fixpoint case_any (lhs : val) (xs : list expr) (c : ctx) : eres :=
  match xs with
  | [] => EOk (VBool false)
  | x :: xs' =>
      match ev c x with
      | EOk rhs =>
          match liq_eq lhs rhs with
          | Some true => EOk (VBool true)
          | Some false => case_any lhs xs' c
          | None => EUnm
          end
      | r => r
      end
  end.

(** CaseNode.render_to_output: every matching `when` renders; `else` iff none
    matched.  The case expression is re-evaluated for each `when`. *)
Fixpoint case_go (e : expr) (els : option (list node)) (l : list (list expr * list node))
  (matched : bool) (c : ctx) (b : buf) : rstate :=
  match l with
  | [] => if matched then mk SDone c b else oblock els c b
  | (alts, body) :: l' =>
      match ev c e with
      | EOk lhs =>
          match case_any lhs alts c with
          | EOk (VBool true) =>
              let r := block body c b in
              match st r with
              | SDone => case_go e els l' true (cx r) (bf r)
              | _ => r
              end
          | EOk _ => case_go e els l' matched c b
          | r => mk (of_eres_status r) c b
          end
      | r => mk (of_eres_status r) c b
      end
  end.

(** leaving RenderContext.loop(): pop the scope, pop the loop stack *)
Definition finish_loop (s : status) (c : ctx) (b : buf) : rstate :=
  mk s (set_loops (pop_scope c) (tl (loops c))) b.

Fixpoint for_iter (x key : str) (len : Z) (parent : val) (body : list node)
  (its : list val) (i : Z) (c : ctx) (b : buf) : rstate :=
  match its with
  | [] => finish_loop SDone c b
  | it :: its' =>
      let fl := VForLoop key len i parent in
      let nsx := if str_eqb x s_forloop then [(s_forloop, it)] else [(s_forloop, fl); (x, it)] in
      let c' := set_loops (set_top_scope c nsx) (fl :: tl (loops c)) in
      let r := block body c' b in
      match st r with
      | SDone | SCont => for_iter x key len parent body its' (i + 1)%Z (cx r) (bf r)
      | SBrk => finish_loop SDone (cx r) (bf r)
      | s => finish_loop s (cx r) (bf r)
      end
  end.

Inductive loop_arg := LaOk (z : option Z) | LaStatus (s : status).

Definition eval_loop_int (c : ctx) (o : option expr) : loop_arg :=
  match o with
  | None => LaOk None
  | Some le =>
      match ev c le with
      | EOk lv =>
          match to_int_loop lv with
          | IOk z => LaOk (Some z)
          | ITypeErr => LaStatus (SErr LiquidTypeError)
          | IUnm => LaStatus SUnmodelled
          end
      | r => LaStatus (of_eres_status r)
      end
  end.

Definition is_neg (o : option Z) : bool := match o with Some z => (z <? 0)%Z | None => false end.

(** the loop proper, once iterable, limit and offset have been evaluated *)
Definition for_run (x key : str) (reversed : bool) (body : list node) (els : option (list node))
  (items0 : list val) (limit offset : option Z) (is_cont : bool) (c : ctx) (b : buf) : rstate :=
  (* a negative limit selects nothing, a negative offset skips nothing and an
     offset beyond the end skips everything *)
  let limit := option_map (Z.max 0) limit in
  let offset := option_map (fun z => Z.min (Z.max z 0) (Z.of_nat (length items0))) offset in
  let prev := match assoc key (stopindex c) with Some z => z | None => 0%Z end in
  let sl := loop_slice items0 limit offset is_cont prev reversed in
  let items := fst (fst sl) in
  let len := snd (fst sl) in
  let stop := snd sl in
  let c0 := set_stopindex c (dict_set key stop (stopindex c)) in
  if (len =? 0)%Z then oblock els c0 b
  else
    let parent := match loops c0 with p :: _ => p | [] => VUndef end in
    let fl0 := VForLoop key len (-1)%Z parent in
    (* loop(): extend, then push the ForLoop *)
    match extend g c0 [(s_forloop, fl0); (x, VNil)] with
    | None => mk (SErr ContextDepthError) c0 b
    | Some c1 =>
        for_iter x key len parent body items 0%Z (set_loops c1 (fl0 :: loops c1)) b
    end.

Definition render_for (x key : str) (iter : expr) (lim : option expr) (off : offset_spec)
  (reversed : bool) (body : list node) (els : option (list node)) (c : ctx) (b : buf) : rstate :=
  match ev c iter with
  | EOk itv =>
      match to_iter itv with
      | None => mk SUnmodelled c b
      | Some None => mk (SErr LiquidTypeError) c b
      | Some (Some items0) =>
          match eval_loop_int c lim with
          | LaStatus s => mk s c b
          | LaOk limit =>
              match off with
              | OffNone => for_run x key reversed body els items0 limit None false c b
              | OffContinue => for_run x key reversed body els items0 limit None true c b
              | OffExpr oe =>
                  match eval_loop_int c (Some oe) with
                  | LaStatus s => mk s c b
                  | LaOk offset => for_run x key reversed body els items0 limit offset false c b
                  end
              end
          end
      end
  | r => mk (of_eres_status r) c b
  end.

Fixpoint include_iter (body : list node) (key : str) (its : list val) (c : ctx) (b : buf) : rstate :=
  match its with
  | [] => mk SDone c b
  | it :: its' =>
      let c' := set_top_scope c (dict_set key it (top_scope c)) in
      let r := partial_template body c' b false in
      match st r with
      | SDone => include_iter body key its' (cx r) (bf r)
      | _ => r
      end
  end.

Definition render_include (name : expr) (var : option (expr * option str))
  (args : list (str * expr)) (c : ctx) (b : buf) : rstate :=
  if mem_str s_include (disabled c) then mk (SErr DisabledTagError) c b else
  match ev c name with
  | EOk (VStr tn) =>
      match assoc tn ld with
      | None => mk (SErr TemplateNotFoundError) c b
      | Some body =>
          match eval_namespace c args with
          | inl r => mk (of_eres_status r) c b
          | inr nsp =>
              (* extend(namespace, template=template) *)
              match extend g c nsp with
              | None => mk (SErr ContextDepthError) c b
              | Some c1 =>
                  let old := tname c in
                  let c1 := set_tname c1 tn in
                  let leave := fun (r : rstate) =>
                    mk (st r) (set_tname (pop_scope (cx r)) old) (bf r) in
                  match var with
                  | None => leave (partial_template body c1 b false)
                  | Some (ve, alias) =>
                      match ev c1 ve with
                      | EOk vv =>
                          let key := match alias with Some a => a | None => template_key tn end in
                          match vv with
                          | VList items => leave (include_iter body key items c1 b)
                          | VRange _ _ | VForLoop _ _ _ _ => leave (mk SUnmodelled c1 b)
                          | _ =>
                              leave (partial_template body
                                       (set_top_scope c1 (dict_set key vv (top_scope c1))) b false)
                          end
                      | r => leave (mk (of_eres_status r) c1 b)
                      end
                  end
              end
          end
      end
  | EOk _ => mk SUnmodelled c b
  | r => mk (of_eres_status r) c b
  end.

Fixpoint render_iter (body : list node) (key : str) (len : Z) (nsp : ns)
  (its : list val) (i : Z) (cc : ctx) (b : buf) : rstate :=
  match its with
  | [] => mk SDone cc b
  | it :: its' =>
      let nsx := dict_set key it (dict_set s_forloop (VForLoop key len i VUndef) nsp) in
      let r := partial_template body (set_globals cc (nsx :: root_globals cc)) b true in
      match st r with
      | SDone =>
          (* every item is rendered in an isolated copy of its own (since /repo
             fix "render ... for rendered every item in the same context"): the
             next item starts from the fresh copy [cc], not from where this one
             left its context *)
          render_iter body key len nsp its' (i + 1)%Z cc (bf r)
      | _ => r
      end
  end.

(** what the render tag does once its arguments have been evaluated in the
    caller's context: it only sees the copy [cc] *)
Definition render_partial (body : list node) (key : str) (nsp : ns)
  (bound : option (bool * val)) (cc : ctx) (b : buf) : rstate :=
  match bound with
  | None => partial_template body cc b true
  | Some (true, VList items) =>
      render_iter body key (Z.of_nat (length items)) nsp items 0%Z cc b
  | Some (true, (VRange _ _ | VForLoop _ _ _ _)) => mk SUnmodelled cc b
  | Some (_, vv) =>
      partial_template body (set_globals cc (dict_set key vv nsp :: root_globals cc)) b true
  end.

Definition render_render (tn : str) (var : option (bool * expr * option str))
  (args : list (str * expr)) (c : ctx) (b : buf) : rstate :=
  match assoc tn ld with
  | None => mk (SErr TemplateNotFoundError) c b
  | Some body =>
      match eval_namespace c args with
      | inl r => mk (of_eres_status r) c b
      | inr nsp =>
          match copy_isolated g c nsp [s_include] tn with
          | None => mk (SErr ContextDepthError) c b
          | Some cc =>
              (* the copy is discarded afterwards: the caller's context is untouched *)
              match var with
              | None =>
                  let r := render_partial body tn nsp None cc b in mk (st r) c (bf r)
              | Some (is_loop, ve, alias) =>
                  match ev c ve with
                  | EOk vv =>
                      let key := match alias with Some a => a | None => template_key tn end in
                      let r := render_partial body key nsp (Some (is_loop, vv)) cc b in
                      mk (st r) c (bf r)
                  | r => mk (of_eres_status r) c b
                  end
              end
          end
      end
  end.

Fixpoint bind_positional (ps : list (str * option expr)) (as_ : list expr) : list (str * option expr) :=
  match ps, as_ with
  | (p, _) :: ps', a :: as' => (p, Some a) :: bind_positional ps' as'
  | _, _ => ps
  end.

Fixpoint eval_bound (c : ctx) (l : list (str * option expr)) : eres + ns :=
  match l with
  | [] => inr []
  | (p, None) :: l' =>
      match eval_bound c l' with inr r => inr ((p, VUndef) :: r) | inl r => inl r end
  | (p, Some e) :: l' =>
      match ev c e with
      | EOk v => match eval_bound c l' with inr r => inr ((p, v) :: r) | inl r => inl r end
      | r => inl r
      end
  end.

Definition render_call (name : str) (args : list expr) (kwargs : list (str * expr))
  (c : ctx) (b : buf) : rstate :=
  match assoc name (macros c) with
  | None => mk SDone c b                 (* buffer.write(str(undefined)) *)
  | Some m =>
      (* macro_args: only calls with no excess arguments are modelled *)
      if Nat.ltb (length (m_params m)) (length args) then mk SUnmodelled c b
      else if negb (forallb (fun kw => match assoc (fst kw) (m_params m) with
                                       | Some _ => true | None => false end) kwargs)
      then mk SUnmodelled c b
      else
        let bound := bind_positional (m_params m) args in
        let bound := fold_left (fun acc kw => dict_set (fst kw) (Some (snd kw)) acc) kwargs bound in
        match eval_bound c bound with
        | inl r => mk (of_eres_status r) c b
        | inr nsargs =>
            let nsp := dict_of_pairs nsargs [(s_args, VList []); (s_kwargs, VDict [])] in
            match copy_isolated g c nsp [s_include; s_block] (tname c) with
            | None => mk (SErr ContextDepthError) c b
            | Some cc =>
                (* the body has its own variable scope, but gets a copy of the
                   caller's registry of macros (a macro may call another macro
                   or itself; what it defines stays inside) *)
                let r := block (m_body m) (set_macros cc (macros c)) b in
                mk (st r) c (bf r)
            end
        end
  end.

Definition write_value (r : eres) (c : ctx) (b : buf) : rstate :=
  match r with
  | EOk v =>
      match to_liquid_string v with
      | Some s => mk SDone c (write b s)
      | None => mk SUnmodelled c b
      end
  | r => mk (of_eres_status r) c b
  end.

Definition render_step (n : node) (c : ctx) (b : buf) : rstate :=
  match n with
  | NContent t _ => mk SDone c (write b t)
  | NRaw t => mk SDone c (write b t)
  | NComment => mk SDone c b
  | NOutput e | NEcho e => write_value (ev c e) c b
  | NAssign x e =>
      match ev c e with
      | EOk v =>
          (* a ForLoop object kept in a local outlives the iteration it was read in *)
          if has_forloop v then mk SUnmodelled c b
          else mk SDone (set_locals c (dict_set x v (locals c))) b
      | r => mk (of_eres_status r) c b
      end
  | NCapture x body =>
      let r := block body c {| text := []; null := false |} in
      match st r with
      | SDone => mk SDone (set_locals (cx r) (dict_set x (VStr (text (bf r))) (locals (cx r)))) b
      | s => mk s (cx r) b
      end
  | NIf cond conseq alts els =>
      match ev c cond with
      | EOk v => if is_truthy v then block conseq c b else if_alts els alts c b
      | r => mk (of_eres_status r) c b
      end
  | NUnless cond conseq alts els =>
      match ev c cond with
      | EOk v => if negb (is_truthy v) then block conseq c b else if_alts els alts c b
      | r => mk (of_eres_status r) c b
      end
  | NCase e whens els => case_go e els whens false c b
  | NFor x key iter lim off reversed body els => render_for x key iter lim off reversed body els c b
  | NBreak => mk SBrk c b
  | NContinue => mk SCont c b
  | NIncrement x =>
      let v := match assoc x (counters c) with Some z => z | None => 0%Z end in
      mk SDone (set_counters c (dict_set x (v + 1)%Z (counters c))) (write b (str_of_Z v))
  | NDecrement x =>
      let v := (match assoc x (counters c) with Some z => z | None => 0%Z end - 1)%Z in
      mk SDone (set_counters c (dict_set x v (counters c))) (write b (str_of_Z v))
  | NCycle grp items =>
      (* the cycle key (a canonical spelling of (group name, items)) is supplied
         by the front end in [grp] *)
      match grp, items with
      | _, [] => mk SUnmodelled c b
      | Some key, _ =>
          let '(idx, c1) := cycle_next c key (Z.of_nat (length items)) in
          match nth_error items (Z.to_nat idx) with
          | Some e => write_value (ev c1 e) c1 b
          | None => mk SUnmodelled c1 b
          end
      | None, _ => mk SUnmodelled c b
      end
  | NWith args body =>
      match eval_namespace c args with
      | inr nsp =>
          match extend g c nsp with
          | None => mk (SErr ContextDepthError) c b
          | Some c1 =>
              let r := block body c1 b in
              mk (st r) (pop_scope (cx r)) (bf r)
          end
      | inl r => mk (of_eres_status r) c b
      end
  | NLiquid body => block body c b     (* LiquidNode: a BlockNode over the line statements *)
  | NInclude name var args => render_include name var args c b
  | NRender tn var args => render_render tn var args c b
  | NMacro name params body =>
      mk SDone (set_macros c (dict_set name {| m_params := params; m_body := body |} (macros c))) b
  | NCall name args kwargs => render_call name args kwargs c b
  end.

End Step.

Fixpoint render (g : cfg) (ld : loader) (fuel : nat) (n : node) (c : ctx) (b : buf) : rstate :=
  match fuel with
  | O => mk SFuel c b
  | S f => render_step g ld (eval f) (render g ld f) n c b
  end.

(** Template.render(): a fresh context over the given globals; the template's
    nodes are rendered by render_with_context(partial=False). *)
Definition fresh_ctx (dl : Z) (glob : list ns) (name : str) : ctx :=
  {| scopes := []; locals := []; globals := glob; root_globals := glob; counters := [];
     cycles := []; stopindex := []; macros := []; loops := []; disabled := [];
     copy_depth := 0; tname := name; dlimit := dl |}.

Definition empty_buf : buf := {| text := []; null := false |}.

Definition render_template (g : cfg) (ld : loader) (fuel : nat) (body : list node)
  (glob : list ns) (name : str) : rstate :=
  let c := fresh_ctx (depth_limit g) glob name in
  match extend g c [] with
  | None => mk (SErr ContextDepthError) c empty_buf
  | Some c1 =>
      let r := nodes (render g ld fuel) body c1 empty_buf in
      let c2 := pop_scope (cx r) in
      match st r with
      | SBrk | SCont => mk (SErr LiquidSyntaxError) c2 (bf r)
      | s => mk s c2 (bf r)
      end
  end.

(** The observable of a render: output text or error class. *)
Inductive outcome := OText (s : str) | OErr (c : lclass) | OUnmodelled | OFuel.

Definition outcome_of (r : rstate) : outcome :=
  match st r with
  | SDone => OText (text (bf r))
  | SErr c => OErr c
  | SUnmodelled => OUnmodelled
  | SFuel => OFuel
  | SBrk | SCont => OErr LiquidSyntaxError
  end.

Definition outcome_agrees (model impl : outcome) : bool :=
  match model, impl with
  | OText a, OText b => str_eqb a b
  | OErr a, OErr b => lclass_eqb a b
  | OUnmodelled, _ => true          (* counted separately by the harness *)
  | _, _ => false
  end.
