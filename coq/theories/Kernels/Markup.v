(** Kernels/Markup.v — MODEL for C04 (auto-escape).

    Strings are [list N] (Base/Str.v).  For C04 a character carries an
    ORIGIN TAG in bit 24: [tag1 c = cp c + 2^24] marks a character that comes
    from render-context data; [cp c = c mod 2^24] is the code point, the only
    thing any comparison, classification or output in this file looks at.
    Template literals and text produced by the engine are untagged.

    Values carry the [safe] bit of [markupsafe.Markup].  The file transcribes
      - markupsafe/__init__.py (escape, Markup.__add__/__radd__/join/replace/
        split/__getitem__/upper/lower/capitalize/strip/...),
      - liquid2/stringify.py:15-41 (to_liquid_string),
      - liquid2/builtin/expressions.py:220-223 (StringLiteral),
        :398-401 (TemplateString), :604-609 (FilteredExpression.evaluate),
      - liquid2/filter.py:130-137 (string_filter), :140-153 (sequence_arg),
        :183-193 (_flatten),
      - liquid2/builtin/filters/string.py, array.py (join first last concat
        reverse), misc.py (size default json),
      - liquid2/context.py:445-447 (RenderContext.markup), capture_tag.py:50-55.
    Library text transformations whose RESULT IS A PLAIN str (html.unescape,
    urllib.parse.unquote on a string containing '%', json.dumps) and the
    HTMLParser based strip_tags are fields of the record [lib]; what the
    theorems need of them is the explicit premise [lib_ok] (Proofs file).
    No proofs here. *)
From LQ Require Import Base.Str.
Local Open Scope N_scope.

(** * Characters with an origin tag *)

Definition TAG : N := 16777216.  (* 2^24 *)
Definition cp (c : char) : N := c mod TAG.
Definition tagged (c : char) : bool := N.odd (c / TAG).   (* bit 24 *)
Definition mk (t : bool) (n : N) : char := if t then n + TAG else n.
Definition tag1 (c : char) : char := mk true (cp c).
Definition untag1 (c : char) : char := cp c.
Definition tag_str (s : str) : str := map tag1 s.
Definition untag (s : str) : str := map untag1 s.

(** The five HTML-significant characters: ampersand, less-than, greater-than,
    apostrophe (39) and double quote (34). *)
Definition special (c : char) : bool :=
  let n := cp c in
  (n =? 38) || (n =? 60) || (n =? 62) || (n =? 39) || (n =? 34).

(** A character that must never reach the output: a data character that is
    HTML-significant. *)
Definition bad (c : char) : bool := tagged c && special c.
Definition cleanb (s : str) : bool := forallb (fun c => negb (bad c)) s.
Definition Clean (s : str) : Prop := cleanb s = true.
Definition Tainted (s : str) : Prop :=
  exists c, In c s /\ tagged c = true /\ special c = true.

(** * markupsafe.escape  (markupsafe/_native.py: the five replaces) *)

Definition esc1 (c : char) : str :=
  let n := cp c in
  if n =? 38 then [38; 97; 109; 112; 59]        (* &amp; *)
  else if n =? 60 then [38; 108; 116; 59]       (* &lt; *)
  else if n =? 62 then [38; 103; 116; 59]       (* &gt; *)
  else if n =? 39 then [38; 35; 51; 57; 59]     (* &#39; *)
  else if n =? 34 then [38; 35; 51; 52; 59]     (* &#34; *)
  else [c].
Definition escape (s : str) : str := flat_map esc1 s.

(** * Values *)

Inductive val :=
| VStr (safe : bool) (s : str)    (* safe = isinstance(_, Markup) *)
| VInt (z : Z)
| VBool (b : bool)
| VNil
| VList (l : list val).

(** Filter arguments that are used as text: str / Markup / int / bool / nil. *)
Inductive arg :=
| AStr (safe : bool) (s : str)
| AInt (z : Z)
| ABool (b : bool)
| ANil.

Definition arg_val (a : arg) : val :=
  match a with
  | AStr sf s => VStr sf s | AInt z => VInt z | ABool b => VBool b | ANil => VNil
  end.

(** A string with its Markup bit. *)
Definition mstr := (bool * str)%type.

(** ** str(int) *)
Fixpoint uint_digits (u : Decimal.uint) : str :=
  match u with
  | Decimal.Nil => []
  | Decimal.D0 u => 48 :: uint_digits u | Decimal.D1 u => 49 :: uint_digits u
  | Decimal.D2 u => 50 :: uint_digits u | Decimal.D3 u => 51 :: uint_digits u
  | Decimal.D4 u => 52 :: uint_digits u | Decimal.D5 u => 53 :: uint_digits u
  | Decimal.D6 u => 54 :: uint_digits u | Decimal.D7 u => 55 :: uint_digits u
  | Decimal.D8 u => 56 :: uint_digits u | Decimal.D9 u => 57 :: uint_digits u
  end.
Definition N_to_str (n : N) : str := uint_digits (N.to_uint n).
Definition Z_to_str (z : Z) : str :=
  match z with
  | Z0 => [48]
  | Zpos p => N_to_str (Npos p)
  | Zneg p => 45 :: N_to_str (Npos p)
  end.

Definition s_true : str := [116; 114; 117; 101].         (* true *)
Definition s_false : str := [102; 97; 108; 115; 101].    (* false *)
Definition s_True : str := [84; 114; 117; 101].          (* True *)
Definition s_False : str := [70; 97; 108; 115; 101].     (* False *)
Definition s_None : str := [78; 111; 110; 101].          (* None *)
Definition s_dots : str := [46; 46; 46].                 (* ... *)
Definition s_br : str := [60; 98; 114; 32; 47; 62; 10].  (* <br />\n *)

(** ** to_liquid_string(val, auto_escape=False)   stringify.py:15-41
    A str (Markup included) passes unchanged; a list is joined with
    [''.join], which yields a plain str. *)
Fixpoint tls_text (v : val) : str :=
  match v with
  | VStr _ s => s
  | VInt z => Z_to_str z
  | VBool b => if b then s_true else s_false
  | VNil => []
  | VList l => flat_map tls_text l
  end.
Definition tls_plain (v : val) : mstr :=
  match v with
  | VStr sf s => (sf, s)
  | _ => (false, tls_text v)
  end.

(** ** to_liquid_string(val, auto_escape=True): what an output statement,
    [echo], [cycle], and the translate message variables write.
    Markup passes; everything else is escaped; a list is
    [Markup('').join(<items rendered the same way>)]. *)
Fixpoint tls_ae (v : val) : str :=
  match v with
  | VStr true s => s
  | VStr false s => escape s
  | VInt z => escape (Z_to_str z)
  | VBool b => escape (if b then s_true else s_false)
  | VNil => escape []
  | VList l => flat_map tls_ae l
  end.

(** to_liquid_string(arg) *)
Definition arg_tls (a : arg) : mstr := tls_plain (arg_val a).
(** Since fix C19/0013 (string.py, array.py) append, the join separator and the
    truncate / truncatewords ellipsis use to_liquid_string(arg), not str(arg). *)
Definition opt_end (e : option arg) : mstr :=      (* end: str = "..." *)
  match e with Some a => arg_tls a | None => (false, s_dots) end.
Definition opt_sep (e : option arg) : mstr :=      (* separator: object = " " *)
  match e with Some a => arg_tls a | None => (false, [32]) end.
(** [not arg] *)
Definition arg_falsy (a : arg) : bool :=
  match a with
  | AStr _ s => match s with [] => true | _ => false end
  | AInt z => Z.eqb z 0
  | ABool b => negb b
  | ANil => true
  end.

(** * Markup behaviours *)

(** Markup.escape(x) for a str x: Markup passes, plain str is escaped. *)
Definition soft (m : mstr) : str := if fst m then snd m else escape (snd m).

(** [a + b] for two strings.  Markup.__add__ escapes a plain right operand;
    for plain + Markup Python tries Markup.__radd__ first (subclass rule),
    which escapes the plain left operand. *)
Definition str_add (a b : mstr) : mstr :=
  if fst a || fst b then (true, soft a ++ soft b) else (false, snd a ++ snd b).

Fixpoint join_with (sep : str) (items : list str) : str :=
  match items with
  | [] => []
  | [x] => x
  | x :: rest => x ++ sep ++ join_with sep rest
  end.

(** [sep.join(items)]: Markup.join escapes the plain items; str.join returns a
    plain str whatever the items are. *)
Definition str_join (sep : mstr) (items : list mstr) : mstr :=
  if fst sep then (true, join_with (snd sep) (map soft items))
  else (false, join_with (snd sep) (map snd items)).

(** ** character classes (through [cp] only) *)
Definition is_ws (c : char) : bool :=   (* str.isspace / strip() / split() *)
  let n := cp c in
  ((9 <=? n) && (n <=? 13)) || ((28 <=? n) && (n <=? 32)) || (n =? 133) || (n =? 160)
  || (n =? 5760) || ((8192 <=? n) && (n <=? 8202)) || (n =? 8232) || (n =? 8233)
  || (n =? 8239) || (n =? 8287) || (n =? 12288).

(** ASCII case mapping (the generated data has no cased non-ASCII letters). *)
Definition upper1 (c : char) : char :=
  let n := cp c in if (97 <=? n) && (n <=? 122) then mk (tagged c) (n - 32) else c.
Definition lower1 (c : char) : char :=
  let n := cp c in if (65 <=? n) && (n <=? 90) then mk (tagged c) (n + 32) else c.
Definition upper (s : str) : str := map upper1 s.
Definition lower (s : str) : str := map lower1 s.
Definition capitalize (s : str) : str :=
  match s with [] => [] | c :: r => upper1 c :: lower r end.

Fixpoint dropwhile (p : char -> bool) (s : str) : str :=
  match s with
  | [] => []
  | c :: r => if p c then dropwhile p r else s
  end.
Definition lstrip (s : str) : str := dropwhile is_ws s.
Definition rstrip (s : str) : str := rev (dropwhile is_ws (rev s)).
Definition strip (s : str) : str := rstrip (lstrip s).

(** ** substring search, replace, partition, split (comparisons through cp) *)
Fixpoint starts (p s : str) : bool :=
  match p, s with
  | [], _ => true
  | a :: p', b :: s' => (cp a =? cp b) && starts p' s'
  | _ :: _, [] => false
  end.
Fixpoint str_eq_cp (a b : str) : bool :=
  match a, b with
  | [], [] => true
  | x :: a', y :: b' => (cp x =? cp y) && str_eq_cp a' b'
  | _, _ => false
  end.

Definition cnt_pos (c : option nat) : bool :=
  match c with Some O => false | _ => true end.
Definition cnt_dec (c : option nat) : option nat :=
  match c with Some n => Some (pred n) | None => None end.

(** [s.replace(old, new, count)] for non-empty [old]; [skip] characters of a
    match still have to be dropped. *)
Fixpoint repl (old new : str) (s : str) (skip : nat) (cnt : option nat) : str :=
  match s with
  | [] => []
  | c :: s' =>
    match skip with
    | S k => repl old new s' k cnt
    | O =>
      if cnt_pos cnt && starts old s
      then new ++ repl old new s' (pred (length old)) (cnt_dec cnt)
      else c :: repl old new s' O cnt
    end
  end.
(** [s.replace('', new, count)] *)
Fixpoint inter (new : str) (s : str) (cnt : option nat) : str :=
  if cnt_pos cnt
  then new ++ match s with [] => [] | c :: s' => c :: inter new s' (cnt_dec cnt) end
  else s.
Definition replace (s old new : str) (cnt : option nat) : str :=
  match old with
  | [] => inter new s cnt
  | _ => repl old new s O cnt
  end.

(** First occurrence of [p] in [s]: (text before, text after). *)
Fixpoint find_first (p s : str) : option (str * str) :=
  if starts p s then Some ([], skipn (length p) s)
  else match s with
       | [] => None
       | c :: s' => match find_first p s' with
                    | Some (a, b) => Some (c :: a, b)
                    | None => None
                    end
       end.
(** [s.rpartition(sep)] for non-empty [sep]: Some (before, after), or None when
    [sep] does not occur (Python then returns ('', '', s)). *)
Definition rpartition (s sep : str) : option (str * str) :=
  match find_first (rev sep) (rev s) with
  | Some (a, b) => Some (rev b, rev a)
  | None => None
  end.

(** [s.split(sep)] for non-empty [sep]. *)
Fixpoint split_go (sep s : str) (skip : nat) (cur : str) : list str :=
  match s with
  | [] => [rev cur]
  | c :: s' =>
    match skip with
    | S k => split_go sep s' k cur
    | O => if starts sep s then rev cur :: split_go sep s' (pred (length sep)) []
           else split_go sep s' O (c :: cur)
    end
  end.
Definition split_on (s sep : str) : list str := split_go sep s O [].

(** [s.split()] *)
Fixpoint wsplit (s : str) (cur : str) : list str :=
  match s with
  | [] => match cur with [] => [] | _ => [rev cur] end
  | c :: s' =>
    if is_ws c then match cur with [] => wsplit s' [] | _ => rev cur :: wsplit s' [] end
    else wsplit s' (c :: cur)
  end.

(** Python [s[a:b]] (step 1) *)
Definition norm_idx (len i : Z) : Z :=
  let j := if (i <? 0)%Z then (i + len)%Z else i in
  if (j <? 0)%Z then 0%Z else if (len <? j)%Z then len else j.
Definition py_slice {A} (l : list A) (a : Z) (b : option Z) : list A :=
  let len := Z.of_nat (length l) in
  let i := norm_idx len a in
  let j := match b with Some b => norm_idx len b | None => len end in
  if (i <? j)%Z then firstn (Z.to_nat (j - i)) (skipn (Z.to_nat i) l) else [].

(** RE_LINETERM.sub(rep, s): the pattern is an optional CR followed by LF. *)
Definition next_is_lf (s : str) : bool :=
  match s with c :: _ => cp c =? 10 | [] => false end.
Fixpoint lt_sub (rep s : str) : str :=
  match s with
  | [] => []
  | c :: s' =>
    if cp c =? 10 then rep ++ lt_sub rep s'
    else if (cp c =? 13) && next_is_lf s' then lt_sub rep s'
    else c :: lt_sub rep s'
  end.

(** ** urllib.parse.quote_plus *)
Definition hexd (n : N) : N := let m := n mod 16 in if m <? 10 then 48 + m else 55 + m.
Definition pct (b : N) : str := [37; hexd (b / 16); hexd (b mod 16)].
Definition utf8 (n : N) : list N :=
  if n <? 128 then [n]
  else if n <? 2048 then [192 + n / 64; 128 + n mod 64]
  else if n <? 65536 then [224 + n / 4096; 128 + (n / 64) mod 64; 128 + n mod 64]
  else [240 + n / 262144; 128 + (n / 4096) mod 64; 128 + (n / 64) mod 64; 128 + n mod 64].
Definition unreserved (n : N) : bool :=
  ((48 <=? n) && (n <=? 57)) || ((65 <=? n) && (n <=? 90)) || ((97 <=? n) && (n <=? 122))
  || (n =? 95) || (n =? 46) || (n =? 45) || (n =? 126).
Definition quote1 (c : char) : str :=
  let n := cp c in
  if unreserved n then [c] else if n =? 32 then [43] else flat_map pct (utf8 n).
Definition is_surrogate (c : char) : bool := (55296 <=? cp c) && (cp c <=? 57343).
Definition quote_plus (s : str) : str := flat_map quote1 s.

(** [string.replace('+', ' ')] at the start of unquote_plus *)
Definition plus_to_space (s : str) : str :=
  map (fun c => if cp c =? 43 then 32 else c) s.
Definition has_cp (n : N) (s : str) : bool := existsb (fun c => cp c =? n) s.

(** * Library functions that stay abstract *)
Record lib := {
  strip_tags_fn : str -> str;       (* liquid2/utils/html.py strip_tags (HTMLParser) *)
  html_unescape_fn : str -> str;    (* html.unescape *)
  unquote_fn : str -> str;          (* urllib.parse.unquote, argument contains '%' *)
  json_fn : val -> str;             (* json.dumps(left) *)
  (* Two behaviours of the anchored code exist in two versions (before / after
     the fix: patches proposed for C19); the harness probes which one the
     implementation under test has.  The theorems hold for both. *)
  fix_truncate_clamp : bool;        (* utils/text.py truncate_chars: val[:max(0, num - len(end))] *)
  fix_rpartition_found : bool;      (* remove_last / replace_last test [found], not [before] *)
}.

(** * sequence_arg / _flatten   filter.py:140-153, 183-193 *)
Fixpoint flat_val (level : nat) (v : val) : list val :=
  match v with
  | VList l => match level with
               | O => [v]
               | S k => flat_map (flat_val k) l
               end
  | _ => [v]
  end.
Definition chars_of (s : str) : list val := map (fun c => VStr false [c]) s.
Definition sequence_arg (v : val) : list val :=
  match v with
  | VStr _ s => chars_of s               (* list(val): plain one-character strs *)
  | VList l => flat_map (flat_val 5) l
  | _ => [v]
  end.

(** * Filters *)

Inductive lfilter :=
| FAppend (a : arg) | FPrepend (a : arg)
| FUpcase | FDowncase | FCapitalize | FStrip | FLstrip | FRstrip
| FReplace (a b : arg) | FReplaceFirst (a b : arg) | FReplaceLast (a b : arg)
| FRemove (a : arg) | FRemoveFirst (a : arg) | FRemoveLast (a : arg)
| FSlice (start : Z) (len : option Z)
| FSplit (a : arg)
| FJoin (sep : option arg)
| FFirst | FLast | FConcat (l : list val) | FReverse
| FNewlineToBr | FStripNewlines | FUrlEncode | FUrlDecode
| FEscape | FEscapeOnce
| FTruncate (n : option Z) (e : option arg)
| FTruncatewords (n : option Z) (e : option arg)
| FDefault (d : val) (allow_false : bool)
| FSize | FJson | FStripHtml
| FSafe.

Definition vstr (m : mstr) : val := VStr (fst m) (snd m).
Definition is_nil (s : str) : bool := match s with [] => true | _ => false end.

(** string.py:124-133: val.replace(to_liquid_string(seq), to_liquid_string(sub)[, 1]).
    Markup.replace escapes [new] (not [old]) and returns Markup. *)
Definition f_replace (v : mstr) (old new : mstr) (cnt : option nat) : mstr :=
  if fst v then (true, replace (snd v) (snd old) (soft new) cnt)
  else (false, replace (snd v) (snd old) (snd new) cnt).

Definition MAX_SLICE : Z := 9223372036854775807.
Definition MIN_SLICE : Z := (-9223372036854775808)%Z.
Definition slice_arg (z : Z) : Z := Z.max (Z.min z MAX_SLICE) MIN_SLICE.
Definition MAX_TRUNC_WORDS : Z := 2147483647.

(** string.py slice_.  Since fix cc0803c a negative start before the beginning
    of the sequence is out of range: the result is '' (a plain str, also for a
    Markup value) or []. *)
Definition f_slice (v : val) (start : Z) (len : option Z) : val :=
  let st := slice_arg start in
  let ln := slice_arg (match len with Some l => l | None => 1%Z end) in
  let en := (st + ln)%Z in
  let en' := if (st <? 0)%Z && (0 <=? en)%Z then None else Some en in
  let before (n : nat) := (st <? - Z.of_nat n)%Z in
  let plain (s : str) := VStr false (if before (length s) then [] else py_slice s st en') in
  match v with
  | VStr sf s => if before (length s) then VStr false [] else VStr sf (py_slice s st en')
  | VList l => if before (length l) then VList [] else VList (py_slice l st en')
  | VInt z => plain (Z_to_str z)
  | VBool b => plain (if b then s_True else s_False)
  | VNil => plain s_None
  end.

Definition is_empty_val (v : val) : bool :=
  match v with
  | VStr _ [] => true
  | VList [] => true
  | _ => false
  end.

Definition eval_filter (L : lib) (f : lfilter) (v : val) : res val :=
  let sv := tls_plain v in    (* what @string_filter passes on *)
  match f with
  | FAppend a => Ok (vstr (str_add sv (arg_tls a)))                      (* string.py:28-34: val + to_liquid_string(arg) *)
  | FPrepend a => Ok (vstr (str_add (arg_tls a) sv))                     (* :92-95 *)
  | FUpcase => Ok (VStr (fst sv) (upper (snd sv)))                       (* Markup.upper -> Markup *)
  | FDowncase => Ok (VStr (fst sv) (lower (snd sv)))
  | FCapitalize => Ok (VStr (fst sv) (capitalize (snd sv)))
  | FStrip => Ok (VStr (fst sv) (strip (snd sv)))
  | FLstrip => Ok (VStr (fst sv) (lstrip (snd sv)))
  | FRstrip => Ok (VStr (fst sv) (rstrip (snd sv)))
  | FReplace a b => Ok (vstr (f_replace sv (arg_tls a) (arg_tls b) None))
  | FReplaceFirst a b => Ok (vstr (f_replace sv (arg_tls a) (arg_tls b) (Some 1%nat)))
  | FRemove a => Ok (vstr (f_replace sv (arg_tls a) (false, []) None))   (* :98-101 *)
  | FRemoveFirst a => Ok (vstr (f_replace sv (arg_tls a) (false, []) (Some 1%nat)))
  | FRemoveLast a =>                                                     (* :110-120 *)
    match snd (arg_tls a) with
    | [] => Ok (vstr sv)                     (* ValueError: empty separator *)
    | sep => match rpartition (snd sv) sep with
             | Some (before, after) =>
               if fix_rpartition_found L || negb (is_nil before)
               then Ok (vstr (str_add (fst sv, before) (fst sv, after)))
               else Ok (vstr sv)
             | None => Ok (vstr sv)
             end
    end
  | FReplaceLast a b =>                                                  (* :135-145 *)
    match snd (arg_tls a) with
    | [] => Ok (vstr (str_add sv (arg_tls b)))
    | sep => match rpartition (snd sv) sep with
             | Some (before, after) =>
               if fix_rpartition_found L || negb (is_nil before)
               then Ok (vstr (str_add (str_add (fst sv, before) (arg_tls b)) (fst sv, after)))
               else Ok (vstr sv)
             | None => Ok (vstr sv)
             end
    end
  | FSlice st ln => Ok (f_slice v st ln)
  | FSplit a =>                                                          (* :209-223 *)
    if arg_falsy a then Ok (VList (chars_of (snd sv)))
    else
      let sep := snd (arg_tls a) in
      match snd sv with
      | [] => Ok (VList [])
      | s => if str_eq_cp s sep then Ok (VList [])
             else Ok (VList (map (VStr (fst sv)) (split_on s sep)))
      end
  | FJoin sep =>                                                         (* array.py:72-90 *)
    let sp := opt_sep sep in
    let sp' := if str_eq_cp (snd sp) [32] then (true, snd sp) else sp in
    Ok (vstr (str_join sp' (map tls_plain (sequence_arg v))))
  | FFirst =>                                                            (* array.py:93-105 *)
    match v with
    | VList (x :: _) => Ok x
    | _ => Ok VNil
    end
  | FLast =>
    match v with
    | VList l => Ok (last l VNil)
    | _ => Ok VNil
    end
  | FConcat l => Ok (VList (sequence_arg v ++ l))                        (* array.py:120-132 *)
  | FReverse => Ok (VList (rev (sequence_arg v)))
  | FNewlineToBr => Ok (VStr true (lt_sub s_br (soft sv)))               (* string.py:82-89 *)
  | FStripNewlines => Ok (VStr true (lt_sub [] (soft sv)))               (* :248-255 *)
  | FUrlEncode =>                                                        (* :316-322 *)
    (* quote_plus raises UnicodeEncodeError (a ValueError) on a lone surrogate;
       Filter.evaluate / evaluate_async turn ValueError and ArithmeticError of a
       filter function into LiquidTypeError (expressions.py:968-971, fix 8585e2b) *)
    if existsb is_surrogate (snd sv) then LErr LiquidTypeError None
    else Ok (VStr true (quote_plus (snd sv)))
  | FUrlDecode =>                                                        (* :325-329 *)
    let s := plus_to_space (snd sv) in
    if has_cp 37 s then Ok (VStr false (unquote_fn L s)) else Ok (VStr (fst sv) s)
  | FEscape => Ok (VStr true (escape (snd sv)))                          (* :51-57: escape(str(val)) *)
  | FEscapeOnce => Ok (VStr false (html_unescape_fn L (snd sv)))         (* :60-70: Markup(val).unescape() -> str *)
  | FTruncate n e =>                                                     (* :258-275, utils/text.py *)
    let num := match n with Some z => z | None => 50%Z end in
    let en := snd (opt_end e) in
    let s := snd sv in
    (* utils/text.py truncate_chars: [if val_length <= num: return val] (fix 12fd629) *)
    if (Z.of_nat (length s) <=? num)%Z then Ok (vstr sv)
    else
      let k := (num - Z.of_nat (length en))%Z in
      let k' := if fix_truncate_clamp L then Z.max 0 k else k in
      Ok (VStr false (py_slice s 0 (Some k') ++ en))
  | FTruncatewords n e =>                                                (* :282-313 *)
    let num0 := match n with Some z => z | None => 15%Z end in
    let num := if (num0 <=? 0)%Z then 1%Z else num0 in
    let en := opt_end e in
    let words := wsplit (snd sv) [] in
    if (MAX_TRUNC_WORDS <=? num)%Z then Ok (vstr sv)
    (* [if len(words) <= num: return ' '.join(words)] (fix 5db6495) *)
    else if (Z.of_nat (length words) <=? num)%Z then Ok (VStr false (join_with [32] words))
    (* ' '.join(words[:num]) + end : the joined words are a plain str; a Markup
       ellipsis (a literal) makes the sum Markup through __radd__ *)
    else Ok (vstr (str_add (false, join_with [32] (firstn (Z.to_nat num) words)) en))
  | FDefault d allow_false =>                                            (* misc.py:36-60 *)
    match v with
    | VInt _ => Ok v
    | VBool false => if allow_false then Ok v else Ok d
    | VNil => Ok d
    | _ => if is_empty_val v then Ok d else Ok v
    end
  | FSize =>                                                             (* misc.py:25-33 *)
    match v with
    | VStr _ s => Ok (VInt (Z.of_nat (length s)))
    | VList l => Ok (VInt (Z.of_nat (length l)))
    | _ => Ok (VInt 0)
    end
  | FJson => Ok (VStr false (json_fn L v))                               (* misc.py:117-142 *)
  | FStripHtml => Ok (VStr (fst sv) (strip_tags_fn L (snd sv)))          (* string.py:238-245 *)
  | FSafe => Ok (VStr true (snd sv))                                     (* :332-338 *)
  end.

(** FilteredExpression.evaluate: left to right. *)
Fixpoint eval_chain (L : lib) (ch : list lfilter) (v : val) : res val :=
  match ch with
  | [] => Ok v
  | f :: rest => do v' <- eval_filter L f v ;; eval_chain L rest v'
  end.

(** * Expressions at the left of a chain *)

(** TemplateString parts: a literal or an already evaluated value. *)
Inductive left :=
| LLit (s : str)                 (* StringLiteral: Markup(value) under auto-escape *)
| LVal (v : val)                 (* a path resolved in the render context *)
| LTmpl (parts : list (left * list lfilter))
    (* TemplateString: a literal piece is a StringLiteral, an interpolation a
       FilteredExpression; evaluates to Markup (literal text kept, values escaped) *)
| LCapture (body : list (left * list lfilter)).   (* {% capture %} of output statements *)

(** An output statement [{{ left | chain }}] writes
    to_liquid_string(value, auto_escape=True); a failing filter aborts. *)
Fixpoint eval_left (L : lib) (e : left) : res val :=
  match e with
  | LLit s => Ok (VStr true s)
  | LVal v => Ok v
  | LTmpl parts =>
    (* expressions.py TemplateString.evaluate / evaluate_async under auto-escape
       (fix 611e27a): Markup('').join(_to_liquid_string(e.evaluate(), auto_escape=True)):
       literal parts (StringLiteral -> Markup) pass, interpolated values are
       escaped, the result is Markup - exactly what a capture of the same
       output statements yields. *)
    do r <- (fix go (bs : list (left * list lfilter)) : res str :=
               match bs with
               | [] => Ok []
               | (e, ch) :: bs' =>
                 do v <- eval_left L e ;;
                 do w <- eval_chain L ch v ;;
                 do r <- go bs' ;;
                 Ok (tls_ae w ++ r)
               end) parts ;;
    Ok (VStr true r)
  | LCapture body =>
    (* capture_tag.py:50-55: the block is rendered into a buffer; the captured
       text is wrapped by RenderContext.markup (context.py:445-447). *)
    do r <- (fix go (bs : list (left * list lfilter)) : res str :=
               match bs with
               | [] => Ok []
               | (e, ch) :: bs' =>
                 do v <- eval_left L e ;;
                 do w <- eval_chain L ch v ;;
                 do r <- go bs' ;;
                 Ok (tls_ae w ++ r)
               end) body ;;
    Ok (VStr true r)
  end.

(** [{{ left | chain }}] : the text written to the output. *)
Definition output (L : lib) (e : left) (ch : list lfilter) : res str :=
  do v <- eval_left L e ;;
  do w <- eval_chain L ch v ;;
  Ok (tls_ae w).

(** * Tagging and untagging values (data enters a render fully tagged and
    never safe: the property excludes Markup / __html__ data). *)
Fixpoint tag_all (v : val) : val :=
  match v with
  | VStr _ s => VStr false (tag_str s)
  | VList l => VList (map tag_all l)
  | _ => v
  end.
Fixpoint untag_val (v : val) : val :=
  match v with
  | VStr sf s => VStr sf (untag s)
  | VList l => VList (map untag_val l)
  | _ => v
  end.
Definition untag_arg (a : arg) : arg :=
  match a with AStr sf s => AStr sf (untag s) | _ => a end.
Definition untag_filter (f : lfilter) : lfilter :=
  match f with
  | FAppend a => FAppend (untag_arg a) | FPrepend a => FPrepend (untag_arg a)
  | FReplace a b => FReplace (untag_arg a) (untag_arg b)
  | FReplaceFirst a b => FReplaceFirst (untag_arg a) (untag_arg b)
  | FReplaceLast a b => FReplaceLast (untag_arg a) (untag_arg b)
  | FRemove a => FRemove (untag_arg a) | FRemoveFirst a => FRemoveFirst (untag_arg a)
  | FRemoveLast a => FRemoveLast (untag_arg a)
  | FSplit a => FSplit (untag_arg a)
  | FJoin s => FJoin (option_map untag_arg s)
  | FConcat l => FConcat (map untag_val l)
  | FTruncate n e => FTruncate n (option_map untag_arg e)
  | FTruncatewords n e => FTruncatewords n (option_map untag_arg e)
  | FDefault d af => FDefault (untag_val d) af
  | _ => f
  end.

Fixpoint untag_left (e : left) : left :=
  match e with
  | LLit s => LLit (untag s)
  | LVal v => LVal (untag_val v)
  | LTmpl ps => LTmpl (map (fun p => (untag_left (fst p), map untag_filter (snd p))) ps)
  | LCapture ps => LCapture (map (fun p => (untag_left (fst p), map untag_filter (snd p))) ps)
  end.

Definition res_map {A B} (f : A -> B) (r : res A) : res B :=
  match r with
  | Ok a => Ok (f a)
  | LErr c p => LErr c p
  | PyExc k => PyExc k
  | OutOfFuel => OutOfFuel
  end.

(** * The invariant: no Markup string inside a value is tainted. *)
Fixpoint safe_ok (v : val) : bool :=
  match v with
  | VStr true s => cleanb s
  | VList l => forallb safe_ok l
  | _ => true
  end.
Definition safe_inv (v : val) : Prop := safe_ok v = true.
Definition arg_ok (a : arg) : bool := safe_ok (arg_val a).
Definition opt_arg_ok (a : option arg) : bool :=
  match a with Some a => arg_ok a | None => true end.

(** A filter the property admits: not [safe], and its arguments (template
    literals = untagged Markup, or data = tagged plain strings) satisfy the
    invariant. *)
Definition filter_ok (f : lfilter) : bool :=
  match f with
  | FSafe => false
  | FAppend a | FPrepend a | FRemove a | FRemoveFirst a | FRemoveLast a | FSplit a => arg_ok a
  | FReplace a b | FReplaceFirst a b | FReplaceLast a b => arg_ok a && arg_ok b
  | FJoin s => opt_arg_ok s
  | FConcat l => forallb safe_ok l
  | FTruncate _ e | FTruncatewords _ e => opt_arg_ok e
  | FDefault d _ => safe_ok d
  | _ => true
  end.

Fixpoint left_ok (e : left) : bool :=
  match e with
  | LLit s => cleanb s
  | LVal v => safe_ok v
  | LTmpl ps => forallb (fun p => left_ok (fst p) && forallb filter_ok (snd p)) ps
  | LCapture body => forallb (fun p => left_ok (fst p) && forallb filter_ok (snd p)) body
  end.

(** Boolean equality on values, for the correspondence runner. *)
Fixpoint val_eqb (a b : val) : bool :=
  match a, b with
  | VStr s1 x, VStr s2 y => Bool.eqb s1 s2 && str_eqb x y
  | VInt x, VInt y => Z.eqb x y
  | VBool x, VBool y => Bool.eqb x y
  | VNil, VNil => true
  | VList l1, VList l2 =>
    (fix go (l1 l2 : list val) : bool :=
       match l1, l2 with
       | [], [] => true
       | x :: r1, y :: r2 => val_eqb x y && go r1 r2
       | _, _ => false
       end) l1 l2
  | _, _ => false
  end.

(** * The [date] filter   misc.py:63-115 (after fix c40f103: no cache)
    The formatted text is Markup exactly when the format string is Markup
    (misc.py:111-113); an input that cannot be parsed as a date is returned
    unchanged as a plain str.  [strftime dat fmt] stands for dateutil parsing +
    datetime.strftime (None: not a date). *)
Definition date_filter (strftime : str -> str -> option str) (dat : str) (fmt : mstr) : mstr :=
  match strftime dat (snd fmt) with
  | Some r => (fst fmt, r)
  | None => (false, dat)
  end.

(** * HISTORICAL — the process-wide cache that wrapped [date] before fix c40f103
    (DESIGN 10 row 32).  Kept as the formal record of the defect; the harness
    re-runs its witness on every run so that a reintroduction is reported.
    [functools.lru_cache] looked a call up by (dat, fmt) with [==] and [hash];
    Markup('x') == 'x' and both hash alike, so the key ignored the Markup bit
    of the format, while the cached RESULT was Markup exactly when the format
    of the call that filled the entry was Markup. *)
Definition date_key := (str * str)%type.      (* texts of (dat, fmt) *)
Definition date_cache := list (date_key * mstr).
Definition key_eqb (a b : date_key) : bool :=
  str_eq_cp (fst a) (fst b) && str_eq_cp (snd a) (snd b).
Fixpoint cache_find (k : date_key) (c : date_cache) : option mstr :=
  match c with
  | [] => None
  | (k', r) :: c' => if key_eqb k k' then Some r else cache_find k c'
  end.
(** One call [date(dat, fmt)] with the formatted text supplied by [strftime];
    returns the result and the new cache (eviction is irrelevant here). *)
Definition date_call (strftime : str -> str -> str) (c : date_cache)
  (dat : str) (fmt : mstr) : mstr * date_cache :=
  let k := (dat, snd fmt) in
  match cache_find k c with
  | Some r => (r, c)
  | None => let r := (fst fmt, strftime dat (snd fmt)) in (r, (k, r) :: c)
  end.
