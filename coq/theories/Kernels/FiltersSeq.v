(** Kernels/FiltersSeq.v — the array filters, with their [sequence_arg] coercion.

    MODEL file.  Transcribed (after the fix: commits proposed in
    /verif/proposed_fixes/C19) from
      liquid2/builtin/filters/array.py            join first last concat reverse
      liquid2/builtin/filters/sorting_filters.py  SortFilter SortNaturalFilter SortNumericFilter
      liquid2/builtin/filters/filtering_filters.py WhereFilter RejectFilter CompactFilter
      liquid2/builtin/filters/find_filters.py     FindFilter FindIndexFilter HasFilter
      liquid2/builtin/filters/map_filter.py       MapFilter
      liquid2/builtin/filters/uniq_filter.py      UniqFilter
      liquid2/builtin/filters/sum_filter.py       SumFilter
      liquid2/builtin/filters/string.py:157,186   slice_ split
    Every filter has a string-property form ([..._key]) and a lambda form
    ([..._lambda]); the lambda is a Gallina function [fval -> option fval]
    ([None] = the expression evaluated to Undefined), which is what
    [LambdaExpression.map] (expressions.py:443) yields item by item.

    [sorted] is modelled as a stable insertion sort over the two classes of
    mutually comparable keys that occur (numbers: int/bool/float; strings);
    with two or more items, a key outside these classes or keys of both
    classes make CPython's [<] raise TypeError whatever the order of the
    items (list-valued keys, which CPython compares element-wise, are outside
    the model). *)
From LQ Require Import Base.Str Kernels.FVal Kernels.FiltersNum.
Local Open Scope Z_scope.

(** * Helpers *)

Fixpoint mapM {A B} (f : A -> res B) (l : list A) : res (list B) :=
  match l with
  | [] => Ok []
  | x :: r => do y <- f x;; do ys <- mapM f r;; Ok (y :: ys)
  end.

Fixpoint filterM {A} (p : A -> res bool) (l : list A) : res (list A) :=
  match l with
  | [] => Ok []
  | x :: r => do b <- p x;; do ys <- filterM p r;; Ok (if b then x :: ys else ys)
  end.

(** A TypeError raised inside a filter body that catches it. *)
Definition type_error_to_liquid {A} (r : res A) : res A :=
  match r with PyExc TypeError => LErr LiquidTypeError None | _ => r end.

(** * Stable sort *)

Section Sort.
  Context {A : Type} (leb : A -> A -> bool).
  (** [x] goes before the first element it is [<=] to: a stable insertion. *)
  Fixpoint insert (x : A) (l : list A) : list A :=
    match l with
    | [] => [x]
    | y :: l' => if leb x y then x :: l else y :: insert x l'
    end.
  Fixpoint isort (l : list A) : list A :=
    match l with [] => [] | x :: l' => insert x (isort l') end.
End Sort.

(** Lexicographic order from an element order (Python tuple / str comparison:
    first position that differs by [==], then [<]). *)
Section Lex.
  Context {A : Type} (leb : A -> A -> bool).
  Fixpoint lex_leb (a b : list A) : bool :=
    match a, b with
    | [], _ => true
    | _ :: _, [] => false
    | x :: a', y :: b' =>
        if leb x y && leb y x then lex_leb a' b' else leb x y
    end.
End Lex.

Definition str_leb : str -> str -> bool := lex_leb N.leb.
Definition str_ltb (a b : str) : bool := negb (str_leb b a).

(** Keys [sorted] can order. *)
Inductive skey := KNum (q : Z * nat) | KStr (s : str).

Definition skey_of (v : fval) : option skey :=
  match v with
  | FStr s => Some (KStr s)
  | _ => match num_of v with Some q => Some (KNum q) | None => None end
  end.

(** Total preorder on keys (numbers before strings: never used across
    classes by [py_sorted], it only makes the order total). *)
Definition skey_leb (a b : skey) : bool :=
  match a, b with
  | KNum x, KNum y => q_leb x y
  | KStr s, KStr t => str_leb s t
  | KNum _, KStr _ => true
  | KStr _, KNum _ => false
  end.

Definition is_knum (k : skey) : bool := match k with KNum _ => true | _ => false end.
Definition is_flist (v : fval) : bool := match v with FList _ => true | _ => false end.

Fixpoint all_some {A} (l : list (option A)) : option (list A) :=
  match l with
  | [] => Some []
  | Some x :: r => match all_some r with Some xs => Some (x :: xs) | None => None end
  | None :: _ => None
  end.

(** The keys of a [sorted] call with >= 2 items: one class, else TypeError. *)
Definition classify (ks : list fval) : res (list skey) :=
  if existsb is_flist ks then unmodelled
  else match all_some (map skey_of ks) with
       | None => PyExc TypeError
       | Some sk =>
           if forallb is_knum sk || forallb (fun k => negb (is_knum k)) sk
           then Ok sk else PyExc TypeError
       end.

Definition pair_leb {K A} (leb : K -> K -> bool) (a b : K * A) : bool := leb (fst a) (fst b).

(** [sorted(items, key=...)] given the key values already computed:
    [kis] = (key value, item). *)
Definition py_sorted (kis : list (fval * fval)) : res (list fval) :=
  match kis with
  | [] | [_] => Ok (map snd kis)
  | _ =>
      do sk <- classify (map fst kis);;
      Ok (map snd (isort (pair_leb skey_leb) (combine sk (map snd kis))))
  end.

Definition MAX_CH : str := [1114111%N].

(** * sort (sorting_filters.py:57) *)

Definition sort_nokey (left : fval) : res fval :=
  let xs := sequence_arg left in
  do ys <- type_error_to_liquid (py_sorted (map (fun x => (x, x)) xs));;
  Ok (FList ys).

(** [if key:] is Python truthiness; the key is then [str(key)]; the TypeErrors
    of [_getitem] and of the comparisons are not caught here. *)
Definition sort_key (left key : fval) : res fval :=
  if py_truthy key then
    let xs := sequence_arg left in
    do k <- py_str key;;
    do ks <- mapM (fun itm => getitem_d itm (FStr k) (FStr MAX_CH)) xs;;
    do ys <- py_sorted (combine ks xs);;
    Ok (FList ys)
  else sort_nokey left.

Definition lambda_or_max (f : fval -> option fval) (i : fval) : fval :=
  match f i with Some rv => rv | None => FStr MAX_CH end.

Definition sort_lambda (left : fval) (f : fval -> option fval) : res fval :=
  let xs := sequence_arg left in
  do ys <- py_sorted (map (fun i => (lambda_or_max f i, i)) xs);;
  Ok (FList ys).

(** * sort_natural (sorting_filters.py:116) *)

Definition ascii_lower1 (c : N) : N := if ((65 <=? c) && (c <=? 90))%N then (c + 32)%N else c.
Definition ascii_upper1 (c : N) : N := if ((97 <=? c) && (c <=? 122))%N then (c - 32)%N else c.
(** [str.lower()] / [str.upper()]: exact on strings whose cased characters are
    ASCII (the generated domain). *)
Definition ascii_lower (s : str) : str := map ascii_lower1 s.
Definition ascii_upper (s : str) : str := map ascii_upper1 s.

(** [_lower(obj)] = str(obj).lower() *)
Definition lower_key (v : fval) : res str := do s <- py_str v;; Ok (ascii_lower s).

Definition sort_by_strs (ks : list str) (xs : list fval) : list fval :=
  map snd (isort (pair_leb str_leb) (combine ks xs)).

Definition sort_natural_nokey (left : fval) : res fval :=
  let xs := sequence_arg left in
  do ks <- mapM lower_key xs;;
  Ok (FList (sort_by_strs ks xs)).

Definition sort_natural_key (left key : fval) : res fval :=
  if py_truthy key then
    let xs := sequence_arg left in
    do k <- py_str key;;
    do ks <- mapM (fun itm => do v <- getitem_d itm (FStr k) (FStr MAX_CH);; lower_key v) xs;;
    Ok (FList (sort_by_strs ks xs))
  else sort_natural_nokey left.

Definition sort_natural_lambda (left : fval) (f : fval -> option fval) : res fval :=
  let xs := sequence_arg left in
  do ks <- mapM (fun i => match f i with None => Ok MAX_CH | Some rv => lower_key rv end) xs;;
  Ok (FList (sort_by_strs ks xs)).

(** * sort_numeric (sorting_filters.py:141) *)

(** An element of the tuple [_ints] returns: a number or [math.inf]. *)
Inductive nx := NFin (q : Z * nat) | NInf.

Definition nx_leb (a b : nx) : bool :=
  match a, b with
  | _, NInf => true
  | NInf, NFin _ => false
  | NFin x, NFin y => q_leb x y
  end.

(** [RE_NUMERIC.findall(s)] for [-?\d+] over ASCII digits, converted by [int]:
    [run] = sign and value of the digit run being read, [pm] = the previous
    character was '-'. *)
Fixpoint ints_scan (s : str) (run : option (bool * Z)) (pm : bool) : list Z :=
  match s with
  | [] => match run with Some (neg, v) => [if neg then - v else v] | None => [] end
  | c :: s' =>
      if is_digit c then
        let d := Z.of_N (c - 48) in
        match run with
        | Some (neg, v) => ints_scan s' (Some (neg, v * 10 + d)) false
        | None => ints_scan s' (Some (pm, d)) false
        end
      else
        match run with
        | Some (neg, v) => (if neg then - v else v) :: ints_scan s' None (c =? 45)%N
        | None => ints_scan s' None (c =? 45)%N
        end
  end.

(** sorting_filters.py:178 [_ints] *)
Definition ints_key (v : fval) : res (list nx) :=
  match v with
  | FBool _ => Ok [NInf]
  | FInt z => Ok [NFin (z, 0%nat)]
  | FDec m e => Ok [NFin (dnum m e)]
  | _ =>
      do s <- py_str v;;
      match ints_scan s None false with
      | [] => Ok [NInf]
      | l => Ok (map (fun z => NFin (z, 0%nat)) l)
      end
  end.

Definition sort_by_ints (ks : list (list nx)) (xs : list fval) : list fval :=
  map snd (isort (pair_leb (lex_leb nx_leb)) (combine ks xs)).

Definition sort_numeric_nokey (left : fval) : res fval :=
  let xs := sequence_arg left in
  do ks <- mapM ints_key xs;;
  Ok (FList (sort_by_ints ks xs)).

Definition sort_numeric_key (left key : fval) : res fval :=
  if py_truthy key then
    let xs := sequence_arg left in
    do k <- py_str key;;
    do ks <- mapM (fun itm => do v <- getitem_numeric itm (FStr k);; ints_key v) xs;;
    Ok (FList (sort_by_ints ks xs))
  else sort_numeric_nokey left.

Definition sort_numeric_lambda (left : fval) (f : fval -> option fval) : res fval :=
  let xs := sequence_arg left in
  do ks <- mapM (fun i => ints_key (lambda_or_max f i)) xs;;
  Ok (FList (sort_by_ints ks xs)).

(** * reverse, concat, first, last, join (array.py) *)

Definition reverse_f (left : fval) : res fval := Ok (FList (rev (sequence_arg left))).

(** array.py:119 *)
Definition concat_f (left other : fval) : res fval :=
  match other with
  | FList l => Ok (FList (sequence_arg left ++ l))
  | _ => LErr LiquidTypeError None
  end.

(** array.py:93 (no [sequence_filter]); a dict's first item is the pair
    (key, value), represented as a two-element list. *)
Definition first_f (obj : fval) : res fval :=
  match obj with
  | FList (x :: _) => Ok x
  | FDict ((k, v) :: _) => Ok (FList [FStr k; v])
  | _ => Ok FNil
  end.

(** array.py:107 *)
Definition last_f (obj : fval) : res fval :=
  match obj with
  | FList l => Ok (last l FNil)
  | _ => Ok FNil
  end.

Fixpoint join_str (sep : str) (l : list str) : str :=
  match l with
  | [] => []
  | [x] => x
  | x :: r => x ++ sep ++ join_str sep r
  end.

(** array.py:77 (auto_escape off); [None] = the default separator " ". *)
Definition join_f (left : fval) (sep : option fval) : res fval :=
  let xs := sequence_arg left in
  do sp <- match sep with None => Ok [32%N] | Some v => to_liquid_string v end;;   (* after the fix: not str() *)
  do ss <- mapM to_liquid_string xs;;
  Ok (FStr (join_str sp ss)).

(** * where / reject (filtering_filters.py:68,99) *)

(** The test of the string-property forms: truthiness without a target value
    ([value] nil), Liquid equality with it. *)
Definition key_test (getitem : fval -> fval -> res fval) (key value itm : fval) : res bool :=
  do v <- getitem itm key;;
  Ok (match value with FNil => is_truthy v | _ => liq_eq v value end).

Definition getitem_nil (obj key : fval) : res fval := getitem_d obj key FNil.

(** The test of the lambda forms: [not is_undefined(r) and is_truthy(r)]. *)
Definition lambda_test (f : fval -> option fval) (i : fval) : bool :=
  match f i with Some r => is_truthy r | None => false end.

Definition where_key (left key value : fval) : res fval :=
  do ys <- filterM (key_test getitem_nil key value) (sequence_arg left);; Ok (FList ys).

Definition reject_key (left key value : fval) : res fval :=
  do ys <- filterM (fun i => do b <- key_test getitem_nil key value i;; Ok (negb b))
             (sequence_arg left);;
  Ok (FList ys).

Definition where_lambda (left : fval) (f : fval -> option fval) : res fval :=
  Ok (FList (filter (lambda_test f) (sequence_arg left))).

Definition reject_lambda (left : fval) (f : fval -> option fval) : res fval :=
  Ok (FList (filter (fun i => negb (lambda_test f i)) (sequence_arg left))).

(** * find / find_index / has (find_filters.py:43,107,145) *)

Fixpoint find_first {A} (p : A -> res bool) (l : list A) (i : Z) : res (option (Z * A)) :=
  match l with
  | [] => Ok None
  | x :: r => do b <- p x;; if b then Ok (Some (i, x)) else find_first p r (i + 1)
  end.

Definition find_key (left key value : fval) : res fval :=
  do r <- find_first (key_test getitem_find key value) (sequence_arg left) 0;;
  Ok (match r with Some (_, x) => x | None => FNil end).

Definition find_index_key (left key value : fval) : res fval :=
  do r <- find_first (key_test getitem_find key value) (sequence_arg left) 0;;
  Ok (match r with Some (i, _) => FInt i | None => FNil end).

Definition has_key (left key value : fval) : res fval :=
  do r <- find_first (key_test getitem_find key value) (sequence_arg left) 0;;
  Ok (FBool (match r with Some _ => true | None => false end)).

Definition lam_res (f : fval -> option fval) (i : fval) : res bool := Ok (lambda_test f i).

Definition find_lambda (left : fval) (f : fval -> option fval) : res fval :=
  do r <- find_first (lam_res f) (sequence_arg left) 0;;
  Ok (match r with Some (_, x) => x | None => FNil end).

Definition find_index_lambda (left : fval) (f : fval -> option fval) : res fval :=
  do r <- find_first (lam_res f) (sequence_arg left) 0;;
  Ok (match r with Some (i, _) => FInt i | None => FNil end).

Definition has_lambda (left : fval) (f : fval -> option fval) : res fval :=
  do r <- find_first (lam_res f) (sequence_arg left) 0;;
  Ok (FBool (match r with Some _ => true | None => false end)).

(** * map (map_filter.py:88) *)

Definition map_key (left key : fval) : res fval :=
  do k <- py_str key;;
  do ys <- type_error_to_liquid (mapM (fun itm => getitem_d itm (FStr k) FNil) (sequence_arg left));;
  Ok (FList ys).

Definition map_lambda (left : fval) (f : fval -> option fval) : res fval :=
  Ok (FList (map (fun i => match f i with Some v => v | None => FNil end) (sequence_arg left))).

(** * uniq (uniq_filter.py:62; after the fix "uniq treated true and 1 as duplicates":
    an earlier element is looked for with Liquid equality [_eq]) *)

(** [[obj for i, obj in enumerate(left) if left.index(obj) == i]]:
    [prev] = the elements before the current one. *)
Fixpoint uniq_by {A} (eqb : A -> A -> bool) (prev l : list A) : list A :=
  match l with
  | [] => []
  | x :: r =>
      if existsb (fun y => eqb y x) prev then uniq_by eqb (prev ++ [x]) r
      else x :: uniq_by eqb (prev ++ [x]) r
  end.

(** The keyed loop: [if item not in keys: keys.append(item); result.append(obj)]. *)
Fixpoint uniq_keys {K A} (keqb : K -> K -> bool) (keys : list K) (l : list (K * A)) : list A :=
  match l with
  | [] => []
  | (k, x) :: r =>
      if existsb (fun y => keqb y k) keys then uniq_keys keqb keys r
      else x :: uniq_keys keqb (keys ++ [k]) r
  end.

(** A key value or MISSING ([None]); MISSING only equals itself. *)
Definition okey_eqb (a b : option fval) : bool :=
  match a, b with
  | None, None => true
  | Some x, Some y => liq_eq x y
  | _, _ => false
  end.

Definition uniq_nokey (left : fval) : res fval :=
  Ok (FList (uniq_by liq_eq [] (sequence_arg left))).

(** [obj[key]]: KeyError or IndexError -> MISSING (uniq_filter.py:87, after the fix
    "uniq with an index key raised IndexError"), TypeError -> LiquidTypeError. *)
Definition uniq_item_key (key obj : fval) : res (option fval) :=
  do g <- getitem_raw obj key;;
  match g with
  | GVal v => Ok (Some v)
  | GKeyErr => Ok None
  | GIndexErr => Ok None
  | GTypeErr _ => LErr LiquidTypeError None
  end.

Definition uniq_key (left key : fval) : res fval :=
  let xs := sequence_arg left in
  do ks <- mapM (uniq_item_key key) xs;;
  Ok (FList (uniq_keys okey_eqb [] (combine ks xs))).

Definition uniq_lambda (left : fval) (f : fval -> option fval) : res fval :=
  let xs := sequence_arg left in
  Ok (FList (uniq_keys okey_eqb [] (combine (map f xs) xs))).

(** * compact (filtering_filters.py:146, after the fix of the KeyError) *)

Definition is_nil (v : fval) : bool := match v with FNil => true | _ => false end.

Definition compact_nokey (left : fval) : res fval :=
  Ok (FList (filter (fun i => negb (is_nil i)) (sequence_arg left))).

(** [_property(itm, key) is not None]; a missing key or an index out of range is nil
    (filtering_filters.py:43, after the fixes of the KeyError and the IndexError). *)
Definition compact_item_key (key obj : fval) : res bool :=
  do g <- getitem_raw obj key;;
  match g with
  | GVal v => Ok (negb (is_nil v))
  | GKeyErr => Ok false
  | GIndexErr => Ok false
  | GTypeErr _ => LErr LiquidTypeError None
  end.

Definition compact_key (left key : fval) : res fval :=
  do ys <- filterM (compact_item_key key) (sequence_arg left);; Ok (FList ys).

Definition compact_lambda (left : fval) (f : fval -> option fval) : res fval :=
  Ok (FList (filter (fun i => match f i with Some v => negb (is_nil v) | None => false end)
               (sequence_arg left))).

(** * sum (sum_filter.py:72) *)

Definition sum_result (n : num) : fval := num_to_fval n.

Definition sum_nokey (left : fval) : res fval :=
  Ok (sum_result (py_sum (map decimal_arg0 (sequence_arg left)))).

Definition sum_key (left key : fval) : res fval :=
  do vs <- mapM (fun e => getitem_d e key (FInt 0)) (sequence_arg left);;
  Ok (sum_result (py_sum (map decimal_arg0 vs))).

Definition sum_lambda (left : fval) (f : fval -> option fval) : res fval :=
  Ok (sum_result (py_sum (map decimal_arg0
        (flat_map (fun i => match f i with Some v => [v] | None => [] end) (sequence_arg left))))).

(** * slice (string.py:157) *)

Definition MAX_SLICE_ARG : Z := 2 ^ 63 - 1.
Definition MIN_SLICE_ARG : Z := - 2 ^ 63.

(** string.py:136 [_slice_arg] *)
Definition slice_arg (v : fval) : res Z :=
  match v with
  | FInt z => Ok (Z.max (Z.min z MAX_SLICE_ARG) MIN_SLICE_ARG)
  | FBool b => Ok (if b then 1 else 0)
  | FStr s => match parse_int s with
              | Some z => Ok (Z.max (Z.min z MAX_SLICE_ARG) MIN_SLICE_ARG)
              | None => LErr LiquidTypeError None
              end
  | _ => LErr LiquidTypeError None
  end.

(** Python [l[start:stop]] ([stop = None] = to the end). *)
Definition py_slice {A} (l : list A) (start : Z) (stop : option Z) : list A :=
  let n := Z.of_nat (length l) in
  let s := if start <? 0 then Z.max (start + n) 0 else Z.min start n in
  let e := match stop with
           | None => n
           | Some e => if e <? 0 then Z.max (e + n) 0 else Z.min e n
           end in
  firstn (Z.to_nat (e - s)) (skipn (Z.to_nat s) l).

(** After the fix "slice with a negative start before the beginning": a start
    below -len is out of range and gives the empty sequence. *)
Definition slice_seq {A} (l : list A) (st : Z) (stop : option Z) : list A :=
  if st <? - Z.of_nat (length l) then [] else py_slice l st stop.

(** [length = None] = the default 1. *)
Definition slice_f (val start : fval) (length : option fval) : res fval :=
  do st <- slice_arg start;;
  do ln <- match length with None => Ok 1 | Some v => slice_arg v end;;
  let e := st + ln in
  let stop := if (st <? 0) && (0 <=? e) then None else Some e in
  match val with
  | FList l => Ok (FList (slice_seq l st stop))
  | FStr s => Ok (FStr (slice_seq s st stop))
  | _ => do s <- py_str val;; Ok (FStr (slice_seq s st stop))
  end.

(** * split (string.py:186) *)

(** First occurrence of [sep]: (text before it, text after it). *)
Fixpoint find_sub (sep s : str) : option (str * str) :=
  if prefixb sep s then Some ([], skipn (length sep) s)
  else match s with
       | [] => None
       | c :: s' => match find_sub sep s' with
                    | Some (a, b) => Some (c :: a, b)
                    | None => None
                    end
       end.

(** [s.split(sep)], sep non-empty; [fuel] > number of occurrences. *)
Fixpoint split_fuel (fuel : nat) (sep s : str) : list str :=
  match fuel with
  | O => [s]
  | S f => match find_sub sep s with
           | Some (a, b) => a :: split_fuel f sep b
           | None => [s]
           end
  end.

Definition py_split (sep s : str) : list str := split_fuel (S (length s)) sep s.

Definition split_f (left sep : fval) : res fval :=
  do val <- to_liquid_string left;;
  if negb (py_truthy sep) then Ok (FList (map (fun c => FStr [c]) val))
  else
    do sp <- to_liquid_string sep;;
    match val with
    | [] => Ok (FList [])
    | _ => if str_eqb val sp then Ok (FList [])
           else match sp with
                | [] => PyExc ValueError            (* "empty separator" *)
                | _ => Ok (FList (map FStr (py_split sp val)))
                end
    end.

(** What [Filter.evaluate] (expressions.py:962, after the fix "ValueError and
    arithmetic errors raised inside a filter escaped the render") makes of an
    exception raised by the filter callable: TypeError, ValueError (which
    includes UnicodeError) and ArithmeticError (ZeroDivisionError,
    OverflowError, decimal.InvalidOperation) become LiquidTypeError; lookup
    errors and Liquid errors pass. *)
Definition as_rendered {A} (r : res A) : res A :=
  match r with
  | PyExc (TypeError | ValueError | UnicodeError | OverflowError | ZeroDivisionError
           | DecimalInvalidOperation) => LErr LiquidTypeError None
  | _ => r
  end.

(** * Outcome comparison for the correspondence run *)
Definition seq_case (model expected : res fval) : bool := rfval_eqb model expected.
