(** Kernels/ObjAccess.v — how the engine reads context objects (property C05).

    A context object is [VObj h items aitems seq attrs]:
    - the *protocol part* — what the documented protocol exposes
      (docs/variables_and_drops.md): [items] = what [__getitem__] answers by
      key (also [__iter__]/[__len__]/[__contains__] of a Mapping drop),
      [aitems] = what [__getitem_async__] answers, [seq] = what
      [__getitem__] answers by index (also [__iter__]/[__len__] of a Sequence
      drop), and the header [h]: identity (default [__eq__]), which ABC the
      class implements, [__str__]/[__repr__], the [__liquid__] hook;
    - the *Python-attribute part* [attrs]: instance attributes, properties,
      methods, class attributes, dunder attributes — everything [getattr]
      would answer.

    Transcribed (function by function, names kept) from
      liquid2/context.py          RenderContext.get, get_item, get_item_async, resolve
      liquid2/builtin/expressions.py  Path.evaluate, LambdaExpression.map, is_truthy, _eq, _lt,
                                  _contains, LoopExpression._to_iter, the comparison nodes
      liquid2/stringify.py        to_liquid_string
      liquid2/filter.py           sequence_arg, _flatten
      liquid2/builtin/filters/    map_filter.py, filtering_filters.py, find_filters.py,
                                  sorting_filters.py (sort), sum_filter.py, uniq_filter.py,
                                  array.py (first, last, join), misc.py (size, default),
                                  translate.py (t / gettext: provider lookup + call)
      liquid2/builtin/tags/for_tag.py      ForNode.render_to_output, ForLoop.__getitem__
      liquid2/shopify/tags/tablerow_tag.py TableRow.__getitem__
      liquid2/builtin/tags/extends_tag.py  BlockDrop.__getitem__
      liquid2/builtin/output.py, assign_tag.py, if_tag.py
    auto_escape = False throughout (Markup typing is C04's subject).

    "Outside the model" is explicit: where the Python does something this file
    does not transcribe, the function returns [OutOfFuel] (written
    [unmodelled]); the correspondence run counts such an answer as "no
    prediction" (it is reported in the evidence), so it can never stand in for
    a real outcome.  The file follows /repo as of commit 3880a38 (where/reject/
    find/has use Liquid equality and truthiness, compact treats a missing
    property as nil, map answers nil for a missing property).

    Model file: definitions only.  Proofs: Proofs/ObjAccess_proofs.v. *)
From Coq Require Import Strings.String Strings.Ascii DecimalString.
From LQ Require Export Base.Str.
Local Open Scope list_scope.

(** String literals: [lit "size"] is the code-point list of an ASCII literal. *)
Definition lit (s : string) : str :=
  List.map (fun a => N_of_ascii a) (list_ascii_of_string s).

Definition unmodelled {A} : res A := OutOfFuel.

Definition rmap {A B} (f : A -> B) (r : res A) : res B :=
  match r with
  | Ok a => Ok (f a) | LErr c p => LErr c p | PyExc k => PyExc k | OutOfFuel => OutOfFuel
  end.

(** * 1. The three engine-made drops whose [__getitem__] uses getattr-by-name *)

(** What [getattr(drop, name)] can answer. *)
Inductive fval :=
| FInt (z : Z) | FBool (b : bool) | FStr (s : str)
| FParent                    (* the parentloop object (a ForLoop or an Undefined) *)
| FSuper                     (* the rendered parent block *)
| FOpaque (tag : N).         (* a Python-internal object: iterator, bound method, class, frozenset ... *)

Definition fval_eqb (a b : fval) : bool :=
  match a, b with
  | FInt x, FInt y => Z.eqb x y
  | FBool x, FBool y => Bool.eqb x y
  | FStr x, FStr y => str_eqb x y
  | FParent, FParent | FSuper, FSuper => true
  | FOpaque x, FOpaque y => N.eqb x y
  | _, _ => false
  end.

(** ForLoop (for_tag.py): slots name, it, length, item, _index, parentloop. *)
Record forloop := {
  fl_name : str; fl_length : Z; fl_index : Z (* _index *)
}.

Definition forloop_keys : list str :=
  [lit "name"; lit "length"; lit "index"; lit "index0"; lit "rindex"; lit "rindex0";
   lit "first"; lit "last"; lit "parentloop"].

(** The documented loop variables (tag_reference: forloop). Specification side. *)
Definition forloop_public (fl : forloop) (k : str) : fval :=
  if str_eqb k (lit "name") then FStr (fl_name fl)
  else if str_eqb k (lit "length") then FInt (fl_length fl)
  else if str_eqb k (lit "index") then FInt (fl_index fl + 1)
  else if str_eqb k (lit "index0") then FInt (fl_index fl)
  else if str_eqb k (lit "rindex") then FInt (fl_length fl - fl_index fl)
  else if str_eqb k (lit "rindex0") then FInt (fl_length fl - fl_index fl - 1)
  else if str_eqb k (lit "first") then FBool (Z.eqb (fl_index fl) 0)
  else if str_eqb k (lit "last") then FBool (Z.eqb (fl_index fl) (fl_length fl - 1))
  else FParent.

(** Names [dir(ForLoop)] answers that are neither slots nor properties:
    methods, Mapping mixins, object/ABC dunders.  Each yields an internal object. *)
Definition drop_internal_names : list str :=
  [lit "step"; lit "_keys"; lit "get"; lit "keys"; lit "items"; lit "values";
   lit "__class__"; lit "__init__"; lit "__getitem__"; lit "__len__"; lit "__iter__";
   lit "__next__"; lit "__str__"; lit "__repr__"; lit "__contains__"; lit "__eq__";
   lit "__ne__"; lit "__hash__"; lit "__slots__"; lit "__doc__"; lit "__module__";
   lit "__dir__"; lit "__getattribute__"; lit "__setattr__"; lit "__delattr__";
   lit "__reduce__"; lit "__reduce_ex__"; lit "__getstate__"; lit "__sizeof__";
   lit "__format__"; lit "__new__"; lit "__init_subclass__"; lit "__subclasshook__";
   lit "__class_getitem__"; lit "__reversed__"; lit "__abstractmethods__";
   lit "_abc_impl"; lit "__lt__"; lit "__le__"; lit "__gt__"; lit "__ge__";
   lit "__orig_bases__"; lit "__parameters__"].

Fixpoint index_of (k : str) (l : list str) (n : N) : option N :=
  match l with
  | [] => None
  | x :: l' => if str_eqb k x then Some n else index_of k l' (n + 1)%N
  end.

(** [getattr(forloop, name)]: every attribute, public or not.
    (None = AttributeError.) *)
Definition forloop_getattr (fl : forloop) (name : str) : option fval :=
  if mem_str name forloop_keys then Some (forloop_public fl name)
  else if str_eqb name (lit "it") then Some (FOpaque 1)          (* the live iterator *)
  else if str_eqb name (lit "item") then Some (FOpaque 2)        (* slot, always None *)
  else if str_eqb name (lit "_index") then Some (FInt (fl_index fl))
  else match index_of name drop_internal_names 100 with
       | Some t => Some (FOpaque t)
       | None => None
       end.

(** ForLoop.__getitem__ (for_tag.py):
      if key in self._keys: return getattr(self, key)
      raise KeyError(key) *)
Definition forloop_getitem (fl : forloop) (key : str) : res fval :=
  if mem_str key forloop_keys then
    match forloop_getattr fl key with
    | Some v => Ok v
    | None => PyExc AttributeError
    end
  else PyExc KeyError.

(** TableRow (tablerow_tag.py): slots name, it, length, ncols, _index, _row, _col. *)
Record tablerow := {
  tr_name : str; tr_length : Z; tr_ncols : Z; tr_index : Z; tr_row : Z; tr_col : Z
}.

Definition tablerow_keys : list str :=
  [lit "length"; lit "index"; lit "index0"; lit "rindex"; lit "rindex0"; lit "first";
   lit "last"; lit "col"; lit "col0"; lit "col_first"; lit "col_last"; lit "row"].

Definition tablerow_public (t : tablerow) (k : str) : fval :=
  if str_eqb k (lit "length") then FInt (tr_length t)
  else if str_eqb k (lit "index") then FInt (tr_index t + 1)
  else if str_eqb k (lit "index0") then FInt (tr_index t)
  else if str_eqb k (lit "rindex") then FInt (tr_length t - tr_index t)
  else if str_eqb k (lit "rindex0") then FInt (tr_length t - tr_index t - 1)
  else if str_eqb k (lit "first") then FBool (Z.eqb (tr_index t) 0)
  else if str_eqb k (lit "last") then FBool (Z.eqb (tr_index t) (tr_length t - 1))
  else if str_eqb k (lit "col") then FInt (tr_col t)
  else if str_eqb k (lit "col0") then FInt (tr_col t - 1)
  else if str_eqb k (lit "col_first") then FBool (Z.eqb (tr_col t) 1)
  else if str_eqb k (lit "col_last") then FBool (Z.eqb (tr_col t) (tr_ncols t))
  else FInt (tr_row t).

Definition tablerow_getattr (t : tablerow) (name : str) : option fval :=
  if mem_str name tablerow_keys then Some (tablerow_public t name)
  else if str_eqb name (lit "name") then Some (FStr (tr_name t))
  else if str_eqb name (lit "it") then Some (FOpaque 1)
  else if str_eqb name (lit "ncols") then Some (FInt (tr_ncols t))
  else if str_eqb name (lit "_index") then Some (FInt (tr_index t))
  else if str_eqb name (lit "_row") then Some (FInt (tr_row t))
  else if str_eqb name (lit "_col") then Some (FInt (tr_col t))
  else match index_of name drop_internal_names 100 with
       | Some tg => Some (FOpaque tg)
       | None => None
       end.

(** TableRow.__getitem__ — same two lines as ForLoop.__getitem__. *)
Definition tablerow_getitem (t : tablerow) (key : str) : res fval :=
  if mem_str key tablerow_keys then
    match tablerow_getattr t key with
    | Some v => Ok v
    | None => PyExc AttributeError
    end
  else PyExc KeyError.

(** TableRow.step *)
Definition tablerow_step (t : tablerow) : tablerow :=
  if Z.eqb (tr_col t) (tr_ncols t)
  then {| tr_name := tr_name t; tr_length := tr_length t; tr_ncols := tr_ncols t;
          tr_index := tr_index t + 1; tr_row := tr_row t + 1; tr_col := 1 |}
  else {| tr_name := tr_name t; tr_length := tr_length t; tr_ncols := tr_ncols t;
          tr_index := tr_index t + 1; tr_row := tr_row t; tr_col := tr_col t + 1 |}.

(** BlockDrop.__getitem__ (extends_tag.py): only the key 'super'; slots token,
    buffer, context, name, parent are never answered. *)
Definition blockdrop_getattr (name : str) : option fval :=
  if mem_str name [lit "step"; lit "_keys"; lit "__next__"] then None
  else if mem_str name [lit "token"; lit "buffer"; lit "context"; lit "parent"] then Some (FOpaque 3)
  else if str_eqb name (lit "__getitem_async__") then Some (FOpaque 5)   (* the async twin of __getitem__ *)
  else if str_eqb name (lit "name") then Some (FOpaque 4)
  else match index_of name drop_internal_names 100 with
       | Some tg => Some (FOpaque tg)
       | None => None
       end.

Definition blockdrop_getitem (key : str) : res fval :=
  if str_eqb key (lit "super") then Ok FSuper else PyExc KeyError.

(** * 2. Values *)

Inductive okind := KPlain | KMapping | KSequence.
Inductive prim := PNil | PBool (b : bool) | PInt (z : Z) | PStr (s : str).

(** The non-recursive part of an object's protocol. *)
Record ohdr := {
  o_id : N;               (* identity: default __eq__ / `is` *)
  o_kind : okind;         (* which collections.abc interface the class implements *)
  o_hg : bool;            (* hasattr(obj, "__getitem__") *)
  o_async : bool;         (* defines __getitem_async__ *)
  o_str : str;            (* __str__ (and __repr__) *)
  o_liq : option prim;    (* __liquid__() *)
  o_loop : bool           (* an engine ForLoop: __iter__ returns self and consumes the
                             running loop, so iterating / comparing it is not modelled *)
}.

Inductive val :=
| VNil | VBool (b : bool) | VInt (z : Z) | VStr (s : str)
| VList (tup : bool) (l : list val)            (* list (tup = false) or tuple (tup = true) *)
| VDict (kvs : list (str * val))               (* dict with str keys, insertion ordered *)
| VUndef                                       (* liquid2.Undefined (the default policy) *)
| VNull                                        (* array.py _NULL (no registered filter produces it any more) *)
| VObj (h : ohdr) (items aitems : list (str * val)) (seq : list val)
       (attrs : list (str * val))
| VCallable (ret : str)                        (* attribute value: a callable answering [ret] *)
| VOpaque (tag : N).                           (* attribute value: any other Python object *)

Definition okind_eqb (a b : okind) : bool :=
  match a, b with
  | KPlain, KPlain | KMapping, KMapping | KSequence, KSequence => true
  | _, _ => false
  end.

Definition prim_val (p : prim) : val :=
  match p with PNil => VNil | PBool b => VBool b | PInt z => VInt z | PStr s => VStr s end.

(** ** isinstance checks (collections.abc) *)
Definition is_mapping (v : val) : bool :=
  match v with
  | VDict _ | VUndef => true
  | VObj h _ _ _ _ => okind_eqb (o_kind h) KMapping
  | _ => false
  end.

Definition is_sequence (v : val) : bool :=
  match v with
  | VList _ _ | VStr _ => true
  | VObj h _ _ _ _ => okind_eqb (o_kind h) KSequence
  | _ => false
  end.

Definition is_sized (v : val) : bool := is_mapping v || is_sequence v.

Definition is_loopdrop (v : val) : bool :=
  match v with VObj h _ _ _ _ => o_loop h | _ => false end.

(** hash(v) works (dict lookup / `in dict`): list, dict and Mapping subclasses
    (Mapping defines __eq__, so __hash__ is None) are unhashable. *)
Fixpoint hashable (v : val) : bool :=
  match v with
  | VList false _ | VDict _ => false
  | VList true l => forallb hashable l        (* a tuple hashes its elements *)
  | VObj h _ _ _ _ => negb (okind_eqb (o_kind h) KMapping)
  | _ => true
  end.

(** hasattr(v, "__getitem__") *)
Definition has_getitem (v : val) : bool :=
  match v with
  | VList _ _ | VStr _ | VDict _ | VUndef => true
  | VObj h _ _ _ _ => o_hg h
  | _ => false
  end.

(** ** Python primitives *)

Definition zlen {A} (l : list A) : Z := Z.of_nat (List.length l).

(** list.__getitem__(int) *)
Definition py_index {A} (l : list A) (i : Z) : res A :=
  let n := zlen l in
  let j := if (i <? 0)%Z then (i + n)%Z else i in
  if ((j <? 0) || (n <=? j))%Z then PyExc IndexError
  else match nth_error l (Z.to_nat j) with
       | Some x => Ok x
       | None => PyExc IndexError
       end.

(** operator.index: ints and bools are list indexes *)
Definition as_index (k : val) : option Z :=
  match k with
  | VInt z => Some z
  | VBool b => Some (if b then 1%Z else 0%Z)
  | _ => None
  end.

Definition lookup_key (k : val) (kvs : list (str * val)) : res val :=
  match k with
  | VStr s => match assoc s kvs with Some v => Ok v | None => PyExc KeyError end
  | _ => PyExc KeyError
  end.

(** [obj[key]] (async = false), or [await obj.__getitem_async__(key)] when the
    object defines it and async = true (context.py get_item_async._get_item). *)
Definition py_getitem (async : bool) (o k : val) : res val :=
  match o with
  | VList _ l =>
      match as_index k with Some i => py_index l i | None => PyExc TypeError end
  | VStr s =>
      match as_index k with
      | Some i => rmap (fun c => VStr [c]) (py_index s i)
      | None => PyExc TypeError
      end
  | VDict kvs => if hashable k then lookup_key k kvs else PyExc TypeError
  | VUndef => Ok VUndef                         (* Undefined.__getitem__ returns self *)
  | VObj h items aitems seq _ =>
      if async && o_async h then lookup_key k aitems
      else match o_kind h with
           | KPlain => PyExc TypeError          (* not subscriptable *)
           | KMapping =>
               if o_loop h && negb (hashable k) then PyExc TypeError   (* key in frozenset *)
               else lookup_key k items
           | KSequence =>
               match as_index k with Some i => py_index seq i | None => PyExc TypeError end
           end
  | _ => PyExc TypeError
  end.

(** len(obj) for Sized values *)
Definition py_len (v : val) : res Z :=
  match v with
  | VList _ l => Ok (zlen l)
  | VStr s => Ok (zlen s)
  | VDict kvs => Ok (zlen kvs)
  | VUndef => Ok 0%Z
  | VObj h items _ seq _ =>
      match o_kind h with
      | KPlain => PyExc TypeError
      | KMapping => Ok (zlen items)
      | KSequence => Ok (zlen seq)
      end
  | _ => PyExc TypeError
  end.

(** bool(obj) *)
Definition py_truthy (v : val) : bool :=
  match v with
  | VNil => false
  | VBool b => b
  | VInt z => negb (Z.eqb z 0)
  | VStr s => negb (Nat.eqb (List.length s) 0)
  | VList _ l => negb (Nat.eqb (List.length l) 0)
  | VDict kvs => negb (Nat.eqb (List.length kvs) 0)
  | VUndef => false
  | VNull => true
  | VObj h items _ seq _ =>
      match o_kind h with
      | KPlain => true
      | KMapping => negb (Nat.eqb (List.length items) 0)
      | KSequence => negb (Nat.eqb (List.length seq) 0)
      end
  | VCallable _ | VOpaque _ => true
  end.

(** str(int) *)
Definition z_to_str (z : Z) : str := lit (NilZero.string_of_int (Z.to_int z)).

Fixpoint concat_str (l : list str) : str :=
  match l with [] => [] | s :: l' => s ++ concat_str l' end.

Fixpoint join_str (sep : str) (l : list str) : str :=
  match l with
  | [] => []
  | [s] => s
  | s :: l' => s ++ sep ++ join_str sep l'
  end.

Fixpoint mapM {A B} (f : A -> res B) (l : list A) : res (list B) :=
  match l with
  | [] => Ok []
  | x :: l' => do y <- f x;; do ys <- mapM f l';; Ok (y :: ys)
  end.

(** repr(str) for the characters whose repr is themselves between single quotes. *)
Definition repr_safe_char (c : N) : bool :=
  ((32 <=? c) && (c <=? 126) && negb (c =? 39) && negb (c =? 92))%N.

(** repr of a list / tuple from the reprs of its elements: [a, b], (a, b), (a,). *)
Definition repr_brackets (tup : bool) (rs : list str) : str :=
  if tup then
    lit "(" ++ join_str (lit ", ") rs ++ (match rs with [_] => lit "," | _ => [] end) ++ lit ")"
  else lit "[" ++ join_str (lit ", ") rs ++ lit "]".

(** repr(v): what str(dict) / str(list) show of their elements. *)
Fixpoint py_repr (v : val) : res str :=
  match v with
  | VNil => Ok (lit "None")
  | VBool b => Ok (if b then lit "True" else lit "False")
  | VInt z => Ok (z_to_str z)
  | VStr s => if forallb repr_safe_char s then Ok (lit "'" ++ s ++ lit "'") else unmodelled
  | VList t l =>
      do rs <- (fix go (l : list val) : res (list str) :=
                  match l with
                  | [] => Ok []
                  | x :: l' => do r <- py_repr x;; do rs <- go l';; Ok (r :: rs)
                  end) l;;
      Ok (repr_brackets t rs)
  | VDict kvs =>
      do rs <- (fix go (l : list (str * val)) : res (list str) :=
                  match l with
                  | [] => Ok []
                  | (k, x) :: l' =>
                      do rk <- (if forallb repr_safe_char k then Ok (lit "'" ++ k ++ lit "'")
                                else unmodelled);;
                      do r <- py_repr x;; do rs <- go l';;
                      Ok ((rk ++ lit ": " ++ r) :: rs)
                  end) kvs;;
      Ok (lit "{" ++ join_str (lit ", ") rs ++ lit "}")
  | VObj h _ _ _ attrs =>
      if o_loop h then unmodelled
      else match assoc (lit "__repr__") attrs with
           | Some (VCallable r) => Ok r     (* repr(obj) is a Python attribute, reached by str(dict) *)
           | Some _ => unmodelled
           | None => Ok (o_str h)           (* no __repr__ of its own: the harness aliases it to __str__ *)
           end
  | _ => unmodelled
  end.

(** iter(obj) for a Sequence / Mapping object: its items in order. *)
Definition seq_items (v : val) : list val :=
  match v with
  | VList _ l => l
  | VStr s => List.map (fun c => VStr [c]) s
  | VObj _ _ _ seq _ => seq
  | _ => []
  end.

(** stringify.py to_liquid_string(val, auto_escape=False)
    (= expressions.py _to_liquid_string). *)
Fixpoint to_liquid_string (v : val) : res str :=
  match v with
  | VStr s => Ok s
  | VBool b => Ok (if b then lit "true" else lit "false")
  | VNil => Ok []
  | VList _ l =>                                       (* isinstance(val, Sequence) *)
      rmap concat_str
        ((fix go (l : list val) : res (list str) :=
            match l with
            | [] => Ok []
            | x :: l' => do r <- to_liquid_string x;; do rs <- go l';; Ok (r :: rs)
            end) l)
  | VObj h _ _ seq _ =>
      if okind_eqb (o_kind h) KSequence then
        rmap concat_str
          ((fix go (l : list val) : res (list str) :=
              match l with
              | [] => Ok []
              | x :: l' => do r <- to_liquid_string x;; do rs <- go l';; Ok (r :: rs)
              end) seq)
      else Ok (o_str h)                                (* str(val) *)
  | VInt z => Ok (z_to_str z)
  | VDict _ => py_repr v
  | VUndef => Ok []                                    (* Undefined.__str__ *)
  | VNull => Ok []                                     (* _Null.__str__ *)
  | VCallable _ | VOpaque _ => unmodelled
  end.

(** str(obj) as Python's builtin (used by `map: key`, `str(right) in left`). *)
Definition py_str (v : val) : res str :=
  match v with
  | VStr s => Ok s
  | VNil => Ok (lit "None")
  | VBool b => Ok (if b then lit "True" else lit "False")
  | VInt z => Ok (z_to_str z)
  | VList _ _ | VDict _ => py_repr v
  | VUndef | VNull => Ok []
  | VObj h _ _ _ _ => Ok (o_str h)
  | _ => unmodelled
  end.

(** Python [a == b].  Mapping.__eq__ compares dict(items()); Sequence and plain
    classes keep identity; 1 == True. *)
Fixpoint py_eq (a b : val) : res bool :=
  let dict_eq :=
    fix dict_eq (x : list (str * val)) (y : list (str * val)) : res bool :=
      match x with
      | [] => Ok true
      | (k, v) :: x' =>
          match assoc k y with
          | None => Ok false
          | Some w => do e <- py_eq v w;; if e then dict_eq x' y else Ok false
          end
      end in
  let items_of (v : val) : option (list (str * val)) :=
    match v with
    | VDict kvs => Some kvs
    | VObj h items _ _ _ => if okind_eqb (o_kind h) KMapping then Some items else None
    | _ => None
    end in
  match a with
  | VUndef => Ok (match b with VUndef | VNil => true | _ => false end)
  | VNull => Ok (match b with VNull | VNil => true | _ => false end)
  | VNil => Ok (match b with VNil | VUndef | VNull => true | _ => false end)
  | VBool x =>
      Ok (match b with
          | VBool y => Bool.eqb x y
          | VInt z => Z.eqb (if x then 1 else 0) z
          | _ => false
          end)
  | VInt x =>
      Ok (match b with
          | VInt y => Z.eqb x y
          | VBool y => Z.eqb x (if y then 1 else 0)
          | _ => false
          end)
  | VStr x => Ok (match b with VStr y => str_eqb x y | _ => false end)
  | VList t x =>
      match b with
      | VList t' y =>
          if negb (Bool.eqb t t') then Ok false else
          (fix list_eq (x y : list val) : res bool :=
             match x, y with
             | [], [] => Ok true
             | v :: x', w :: y' => do e <- py_eq v w;; if e then list_eq x' y' else Ok false
             | _, _ => Ok false
             end) x y
      | _ => Ok false
      end
  | VDict x =>
      match b with
      | VUndef | VNull => Ok false
      | _ =>
          if is_loopdrop b then unmodelled else
          match items_of b with
          | Some y => if Nat.eqb (List.length x) (List.length y) then dict_eq x y else Ok false
          | None => Ok false
          end
      end
  | VObj h x _ _ _ =>
      if okind_eqb (o_kind h) KMapping then
        (* Mapping.__eq__: other must be a Mapping (Undefined is one, with no items) *)
        match (match b with VUndef => Some [] | _ => items_of b end) with
        | Some y =>
            if o_loop h || is_loopdrop b then unmodelled
            else if Nat.eqb (List.length x) (List.length y) then dict_eq x y else Ok false
        | None => Ok false
        end
      else Ok (match b with VObj h' _ _ _ _ => N.eqb (o_id h) (o_id h') | _ => false end)
  | VCallable _ | VOpaque _ => unmodelled
  end.

(** [x in l] for a list: identity or equality with some element. *)
Fixpoint py_list_contains (l : list val) (x : val) : res bool :=
  match l with
  | [] => Ok false
  | y :: l' => do e <- py_eq y x;; if e then Ok true else py_list_contains l' x
  end.

(** substring test *)
Fixpoint is_prefix (p s : str) : bool :=
  match p, s with
  | [], _ => true
  | c :: p', d :: s' => N.eqb c d && is_prefix p' s'
  | _, [] => false
  end.

Fixpoint is_infix (p s : str) : bool :=
  is_prefix p s || match s with [] => false | _ :: s' => is_infix p s' end.

(** ** Liquid-level predicates (expressions.py) *)

(** hasattr(obj, "__liquid__") and obj.__liquid__() *)
Definition liquid_hook (v : val) : option val :=
  match v with
  | VObj h _ _ _ _ => option_map prim_val (o_liq h)
  | VUndef => Some VNil
  | _ => None
  end.

Definition unhook (v : val) : val :=
  match liquid_hook v with Some p => p | None => v end.

(** is_truthy *)
Definition is_truthy (v : val) : bool :=
  match unhook v with VNil => false | VBool false => false | _ => true end.

(** _eq *)
Definition liq_eq (left right : val) : res bool :=
  let l := unhook left in
  let r := unhook right in
  let '(l, r) := match r with VBool _ => (r, l) | _ => (l, r) end in
  match l with
  | VBool x => Ok (match r with VBool y => Bool.eqb x y | _ => false end)
  | _ => py_eq l r
  end.

Fixpoint str_ltb (a b : str) : bool :=
  match a, b with
  | [], [] => false
  | [], _ :: _ => true
  | _ :: _, [] => false
  | c :: a', d :: b' => if N.ltb c d then true else if N.ltb d c then false else str_ltb a' b'
  end.

(** _lt *)
Definition liq_lt (left right : val) : res bool :=
  let l := unhook left in
  let r := unhook right in
  match l, r with
  | VStr x, VStr y => Ok (str_ltb x y)
  | VBool _, _ | _, VBool _ => Ok false
  | VInt x, VInt y => Ok (Z.ltb x y)
  | _, _ => LErr LiquidTypeError None
  end.

(** _contains(left, right): [right in left] *)
Definition liq_contains (left right : val) : res bool :=
  match left with
  | VStr s => do r <- py_str right;; Ok (is_infix r s)
  | VList _ l => py_list_contains l right
  | VDict kvs =>
      if hashable right then
        Ok (match right with VStr k => match assoc k kvs with Some _ => true | None => false end
                        | _ => false end)
      else Ok false                                (* except TypeError: return False *)
  | VUndef => Ok false                               (* Undefined.__contains__ *)
  | VObj h items _ seq _ =>
      match o_kind h with
      | KPlain => LErr LiquidTypeError None
      | KMapping =>                 (* Mapping.__contains__: try self[key] except KeyError *)
          match py_getitem false left right with
          | Ok _ => Ok true
          | PyExc KeyError => Ok false
          | PyExc TypeError => Ok false            (* except TypeError: return False *)
          | r => rmap (fun _ => false) r
          end
      | KSequence => py_list_contains seq right      (* Sequence.__contains__ *)
      end
  | _ => LErr LiquidTypeError None
  end.

(** * 3. Path resolution (context.py) *)

Definition is_key (k : val) (name : string) : bool :=
  match k with VStr s => str_eqb s (lit name) | _ => false end.

Definition catch3 (r : res val) (handler : res val) : res val :=
  match r with
  | PyExc KeyError | PyExc IndexError | PyExc TypeError => handler
  | _ => r
  end.

(** RenderContext.get_item / get_item_async *)
Definition get_item (async : bool) (obj key : val) : res val :=
  let key := unhook key in
  if is_key key "size" then
    let r := py_getitem async obj key in
    catch3 r (if is_sized obj then rmap VInt (py_len obj) else r)
  else if is_key key "first" then
    let r := py_getitem async obj key in
    catch3 r
      (if is_mapping obj && py_truthy obj then
         (* next(itertools.islice(obj.items(), 1)) *)
         match obj with
         | VDict ((k, v) :: _) => Ok (VList true [VStr k; v])
         | VObj h ((k, v) :: _) _ _ _ => if o_loop h then unmodelled else Ok (VList true [VStr k; v])
         | _ => unmodelled
         end
       else if is_sequence obj then py_getitem false obj (VInt 0)
       else r)
  else if is_key key "last" then
    let r := py_getitem async obj key in
    catch3 r (if is_sequence obj then py_getitem false obj (VInt (-1)) else r)
  else py_getitem async obj key.

Definition ns := list (str * val).

Record ctx := {
  pushed : list ns;      (* namespaces pushed by extend(): innermost first *)
  locals : ns;           (* assign *)
  globals : ns;          (* render(data) *)
  loops : list val       (* RenderContext.loops: the ForLoop stack, innermost first *)
}.

(** ReadOnlyChainMap lookup: pushed namespaces, then locals, then globals.
    (The built-in names now/today and the counters are not generated.) *)
Fixpoint lookup_pushed (name : str) (p : list ns) : option val :=
  match p with
  | [] => None
  | n :: p' => match assoc name n with Some v => Some v | None => lookup_pushed name p' end
  end.

Definition scope_lookup (c : ctx) (name : str) : option val :=
  match lookup_pushed name (pushed c) with
  | Some v => Some v
  | None => match assoc name (locals c) with
            | Some v => Some v
            | None => assoc name (globals c)
            end
  end.

(** Path segments: 'a.b', 'a["b"]', 'a[0]', 'a[b.c]'. *)
Inductive seg :=
| SegS (s : str)
| SegI (z : Z)
| SegP (root : str) (segs : list seg).

(** RenderContext.get / get_async after the segments have been evaluated:
    a failing item access yields Undefined. *)
Fixpoint walk (async : bool) (obj : val) (keys : list val) : res val :=
  match keys with
  | [] => Ok obj
  | k :: ks =>
      match get_item async obj k with
      | Ok v => walk async v ks
      | PyExc KeyError | PyExc TypeError | PyExc IndexError => Ok VUndef
      | r => r
      end
  end.

(** Path.evaluate: nested paths first, then context.get. *)
Fixpoint eval_seg (async : bool) (c : ctx) (s : seg) {struct s} : res val :=
  match s with
  | SegS x => Ok (VStr x)
  | SegI z => Ok (VInt z)
  | SegP root segs =>
      do keys <- (fix go (l : list seg) : res (list val) :=
                    match l with
                    | [] => Ok []
                    | s' :: l' => do k <- eval_seg async c s';; do ks <- go l';; Ok (k :: ks)
                    end) segs;;
      match scope_lookup c root with
      | None => Ok VUndef
      | Some obj => walk async obj keys
      end
  end.

Definition eval_path (async : bool) (c : ctx) (root : str) (segs : list seg) : res val :=
  eval_seg async c (SegP root segs).

(** * 4. Expressions *)

Inductive pexpr :=
| ENil | ETrue | EFalse | EInt (z : Z) | EStr (s : str)
| EPath (root : str) (segs : list seg).

Inductive cmpop := OEq | ONe | OLt | OGt | OLe | OGe | OContains | OIn.

Inductive bexpr :=
| BPrim (e : pexpr)
| BNot (b : bexpr)
| BAnd (a b : bexpr)
| BOr (a b : bexpr)
| BCmp (op : cmpop) (a b : bexpr).

Definition eval_pexpr (async : bool) (c : ctx) (e : pexpr) : res val :=
  match e with
  | ENil => Ok VNil
  | ETrue => Ok (VBool true)
  | EFalse => Ok (VBool false)
  | EInt z => Ok (VInt z)
  | EStr s => Ok (VStr s)
  | EPath r ss => eval_path async c r ss
  end.

Definition eval_cmp (op : cmpop) (l r : val) : res bool :=
  match op with
  | OEq => liq_eq l r
  | ONe => rmap negb (liq_eq l r)
  | OLt => liq_lt l r
  | OGt => liq_lt r l
  | OLe => do e <- liq_eq l r;; if e then Ok true else liq_lt l r
  | OGe => do e <- liq_eq l r;; if e then Ok true else liq_lt r l
  | OContains => liq_contains l r
  | OIn => liq_contains r l
  end.

Fixpoint eval_bexpr (async : bool) (c : ctx) (b : bexpr) : res val :=
  match b with
  | BPrim e => eval_pexpr async c e
  | BNot x => do v <- eval_bexpr async c x;; Ok (VBool (negb (is_truthy v)))
  | BAnd x y =>
      do v <- eval_bexpr async c x;;
      if is_truthy v then (do w <- eval_bexpr async c y;; Ok (VBool (is_truthy w)))
      else Ok (VBool false)
  | BOr x y =>
      do v <- eval_bexpr async c x;;
      if is_truthy v then Ok (VBool true)
      else (do w <- eval_bexpr async c y;; Ok (VBool (is_truthy w)))
  | BCmp op x y =>
      do l <- eval_bexpr async c x;;
      do r <- eval_bexpr async c y;;
      rmap VBool (eval_cmp op l r)
  end.

(** * 5. Filters *)

Inductive fname :=
| FMap | FWhere | FReject | FCompact | FUniq | FSort | FSum
| FFind | FFindIndex | FHas | FFirst | FLast | FSize | FJoin | FDefault
| FT | FGettext.

Inductive farg :=
| APos (e : pexpr)
| AKw (k : str) (e : pexpr)
| ALam (params : list str) (body : bexpr).

Record fcall := { f_name : fname; f_args : list farg }.

(** filter.py _flatten (level = 5): nested lists/tuples only. *)
Fixpoint flatten (level : nat) (l : list val) : list val :=
  match level with
  | O => l
  | S n => flat_map (fun v => match v with VList _ l' => flatten n l' | _ => [v] end) l
  end.

(** filter.py sequence_arg *)
Definition sequence_arg (v : val) : list val :=
  match v with
  | VUndef => []
  | VStr s => List.map (fun c => VStr [c]) s
  | VList _ l => flatten 5 l
  | VObj h _ _ seq _ =>
      if okind_eqb (o_kind h) KSequence then flatten 5 seq else [v]
  | _ => [v]
  end.

(** The filter-side _getitem helper of map_filter.py, filtering_filters.py,
    sorting_filters.py, sum_filter.py (identical bodies). *)
Definition f_getitem (obj key default : val) : res val :=
  match py_getitem false obj key with
  | Ok v => Ok v
  | PyExc KeyError | PyExc IndexError => Ok default
  | PyExc TypeError => if has_getitem obj then Ok default else PyExc TypeError
  | r => r
  end.

(** filtering_filters.py _property (compact): obj[key], a missing key is None. *)
Definition f_property (obj key : val) : res val :=
  match py_getitem false obj key with
  | PyExc KeyError | PyExc IndexError => Ok VNil
  | r => r
  end.

(** find_filters.py _getitem: never raises. *)
Definition find_getitem (obj key : val) : res val :=
  match py_getitem false obj key with
  | Ok v => Ok v
  | PyExc KeyError | PyExc IndexError => Ok VNil
  | PyExc TypeError =>
      match obj, key with
      | VStr s, VStr k => if is_infix k s then Ok key else Ok VNil
      | VInt a, VInt b => Ok (VBool (Z.eqb a b))
      | VInt a, VBool b => Ok (VBool (Z.eqb a (if b then 1 else 0)))
      | VBool a, VInt b => Ok (VBool (Z.eqb (if a then 1 else 0) b))
      | VBool a, VBool b => Ok (VBool (Bool.eqb a b))
      | _, _ => Ok VNil
      end
  | r => r
  end.

Definition is_undef (v : val) : bool := match v with VUndef => true | _ => false end.
Definition is_nil (v : val) : bool := match v with VNil => true | _ => false end.

Fixpoint filterM {A} (f : A -> res bool) (l : list A) : res (list A) :=
  match l with
  | [] => Ok []
  | x :: l' => do b <- f x;; do r <- filterM f l';; Ok (if b then x :: r else r)
  end.

(** next((i, itm) for ... if pred(itm)), as (index, item). *)
Fixpoint findM (f : val -> res bool) (l : list val) (n : Z) : res (option (Z * val)) :=
  match l with
  | [] => Ok None
  | x :: l' => do b <- f x;; if b then Ok (Some (n, x)) else findM f l' (n + 1)%Z
  end.

(** LambdaExpression.map: the scope dict is pushed once; each item rebinds the
    parameter(s).  The body is evaluated with the *sync* evaluate. *)
Definition lambda_scope (params : list str) (index : Z) (item : val) : option ns :=
  match params with
  | [p] => Some [(p, item)]
  | p :: q :: _ => Some (dict_set p item [(q, VInt index)])
  | [] => None
  end.

Definition push (c : ctx) (n : ns) : ctx :=
  {| pushed := n :: pushed c; locals := locals c; globals := globals c; loops := loops c |}.

Fixpoint lambda_map (c : ctx) (params : list str) (body : bexpr) (l : list val) (i : Z)
  : res (list val) :=
  match l with
  | [] => Ok []
  | x :: l' =>
      match lambda_scope params i x with
      | None => unmodelled
      | Some n =>
          do v <- eval_bexpr false (push c n) body;;
          do vs <- lambda_map c params body l' (i + 1)%Z;;
          Ok (v :: vs)
      end
  end.

(** Sort keys: sorted() needs every compared pair to support `<`. *)
Inductive keyclass := KCInt | KCStr | KCOther.
Definition key_class (v : val) : keyclass :=
  match v with VInt _ | VBool _ => KCInt | VStr _ => KCStr | _ => KCOther end.
Definition key_z (v : val) : Z :=
  match v with VInt z => z | VBool true => 1%Z | _ => 0%Z end.
Definition key_s (v : val) : str := match v with VStr s => s | _ => [] end.

Definition key_ltb (a b : val) : bool :=
  match key_class a with
  | KCInt => Z.ltb (key_z a) (key_z b)
  | _ => str_ltb (key_s a) (key_s b)
  end.

(** Stable insertion sort on (key, item) pairs by key. *)
Fixpoint insert_by (p : val * val) (l : list (val * val)) : list (val * val) :=
  match l with
  | [] => [p]
  | q :: l' => if key_ltb (fst q) (fst p) then q :: insert_by p l' else p :: q :: l'
  end.

Definition sort_pairs (l : list (val * val)) : list (val * val) :=
  fold_right insert_by [] l.

Definition all_class (kc : keyclass) (l : list (val * val)) : bool :=
  forallb (fun p => match key_class (fst p), kc with
                    | KCInt, KCInt | KCStr, KCStr => true
                    | _, _ => false
                    end) l.

(** sorted(items, key=...) on precomputed keys: a list of < 2 items is never
    compared; otherwise every key must be an int (bool) or every key a str —
    a mixed pair raises TypeError; keys that are lists are not modelled. *)
Definition py_sorted (l : list (val * val)) : res (list val) :=
  match l with
  | [] | [_] => Ok (List.map snd l)
  | _ =>
      if all_class KCInt l || all_class KCStr l then Ok (List.map snd (sort_pairs l))
      else if existsb (fun p => match fst p with VList _ _ => true | _ => false end) l
      then unmodelled
      else PyExc TypeError
  end.

Definition max_ch : val := VStr [1114111%N].

(** sum filter: decimal_arg(x, 0) for ints (bools are ints); str / float not modelled. *)
Definition decimal_arg0 (v : val) : res Z :=
  match v with
  | VInt z => Ok z
  | VBool b => Ok (if b then 1%Z else 0%Z)
  | VStr _ => unmodelled
  | _ => Ok 0%Z
  end.

(** getattr(obj, name) on a context value: only objects carry attributes the
    model distinguishes; (None = AttributeError / hasattr False). *)
Definition obj_attr (v : val) (name : str) : option val :=
  match v with
  | VObj _ _ _ _ attrs => assoc name attrs
  | _ => None
  end.

(** The translation filters' provider: context.resolve("translations", default);
    a value without an attribute `gettext` is refused with LiquidTypeError,
    anything else has its .gettext(message) called.  None = NullTranslations. *)
Definition tr_gettext (c : ctx) (msg : str) : res str :=
  match scope_lookup c (lit "translations") with
  | None => Ok msg
  | Some p =>
      match obj_attr p (lit "gettext") with
      | None => LErr LiquidTypeError None      (* not hasattr(translations, "gettext") (97793ac) *)
      | Some (VCallable r) => Ok r
      | Some _ => PyExc TypeError
      end
  end.

(** BaseTranslateFilter.format_message: [text % vars]; a text without '%' is
    returned unchanged; interpolation proper is not modelled. *)
Definition format_message (text : str) : res str :=
  if existsb (N.eqb 37) text then unmodelled else Ok text.

Definition arg_val (async : bool) (c : ctx) (a : farg) : res val :=
  match a with
  | APos e => eval_pexpr async c e
  | AKw _ e => eval_pexpr async c e
  | ALam _ _ => unmodelled
  end.

(** A TypeError, ValueError or ArithmeticError escaping a filter becomes
    LiquidTypeError (Filter.evaluate). *)
Definition wrap_type_error {A} (r : res A) : res A :=
  match r with
  | PyExc TypeError | PyExc ValueError | PyExc OverflowError | PyExc ZeroDivisionError =>
      LErr LiquidTypeError None
  | _ => r
  end.

Definition select_by (keep_if : bool) (l : list val) (rs : list val) : list val :=
  List.map fst
    (List.filter (fun p => Bool.eqb (negb (is_undef (snd p)) && is_truthy (snd p)) keep_if)
       (combine l rs)).

(** uniq_filter.py _contains(seen, obj): any(item is obj or _eq(item, obj)) —
    identity, else Liquid equality (1 != true). *)
Definition same_obj (a b : val) : bool :=
  match a, b with
  | VObj h _ _ _ _, VObj h' _ _ _ _ => N.eqb (o_id h) (o_id h')
  | _, _ => false
  end.

Fixpoint liq_list_contains (l : list val) (x : val) : res bool :=
  match l with
  | [] => Ok false
  | y :: l' =>
      if same_obj y x then Ok true
      else do e <- liq_eq y x;; if e then Ok true else liq_list_contains l' x
  end.

(** uniq with keys: the list of seen keys, MISSING being a fresh object equal
    only to itself.  [None] = MISSING. *)
Fixpoint uniq_keys (l : list (val * option val)) (missing : bool) (keys : list val)
  : res (list val) :=
  match l with
  | [] => Ok []
  | (obj, None) :: l' =>
      if missing then uniq_keys l' true keys
      else rmap (cons obj) (uniq_keys l' true keys)
  | (obj, Some k) :: l' =>
      do seen <- liq_list_contains keys k;;
      if seen then uniq_keys l' missing keys
      else rmap (cons obj) (uniq_keys l' missing (keys ++ [k]))
  end.

(** UniqFilter with a string key: item = obj[key]; KeyError / IndexError -> MISSING;
    TypeError -> LiquidTypeError; anything else propagates. *)
Fixpoint uniq_prop (k : val) (l : list val) (missing : bool) (keys : list val)
  : res (list val) :=
  match l with
  | [] => Ok []
  | obj :: l' =>
      match py_getitem false obj k with
      | PyExc KeyError | PyExc IndexError =>
          if missing then uniq_prop k l' true keys
          else rmap (cons obj) (uniq_prop k l' true keys)
      | PyExc TypeError => LErr LiquidTypeError None
      | Ok item =>
          do seen <- liq_list_contains keys item;;
          if seen then uniq_prop k l' missing keys
          else rmap (cons obj) (uniq_prop k l' missing (keys ++ [item]))
      | PyExc e => PyExc e
      | LErr cl ps => LErr cl ps
      | OutOfFuel => OutOfFuel
      end
  end.

(** UniqFilter without a key: keep an item unless an equal one was kept before. *)
Fixpoint uniq_items (l : list val) (items : list val) : res (list val) :=
  match l with
  | [] => Ok []
  | obj :: l' =>
      do seen <- liq_list_contains items obj;;
      if seen then uniq_items l' items
      else rmap (cons obj) (uniq_items l' (items ++ [obj]))
  end.

Definition uniq_plain (l : list val) : res (list val) := uniq_items l [].

(** The lazy zip(left, key.map(context, left)) of find / find_index / has:
    stops at the first item whose lambda result is defined and truthy. *)
Fixpoint lambda_find (c : ctx) (params : list str) (body : bexpr) (l : list val) (i : Z)
  : res (option (Z * val)) :=
  match l with
  | [] => Ok None
  | x :: l' =>
      match lambda_scope params i x with
      | None => unmodelled
      | Some n =>
          do v <- eval_bexpr false (push c n) body;;
          if negb (is_undef v) && is_truthy v then Ok (Some (i, x))
          else lambda_find c params body l' (i + 1)%Z
      end
  end.

(** misc.py default after the force_liquid_default test. *)
Definition default_core (left d : val) : res val :=
  let o := unhook left in
  match left with
  | VInt _ => Ok left
  | _ =>
      do a <- py_eq VNil o;;
      do b <- py_eq (VBool false) o;;
      if a || b then Ok d
      else match o with
           | VStr [] | VList false [] | VDict [] => Ok d
           | _ => Ok left
           end
  end.


Definition apply_filter (async : bool) (c : ctx) (f : fcall) (left : val) : res val :=
  wrap_type_error
  match f_name f, f_args f with
  (* map_filter.py MapFilter.__call__ *)
  | FMap, [ALam ps body] =>
      do rs <- lambda_map c ps body (sequence_arg left) 0;;
      Ok (VList false (List.map (fun r => if is_undef r then VNil else r) rs))
  | FMap, [APos e] =>
      do k <- eval_pexpr async c e;;
      do ks <- py_str k;;
      rmap (VList false) (mapM (fun itm => f_getitem itm (VStr ks) VNil) (sequence_arg left))
  (* filtering_filters.py WhereFilter / RejectFilter *)
  | FWhere, [ALam ps body] =>
      let l := sequence_arg left in
      do rs <- lambda_map c ps body l 0;; Ok (VList false (select_by true l rs))
  | FReject, [ALam ps body] =>
      let l := sequence_arg left in
      do rs <- lambda_map c ps body l 0;; Ok (VList false (select_by false l rs))
  | FWhere, [APos e] =>
      do k <- eval_pexpr async c e;;
      rmap (VList false) (filterM (fun itm => do x <- f_getitem itm k VNil;; Ok (is_truthy x))
                          (sequence_arg left))
  | FReject, [APos e] =>
      do k <- eval_pexpr async c e;;
      rmap (VList false) (filterM (fun itm => do x <- f_getitem itm k VNil;; Ok (negb (is_truthy x)))
                          (sequence_arg left))
  | FWhere, [APos e; APos e2] =>
      do k <- eval_pexpr async c e;;
      do v <- eval_pexpr async c e2;;
      if is_nil v || is_undef v then
        rmap (VList false) (filterM (fun itm => do x <- f_getitem itm k VNil;; Ok (is_truthy x))
                            (sequence_arg left))
      else
        rmap (VList false) (filterM (fun itm => do x <- f_getitem itm k VNil;; liq_eq x v)
                            (sequence_arg left))
  | FReject, [APos e; APos e2] =>
      do k <- eval_pexpr async c e;;
      do v <- eval_pexpr async c e2;;
      if is_nil v || is_undef v then
        rmap (VList false) (filterM (fun itm => do x <- f_getitem itm k VNil;; Ok (negb (is_truthy x)))
                            (sequence_arg left))
      else
        rmap (VList false) (filterM (fun itm => do x <- f_getitem itm k VNil;; rmap negb (liq_eq x v))
                            (sequence_arg left))
  (* filtering_filters.py CompactFilter *)
  | FCompact, [] =>
      Ok (VList false (List.filter (fun itm => negb (is_nil itm)) (sequence_arg left)))
  | FCompact, [ALam ps body] =>
      let l := sequence_arg left in
      do rs <- lambda_map c ps body l 0;;
      Ok (VList false (List.map fst
                   (List.filter (fun p => negb (is_undef (snd p)) && negb (is_nil (snd p)))
                      (combine l rs))))
  | FCompact, [APos e] =>
      do k <- eval_pexpr async c e;;
      if is_nil k || is_undef k
      then Ok (VList false (List.filter (fun itm => negb (is_nil itm)) (sequence_arg left)))
      else rmap (VList false) (filterM (fun itm => do x <- f_property itm k;; Ok (negb (is_nil x)))
                               (sequence_arg left))
  (* uniq_filter.py UniqFilter *)
  | FUniq, [] => rmap (VList false) (uniq_plain (sequence_arg left))
  | FUniq, [ALam ps body] =>
      let l := sequence_arg left in
      do rs <- lambda_map c ps body l 0;;
      rmap (VList false) (uniq_keys (combine l (List.map (fun r => if is_undef r then None else Some r) rs))
                            false [])
  | FUniq, [APos e] =>
      do k <- eval_pexpr async c e;;
      if is_nil k || is_undef k then rmap (VList false) (uniq_plain (sequence_arg left))
      else rmap (VList false) (uniq_prop k (sequence_arg left) false [])
  (* sorting_filters.py SortFilter *)
  | FSort, [] =>
      rmap (VList false) (py_sorted (List.map (fun x => (x, x)) (sequence_arg left)))
  | FSort, [ALam ps body] =>
      let l := sequence_arg left in
      do rs <- lambda_map c ps body l 0;;
      rmap (VList false) (py_sorted (combine (List.map (fun r => if is_undef r then max_ch else r) rs) l))
  | FSort, [APos e] =>
      do k <- eval_pexpr async c e;;
      if py_truthy k then
        do ks <- py_str k;;
        do keys <- mapM (fun itm => f_getitem itm (VStr ks) max_ch) (sequence_arg left);;
        rmap (VList false) (py_sorted (combine keys (sequence_arg left)))
      else rmap (VList false) (py_sorted (List.map (fun x => (x, x)) (sequence_arg left)))
  (* sum_filter.py SumFilter *)
  | FSum, [] =>
      do zs <- mapM decimal_arg0 (sequence_arg left);;
      Ok (VInt (fold_left Z.add zs 0%Z))
  | FSum, [ALam ps body] =>
      do rs <- lambda_map c ps body (sequence_arg left) 0;;
      do zs <- mapM decimal_arg0 (List.filter (fun r => negb (is_undef r)) rs);;
      Ok (VInt (fold_left Z.add zs 0%Z))
  | FSum, [APos e] =>
      do k <- eval_pexpr async c e;;
      if is_nil k || is_undef k then
        do zs <- mapM decimal_arg0 (sequence_arg left);; Ok (VInt (fold_left Z.add zs 0%Z))
      else
        do zs <- mapM (fun itm => do x <- f_getitem itm k (VInt 0);; decimal_arg0 x)
                      (sequence_arg left);;
        Ok (VInt (fold_left Z.add zs 0%Z))
  (* find_filters.py FindFilter / FindIndexFilter / HasFilter *)
  | FFind, [ALam ps body] =>
      do r <- lambda_find c ps body (sequence_arg left) 0;;
      Ok (match r with Some (_, x) => x | None => VNil end)
  | FFindIndex, [ALam ps body] =>
      do r <- lambda_find c ps body (sequence_arg left) 0;;
      Ok (match r with Some (i, _) => VInt i | None => VNil end)
  | FHas, [ALam ps body] =>
      do r <- lambda_find c ps body (sequence_arg left) 0;;
      Ok (VBool (match r with Some _ => true | None => false end))
  | FFind, [APos e] =>
      do k <- eval_pexpr async c e;;
      do r <- findM (fun itm => do x <- find_getitem itm k;; Ok (is_truthy x)) (sequence_arg left) 0;;
      Ok (match r with Some (_, x) => x | None => VNil end)
  | FFind, [APos e; APos e2] =>
      do k <- eval_pexpr async c e;;
      do v <- eval_pexpr async c e2;;
      do r <- findM (fun itm => do x <- find_getitem itm k;;
                                if is_nil v || is_undef v then Ok (is_truthy x) else liq_eq x v)
                    (sequence_arg left) 0;;
      Ok (match r with Some (_, x) => x | None => VNil end)
  | FFindIndex, [APos e] =>
      do k <- eval_pexpr async c e;;
      do r <- findM (fun itm => do x <- find_getitem itm k;; Ok (is_truthy x)) (sequence_arg left) 0;;
      Ok (match r with Some (i, _) => VInt i | None => VNil end)
  | FFindIndex, [APos e; APos e2] =>
      do k <- eval_pexpr async c e;;
      do v <- eval_pexpr async c e2;;
      do r <- findM (fun itm => do x <- find_getitem itm k;;
                                if is_nil v || is_undef v then Ok (is_truthy x) else liq_eq x v)
                    (sequence_arg left) 0;;
      Ok (match r with Some (i, _) => VInt i | None => VNil end)
  (* has: any(pred(itm) for itm in left) *)
  | FHas, [APos e] =>
      do k <- eval_pexpr async c e;;
      do r <- findM (fun itm => do x <- find_getitem itm k;; Ok (is_truthy x))
                    (sequence_arg left) 0;;
      Ok (VBool (match r with Some _ => true | None => false end))
  | FHas, [APos e; APos e2] =>
      do k <- eval_pexpr async c e;;
      do v <- eval_pexpr async c e2;;
      do r <- findM (fun itm => do x <- find_getitem itm k;;
                                if is_nil v || is_undef v then Ok (is_truthy x) else liq_eq x v)
                    (sequence_arg left) 0;;
      Ok (VBool (match r with Some _ => true | None => false end))
  (* array.py first / last *)
  | FFirst, [] =>
      match left with
      | VStr _ => Ok VNil
      | _ =>
          if is_mapping left then
            (* list(islice(obj.items(), 1))[0]: the first (key, value) pair the Mapping
               itself publishes (d21fa41: any Mapping, not only dict); none -> nil *)
            match left with
            | VDict ((k, v) :: _) => Ok (VList true [VStr k; v])
            | VObj h items _ _ _ =>
                if o_loop h then unmodelled
                else match items with
                     | (k, v) :: _ => Ok (VList true [VStr k; v])
                     | [] => Ok VNil
                     end
            | _ => Ok VNil                       (* {} and Undefined *)
            end
          else
            match py_getitem false left (VInt 0) with
            | Ok v => Ok v
            | PyExc TypeError | PyExc KeyError | PyExc IndexError => Ok VNil
            | r => r
            end
      end
  | FLast, [] =>
      match left with
      | VStr _ => Ok VNil
      | _ => match py_getitem false left (VInt (-1)) with
             | Ok v => Ok v
             | PyExc TypeError | PyExc KeyError | PyExc IndexError => Ok VNil
             | r => r
             end
      end
  (* misc.py size *)
  | FSize, [] =>
      match py_len left with
      | Ok n => Ok (VInt n)
      | PyExc TypeError => Ok (VInt 0)
      | r => rmap VInt r
      end
  (* array.py join *)
  | FJoin, [] =>
      do ss <- mapM to_liquid_string (sequence_arg left);; Ok (VStr (join_str (lit " ") ss))
  | FJoin, [APos e] =>
      do sep <- eval_pexpr async c e;;
      do seps <- to_liquid_string sep;;          (* a separator that is not a str: its Liquid string form *)
      do ss <- mapM to_liquid_string (sequence_arg left);; Ok (VStr (join_str seps ss))
  (* misc.py default (allow_false not modelled) *)
  | FDefault, args =>
      do d <- match args with
              | [] => Ok (VStr [])
              | [APos e] => eval_pexpr async c e
              | _ => unmodelled
              end;;
      (* hasattr(obj, "force_liquid_default") and obj.force_liquid_default *)
      match obj_attr left (lit "force_liquid_default") with
      | Some a => if py_truthy a then Ok d else default_core left d
      | None => default_core left d
      end
  (* translate.py Translate.__call__ without plural/context, GetText.__call__:
     keyword arguments only feed %-interpolation. *)
  | FT, args | FGettext, args =>
      if forallb (fun a => match a with
                           | AKw k _ => negb (str_eqb k (lit "plural"))
                           | _ => false
                           end) args then
        do _ <- mapM (arg_val async c) args;;
        (* RenderContext.filter binds `context`; a keyword of that name is refused (a1c4a1d) *)
        if existsb (fun a => match a with AKw k _ => str_eqb k (lit "context") | _ => false end) args
        then LErr LiquidTypeError None else
        do msg <- to_liquid_string left;;
        do text <- tr_gettext c msg;;
        rmap VStr (format_message text)
      else unmodelled
  | _, _ => unmodelled
  end.

Record expr := { e_left : pexpr; e_filters : list fcall }.

(** FilteredExpression.evaluate *)
Definition eval_expr (async : bool) (c : ctx) (e : expr) : res val :=
  do v <- eval_pexpr async c (e_left e);;
  fold_left (fun acc f => do x <- acc;; apply_filter async c f x) (e_filters e) (Ok v).

(** * 6. Statements *)

Inductive stmt :=
| SText (s : str)
| SOut (e : expr)
| SAssign (x : str) (e : expr)
| SIf (cond : bexpr) (th el : list stmt)
| SFor (x : str) (label : str) (it : pexpr) (body els : list stmt).

(** LoopExpression._to_iter (no limit / offset / reversed). *)
Definition to_iter (v : val) : res (list val) :=
  if is_loopdrop v then unmodelled
  else if is_mapping v then
    match v with
    | VDict kvs => Ok (List.map (fun kv => VList true [VStr (fst kv); snd kv]) kvs)
    | VObj _ items _ _ _ => Ok (List.map (fun kv => VList true [VStr (fst kv); snd kv]) items)
    | _ => Ok []                                       (* Undefined *)
    end
  else if is_sequence v then Ok (seq_items v)
  else LErr LiquidTypeError None.

Definition fval_val (parent : val) (f : fval) : val :=
  match f with
  | FInt z => VInt z | FBool b => VBool b | FStr s => VStr s
  | FParent => parent
  | FSuper => VOpaque 0
  | FOpaque t => VOpaque t
  end.

(** The ForLoop object as a context value: a Mapping whose items are exactly
    what ForLoop.__getitem__ answers (forloop_getitem; Theorem
    forloop_getitem_public says these are the documented loop variables).  Its
    private slots and methods are Python attributes that no hook site names,
    so the evaluator does not carry them. *)
Definition forloop_val (depth : N) (fl : forloop) (parent : val) : val :=
  VObj {| o_id := (4294967296 + depth)%N; o_kind := KMapping; o_hg := true; o_async := false;
          o_str := lit "ForLoop"; o_liq := None; o_loop := true |}
       (flat_map (fun k => match forloop_getitem fl k with
                           | Ok f => [(k, fval_val parent f)]
                           | _ => []
                           end) forloop_keys)
       [] [] [].

Definition set_locals (c : ctx) (l : ns) : ctx :=
  {| pushed := pushed c; locals := l; globals := globals c; loops := loops c |}.

(** Template.render: nodes in order; an exception discards the output. *)
Fixpoint exec (async : bool) (s : stmt) (c : ctx) (out : str) {struct s} : res (ctx * str) :=
  let exec_list :=
    fix exec_list (l : list stmt) (c : ctx) (out : str) {struct l} : res (ctx * str) :=
      match l with
      | [] => Ok (c, out)
      | s' :: l' => do r <- exec async s' c out;; exec_list l' (fst r) (snd r)
      end in
  match s with
  | SText t => Ok (c, out ++ t)
  | SOut e =>
      do v <- eval_expr async c e;;
      do t <- to_liquid_string v;;
      Ok (c, out ++ t)
  | SAssign x e =>
      do v <- eval_expr async c e;;
      Ok (set_locals c (dict_set x v (locals c)), out)
  | SIf cond th el =>
      do v <- eval_bexpr async c cond;;
      if is_truthy v then exec_list th c out else exec_list el c out
  | SFor x label it body els =>
      do v <- eval_pexpr async c it;;
      do items <- to_iter v;;
      match items with
      | [] => exec_list els c out
      | _ =>
          let len := zlen items in
          let parent := match loops c with p :: _ => p | [] => VUndef end in
          let depth := N.of_nat (List.length (loops c)) in
          (fix loop (items : list val) (i : Z) (c : ctx) (out : str) {struct items}
             : res (ctx * str) :=
             match items with
             | [] => Ok (c, out)
             | itm :: rest =>
                 let fl := forloop_val depth
                             {| fl_name := label; fl_length := len; fl_index := i |} parent in
                 let c1 := {| pushed := dict_set x itm [(lit "forloop", fl)] :: pushed c;
                              locals := locals c; globals := globals c;
                              loops := fl :: loops c |} in
                 do r <- exec_list body c1 out;;
                 loop rest (i + 1)%Z (set_locals c (locals (fst r))) (snd r)
             end) items 0%Z c out
      end
  end.

Fixpoint exec_list (async : bool) (l : list stmt) (c : ctx) (out : str) : res (ctx * str) :=
  match l with
  | [] => Ok (c, out)
  | s :: l' => do r <- exec async s c out;; exec_list async l' (fst r) (snd r)
  end.

(** render(data): the output text or the error class. *)
Definition render (async : bool) (p : list stmt) (data : ns) : res str :=
  rmap snd (exec_list async p {| pushed := []; locals := []; globals := data; loops := [] |} []).

(** * 7. Erasing Python attributes *)

Definition map_snd {A B} (f : A -> B) (l : list (str * A)) : list (str * B) :=
  List.map (fun kv => (fst kv, f (snd kv))) l.

(** [erase_with keep v]: delete, everywhere inside [v], every Python attribute
    whose name [keep] rejects. *)
Fixpoint erase_with (keep : str -> bool) (v : val) : val :=
  match v with
  | VList t l => VList t (List.map (erase_with keep) l)
  | VDict kvs => VDict (List.map (fun kv => (fst kv, erase_with keep (snd kv))) kvs)
  | VObj h items aitems seq attrs =>
      VObj h (List.map (fun kv => (fst kv, erase_with keep (snd kv))) items)
             (List.map (fun kv => (fst kv, erase_with keep (snd kv))) aitems)
             (List.map (erase_with keep) seq)
             (List.filter (fun kv => keep (fst kv))
                (List.map (fun kv => (fst kv, erase_with keep (snd kv))) attrs))
  | _ => v
  end.

(** The attribute names the engine reaches by a fixed name on context
    objects: finding 24, the translations provider, and __repr__ (str() of a
    dict shows repr() of the objects inside it). *)
Definition hook_names : list str := [lit "force_liquid_default"; lit "gettext"; lit "__repr__"].
Definition is_hook (k : str) : bool := mem_str k hook_names.

(** Keep only the hook attributes / keep nothing. *)
Definition erase : val -> val := erase_with is_hook.
Definition erase_all : val -> val := erase_with (fun _ => false).

Definition erase_ns (n : ns) : ns := map_snd erase n.

(** Two data sets agree on everything the documented protocol exposes. *)
Definition proto_eq (d d' : ns) : Prop := map_snd erase_all d = map_snd erase_all d'.

(** No object anywhere in the data has an attribute with a hook name. *)
Fixpoint hook_free (v : val) : bool :=
  match v with
  | VList _ l => forallb hook_free l
  | VDict kvs => forallb (fun kv => hook_free (snd kv)) kvs
  | VObj _ items aitems seq attrs =>
      forallb (fun kv => hook_free (snd kv)) items
      && forallb (fun kv => hook_free (snd kv)) aitems
      && forallb hook_free seq
      && forallb (fun kv => negb (is_hook (fst kv)) && hook_free (snd kv)) attrs
  | _ => true
  end.

Definition hook_free_ns (d : ns) : bool := forallb (fun kv => hook_free (snd kv)) d.

(** * 8. Boolean equality on results (for the correspondence runner) *)

Definition fval_res_eqb (a b : res fval) : bool := res_eqb_nopos fval_eqb a b.

(** What `{{ drop.key }}` prints for an item answer (KeyError -> Undefined -> ""). *)
Definition fval_res_str (r : res fval) : str :=
  match r with
  | Ok (FInt z) => z_to_str z
  | Ok (FBool b) => if b then lit "true" else lit "false"
  | Ok (FStr s) => s
  | Ok _ => lit "<object>"
  | _ => []
  end.

(** TableRow.__init__ and the state at each of the first [n] iterations. *)
Definition tablerow_init (name : str) (len ncols : Z) : tablerow :=
  {| tr_name := name; tr_length := len; tr_ncols := ncols; tr_index := -1; tr_row := 1; tr_col := 0 |}.

Fixpoint tablerow_states (n : nat) (t : tablerow) : list tablerow :=
  match n with
  | O => []
  | S n' => let t' := tablerow_step t in t' :: tablerow_states n' t'
  end.

Definition list_str_eqb (a b : list str) : bool := list_eqb str_eqb a b.
Definition str_res_eqb (a b : res str) : bool := res_eqb_nopos str_eqb a b.
Definition optb_eqb (a b : option bool) : bool := option_eqb Bool.eqb a b.
