(** Kernels/ErrCtx.v — how an error position becomes line / column / context
    lines: [LiquidError._error_context] (liquid2/exceptions.py:95-129, with
    fix C02/0003), which is all that [str(exc)], [detailed_message()] and
    [context()] compute from a token position, and [messages.line_number]
    (liquid2/messages.py:318-336).

    MODEL file.  List indexing is [nth_error] and reports [PyExc IndexError]
    where Python's [lines[i]] would raise, so totality is a theorem
    (Proofs/ErrCtx_proofs.v), not an artefact of default values. *)
From LQ Require Import Base.Str Kernels.LexUni.

(** [text.splitlines(keepends=True)]: split after every line boundary
    ([\r\n] is one boundary); no empty last line. [cur] is the current line,
    reversed. *)
Fixpoint splitlines_aux (cur : str) (r : str) : list str :=
  match r with
  | [] => match cur with [] => [] | _ => [rev cur] end
  | c :: r' =>
      let single :=
        if is_linebreak c then rev (c :: cur) :: splitlines_aux [] r'
        else splitlines_aux (c :: cur) r' in
      match r' with
      | d :: r'' =>
          if N.eqb c 13 && N.eqb d 10 then rev (d :: c :: cur) :: splitlines_aux [] r''
          else single
      | [] => single
      end
  end.
Definition splitlines (text : str) : list str := splitlines_aux [] text.

Fixpoint drop_while (p : N -> bool) (l : str) : str :=
  match l with c :: l' => if p c then drop_while p l' else l | [] => [] end.
(** [line.rstrip()] *)
Definition rstrip (l : str) : str := rev (drop_while is_space (rev l)).

(** The [for i, line in enumerate(lines)] loop: first line whose cumulative
    length exceeds [index]; returns its number and the cumulative length. *)
Fixpoint locate (lines : list str) (index cum i : nat) : option (nat * nat) :=
  match lines with
  | [] => None
  | l :: ls =>
      let cum' := cum + length l in
      if index <? cum' then Some (i, cum') else locate ls index cum' (S i)
  end.

Definition total_len (lines : list str) : nat := fold_left (fun a l => a + length l) lines 0.

Definition line_at (lines : list str) (i : nat) : res str :=
  match nth_error lines i with Some l => Ok l | None => PyExc IndexError end.

(** (line number, column, previous line, current line, next line) *)
Definition error_context (text : str) (index : nat) : res (nat * nat * str * str * str) :=
  let lines := splitlines text in
  match lines with
  | [] => Ok (1, 0, [], [], [])               (* only reached from the end-of-text branch *)
  | _ :: _ =>
      let '(target, cum, idx) :=
        match locate lines index 0 0 with
        | Some (t, c) => (t, c, index)
        | None => (length lines - 1, total_len lines, total_len lines)
        end in
      do cur <- line_at lines target ;;
      do prev <- (if 0 <? target then do l <- line_at lines (target - 1) ;; Ok (rstrip l) else Ok []) ;;
      do next <- (if target <? length lines - 1
                  then do l <- line_at lines (target + 1) ;; Ok (rstrip l) else Ok []) ;;
      Ok (target + 1, idx - (cum - length cur), prev, rstrip cur, next)
  end.

(** [messages.line_number(token)] (unchanged code): raises [ValueError] for a
    position at or after the end of the text. *)
Definition line_number (text : str) (index : nat) : res nat :=
  match locate (splitlines text) index 0 0 with
  | Some (t, _) => Ok (t + 1)
  | None => PyExc ValueError
  end.

Definition ctx_eqb (a b : res (nat * nat * str * str * str)) : bool :=
  res_eqb (fun x y =>
    let '(l, c, p, u, n) := x in let '(l', c', p', u', n') := y in
    Nat.eqb l l' && Nat.eqb c c' && str_eqb p p' && str_eqb u u' && str_eqb n n') a b.
