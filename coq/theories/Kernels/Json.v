(** Kernels/Json.v — MODEL of the [json] filter (liquid2/builtin/filters/misc.py:118-142)
    for JSON-like values: [json.dumps(left, default=None, indent=None)], i.e.
    CPython's encoder with [ensure_ascii=True] and separators comma-space / colon-space,
    restricted to None, bool, int, str, list and dict with str keys (floats and
    other objects are outside the model), and a model of [json.loads] on the
    documents that encoder produces (same separators, no other whitespace). *)
From LQ Require Import Base.Str Kernels.NumLit.
Local Open Scope N_scope.

Inductive jv :=
| JNull
| JBool (b : bool)
| JInt (z : Z)
| JStr (s : str)
| JList (l : list jv)
| JDict (kvs : list (str * jv)).

(** ** Strings: [py_encode_basestring_ascii] *)

Definition hexdigit (n : N) : N := if n <? 10 then 48 + n else 87 + n.   (* lower case *)

Definition hex4_of (n : N) : str :=
  [hexdigit (n / 4096); hexdigit ((n / 256) mod 16); hexdigit ((n / 16) mod 16); hexdigit (n mod 16)].

Definition u_escape (n : N) : str := 92 :: 117 :: hex4_of n.

(** ESCAPE_ASCII (backslash, double quote and everything outside space..tilde),
    ESCAPE_DCT and the [\uXXXX] fallback with a surrogate pair above U+FFFF. *)
Definition json_escape_char (c : N) : str :=
  if c =? 34 then [92; 34]
  else if c =? 92 then [92; 92]
  else if c =? 10 then [92; 110]
  else if c =? 13 then [92; 114]
  else if c =? 9 then [92; 116]
  else if c =? 12 then [92; 102]
  else if c =? 8 then [92; 98]
  else if (32 <=? c) && (c <=? 126) then [c]
  else if c <? 0x10000 then u_escape c
  else
    let n := c - 0x10000 in
    u_escape (N.lor 0xD800 (N.land (N.shiftr n 10) 0x3FF))
    ++ u_escape (N.lor 0xDC00 (N.land n 0x3FF)).

Definition json_body (s : str) : str := flat_map json_escape_char s.
Definition json_string (s : str) : str := 34 :: json_body s ++ [34].

(** ** Integers: [int.__repr__] *)

Fixpoint dec_digits (fuel : nat) (n : N) (acc : str) : str :=
  match fuel with
  | O => acc
  | S f => if n <? 10 then (48 + n) :: acc
           else dec_digits f (n / 10) ((48 + n mod 10) :: acc)
  end.

(** A number has no more decimal digits than bits. *)
Definition N_dec (n : N) : str := dec_digits (S (N.to_nat (N.size n))) n [].

Definition Z_dec (z : Z) : str :=
  match z with
  | Z0 => [48]
  | Zpos p => N_dec (Npos p)
  | Zneg p => 45 :: N_dec (Npos p)
  end.

(** ** Values *)

Definition s_null : str := [110; 117; 108; 108].
Definition s_true : str := [116; 114; 117; 101].
Definition s_false : str := [102; 97; 108; 115; 101].
Definition item_sep : str := [44; 32].
Definition key_sep : str := [58; 32].

Fixpoint json_encode (v : jv) : str :=
  match v with
  | JNull => s_null
  | JBool true => s_true
  | JBool false => s_false
  | JInt z => Z_dec z
  | JStr s => json_string s
  | JList l =>
      91 :: (fix items (l : list jv) : str :=
               match l with
               | [] => []
               | x :: r => json_encode x ++ match r with [] => [] | _ => item_sep ++ items r end
               end) l ++ [93]
  | JDict kvs =>
      123 :: (fix members (l : list (str * jv)) : str :=
                match l with
                | [] => []
                | (k, x) :: r =>
                    json_string k ++ key_sep ++ json_encode x
                    ++ match r with [] => [] | _ => item_sep ++ members r end
                end) kvs ++ [125]
  end.

(** misc.py:132-142 with [indent] absent: the filter's output. *)
Definition json_filter (v : jv) : str := json_encode v.

(** ** A model of [json.loads] on the documents the encoder above produces
    (separators comma-space and colon-space, no other whitespace, no floats).
    [py_scanstring]: a backslash-u escape of a high surrogate joins a following
    backslash-u low surrogate, any other surrogate escape stands for itself;
    raw control characters below U+0020 are rejected (strict mode). *)

Definition jhexval (d : N) : option N :=
  if (48 <=? d) && (d <=? 57) then Some (d - 48)
  else if (65 <=? d) && (d <=? 70) then Some (d - 55)
  else if (97 <=? d) && (d <=? 102) then Some (d - 87)
  else None.

Definition jhex4 (a b c d : N) : option N :=
  match jhexval a, jhexval b, jhexval c, jhexval d with
  | Some x, Some y, Some z, Some w => Some (4096 * x + 256 * y + 16 * z + w)
  | _, _, _, _ => None
  end.

Definition jsimple (e : N) : option N :=
  if e =? 34 then Some 34 else if e =? 92 then Some 92 else if e =? 47 then Some 47
  else if e =? 98 then Some 8 else if e =? 102 then Some 12 else if e =? 110 then Some 10
  else if e =? 114 then Some 13 else if e =? 116 then Some 9 else None.

Definition jhigh (n : N) : bool := (0xD800 <=? n) && (n <=? 0xDBFF).
Definition jlow (n : N) : bool := (0xDC00 <=? n) && (n <=? 0xDFFF).

Definition jcons (c : N) (r : option (str * str)) : option (str * str) :=
  match r with Some (s, rest) => Some (c :: s, rest) | None => None end.

(** The text after an opening quote: the decoded string and what follows the
    closing quote. *)
Fixpoint jstring (src : str) : option (str * str) :=
  match src with
  | [] => None
  | c :: r =>
      if c =? 34 then Some ([], r)
      else if c =? 92 then
        match r with
        | [] => None
        | e :: r1 =>
            if e =? 117 then
              match r1 with
              | a :: b :: c1 :: d :: r4 =>
                  match jhex4 a b c1 d with
                  | None => None
                  | Some hi =>
                      match r4 with
                      | x :: y :: e1 :: f :: g :: h :: r10 =>
                          if jhigh hi && (x =? 92) && (y =? 117) then
                            match jhex4 e1 f g h with
                            | Some lo =>
                                if jlow lo
                                then jcons (0x10000 + (hi - 0xD800) * 1024 + (lo - 0xDC00)) (jstring r10)
                                else jcons hi (jstring r4)
                            | None => None
                            end
                          else jcons hi (jstring r4)
                      | _ => jcons hi (jstring r4)
                      end
                  end
              | _ => None
              end
            else match jsimple e with Some v => jcons v (jstring r1) | None => None end
        end
      else if c <? 32 then None
      else jcons c (jstring r)
  end.

(** A number: [-?digits]; a fraction or exponent would be a float (outside). *)
Definition jnumber (src : str) : option (jv * str) :=
  let '(m, r0) := opt_minus src in
  let '(ds, r1) := span_digits r0 in
  match ds with
  | [] => None
  | _ =>
      let floaty := match r1 with c :: _ => (c =? DOT) || is_e c | [] => false end in
      if floaty then None
      else Some (JInt (match m with [] => digits_value ds | _ => - digits_value ds end)%Z, r1)
  end.

Definition starts (p src : str) : option str :=
  (fix go (p src : str) : option str :=
     match p with
     | [] => Some src
     | x :: p' => match src with y :: s' => if x =? y then go p' s' else None | [] => None end
     end) p src.

Fixpoint jvalue (fuel : nat) (src : str) : option (jv * str) :=
  match fuel with
  | O => None
  | S f =>
      match src with
      | [] => None
      | c :: r =>
          if c =? 34 then
            match jstring r with Some (s, rest) => Some (JStr s, rest) | None => None end
          else if c =? 91 then
            match r with
            | d :: r' => if d =? 93 then Some (JList [], r') else
                match jelems f r with Some (l, rest) => Some (JList l, rest) | None => None end
            | [] => None
            end
          else if c =? 123 then
            match r with
            | d :: r' => if d =? 125 then Some (JDict [], r') else
                match jmembers f r with Some (l, rest) => Some (JDict l, rest) | None => None end
            | [] => None
            end
          else match starts s_null src with Some rest => Some (JNull, rest) | None =>
               match starts s_true src with Some rest => Some (JBool true, rest) | None =>
               match starts s_false src with Some rest => Some (JBool false, rest) | None =>
               jnumber src end end end
      end
  end
with jelems (fuel : nat) (src : str) : option (list jv * str) :=
  match fuel with
  | O => None
  | S f =>
      match jvalue f src with
      | None => None
      | Some (v, rest) =>
          match rest with
          | c :: r =>
              if c =? 93 then Some ([v], r)
              else match starts item_sep rest with
                   | Some r2 => match jelems f r2 with
                                | Some (l, rest') => Some (v :: l, rest')
                                | None => None
                                end
                   | None => None
                   end
          | [] => None
          end
      end
  end
with jmembers (fuel : nat) (src : str) : option (list (str * jv) * str) :=
  match fuel with
  | O => None
  | S f =>
      match src with
      | c :: r0 =>
          if c =? 34 then
            match jstring r0 with
            | None => None
            | Some (k, r1) =>
                match starts key_sep r1 with
                | None => None
                | Some r2 =>
                    match jvalue f r2 with
                    | None => None
                    | Some (v, rest) =>
                        match rest with
                        | c2 :: r =>
                            if c2 =? 125 then Some ([(k, v)], r)
                            else match starts item_sep rest with
                                 | Some r3 => match jmembers f r3 with
                                              | Some (l, rest') => Some ((k, v) :: l, rest')
                                              | None => None
                                              end
                                 | None => None
                                 end
                        | [] => None
                        end
                    end
                end
            end
          else None
      | [] => None
      end
  end.

(** [json.loads(text)]: the whole text must be one value. *)
Definition json_decode (text : str) : option jv :=
  match jvalue (S (2 * List.length text)) text with
  | Some (v, []) => Some v
  | _ => None
  end.
