(** Kernels/Json.v — MODEL of the [json] filter (liquid2/builtin/filters/misc.py:118-142)
    for JSON-like values: [json.dumps(left, default=None, indent=None)], i.e.
    CPython's encoder with [ensure_ascii=True] and separators comma-space / colon-space,
    restricted to None, bool, int, str, list and dict with str keys (floats and
    other objects are outside the model), and a model of [json.loads] on the
    documents that encoder produces (same separators, no other whitespace). *)
From LQ Require Import Base.Str.
Local Open Scope N_scope.

Inductive jv :=
| JNull
| JBool (b : bool)
| JInt (z : Z)
| JStr (s : str)
| JList (l : list jv)
| JDict (kvs : list (str * jv)).

(** ** Strings: [py_encode_basestring_ascii] *)

Definition hexdigit (n : N) : N := if n <? 10 then 48 + n else 87 + n.   (* lower case *)

Definition hex4_of (n : N) : str :=
  [hexdigit (n / 4096); hexdigit ((n / 256) mod 16); hexdigit ((n / 16) mod 16); hexdigit (n mod 16)].

Definition u_escape (n : N) : str := 92 :: 117 :: hex4_of n.

(** ESCAPE_ASCII (backslash, double quote and everything outside space..tilde),
    ESCAPE_DCT and the [\uXXXX] fallback with a surrogate pair above U+FFFF. *)
Definition json_escape_char (c : N) : str :=
  if c =? 34 then [92; 34]
  else if c =? 92 then [92; 92]
  else if c =? 10 then [92; 110]
  else if c =? 13 then [92; 114]
  else if c =? 9 then [92; 116]
  else if c =? 12 then [92; 102]
  else if c =? 8 then [92; 98]
  else if (32 <=? c) && (c <=? 126) then [c]
  else if c <? 0x10000 then u_escape c
  else
    let n := c - 0x10000 in
    u_escape (N.lor 0xD800 (N.land (N.shiftr n 10) 0x3FF))
    ++ u_escape (N.lor 0xDC00 (N.land n 0x3FF)).

Definition json_body (s : str) : str := flat_map json_escape_char s.
Definition json_string (s : str) : str := 34 :: json_body s ++ [34].

(** ** Integers: [int.__repr__] *)

Fixpoint dec_digits (fuel : nat) (n : N) (acc : str) : str :=
  match fuel with
  | O => acc
  | S f => if n <? 10 then (48 + n) :: acc
           else dec_digits f (n / 10) ((48 + n mod 10) :: acc)
  end.

(** A number has no more decimal digits than bits. *)
Definition N_dec (n : N) : str := dec_digits (S (N.to_nat (N.size n))) n [].

Definition Z_dec (z : Z) : str :=
  match z with
  | Z0 => [48]
  | Zpos p => N_dec (Npos p)
  | Zneg p => 45 :: N_dec (Npos p)
  end.

(** ** Values *)

Definition s_null : str := [110; 117; 108; 108].
Definition s_true : str := [116; 114; 117; 101].
Definition s_false : str := [102; 97; 108; 115; 101].
Definition item_sep : str := [44; 32].
Definition key_sep : str := [58; 32].

Fixpoint json_encode (v : jv) : str :=
  match v with
  | JNull => s_null
  | JBool true => s_true
  | JBool false => s_false
  | JInt z => Z_dec z
  | JStr s => json_string s
  | JList l =>
      91 :: (fix items (l : list jv) : str :=
               match l with
               | [] => []
               | x :: r => json_encode x ++ match r with [] => [] | _ => item_sep ++ items r end
               end) l ++ [93]
  | JDict kvs =>
      123 :: (fix members (l : list (str * jv)) : str :=
                match l with
                | [] => []
                | (k, x) :: r =>
                    json_string k ++ key_sep ++ json_encode x
                    ++ match r with [] => [] | _ => item_sep ++ members r end
                end) kvs ++ [125]
  end.

(** misc.py:132-142 with [indent] absent: the filter's output. *)
Definition json_filter (v : jv) : str := json_encode v.
