(** Kernels/FiltersNum.v — the arithmetic filters of liquid2/builtin/filters/math.py
    with their [math_filter] / [num_arg] coercions (liquid2/filter.py:56,170),
    and the [decimal] arithmetic they use for non-integer operands.

    MODEL file.  Integers are [Z] (Python ints are unbounded; [//] and [%] are
    floor division, which is what [Z.div] / [Z.modulo] are).  A float operand
    is the finite decimal [NDec m e] that [str(float)] prints; [plus], [minus],
    [times], [modulo] compute [float(Decimal(str(a)) op Decimal(str(b)))]: the
    model returns the [Decimal] result (exact, then rounded half-even to the
    28 significant digits of the default context) and leaves the final
    decimal -> binary64 rounding of [float()] to the harness. *)
From LQ Require Import Base.Str Kernels.FVal.
From Coq Require Decimal.
Local Open Scope Z_scope.

(** * Decimal context arithmetic (prec = 28, ROUND_HALF_EVEN) *)

(** Number of decimal digits of |z| (1 for 0). *)
Definition ndigits (z : Z) : Z :=
  match Z.to_int z with
  | Decimal.Pos u | Decimal.Neg u => Z.of_nat (Decimal.nb_digits u)
  end.

Definition prec : Z := 28.

(** Round the coefficient to [prec] digits, half to even. *)
Definition dec_round (m e : Z) : Z * Z :=
  let n := ndigits m in
  if n <=? prec then (m, e)
  else
    let k := n - prec in
    let a := Z.abs m in
    let q := a / 10 ^ k in
    let r := a mod 10 ^ k in
    let half := 5 * 10 ^ (k - 1) in
    let q' := if half <? r then q + 1
              else if r =? half then (if Z.even q then q else q + 1)
              else q in
    let (q'', e') := if q' =? 10 ^ prec then (10 ^ (prec - 1), e + k + 1) else (q', e + k) in
    (Z.sgn m * q'', e').

(** Exact sum / difference / product of m1*10^e1 and m2*10^e2. *)
Definition dec_add_exact (m1 e1 m2 e2 : Z) : Z * Z :=
  let e0 := Z.min e1 e2 in
  (m1 * 10 ^ (e1 - e0) + m2 * 10 ^ (e2 - e0), e0).
Definition dec_mul_exact (m1 e1 m2 e2 : Z) : Z * Z := (m1 * m2, e1 + e2).

Definition dec_add (m1 e1 m2 e2 : Z) : Z * Z :=
  let (m, e) := dec_add_exact m1 e1 m2 e2 in dec_round m e.
Definition dec_sub (m1 e1 m2 e2 : Z) : Z * Z := dec_add m1 e1 (- m2) e2.
Definition dec_mul (m1 e1 m2 e2 : Z) : Z * Z :=
  let (m, e) := dec_mul_exact m1 e1 m2 e2 in dec_round m e.

(** [Decimal % Decimal]: remainder with the sign of the dividend;
    InvalidOperation for a zero divisor or an integer quotient of more than
    [prec] digits. *)
Definition dec_rem (m1 e1 m2 e2 : Z) : res (Z * Z) :=
  if m2 =? 0 then PyExc DecimalInvalidOperation
  else
    let e0 := Z.min e1 e2 in
    let a := m1 * 10 ^ (e1 - e0) in
    let b := m2 * 10 ^ (e2 - e0) in
    let q := Z.quot a b in
    if (prec <? ndigits q) && negb (q =? 0) then PyExc DecimalInvalidOperation
    else let (m, e) := dec_round (Z.rem a b) e0 in Ok (m, e).

(** [int(float)] truncates. *)
Definition dec_trunc (m e : Z) : Z :=
  if 0 <=? e then m * 10 ^ e else Z.quot m (10 ^ (- e)).

(** Below 2^53 a float with a <= 15-digit repr is on the same side of every
    integer as that decimal, so [floor], [ceil], [round], [int] and the
    comparison with an int can be computed on the decimal.  Above, they
    depend on the binary value: outside the model. *)
Definition dec_small (m e : Z) : bool := Z.abs (dec_trunc m e) <? 2 ^ 53.

(** * Coercions *)

Definition num_to_fval (n : num) : fval :=
  match n with NInt z => FInt z | NDec m e => FDec m e end.

Definition num_dec (n : num) : Z * Z :=
  match n with NInt z => (z, 0) | NDec m e => (m, e) end.

Definition num_q (n : num) : Z * nat :=
  match n with NInt z => (z, 0%nat) | NDec m e => dnum m e end.

Definition num_is_zero (n : num) : bool :=
  match n with NInt z => z =? 0 | NDec m _ => m =? 0 end.

(** filter.py:170 [math_filter]: the left value through [num_arg(val, default=0)]. *)
Definition math_left (v : fval) : res num := num_arg v (Some (NInt 0)).
Definition math_right (v : fval) : res num := num_arg v (Some (NInt 0)).

Definition dec_result (p : Z * Z) : fval := FDec (fst p) (snd p).

(** * The filters (math.py) *)

(** math.py:12 *)
Definition abs_f (left : fval) : res fval :=
  do l <- math_left left;;
  Ok (match l with NInt z => FInt (Z.abs z) | NDec m e => FDec (Z.abs m) e end).

(** An int is compared with a float exactly, i.e. with the float's binary value. *)
Definition cmp_modelled (l r : num) : bool :=
  match l, r with
  | NInt _, NDec m e | NDec m e, NInt _ => dec_small m e
  | _, _ => true
  end.

(** math.py:18 [min(left, num_arg(arg, default=0))]: the first minimal operand. *)
Definition at_most_f (left arg : fval) : res fval :=
  do l <- math_left left;; do r <- math_right arg;;
  if cmp_modelled l r then Ok (num_to_fval (if q_ltb (num_q r) (num_q l) then r else l))
  else unmodelled.

(** math.py:24 [max(left, num_arg(arg, default=0))]: the first maximal operand. *)
Definition at_least_f (left arg : fval) : res fval :=
  do l <- math_left left;; do r <- math_right arg;;
  if cmp_modelled l r then Ok (num_to_fval (if q_ltb (num_q l) (num_q r) then r else l))
  else unmodelled.

(** floor and ceiling of m * 10^e. *)
Definition dec_floor (m e : Z) : Z :=
  if 0 <=? e then m * 10 ^ e else m / 10 ^ (- e).
Definition dec_ceil (m e : Z) : Z := - dec_floor (- m) e.

(** math.py:30 [math.ceil(left)] *)
Definition ceil_f (left : fval) : res fval :=
  do l <- math_left left;;
  match l with
  | NInt z => Ok (FInt z)
  | NDec m e => if dec_small m e then Ok (FInt (dec_ceil m e)) else unmodelled
  end.

(** math.py:55 [math.floor(left)] *)
Definition floor_f (left : fval) : res fval :=
  do l <- math_left left;;
  match l with
  | NInt z => Ok (FInt z)
  | NDec m e => if dec_small m e then Ok (FInt (dec_floor m e)) else unmodelled
  end.

(** math.py:36 [divided_by]: [//] for two ints; true division of floats is
    binary (outside the model) but its ZeroDivisionError is not. *)
Definition divided_by_f (left right : fval) : res fval :=
  do l <- math_left left;; do r <- math_right right;;
  if num_is_zero r then LErr LiquidTypeError None
  else match l, r with
       | NInt a, NInt b => Ok (FInt (a / b))
       | _, _ => unmodelled
       end.

(** math.py:61 *)
Definition minus_f (left right : fval) : res fval :=
  do l <- math_left left;; do r <- math_right right;;
  match l, r with
  | NInt a, NInt b => Ok (FInt (a - b))
  | _, _ => let (m1, e1) := num_dec l in let (m2, e2) := num_dec r in
            Ok (dec_result (dec_sub m1 e1 m2 e2))
  end.

(** math.py:71 *)
Definition plus_f (left right : fval) : res fval :=
  do l <- math_left left;; do r <- math_right right;;
  match l, r with
  | NInt a, NInt b => Ok (FInt (a + b))
  | _, _ => let (m1, e1) := num_dec l in let (m2, e2) := num_dec r in
            Ok (dec_result (dec_add m1 e1 m2 e2))
  end.

(** math.py:103 *)
Definition times_f (left right : fval) : res fval :=
  do l <- math_left left;; do r <- math_right right;;
  match l, r with
  | NInt a, NInt b => Ok (FInt (a * b))
  | _, _ => let (m1, e1) := num_dec l in let (m2, e2) := num_dec r in
            Ok (dec_result (dec_mul m1 e1 m2 e2))
  end.

(** math.py:113 [modulo] (after the proposed fixes "modulo of a negative float had
    the sign of the dividend" and, in filter.py:170 [math_filter], "math filters
    raised OverflowError, ValueError or decimal.InvalidOperation"):
    ZeroDivisionError (ints) -> LiquidTypeError; the Decimal path raises
    decimal.InvalidOperation for a zero divisor or an oversized quotient, an
    ArithmeticError that the [math_filter] wrapper turns into LiquidTypeError;
    a non-zero Decimal remainder whose sign differs from the divisor's is
    moved by one divisor. *)
Definition modulo_f (left right : fval) : res fval :=
  do l <- math_left left;; do r <- math_right right;;
  match l, r with
  | NInt a, NInt b => if b =? 0 then LErr LiquidTypeError None else Ok (FInt (a mod b))
  | _, _ => let (m1, e1) := num_dec l in let (m2, e2) := num_dec r in
            match dec_rem m1 e1 m2 e2 with
            | Ok (m, e) =>
                if negb (m =? 0) && negb (Bool.eqb (m <? 0) (m2 <? 0))
                then Ok (dec_result (dec_add m e m2 e2))
                else Ok (dec_result (m, e))
            | _ => LErr LiquidTypeError None
            end
  end.

(** [round(x)] of a decimal: half to even. *)
Definition dec_round_int (m e : Z) : Z :=
  if 0 <=? e then m * 10 ^ e
  else
    let p := 10 ^ (- e) in
    let f := m / p in
    let r := m mod p in           (* 0 <= r < p *)
    if 2 * r <? p then f else if p <? 2 * r then f + 1
    else if Z.even f then f else f + 1.

(** [round(x, n)], n > 0, of a float whose repr is m*10^e: the float itself
    when it has at most n fractional digits; the decimal rounding when the
    dropped part is not exactly one half; a decimal tie is decided by the
    binary value and is outside the model. *)
Definition dec_round_n (m e n : Z) : res fval :=
  if - e <=? n then Ok (FDec m e)
  else
    let k := - e - n in
    let p := 10 ^ k in
    let f := m / p in
    let r := m mod p in
    if 2 * r <? p then Ok (FDec f (- n))
    else if p <? 2 * r then Ok (FDec (f + 1) (- n))
    else unmodelled.

Definition round0 (l : num) : res fval :=
  match l with
  | NInt z => Ok (FInt z)
  | NDec m e => if dec_small m e then Ok (FInt (dec_round_int m e)) else unmodelled
  end.

(** m / P rounded half-even to an integer, times p (P = p for an integer m;
    P = p * 10^-e for the coefficient of a decimal with e < 0). *)
Definition round_to_mult (m P p : Z) : Z :=
  let q := m / P in
  let r := m mod P in
  if 2 * r <? P then q * p else if P <? 2 * r then (q + 1) * p
  else if Z.even q then q * p else (q + 1) * p.

(** [int.bit_length()] *)
Definition bit_length (z : Z) : Z := if z =? 0 then 0 else Z.log2 (Z.abs z) + 1.

(** math.py:81 [round_]; [digits = None] stands for a missing / nil argument. *)
Definition round_f (left : fval) (digits : option fval) : res fval :=
  do l <- math_left left;;
  match digits with
  | None | Some FNil => round0 l
  | Some d =>
      match num_arg d None with
      | LErr _ _ => round0 l
      | Ok dn =>
          let n := match dn with NInt z => z | NDec m e => dec_trunc m e end in
          if match dn with NDec m e => negb (dec_small m e) | _ => false end then unmodelled
          else if n <? 0 then
            (* after the fix: int(round(left, n)), half-even to a multiple of 10^-n *)
            match l with
            | NInt z =>
                (* math.py (fix "round with a huge negative digit count did not return"):
                   more digits than bits -> 10^-n is more than twice |z| -> 0, without the power *)
                if bit_length z <? - n then Ok (FInt 0)
                else Ok (FInt (round_to_mult z (10 ^ (- n)) (10 ^ (- n))))
            | NDec m e =>
                if dec_small m e then
                  (* |x| < 2^53 < 10^17 / 2: CPython's float round gives 0 without the power *)
                  if 17 <? - n then Ok (FInt 0)
                  else Ok (FInt (if 0 <=? e then round_to_mult (m * 10 ^ e) (10 ^ (- n)) (10 ^ (- n))
                                 else round_to_mult m (10 ^ (- e - n)) (10 ^ (- n))))
                else unmodelled
            end
          else if n =? 0 then round0 l
          else match l with
               | NInt z => Ok (FInt z)
               | NDec m e => dec_round_n m e n
               end
      | PyExc k => PyExc k
      | OutOfFuel => OutOfFuel
      end
  end.

(** * filter.py:86 [decimal_arg(val, 0)] and the [sum] accumulation *)

(** bool is an int; a float is Decimal(str(val)); a numeric string is an int
    or a Decimal; everything else counts as 0. *)
Definition decimal_arg0 (v : fval) : num :=
  match v with
  | FInt z => NInt z
  | FBool b => NInt (if b then 1 else 0)
  | FDec m e => NDec m e
  | FStr s =>
      match parse_int s with
      | Some z => NInt z
      | None => match parse_decimal s with Some (m, e) => NDec m e | None => NInt 0 end
      end
  | _ => NInt 0
  end.

(** Python [a + b] on int / Decimal. *)
Definition num_add (a b : num) : num :=
  match a, b with
  | NInt x, NInt y => NInt (x + y)
  | _, _ => let (m1, e1) := num_dec a in let (m2, e2) := num_dec b in
            let (m, e) := dec_add m1 e1 m2 e2 in NDec m e
  end.

(** [sum(iterable)], start 0, left to right. *)
Definition py_sum (l : list num) : num := fold_left num_add l (NInt 0).

(** * Comparing a model result with a binary64 outcome (correspondence run)

    The decimals that [float()] rounds to a given double [f] are those between
    the midpoints to its neighbours, [lo] and [hi] (given exactly as m*10^e),
    bounds included when [f]'s mantissa is even. *)
Definition float_matches (r : res fval) (lo hi : Z * Z) (incl : bool) : bool :=
  match r with
  | Ok (FDec m e) =>
      let d := dnum m e in
      let l := dnum (fst lo) (snd lo) in
      let h := dnum (fst hi) (snd hi) in
      if incl then q_leb l d && q_leb d h else q_ltb l d && q_ltb d h
  | _ => false
  end.
