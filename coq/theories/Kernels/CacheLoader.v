(** Kernels/CacheLoader.v — model of liquid2/builtin/loaders/mixins.py
    (CachingLoaderMixin: _check_cache, _check_cache_async, load, load_async,
    cache_key), of Template.is_up_to_date(_async) (template.py:190-216) and of
    the freshness callback of FileSystemLoader (_uptodate), over an abstract
    store of template sources.

    A template is abstracted to what a later render depends on: the content it
    was parsed from, the version (mtime) of the source at load time, whether a
    freshness callback exists, whether that callback is the coroutine flavour
    (template loaded by load_async), the store key it was read from, and the
    globals currently bound to it.

    Model file: definitions only.  Proofs: Proofs/CacheLoader_proofs.v. *)
From LQ Require Export Base.Str Kernels.LRU.

Record cfg := {
  c_cap : nat;            (* capacity >= 1 (LRUCache.__init__ rejects < 1) *)
  c_auto_reload : bool;
  c_ns_key : bool;        (* namespace_key configured (non-empty) *)
  c_ns_aware : bool;      (* the wrapped loader's get_source uses the namespace kwarg *)
  c_fresh : bool          (* the wrapped loader supplies an uptodate callback *)
}.

Record tmpl := {
  t_content : N;
  t_ver : N;
  t_fresh : bool;
  t_async : bool;
  t_key : str;            (* store key the source was read from *)
  t_globals : N           (* identifies the globals mapping bound to the template *)
}.

Definition set_globals (t : tmpl) (g : N) : tmpl :=
  {| t_content := t_content t; t_ver := t_ver t; t_fresh := t_fresh t;
     t_async := t_async t; t_key := t_key t; t_globals := g |}.

Record st := {
  cache : lru tmpl;
  store : list (str * (N * N));   (* source key -> (content, version) *)
  next_ver : N;
  fail_next : bool                (* get_source raises TemplateNotFoundError during the next Load step *)
}.

Definition init (c : cfg) : st :=
  {| cache := lru_empty (c_cap c); store := []; next_ver := 1%N; fail_next := false |}.

Inductive op :=
| Load (name : str) (ns : option str) (g : N) (async : bool) (via : bool)
    (* via = true: the template is loaded with a render context (include / render /
       extends pass the active one and no globals, g = 0; a user may call
       get_template(name, globals, context) directly): the caller is served the
       template bound to its own globals g, and a cache hit does not re-bind the
       cached object *)
| Modify (key : str) (content : N)
| Delete (key : str)
| FailNext.

Inductive obs :=
| Loaded (content : N) (globals : N)
| NotFound
| Quiet.                (* Modify / Delete / FailNext produce nothing *)

Definition slash : N := 47%N.

(** [cache_key(name, context=None, args)]. *)
Definition cache_key (c : cfg) (name : str) (ns : option str) : str :=
  if c_ns_key c then
    match ns with Some n => n ++ slash :: name | None => name end
  else name.

(** Which store entry the wrapped loader's get_source reads. *)
Definition source_key (c : cfg) (name : str) (ns : option str) : str :=
  if c_ns_aware c then
    match ns with Some n => n ++ slash :: name | None => name end
  else name.

(** The non-caching loader: BaseLoader.load / load_async.  Returns the new
    [fail_next] flag as well (a failing get_source consumes it). *)
Definition uncached_load (c : cfg) (s : st) (name : str) (ns : option str)
  (g : N) (async : bool) : option tmpl * bool :=
  if fail_next s then (None, false)
  else
    match assoc (source_key c name ns) (store s) with
    | Some (content, ver) =>
        (Some {| t_content := content; t_ver := ver; t_fresh := c_fresh c;
                 t_async := async; t_key := source_key c name ns; t_globals := g |},
         false)
    | None => (None, false)
    end.

(** Template.is_up_to_date(): a coroutine-flavoured callback returns a
    non-bool, which counts as "not up to date".  FileSystemLoader._uptodate
    compares mtimes; a missing file is "not up to date". *)
Definition mtime_same (s : st) (t : tmpl) : bool :=
  match assoc (t_key t) (store s) with
  | Some (_, ver) => N.eqb ver (t_ver t)
  | None => false
  end.

Definition is_up_to_date (s : st) (t : tmpl) (async_check : bool) : bool :=
  if negb (t_fresh t) then true
  else if async_check then mtime_same s t
  else if t_async t then false
  else mtime_same s t.

Definition with_cache (s : st) (ch : lru tmpl) (fn : bool) : st :=
  {| cache := ch; store := store s; next_ver := next_ver s; fail_next := fn |}.

(** load / load_async with _check_cache / _check_cache_async inlined. *)
Definition cached_load (c : cfg) (s : st) (name : str) (ns : option str)
  (g : N) (async : bool) (rebind : bool) : obs * st :=
  let ck := cache_key c name ns in
  match lru_get (cache s) ck with
  | None =>
      match uncached_load c s name ns g async with
      | (Some t, fn) => (Loaded (t_content t) (t_globals t),
                         with_cache s (lru_set (cache s) ck t) fn)
      | (None, fn) => (NotFound, with_cache s (cache s) fn)
      end
  | Some (t, ch1) =>
      if c_auto_reload c && negb (is_up_to_date s t async) then
        match uncached_load c s name ns g async with
        | (Some t', fn) => (Loaded (t_content t') (t_globals t'),
                            with_cache s (lru_set ch1 ck t') fn)
        | (None, fn) => (NotFound, with_cache s ch1 fn)
        end
      else
        (* the cached object is re-bound and returned: the cache holds the
           same object, so the binding is visible there too *)
        (Loaded (t_content t) g,
         with_cache s (if rebind then lru_mutate ch1 ck (fun t0 => set_globals t0 g) else ch1) false)
  end.

Definition step (c : cfg) (s : st) (o : op) : obs * st :=
  match o with
  | Load name ns g async via =>
      (* a load made with a render context (include / render / extends, or a
         direct get_template(..., context=...)): the caller is served the
         template bound to its own globals, and the cached object is not
         re-bound on a hit (tags pass no globals of their own: g = 0) *)
      cached_load c s name ns g async (negb via)
  | Modify k content =>
      (Quiet, {| cache := cache s;
                 store := dict_set k (content, next_ver s) (store s);
                 next_ver := N.succ (next_ver s); fail_next := fail_next s |})
  | Delete k =>
      (Quiet, {| cache := cache s; store := remove_key k (store s);
                 next_ver := next_ver s; fail_next := fail_next s |})
  | FailNext =>
      (Quiet, {| cache := cache s; store := store s;
                 next_ver := next_ver s; fail_next := true |})
  end.

(** Run a history, collecting per step the observation and the cache's keys
    (most recent first) with the content and globals of each cached template. *)
Definition snapshot (s : st) : list (str * (N * N)) :=
  rev (map (fun kv => (fst kv, (t_content (snd kv), t_globals (snd kv)))) (od (cache s))).

Fixpoint run (c : cfg) (s : st) (ops : list op) : list (obs * list (str * (N * N))) :=
  match ops with
  | [] => []
  | o :: ops' =>
      let '(ob, s') := step c s o in
      (ob, snapshot s') :: run c s' ops'
  end.

Fixpoint final (c : cfg) (s : st) (ops : list op) : st :=
  match ops with
  | [] => s
  | o :: ops' => final c (snd (step c s o)) ops'
  end.

(** The non-caching twin run on the same history: what the property compares
    with. *)
Definition uncached_step (c : cfg) (s : st) (o : op) : obs * st :=
  match o with
  | Load name ns g async via =>
      match uncached_load c s name ns g async with
      | (Some t, fn) => (Loaded (t_content t) (t_globals t), with_cache s (cache s) fn)
      | (None, fn) => (NotFound, with_cache s (cache s) fn)
      end
  | _ => step c s o
  end.

(** Boolean equalities for the correspondence runner. *)
Definition obs_eqb (a b : obs) : bool :=
  match a, b with
  | Loaded c g, Loaded c' g' => N.eqb c c' && N.eqb g g'
  | NotFound, NotFound | Quiet, Quiet => true
  | _, _ => false
  end.

Definition run_eqb (a b : list (obs * list (str * (N * N)))) : bool :=
  list_eqb (prod_eqb obs_eqb (list_eqb (prod_eqb str_eqb (prod_eqb N.eqb N.eqb)))) a b.
