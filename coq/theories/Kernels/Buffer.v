(** Kernels/Buffer.v — model of the output buffers of liquid2.

    Transcribed from (after the C06 fixes proposed in /verif/proposed_fixes/C06)

      liquid2/output.py:9-29     LimitedStringIO.__init__ / write
      liquid2/output.py:32-37    NullIO.write
      liquid2/template.py:217-220  Template._get_buffer
      liquid2/context.py:430-436   RenderContext.get_output_buffer
      liquid2/ast.py:151-157       BlockNode: blank blocks render to NullIO()
      liquid2/builtin/tags/capture_tag.py:50-55, extends_tag.py:383-401
                                  (child buffer; getvalue() when the block is done)

    and from CPython's [_io.StringIO] (Modules/_io/stringio.c, write_str): with
    [newline=None] every written chunk goes through
    [IncrementalNewlineDecoder(translate=True).decode(chunk, final=True)], i.e.
    "\r\n" and a lone "\r" become "\n", chunk by chunk (a "\r" ending one chunk
    and a "\n" starting the next give two "\n").  With [newline=""] or ["\n"]
    nothing is translated.

    A buffer object persists after [write] raised, so a step returns the outcome
    AND the state the object is left in.

    Model file: definitions only. Proofs are in Proofs/Buffer_proofs.v. *)
From LQ Require Export Base.Str.
Local Open Scope N_scope.

(** * StringIO newline handling *)

Inductive nlmode :=
| NlNone    (* newline=None : universal newlines, translated on write *)
| NlKeep.   (* newline="" or "\n" : nothing is translated *)

Definition CR : N := 13.
Definition LF : N := 10.

(** [IncrementalNewlineDecoder(None, translate=True).decode(s, final=True)]. *)
Fixpoint nl_translate (s : str) : str :=
  match s with
  | [] => []
  | c :: s' =>
      if c =? CR then
        match s' with
        | d :: s'' => if d =? LF then LF :: nl_translate s'' else LF :: nl_translate s'
        | [] => [LF]
        end
      else c :: nl_translate s'
  end.

Definition nl_apply (m : nlmode) (s : str) : str :=
  match m with NlNone => nl_translate s | NlKeep => s end.

(** * Buffers *)

Inductive buffer :=
| Plain (content : str)
    (* io.StringIO(): template.py:219, context.py:433 *)
| Limited (limit : Z) (size : N) (nl : nlmode) (content : str)
    (* LimitedStringIO(limit, newline=nl): limit may be negative (context.py:436) *)
| Null.
    (* NullIO() *)

Definition getvalue (b : buffer) : str :=
  match b with
  | Plain c => c
  | Limited _ _ _ c => c
  | Null => []
  end.

(** [buf.size] for a LimitedStringIO; [isinstance(buf, LimitedStringIO)] is the
    [Some] case. *)
Definition limited_size (b : buffer) : option N :=
  match b with Limited _ sz _ _ => Some sz | _ => None end.

(** [len(s.encode("utf-8", "surrogatepass"))] is [utf8_len s] (Base/Str.v):
    surrogates are three bytes. *)

(** [buf.write(s)]: outcome and the buffer afterwards.
    output.py:24-29:
      if __s:
          self.size += len(__s.encode("utf-8", "surrogatepass"))
          if self.size > self.limit: raise OutputStreamLimitError
      return super().write(__s)                                     *)
Definition write (b : buffer) (s : str) : res unit * buffer :=
  match b with
  | Plain c => (Ok tt, Plain (c ++ s))
  | Null => (Ok tt, Null)
  | Limited lim sz nl c =>
      match s with
      | [] => (Ok tt, b)
      | _ :: _ =>
          let sz' := sz + utf8_len s in
          if (lim <? Z.of_N sz')%Z
          then (LErr OutputStreamLimitError None, Limited lim sz' nl c)
          else (Ok tt, Limited lim sz' nl (c ++ nl_apply nl s))
      end
  end.

(** [Template._get_buffer()]: the root buffer of a render. *)
Definition root_buffer (out_limit : option N) : buffer :=
  match out_limit with
  | None => Plain []
  | Some l => Limited (Z.of_N l) 0 NlKeep []
  end.

(** [RenderContext.get_output_buffer(parent_buffer)]. *)
Definition get_output_buffer (out_limit : option N) (parent : buffer) : buffer :=
  match out_limit with
  | None => Plain []
  | Some l =>
      let carry := match limited_size parent with Some sz => sz | None => 0 end in
      Limited (Z.of_N l - Z.of_N carry) 0 NlKeep []
  end.

(** * Operation sequences of a render

    The buffers in use during a render form a stack: the root buffer, on top of
    it the buffers of the [capture] blocks / [block.super] evaluations / blank
    blocks that are being rendered. Text is always written to the innermost one;
    a new child buffer takes its carry from the buffer it is opened on. *)

Inductive bop :=
| Write (s : str)      (* buffer.write(s) on the innermost buffer *)
| OpenChild (k : nat)  (* buf = context.get_output_buffer(buffer), where [buffer] is the
                          k-th buffer from the innermost one: 0 for capture (the buffer
                          the tag is rendering to); block.super passes the buffer its
                          block tag was rendered to, which may lie deeper (e.g. when
                          {{ block.super }} is evaluated inside a capture) *)
| OpenNull             (* buf = NullIO()  (blank block suppression) *)
| Close                (* block done: v = buf.getvalue(); v is kept (captured variable) *)
| CloseWrite.          (* block done: v = buf.getvalue(); then v is written to the
                          buffer below ({{ block.super }}, {{ captured }}) *)

Record bstate := {
  top : buffer;            (* innermost buffer *)
  below : list buffer;     (* enclosing buffers, innermost first; the last is the root *)
  closed : list str        (* values of the closed child buffers, latest first *)
}.

Definition binit (out_limit : option N) : bstate :=
  {| top := root_buffer out_limit; below := []; closed := [] |}.

(** The root buffer: [Template.render] returns its [getvalue()]. *)
Definition root_of (s : bstate) : buffer := last (below s) (top s).
Definition output (s : bstate) : str := getvalue (root_of s).

(** [Close]/[CloseWrite] with only the root buffer left do not correspond to
    any Python execution; the model answers [PyExc OtherPyError] and leaves the
    state alone. *)
Definition bstep (ol : option N) (s : bstate) (o : bop) : res unit * bstate :=
  match o with
  | Write t =>
      let (r, b) := write (top s) t in
      (r, {| top := b; below := below s; closed := closed s |})
  | OpenChild k =>
      match nth_error (top s :: below s) k with
      | Some p =>
          (Ok tt, {| top := get_output_buffer ol p; below := top s :: below s;
                     closed := closed s |})
      | None => (PyExc OtherPyError, s)   (* no such buffer: not a Python execution *)
      end
  | OpenNull =>
      (Ok tt, {| top := Null; below := top s :: below s; closed := closed s |})
  | Close =>
      match below s with
      | [] => (PyExc OtherPyError, s)
      | p :: rest =>
          (Ok tt, {| top := p; below := rest; closed := getvalue (top s) :: closed s |})
      end
  | CloseWrite =>
      match below s with
      | [] => (PyExc OtherPyError, s)
      | p :: rest =>
          let v := getvalue (top s) in
          let (r, b) := write p v in
          (r, {| top := b; below := rest; closed := v :: closed s |})
      end
  end.

(** Run all operations, also past a failing one (the objects persist). *)
Fixpoint brun (ol : option N) (s : bstate) (ops : list bop) : list (res unit) * bstate :=
  match ops with
  | [] => ([], s)
  | o :: ops' =>
      let (r, s1) := bstep ol s o in
      let (rs, s2) := brun ol s1 ops' in
      (r :: rs, s2)
  end.

Definition all_ok (rs : list (res unit)) : bool := forallb is_ok rs.

(** What [Template.render] gives for a render that performs [ops]: it stops at
    the first exception. *)
Fixpoint brender (ol : option N) (s : bstate) (ops : list bop) : res bstate :=
  match ops with
  | [] => Ok s
  | o :: ops' =>
      match bstep ol s o with
      | (Ok _, s1) => brender ol s1 ops'
      | (LErr c p, _) => LErr c p
      | (PyExc k, _) => PyExc k
      | (OutOfFuel, _) => OutOfFuel
      end
  end.

(** All writes of an operation sequence, in order, as one string per buffer is
    not needed: the single-buffer view is [writes]. *)
Fixpoint writes (b : buffer) (ss : list str) : list (res unit) * buffer :=
  match ss with
  | [] => ([], b)
  | t :: ss' =>
      let (r, b1) := write b t in
      let (rs, b2) := writes b1 ss' in
      (r :: rs, b2)
  end.

(** * Boolean equalities for the correspondence runner *)

Definition nlmode_eqb (a b : nlmode) : bool :=
  match a, b with NlNone, NlNone | NlKeep, NlKeep => true | _, _ => false end.

Definition buffer_eqb (a b : buffer) : bool :=
  match a, b with
  | Plain c, Plain c' => str_eqb c c'
  | Limited l s n c, Limited l' s' n' c' =>
      Z.eqb l l' && N.eqb s s' && nlmode_eqb n n' && str_eqb c c'
  | Null, Null => true
  | _, _ => false
  end.

Definition unit_eqb (_ _ : unit) : bool := true.
Definition outcome_eqb (a b : res unit) : bool := res_eqb_nopos unit_eqb a b.

(** Observation of one step, as the harness records it on the real objects:
    outcome, and for every buffer on the stack (innermost first) its kind,
    [limit], [size] and [getvalue()]. *)
Definition bobs := (res unit * list buffer)%type.

Definition bobserve (r : res unit) (s : bstate) : bobs := (r, top s :: below s).

Fixpoint btrace (ol : option N) (s : bstate) (ops : list bop) : list bobs :=
  match ops with
  | [] => []
  | o :: ops' =>
      let (r, s1) := bstep ol s o in
      bobserve r s1 :: btrace ol s1 ops'
  end.

Definition bobs_eqb (a b : bobs) : bool :=
  outcome_eqb (fst a) (fst b) && list_eqb buffer_eqb (snd a) (snd b).

Definition btrace_eqb (a b : list bobs) : bool := list_eqb bobs_eqb a b.

(** One buffer, step by step (for the correspondence with LimitedStringIO). *)
Fixpoint wtrace (b : buffer) (ss : list str) : list (res unit * buffer) :=
  match ss with
  | [] => []
  | t :: ss' => let (r, b1) := write b t in (r, b1) :: wtrace b1 ss'
  end.

Definition wobs_eqb (a b : res unit * buffer) : bool :=
  outcome_eqb (fst a) (fst b) && buffer_eqb (snd a) (snd b).

Definition wtrace_eqb (a b : list (res unit * buffer)) : bool := list_eqb wobs_eqb a b.

(** Lighter observation for long traces of real renders: per step the outcome
    and the stack with the text removed; the texts are compared once, at the
    end, together with the values of the closed buffers. *)
Definition strip (b : buffer) : buffer :=
  match b with
  | Plain _ => Plain []
  | Limited l s n _ => Limited l s n []
  | Null => Null
  end.

Fixpoint blight (ol : option N) (s : bstate) (ops : list bop) : list bobs * bstate :=
  match ops with
  | [] => ([], s)
  | o :: ops' =>
      let (r, s1) := bstep ol s o in
      let (t, s2) := blight ol s1 ops' in
      ((r, map strip (top s1 :: below s1)) :: t, s2)
  end.

Definition bcheck (ol : option N) (ops : list bop) (exp : list bobs)
  (final : list buffer) (cl : list str) : bool :=
  let (t, s) := blight ol (binit ol) ops in
  btrace_eqb t exp && list_eqb buffer_eqb (top s :: below s) final
  && list_eqb str_eqb (closed s) cl.
