(** Kernels/Limits.v — model of the loop-iteration, context-depth and
    local-namespace limits of liquid2.RenderContext.

    Transcribed from (after the C06 fixes proposed in /verif/proposed_fixes/C06)

      liquid2/context.py  RenderContext.__init__        (initial field values)
                          assign, get_size_of_locals
                          extend, copy, loop, carry_loop, raise_for_loop_limit
      liquid2/utils/chainmap.py  ReadOnlyChainMap.size/push/pop
      liquid2/builtin/tags/for_tag.py:90        with context.loop(namespace, forloop)
      liquid2/builtin/tags/render_tag.py:97,121 ctx = context.copy(..., carry_loop_iterations=True)
                                                with ctx.carry_loop(len(val))
      liquid2/builtin/tags/include_tag.py:88,94 with context.extend(ns, template) / carry_loop
      liquid2/builtin/tags/macro_tag.py:180     context.copy(..., carry_loop_iterations=True)
      liquid2/builtin/tags/extends_tag.py:207   context.copy(..., carry_loop_iterations=True, block_scope=True)
      liquid2/shopify/tags/tablerow_tag.py:63,89  raise_for_loop_limit; carry_loop + extend
      liquid2/builtin/tags/extends_tag.py:423-458  _build_block_stacks ("seen" guard)

    A render is a sequence of operations on the current RenderContext.  The
    with-blocks / copies that are open form a stack; [Exit] leaves the innermost
    one, exactly as Python's [with] statement / the return of the tag does.
    RenderContext objects persist when a method raises, so a step returns the
    outcome AND the state the objects are left in.

    Limits are modelled as non-negative ([N]); lengths and sizes are [N].
    A limit of 0 is a limit: no loop iteration / no local variable with a size.
    The per-value size [sys.getsizeof(v)] is a parameter of [Assign].

    Model file: definitions only. Proofs are in Proofs/Limits_proofs.v. *)
From LQ Require Export Base.Str.
Local Open Scope N_scope.

Record cfg := {
  depth_limit : N;          (* Environment.context_depth_limit (an int, default 30) *)
  loop_limit : option N;    (* Environment.loop_iteration_limit (None by default) *)
  ns_limit : option N       (* Environment.local_namespace_limit (None by default) *)
}.

(** [if self.env.loop_iteration_limit is not None and ...] /
    [if self.env.local_namespace_limit is None]: only [None] switches a limit
    off (proposed fix 0006; before it [0] did too, by Python truthiness). *)
Definition active (l : option N) : option N := l.

(** One RenderContext. The ForLoop stack [self.loops] is NOT part of a frame:
    since e5160a7 a block-scoped copy continues the list of the context it was
    copied from ([ctx.loops = self.loops], the same list object), so the lists
    are kept per sharing group in [groups] of the state (below). [shared] says
    that this context's [loops] is its parent's list. *)
Record frame := {
  depth : N;                   (* _copy_depth *)
  carry : N;                   (* loop_iteration_carry *)
  ns_carry : N;                (* local_namespace_carry *)
  shared : bool;               (* copy(block_scope=True): self.loops is parent.loops *)
  scope : N;                   (* self.scope.size() *)
  locals : list (str * N)      (* self.locals: key -> sys.getsizeof(value) *)
}.

(** RenderContext(template, global_data=...) as Template.render creates it:
    scope = ReadOnlyChainMap(locals, globals, builtin, counters). *)
Definition root_frame : frame :=
  {| depth := 0; carry := 1; ns_carry := 0; shared := false; scope := 4; locals := [] |}.

(** [reduce(mul, (loop.length for loop in self.loops), init)], [lps] the lengths
    on [self.loops], innermost first (the only reader is a product). *)
Definition loop_product (lps : list N) (init : N) : N := fold_left N.mul lps init.

(** context.py raise_for_loop_limit(length) *)
Definition raise_for_loop_limit (c : cfg) (f : frame) (lps : list N) (length : N) : res unit :=
  match active (loop_limit c) with
  | Some l =>
      if l <? loop_product lps (length * carry f)
      then LErr LoopIterationLimitError None else Ok tt
  | None => Ok tt
  end.

Fixpoint sum_sizes (l : list (str * N)) : N :=
  match l with [] => 0 | (_, sz) :: l' => sz + sum_sizes l' end.

(** context.py get_size_of_locals() *)
Definition size_of_locals (c : cfg) (f : frame) : N :=
  match active (ns_limit c) with
  | None => 0
  | Some _ => sum_sizes (locals f) + ns_carry f
  end.

(** The test at the top of extend(): [self.scope.size() > context_depth_limit]. *)
Definition extend_check (c : cfg) (f : frame) : res unit :=
  if depth_limit c <? scope f then LErr ContextDepthError None else Ok tt.

(** The test at the top of copy(): [self._copy_depth > context_depth_limit]. *)
Definition copy_check (c : cfg) (f : frame) : res unit :=
  if depth_limit c <? depth f then LErr ContextDepthError None else Ok tt.

(** The context that copy() returns: a block-scoped copy keeps the carry (the
    enclosing loops are on the list it continues); any other copy starts an
    empty list and takes the product of the loops so far as its carry, if asked. *)
Definition copy_frame (c : cfg) (f : frame) (lps : list N) (carry_loops block_scope : bool) : frame :=
  {| depth := depth f + 1;
     carry := if block_scope then carry f
              else if carry_loops then loop_product lps (carry f) else 1;
     ns_carry := size_of_locals c f;
     shared := block_scope;
     scope := 4;
     locals := [] |}.

Definition set_scope (f : frame) (n : N) : frame :=
  {| depth := depth f; carry := carry f; ns_carry := ns_carry f; shared := shared f;
     scope := n; locals := locals f |}.
Definition set_carry (f : frame) (n : N) : frame :=
  {| depth := depth f; carry := n; ns_carry := ns_carry f; shared := shared f;
     scope := scope f; locals := locals f |}.
Definition set_locals (f : frame) (l : list (str * N)) : frame :=
  {| depth := depth f; carry := carry f; ns_carry := ns_carry f; shared := shared f;
     scope := scope f; locals := l |}.

(** * Operations *)

Inductive op :=
| EnterFor (n : N)        (* with context.loop(namespace, forloop), forloop.length = n *)
| EnterCarry (n : N)      (* with context.carry_loop(n) *)
| Extend                  (* with context.extend(namespace[, template]) *)
| EnterCopy (carry_loops block_scope : bool)
                          (* ctx = context.copy(..., carry_loop_iterations=carry_loops,
                             block_scope=block_scope); what follows runs on ctx until the
                             matching Exit *)
| Exit                    (* leave the innermost open with-block / copied context *)
| Assign (k : str) (sz : N)   (* context.assign(k, v) with sys.getsizeof(v) = sz *)
| CheckLoop (n : N)       (* context.raise_for_loop_limit(n) *)
| EnterSuper (k : nat).   (* {{ block.super }}: BlockDrop.__getitem__ / __getitem_async__
                             runs  with self.context.extend({...})  where self.context is
                             the context the block tag was rendered with — the (k+1)-th
                             context below the current one — and renders the parent block
                             with THAT context; the current one is suspended until Exit *)

(** What is open, innermost first. [BCarry] remembers the value that
    carry_loop() restores in its [finally]. *)
Inductive bracket :=
| BFor | BCarry (saved : N) | BExt | BCopy
| BSuper (child : frame) (between : list frame) (lists : list (list N)).
    (* the suspended current context, the contexts between it and the target,
       and the loop lists that belong to them only *)

Record state := {
  cur : frame;              (* the context the current tag renders with *)
  parents : list frame;     (* the contexts it was (transitively) copied from *)
  groups : list (list N);   (* the distinct [loops] lists of cur :: parents, the current
                               context's first; lengths innermost first. A context with
                               [shared = true] uses the same list as its parent. *)
  opened : list bracket
}.

Definition init : state :=
  {| cur := root_frame; parents := []; groups := [[]]; opened := [] |}.

(** [self.loops] of the current context. *)
Definition cur_loops (s : state) : list N := hd [] (groups s).

Definition with_cur (s : state) (f : frame) : state :=
  {| cur := f; parents := parents s; groups := groups s; opened := opened s |}.

Definition push (s : state) (f : frame) (b : bracket) : state :=
  {| cur := f; parents := parents s; groups := groups s; opened := b :: opened s |}.

Definition set_cur_loops (gs : list (list N)) (l : list N) : list (list N) := l :: tl gs.

(** How many of the lists at the head of [groups] belong only to the given
    contexts (a context that shares its list with its parent owns none). *)
Fixpoint own_lists (fs : list frame) : nat :=
  match fs with
  | [] => 0
  | f :: r => (if shared f then 0 else 1) + own_lists r
  end.

(** Leaving a bracket (the [finally] clauses, innermost first). [None]: there is
    nothing to leave — not a Python execution. *)
Definition exit_bracket (s : state) : option state :=
  match opened s with
  | [] => None
  | BFor :: o =>
      (* loop(): self.loops.pop(); then extend()'s finally: self.scope.pop() *)
      Some {| cur := set_scope (cur s) (N.pred (scope (cur s)));
              parents := parents s;
              groups := set_cur_loops (groups s) (tl (cur_loops s)); opened := o |}
  | BCarry saved :: o =>
      Some {| cur := set_carry (cur s) saved; parents := parents s;
              groups := groups s; opened := o |}
  | BExt :: o =>
      Some {| cur := set_scope (cur s) (N.pred (scope (cur s)));
              parents := parents s; groups := groups s; opened := o |}
  | BCopy :: o =>
      match parents s with
      | p :: ps =>
          Some {| cur := p; parents := ps;
                  groups := if shared (cur s) then groups s else tl (groups s);
                  opened := o |}
      | [] => None
      end
  | BSuper child between lists :: o =>
      (* extend()'s finally on the target; then the suspended contexts go on *)
      Some {| cur := child;
              parents := between ++ set_scope (cur s) (N.pred (scope (cur s))) :: parents s;
              groups := lists ++ groups s;
              opened := o |}
  end.

Definition step (c : cfg) (s : state) (o : op) : res unit * state :=
  let f := cur s in
  match o with
  | EnterFor n =>
      (* loop(): raise_for_loop_limit(forloop.length); with self.extend(ns):
                   self.loops.append(forloop); try: yield finally: self.loops.pop() *)
      match raise_for_loop_limit c f (cur_loops s) n with
      | Ok _ =>
          match extend_check c f with
          | Ok _ => (Ok tt, {| cur := set_scope f (scope f + 1); parents := parents s;
                               groups := set_cur_loops (groups s) (n :: cur_loops s);
                               opened := BFor :: opened s |})
          | e => (e, s)
          end
      | e => (e, s)
      end
  | EnterCarry n =>
      (* carry_loop(): raise_for_loop_limit(length); carry = self.loop_iteration_carry;
                         self.loop_iteration_carry = carry * length *)
      match raise_for_loop_limit c f (cur_loops s) n with
      | Ok _ => (Ok tt, push s (set_carry f (carry f * n)) (BCarry (carry f)))
      | e => (e, s)
      end
  | Extend =>
      match extend_check c f with
      | Ok _ => (Ok tt, push s (set_scope f (scope f + 1)) BExt)
      | e => (e, s)
      end
  | EnterCopy cl bs =>
      match copy_check c f with
      | Ok _ => (Ok tt, {| cur := copy_frame c f (cur_loops s) cl bs; parents := f :: parents s;
                           groups := if bs then groups s else [] :: groups s;
                           opened := BCopy :: opened s |})
      | e => (e, s)
      end
  | Exit =>
      match exit_bracket s with
      | Some s' => (Ok tt, s')
      | None => (PyExc OtherPyError, s)
      end
  | Assign k sz =>
      (* assign(): self.locals[key] = val; then the size test *)
      let f' := set_locals f (dict_set k sz (locals f)) in
      let s' := with_cur s f' in
      match active (ns_limit c) with
      | Some l =>
          if l <? size_of_locals c f'
          then (LErr LocalNamespaceLimitError None, s') else (Ok tt, s')
      | None => (Ok tt, s')
      end
  | CheckLoop n => (raise_for_loop_limit c f (cur_loops s) n, s)
  | EnterSuper k =>
      match nth_error (parents s) k with
      | Some target =>
          match extend_check c target with
          | Ok _ =>
              let susp := f :: firstn k (parents s) in
              (Ok tt, {| cur := set_scope target (scope target + 1);
                         parents := skipn (S k) (parents s);
                         groups := skipn (own_lists susp) (groups s);
                         opened := BSuper f (firstn k (parents s))
                                     (firstn (own_lists susp) (groups s)) :: opened s |})
          | e => (e, s)
          end
      | None => (PyExc OtherPyError, s)   (* no such context: not a Python execution *)
      end
  end.

(** Run all operations, also past a failing one (the objects persist). *)
Fixpoint run (c : cfg) (s : state) (ops : list op) : list (res unit) * state :=
  match ops with
  | [] => ([], s)
  | o :: ops' =>
      let (r, s1) := step c s o in
      let (rs, s2) := run c s1 ops' in
      (r :: rs, s2)
  end.

(** What a render that performs [ops] does: it stops at the first exception. *)
Fixpoint render (c : cfg) (s : state) (ops : list op) : res state :=
  match ops with
  | [] => Ok s
  | o :: ops' =>
      match step c s o with
      | (Ok _, s1) => render c s1 ops'
      | (LErr cl p, _) => LErr cl p
      | (PyExc k, _) => PyExc k
      | (OutOfFuel, _) => OutOfFuel
      end
  end.

(** * Specification side: the loops that enclose the current point of an
    operation sequence, read off the sequence alone. *)

Inductive sbracket := SLoop (n : N) | SOther | SCopy.

Fixpoint spec_open (ops : list op) (stk : list sbracket) : list sbracket :=
  match ops with
  | [] => stk
  | EnterFor n :: r => spec_open r (SLoop n :: stk)
  | EnterCarry n :: r => spec_open r (SLoop n :: stk)
  | Extend :: r => spec_open r (SOther :: stk)
  | EnterCopy _ _ :: r => spec_open r (SCopy :: stk)
  | Exit :: r => spec_open r (tl stk)
  | Assign _ _ :: r => spec_open r stk
  | CheckLoop _ :: r => spec_open r stk
  | EnterSuper _ :: r => spec_open r (SOther :: stk)
  end.

Fixpoint loop_lengths (stk : list sbracket) : list N :=
  match stk with
  | [] => []
  | SLoop n :: r => n :: loop_lengths r
  | _ :: r => loop_lengths r
  end.

Definition product (l : list N) : N := fold_right N.mul 1 l.

(** Product of the lengths of all loops (of any kind, in any enclosing
    template) that are running after [ops]. *)
Definition enclosing_loops (ops : list op) : list N := loop_lengths (spec_open ops []).
Definition nest_product (ops : list op) : N := product (enclosing_loops ops).

(** Operations whose loops the implementation counts: every copy carries the
    loop count (all call sites pass carry_loop_iterations=True), and no parent
    block is rendered through block.super (known finding: it renders with the
    outer context, which knows nothing of the loops and local variables of the
    overriding block). *)
Definition plain (o : op) : Prop :=
  match o with EnterSuper _ => False | _ => True end.

Definition counted (o : op) : Prop :=
  match o with EnterCopy false false | EnterSuper _ => False | _ => True end.

(** Number of open brackets that consume context depth (everything except
    carry_loop). *)
Fixpoint depth_open (l : list bracket) : nat :=
  match l with
  | [] => 0
  | BCarry _ :: r => depth_open r
  | _ :: r => S (depth_open r)
  end.

(** A bound on [depth_open] that depends on the depth limit only. *)
Definition depth_bound (c : cfg) : nat :=
  let d := N.to_nat (depth_limit c) in (d + 2) * (d + 2).

(** All local variables of the current context and of the contexts it was
    copied from. *)
Definition all_locals_size (s : state) : N :=
  sum_sizes (locals (cur s)) + fold_right (fun f a => sum_sizes (locals f) + a) 0 (parents s).

(** * A tree-shaped program over a (possibly cyclic) set of templates

    The part of a template that matters for the limits: which contexts are
    extended / copied / looped in which nesting, with partial templates,
    macros and blocks looked up by number in [env] (any graph, cycles
    included). Each node performs the operation sequence of the tag it
    stands for. *)

Inductive node :=
| NAssign (k : str) (sz : N)          (* assign / capture *)
| NFor (n : N) (body : list node)     (* for: loop(); body n times *)
| NTablerow (n : N) (body : list node)(* tablerow: check; carry_loop + extend; body n times *)
| NWith (body : list node)            (* with / block without overrides: extend *)
| NInclude (p : nat)                  (* include 'p' *)
| NIncludeFor (n : N) (p : nat)       (* include 'p' for/with an array of n items *)
| NRender (p : nat)                   (* render 'p' *)
| NRenderFor (n : N) (p : nat)        (* render 'p' for an array of n items *)
| NCall (p : nat)                     (* call macro p / block p with overrides: copy; body *)
| NExtends (p : nat).                 (* extends: base.render_with_context(context, buffer) *)

Definition tenv := list (list node).

Definition ostep (c : cfg) (s : state) (o : op) : res state :=
  match step c s o with
  | (Ok _, s1) => Ok s1
  | (LErr cl p, _) => LErr cl p
  | (PyExc k, _) => PyExc k
  | (OutOfFuel, _) => OutOfFuel
  end.

(** [body] run [k] times in sequence. *)
Fixpoint repeat_body (k : nat) (body : state -> res state) (s : state) : res state :=
  match k with
  | O => Ok s
  | S k' => do s1 <- body s;; repeat_body k' body s1
  end.

Definition lookup (env : tenv) (p : nat) : res (list node) :=
  match nth_error env p with
  | Some b => Ok b
  | None => LErr TemplateNotFoundError None
  end.

(** The tags, given how a partial template / a macro body is rendered. *)
Section Go.
  Variable c : cfg.
  Variable partial : nat -> state -> res state.
      (* template.render_with_context(ctx, buffer, partial=True) *)
  Variable macro : nat -> state -> res state.
      (* ctx = context.copy(...); macro.block.render(ctx, buffer)
         / stack_item.block.block.render(ctx, buffer) *)

  Fixpoint go (nd : node) (s : state) {struct nd} : res state :=
    let go_body := fix gl (l : list node) (s : state) {struct l} : res state :=
      match l with
      | [] => Ok s
      | x :: l' => do s' <- go x s;; gl l' s'
      end in
    match nd with
    | NAssign k sz => ostep c s (Assign k sz)
    | NFor n body =>
        (* for_tag.py:72 [if length:] — an empty loop never calls loop() *)
        if n =? 0 then Ok s else
        do s1 <- ostep c s (EnterFor n);;
        do s2 <- repeat_body (N.to_nat n) (go_body body) s1;;
        ostep c s2 Exit
    | NTablerow n body =>
        do s0 <- ostep c s (CheckLoop n);;
        do s1 <- ostep c s0 (EnterCarry n);;
        do s2 <- ostep c s1 Extend;;
        do s3 <- repeat_body (N.to_nat n) (go_body body) s2;;
        do s4 <- ostep c s3 Exit;;
        ostep c s4 Exit
    | NWith body =>
        do s1 <- ostep c s Extend;;
        do s2 <- go_body body s1;;
        ostep c s2 Exit
    | NInclude p =>
        do s1 <- ostep c s Extend;;
        do s2 <- partial p s1;;
        ostep c s2 Exit
    | NIncludeFor n p =>
        do s1 <- ostep c s Extend;;
        do s2 <- ostep c s1 (EnterCarry n);;
        do s3 <- repeat_body (N.to_nat n) (partial p) s2;;
        do s4 <- ostep c s3 Exit;;
        ostep c s4 Exit
    | NRender p =>
        do s1 <- ostep c s (EnterCopy true false);;
        do s2 <- partial p s1;;
        ostep c s2 Exit
    | NRenderFor n p =>
        do s1 <- ostep c s (EnterCopy true false);;
        do s2 <- ostep c s1 (EnterCarry n);;
        do s3 <- repeat_body (N.to_nat n) (partial p) s2;;
        do s4 <- ostep c s3 Exit;;
        ostep c s4 Exit
    | NCall p => macro p s
    | NExtends p => partial p s
    end.

  Fixpoint go_list (l : list node) (s : state) {struct l} : res state :=
    match l with
    | [] => Ok s
    | x :: l' => do s' <- go x s;; go_list l' s'
    end.
End Go.

(** [fuel] is consumed only by the edges of the template graph (include,
    render, call, extends); everything else is structural. *)
Fixpoint exec (fuel : nat) (c : cfg) (env : tenv) (l : list node) (s : state) : res state :=
  go_list c
    (fun p s =>
       (* render_with_context: with context.extend(namespace): the nodes of p *)
       match fuel with
       | O => OutOfFuel
       | S fuel' =>
           do b <- lookup env p;;
           do s1 <- ostep c s Extend;;
           do s2 <- exec fuel' c env b s1;;
           ostep c s2 Exit
       end)
    (fun p s =>
       match fuel with
       | O => OutOfFuel
       | S fuel' =>
           do b <- lookup env p;;
           do s1 <- ostep c s (EnterCopy true false);;
           do s2 <- exec fuel' c env b s1;;
           ostep c s2 Exit
       end)
    l s.

(** * The "seen" guard of template inheritance (extends_tag.py:423-458)

    [parent_of t]: the name in t's [extends] tag, if it has one; templates are
    looked up in a finite table (the loader). *)
Definition loader := list (str * option str).

(** One call of [_stack_template_blocks(template)]: [Ok None] — no extends tag;
    [Ok (Some (name, seen'))] — the parent to load next. *)
Definition stack_template_blocks (ld : loader) (seen : list str) (t : str)
  : res (option (str * list str)) :=
  match assoc t ld with
  | None => LErr TemplateNotFoundError None
  | Some None => Ok None
  | Some (Some parent) =>
      if mem_str parent seen then LErr TemplateInheritanceError None
      else match assoc parent ld with
           | None => LErr TemplateNotFoundError None
           | Some _ => Ok (Some (parent, parent :: seen))
           end
  end.

(** [_build_block_stacks]: follow the chain of parents; returns the base. *)
Fixpoint build_block_stacks (fuel : nat) (ld : loader) (seen : list str) (t : str)
  : res str :=
  match fuel with
  | O => OutOfFuel
  | S fuel' =>
      do r <- stack_template_blocks ld seen t;;
      match r with
      | None => Ok t
      | Some (parent, seen') => build_block_stacks fuel' ld seen' parent
      end
  end.

(** * Vocabulary of the property statements *)

(** (product of the loops on the current context's stack) x (its carry): what
    raise_for_loop_limit multiplies a new loop's length with. *)
Definition eff (s : state) : N := loop_product (cur_loops s) (carry (cur s)).

Definition opt_le (a b : option N) : Prop :=
  match b with
  | None => True
  | Some y => match a with Some x => x <= y | None => False end
  end.

(** [c'] is [c] with every limit raised or switched off. *)
Definition relaxed (c c' : cfg) : Prop :=
  depth_limit c <= depth_limit c'
  /\ opt_le (active (loop_limit c)) (active (loop_limit c'))
  /\ opt_le (active (ns_limit c)) (active (ns_limit c')).

(** [local_namespace_carry] is bookkeeping of the limit itself (it is 0 when
    the limit is off); everything else must coincide. *)
Definition erase_f (f : frame) : frame :=
  {| depth := depth f; carry := carry f; ns_carry := 0; shared := shared f;
     scope := scope f; locals := locals f |}.
Definition erase (s : state) : state :=
  {| cur := erase_f (cur s); parents := map erase_f (parents s); groups := groups s;
     opened := opened s |}.

Definition unlimited (d : N) : cfg := {| depth_limit := d; loop_limit := None; ns_limit := None |}.

(** Outcomes a render may legitimately have: success or one of the Liquid
    errors of the limits / a missing template — never a non-Liquid exception
    (such as RecursionError) and never "out of fuel". *)
Definition fine (r : res state) : Prop :=
  match r with
  | Ok _ => True
  | LErr ContextDepthError _ | LErr LoopIterationLimitError _
  | LErr LocalNamespaceLimitError _ | LErr TemplateNotFoundError _ => True
  | _ => False
  end.

Definition inh_fine (r : res str) : Prop :=
  match r with
  | Ok _ => True
  | LErr TemplateInheritanceError _ | LErr TemplateNotFoundError _ => True
  | _ => False
  end.

(** * Boolean equalities and observations for the correspondence runner *)

Definition pair_eqb (a b : str * N) : bool := str_eqb (fst a) (fst b) && N.eqb (snd a) (snd b).

(** A context as the harness sees it: the fields of the frame plus the lengths
    on its [loops] list (innermost first) and whether that list is the parent's. *)
Record oframe := {
  o_depth : N; o_carry : N; o_ns_carry : N; o_loops : list N; o_scope : N;
  o_locals : list (str * N); o_shared : bool
}.

Definition mkframe (d cy nc : N) (lp : list N) (sc : N) (lc : list (str * N)) (sh : bool) : oframe :=
  {| o_depth := d; o_carry := cy; o_ns_carry := nc; o_loops := lp; o_scope := sc;
     o_locals := lc; o_shared := sh |}.

Definition view1 (f : frame) (lp : list N) : oframe :=
  mkframe (depth f) (carry f) (ns_carry f) lp (scope f) (locals f) (shared f).

Fixpoint views (fs : list frame) (gs : list (list N)) : list oframe :=
  match fs with
  | [] => []
  | f :: r => view1 f (hd [] gs) :: views r (if shared f then gs else tl gs)
  end.

Definition observe (s : state) : list oframe := views (cur s :: parents s) (groups s).

Definition frame_eqb (a b : oframe) : bool :=
  N.eqb (o_depth a) (o_depth b) && N.eqb (o_carry a) (o_carry b)
  && N.eqb (o_ns_carry a) (o_ns_carry b)
  && list_eqb N.eqb (o_loops a) (o_loops b) && N.eqb (o_scope a) (o_scope b)
  && list_eqb pair_eqb (o_locals a) (o_locals b) && Bool.eqb (o_shared a) (o_shared b).

Definition unit_eqb (_ _ : unit) : bool := true.
Definition outcome_eqb (a b : res unit) : bool := res_eqb_nopos unit_eqb a b.

(** Observation after each step: the outcome and every live context, current
    one first. *)
Definition obs := (res unit * list oframe)%type.

Fixpoint trace (c : cfg) (s : state) (ops : list op) : list obs :=
  match ops with
  | [] => []
  | o :: ops' =>
      let (r, s1) := step c s o in
      (r, observe s1) :: trace c s1 ops'
  end.

Definition obs_eqb (a b : obs) : bool :=
  outcome_eqb (fst a) (fst b) && list_eqb frame_eqb (snd a) (snd b).

Definition trace_eqb (a b : list obs) : bool := list_eqb obs_eqb a b.

(** Lighter observation for long traces of real renders: the outcome, the
    current context and the number of contexts below it. *)
Definition lobs := (res unit * (oframe * nat))%type.

Fixpoint ltrace (c : cfg) (s : state) (ops : list op) : list lobs :=
  match ops with
  | [] => []
  | o :: ops' =>
      let (r, s1) := step c s o in
      (r, (view1 (cur s1) (cur_loops s1), length (parents s1))) :: ltrace c s1 ops'
  end.

Definition lobs_eqb (a b : lobs) : bool :=
  outcome_eqb (fst a) (fst b) && frame_eqb (fst (snd a)) (fst (snd b))
  && Nat.eqb (snd (snd a)) (snd (snd b)).

Definition ltrace_eqb (a b : list lobs) : bool := list_eqb lobs_eqb a b.
