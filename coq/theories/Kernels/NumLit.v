(** Kernels/NumLit.v — MODEL of numeric literals.

    * the FLOAT / INT alternatives of [Lexer.TOKEN_RULES] (lexer.py:96-99),
      matched at the current position in that order (first alternative that
      matches wins; each alternative is deterministic: digit runs are greedy
      and nothing after them can start with a digit);
    * [parse_integer_literal] (expressions.py, proposed fix 0001: exact integer
      arithmetic instead of [to_int(float(value))]) with [to_int]
      (limits.py:45-60);
    * the decimal value [m * 10^e] of a FLOAT spelling; the final rounding to
      binary64 that CPython's [float()] performs is a parameter. *)
From LQ Require Import Base.Str.
Local Open Scope N_scope.

Definition is_digit (c : N) : bool := (48 <=? c) && (c <=? 57).
Definition CH_e : N := 101.
Definition CH_E : N := 69.
Definition MINUS : N := 45.
Definition PLUS : N := 43.
Definition DOT : N := 46.
Definition is_e (c : N) : bool := (c =? CH_e) || (c =? CH_E).

(** [[0-9]*] at the front of [s]: the digits and the rest. *)
Fixpoint span_digits (s : str) : str * str :=
  match s with
  | c :: r => if is_digit c then let '(ds, rest) := span_digits r in (c :: ds, rest)
              else ([], s)
  | [] => ([], [])
  end.

(** [-?] *)
Definition opt_minus (s : str) : str * str :=
  match s with
  | c :: r => if c =? MINUS then ([c], r) else ([], s)
  | [] => ([], [])
  end.

(** [[eE] sign? [0-9]+] where the optional sign may be [+] and/or [-]. *)
Definition match_exp (plus minus : bool) (s : str) : option (str * str) :=
  match s with
  | e :: r =>
      if is_e e then
        let '(sg, r1) :=
          match r with
          | c :: r' => if (plus && (c =? PLUS)) || (minus && (c =? MINUS)) then ([c], r')
                       else ([], r)
          | [] => ([], r)
          end in
        let '(ds, r2) := span_digits r1 in
        match ds with [] => None | _ => Some (e :: sg ++ ds, r2) end
      else None
  | [] => None
  end.

(** [[eE]-[0-9]+] (the sign is mandatory). *)
Definition match_exp_minus (s : str) : option (str * str) :=
  match s with
  | e :: c :: r1 =>
      if is_e e && (c =? MINUS) then
        let '(ds, r2) := span_digits r1 in
        match ds with [] => None | _ => Some (e :: c :: ds, r2) end
      else None
  | _ => None
  end.

(** FLOAT: [(?:-?[0-9]+\.[0-9]+(?:[eE][+-]?[0-9]+)?)|(-?[0-9]+[eE]-[0-9]+)] *)
Definition match_float (s : str) : option (str * str) :=
  let '(m, r0) := opt_minus s in
  let '(ds, r1) := span_digits r0 in
  match ds with
  | [] => None
  | _ =>
      let alt2 :=
        match match_exp_minus r1 with
        | Some (ex, r2) => Some (m ++ ds ++ ex, r2)
        | None => None
        end in
      match r1 with
      | c :: r2 =>
          if c =? DOT then
            let '(fs, r3) := span_digits r2 in
            match fs with
            | [] => alt2
            | _ =>
                match match_exp true true r3 with
                | Some (ex, r4) => Some (m ++ ds ++ c :: fs ++ ex, r4)
                | None => Some (m ++ ds ++ c :: fs, r3)
                end
            end
          else alt2
      | [] => alt2
      end
  end.

(** INT: [-?[0-9]+(?:[eE]\+?[0-9]+)?] *)
Definition match_int (s : str) : option (str * str) :=
  let '(m, r0) := opt_minus s in
  let '(ds, r1) := span_digits r0 in
  match ds with
  | [] => None
  | _ =>
      match match_exp true false r1 with
      | Some (ex, r2) => Some (m ++ ds ++ ex, r2)
      | None => Some (m ++ ds, r1)
      end
  end.

Inductive numkind := KFloat | KInt.

(** The number token at the front of [s], if any: kind, value, rest. *)
Definition num_token (s : str) : option (numkind * str * str) :=
  match match_float s with
  | Some (v, r) => Some (KFloat, v, r)
  | None =>
      match match_int s with
      | Some (v, r) => Some (KInt, v, r)
      | None => None
      end
  end.

(** * Integer literals *)

(** The value of a run of ASCII digits. *)
Fixpoint digits_value_acc (ds : str) (acc : Z) : Z :=
  match ds with
  | [] => acc
  | d :: ds' => digits_value_acc ds' (10 * acc + Z.of_N (d - 48))%Z
  end.
Definition digits_value (ds : str) : Z := digits_value_acc ds 0%Z.

(** [int(s)] for the strings that reach it here: an optional sign and ASCII
    digits; anything else raises ValueError (whitespace, underscores and
    non-ASCII digits do not occur in the modelled inputs). *)
Definition py_int_of_str (s : str) : res Z :=
  let '(neg, body) :=
    match s with
    | c :: r => if c =? MINUS then (true, r) else if c =? PLUS then (false, r) else (false, s)
    | [] => (false, s)
    end in
  match body with
  | [] => PyExc ValueError
  | _ => if forallb is_digit body
         then Ok (if neg then (- digits_value body)%Z else digits_value body)
         else PyExc ValueError
  end.

(** limits.py:45-60 [to_int] on a [str]; [limit] is [MAX_STR_INT] (0 = unlimited). *)
Definition to_int_str (limit : N) (s : str) : res Z :=
  if negb (limit =? 0) && (limit <? N.of_nat (List.length s))
  then LErr LiquidValueError None
  else py_int_of_str s.

(** ASCII [str.lower()] (INT tokens are ASCII). *)
Definition lower (c : N) : N := if (65 <=? c) && (c <=? 90) then c + 32 else c.

(** [s.partition("e")]: the text before the first [e] and the text after it
    (empty when there is no [e]). *)
Fixpoint partition_e (s : str) : str * str :=
  match s with
  | [] => ([], [])
  | c :: r => if c =? CH_e then ([], r)
              else let '(a, b) := partition_e r in (c :: a, b)
  end.

(** expressions.py [parse_integer_literal] (fix 0001). *)
Definition parse_integer_literal (limit : N) (value : str) : res Z :=
  let '(mantissa, exponent) := partition_e (map lower value) in
  match exponent with
  | [] => to_int_str limit mantissa
  | _ =>
      do exp <- to_int_str limit exponent ;;
      if negb (limit =? 0) && (Z.of_N limit <? Z.of_nat (List.length mantissa) + exp)%Z
      then LErr LiquidValueError None
      else
        do m <- to_int_str limit mantissa ;;
        if (exp <? 0)%Z then PyExc OtherPyError     (* int * float: not an INT token *)
        else Ok (m * 10 ^ exp)%Z
  end.

(** * Float literals: the exact decimal [m * 10^e] that is handed to [float()] *)

Definition float_decimal (value : str) : option (Z * Z) :=
  let '(m, r0) := opt_minus value in
  let neg := match m with [] => false | _ => true end in
  let '(ds, r1) := span_digits r0 in
  let '(fs, r2) :=
    match r1 with
    | c :: r => if c =? DOT then span_digits r else ([], r1)
    | [] => ([], r1)
    end in
  let ex : option Z :=
    match r2 with
    | [] => Some 0%Z
    | e :: r =>
        if is_e e then
          match py_int_of_str r with Ok z => Some z | _ => None end
        else None
    end in
  match ds, ex with
  | _ :: _, Some x =>
      let mag := digits_value (ds ++ fs) in
      Some ((if neg then - mag else mag)%Z, (x - Z.of_nat (List.length fs))%Z)
  | _, _ => None
  end.

Section FloatLiteral.
  (** CPython's correctly rounded decimal-to-binary64 conversion, abstract. *)
  Variable F : Type.
  Variable R64 : Z -> Z -> F.
  (** expressions.py:667,1167 [FloatLiteral(token, float(token.value))] *)
  Definition float_literal (value : str) : option F :=
    match float_decimal value with Some (m, e) => Some (R64 m e) | None => None end.
End FloatLiteral.
