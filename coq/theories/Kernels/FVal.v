(** Kernels/FVal.v — the values the built-in filters of C19 work on, with the
    Python / Liquid primitives the filter bodies call.

    MODEL file (definitions only).  Transcribed from
      liquid2/filter.py            (sequence_arg, _flatten, num_arg, decimal_arg, int_arg)
      liquid2/stringify.py         (to_liquid_string)
      liquid2/builtin/expressions.py:2023-2047  (is_truthy, _eq)
      liquid2/limits.py            (to_int)
    and from the CPython semantics of [==], [<], [bool()], [str()], [int()],
    [float()] on None / bool / int / float / str / list / dict.

    A Python float is represented by the finite decimal [FDec m e] = m * 10^e
    that [repr] prints for it (the harness only feeds floats whose shortest
    repr has <= 15 significant digits, for which decimal -> binary64 -> decimal
    is the identity and order/equality against ints is preserved).  What needs
    the binary value (repr of computed floats, true division, round(x, n)) is
    outside the model: such a call returns [unmodelled]. *)
From LQ Require Import Base.Str.
From Coq Require Ascii String DecimalString.
Local Open Scope Z_scope.

Inductive fval :=
| FNil
| FBool (b : bool)
| FInt (z : Z)
| FDec (m e : Z)                       (* finite float, value m * 10^e *)
| FStr (s : str)
| FList (l : list fval)                (* list or tuple *)
| FDict (kvs : list (str * fval)).     (* insertion ordered, keys distinct *)

(** The marker for "this call leaves the modelled domain" (str() of a dict,
    repr of a float, ...).  The harness never generates such calls; theorems
    are about [Ok] results or exclude it. *)
Definition unmodelled {A} : res A := PyExc OtherPyError.

(** Coq string literal -> code points. *)
Definition s2l (s : String.string) : str :=
  List.map (fun a => Ascii.N_of_ascii a) (String.list_ascii_of_string s).

(** String constants (the [String] notations stay local to this module). *)
Module Lit.
  Import String.
  Local Open Scope string_scope.
  Definition none := s2l "None".
  Definition ptrue := s2l "True".
  Definition pfalse := s2l "False".
  Definition ltrue := s2l "true".
  Definition lfalse := s2l "false".
  Definition size := s2l "size".
End Lit.

(** * Exact comparison of finite decimals (and ints, bools as 0/1) *)

(** m * 10^e as a fraction a / 10^d with d a natural number. *)
Definition dnum (m e : Z) : Z * nat :=
  if 0 <=? e then (m * 10 ^ e, 0%nat) else (m, Z.to_nat (- e)).

Definition p10 (d : nat) : Z := 10 ^ Z.of_nat d.

Definition q_leb (x y : Z * nat) : bool :=
  fst x * p10 (snd y) <=? fst y * p10 (snd x).
Definition q_eqb (x y : Z * nat) : bool :=
  fst x * p10 (snd y) =? fst y * p10 (snd x).
Definition q_ltb (x y : Z * nat) : bool :=
  fst x * p10 (snd y) <? fst y * p10 (snd x).

(** Python numbers: int, bool (an int subclass) and float. *)
Definition num_of (v : fval) : option (Z * nat) :=
  match v with
  | FBool b => Some (if b then 1 else 0, 0%nat)
  | FInt z => Some (z, 0%nat)
  | FDec m e => Some (dnum m e)
  | _ => None
  end.

(** * Python [==] *)

Fixpoint py_eq (a b : fval) {struct a} : bool :=
  match a, b with
  | FNil, FNil => true
  | FStr s, FStr t => str_eqb s t
  | FList l, FList m =>
      (fix go (l m : list fval) {struct l} : bool :=
         match l, m with
         | [], [] => true
         | x :: l', y :: m' => py_eq x y && go l' m'
         | _, _ => false
         end) l m
  | FDict d, FDict e =>
      Nat.eqb (length d) (length e) &&
      (fix go (d : list (str * fval)) {struct d} : bool :=
         match d with
         | [] => true
         | (k, v) :: d' =>
             match assoc k e with Some w => py_eq v w | None => false end && go d'
         end) d
  | (FBool _ | FInt _ | FDec _ _), (FBool _ | FInt _ | FDec _ _) =>
      match num_of a, num_of b with
      | Some x, Some y => q_eqb x y
      | _, _ => false
      end
  | _, _ => false
  end.

(** Liquid [==]: expressions.py:2030 [_eq] — a bool only equals a bool. *)
Definition liq_eq (a b : fval) : bool :=
  match a, b with
  | FBool x, FBool y => Bool.eqb x y
  | FBool _, _ | _, FBool _ => false
  | _, _ => py_eq a b
  end.

(** expressions.py:2023 [is_truthy]. *)
Definition is_truthy (v : fval) : bool :=
  match v with FNil | FBool false => false | _ => true end.

(** Python [bool(v)]. *)
Definition py_truthy (v : fval) : bool :=
  match v with
  | FNil | FBool false | FStr [] | FList [] | FDict [] => false
  | FInt z => negb (z =? 0)
  | FDec m _ => negb (m =? 0)
  | _ => true
  end.

(** * [str(int)] *)

Definition z_to_str (z : Z) : str := s2l (DecimalString.NilZero.string_of_int (Z.to_int z)).

(** Python [str(v)] where it is modelled. *)
Definition py_str (v : fval) : res str :=
  match v with
  | FStr s => Ok s
  | FNil => Ok Lit.none
  | FBool true => Ok Lit.ptrue
  | FBool false => Ok Lit.pfalse
  | FInt z => Ok (z_to_str z)
  | FDec _ _ | FList _ | FDict _ => unmodelled
  end.

(** stringify.py [to_liquid_string(val, auto_escape=False)]. *)
Fixpoint to_liquid_string (v : fval) : res str :=
  match v with
  | FStr s => Ok s
  | FBool true => Ok Lit.ltrue
  | FBool false => Ok Lit.lfalse
  | FNil => Ok []
  | FInt z => Ok (z_to_str z)
  | FList l =>
      (fix go (l : list fval) : res str :=
         match l with
         | [] => Ok []
         | x :: r => do a <- to_liquid_string x;; do b <- go r;; Ok (a ++ b)
         end) l
  | FDec _ _ | FDict _ => unmodelled
  end.

(** * filter.py:140 [sequence_arg], filter.py:183 [_flatten] *)

Fixpoint flatten (level : nat) (l : list fval) : list fval :=
  match level with
  | O => l
  | S n => flat_map (fun x => match x with FList l' => flatten n l' | _ => [x] end) l
  end.

Definition sequence_arg (v : fval) : list fval :=
  match v with
  | FStr s => List.map (fun c => FStr [c]) s
  | FList l => flatten 5 l
  | _ => [v]                       (* Mapping -> [val]; None / scalar -> [val] *)
  end.

(** * Parsing numeric strings: [int(s)] and [float(s)] on the ASCII grammar *)

(** [str.isspace] (what [str.strip()] / [str.split()] / [Decimal(str)] strip). *)
Definition py_isspace (c : N) : bool :=
  ((9 <=? c) && (c <=? 13) || ((28 <=? c) && (c <=? 32)) || (c =? 133) || (c =? 160)
   || (c =? 5760) || ((8192 <=? c) && (c <=? 8202)) || (c =? 8232) || (c =? 8233)
   || (c =? 8239) || (c =? 8287) || (c =? 12288))%N.
(** What [int(str)] / [float(str)] strip: the same without U+001C..U+001F. *)
Definition is_ws (c : N) : bool := py_isspace c && negb ((28 <=? c) && (c <=? 31))%N.
Definition is_digit (c : N) : bool := ((48 <=? c) && (c <=? 57))%N.

Fixpoint lstrip_by (p : N -> bool) (s : str) : str :=
  match s with c :: s' => if p c then lstrip_by p s' else s | [] => [] end.
Definition rstrip_by (p : N -> bool) (s : str) : str := rev (lstrip_by p (rev s)).
Definition strip_by (p : N -> bool) (s : str) : str := lstrip_by p (rstrip_by p s).
Definition strip_ws : str -> str := strip_by is_ws.

(** digits with single underscores between digits: returns the value and the
    number of digits, [None] when [s] is not of that shape.
    [st]: false = a digit must come next, true = a digit or '_' may come. *)
Fixpoint digits_us (s : str) (acc : Z) (n : nat) (st : bool) : option (Z * nat) :=
  match s with
  | [] => if st then Some (acc, n) else None
  | c :: s' =>
      if is_digit c then digits_us s' (acc * 10 + Z.of_N (c - 48)) (S n) true
      else if (c =? 95)%N && st then digits_us s' acc n false
      else None
  end.

Definition split_sign (s : str) : bool * str :=
  match s with
  | 45%N :: s' => (true, s')
  | 43%N :: s' => (false, s')
  | _ => (false, s)
  end.

(** [int(s)] for a str: [None] = ValueError. (Non-ASCII digits / whitespace,
    which CPython also accepts, are outside the generated domain.) *)
Definition parse_int (s : str) : option Z :=
  let (neg, body) := split_sign (strip_ws s) in
  match digits_us body 0 0 false with
  | Some (z, _) => Some (if neg then - z else z)
  | None => None
  end.

(** Split at the first character satisfying [p]. *)
Fixpoint break_at (p : N -> bool) (s : str) : str * str :=
  match s with
  | [] => ([], [])
  | c :: s' => if p c then ([], s) else let (a, b) := break_at p s' in (c :: a, b)
  end.

(** [float(s)] on the decimal grammar [sign] (digits [. [digits]] | . digits) [e [sign] digits];
    result as (m, e).  [None] = ValueError.  inf/nan spellings are outside the
    generated domain. *)
Definition parse_float_by (ws : N -> bool) (s : str) : option (Z * Z) :=
  let (neg, body) := split_sign (strip_by ws s) in
  let (mant, ex) := break_at (fun c => (c =? 101)%N || (c =? 69)%N) body in
  let (ip, fp0) := break_at (fun c => (c =? 46)%N) mant in
  let fp := match fp0 with _ :: r => r | [] => [] end in
  let has_dot := match fp0 with [] => false | _ => true end in
  let iv := match ip with [] => Some (0, 0%nat) | _ => digits_us ip 0 0 false end in
  let fv := match fp with [] => Some (0, 0%nat) | _ => digits_us fp 0 0 false end in
  let ev :=
    match ex with
    | [] => Some 0
    | _ :: r =>
        let (eneg, eb) := split_sign r in
        match digits_us eb 0 0 false with
        | Some (z, _) => Some (if eneg then - z else z)
        | None => None
        end
    end in
  match ip, fp with
  | [], [] => None
  | _, _ =>
      match iv, fv, ev with
      | Some (i, _), Some (f, nf), Some e =>
          let m := i * 10 ^ Z.of_nat nf + f in
          Some (if neg then - m else m, e - Z.of_nat nf)
      | _, _, _ => None
      end
  end.

Definition parse_float : str -> option (Z * Z) := parse_float_by is_ws.
(** [Decimal(s)] on the same grammar (it strips with [str.strip()]). *)
Definition parse_decimal : str -> option (Z * Z) := parse_float_by py_isspace.

(** A number as the arithmetic filters see it. *)
Inductive num := NInt (z : Z) | NDec (m e : Z).

(** filter.py:56 [num_arg(val, default)] ([default = None] -> LiquidTypeError).
    bool is an int subclass and passes through as its int value's class; the
    math filters on bool operands are left outside the model. *)
Definition num_arg (v : fval) (default : option num) : res num :=
  match v with
  | FInt z => Ok (NInt z)
  | FDec m e => Ok (NDec m e)
  | FBool _ => unmodelled
  | FStr s =>
      match parse_int s with
      | Some z => Ok (NInt z)
      | None =>
          match parse_float s with
          | Some (m, e) => Ok (NDec m e)
          | None => match default with Some d => Ok d | None => LErr LiquidTypeError None end
          end
      end
  | _ => match default with Some d => Ok d | None => LErr LiquidTypeError None end
  end.

(** * Item access *)

(** Python [seq[i]] for a list with a (possibly negative) index. *)
Definition py_index {A} (l : list A) (i : Z) : option A :=
  let n := Z.of_nat (length l) in
  if (0 <=? i) && (i <? n) then nth_error l (Z.to_nat i)
  else if (i <? 0) && (- n <=? i) then nth_error l (Z.to_nat (n + i))
  else None.

(** What [operator.getitem(obj, key)] does, for str and int keys. *)
Inductive gi := GVal (v : fval) | GKeyErr | GIndexErr | GTypeErr (has_getitem : bool).

Definition getitem_raw (obj key : fval) : res gi :=
  match obj, key with
  | FDict d, FStr k => Ok (match assoc k d with Some v => GVal v | None => GKeyErr end)
  | FDict d, (FInt _ | FBool _ | FNil) => Ok GKeyErr            (* keys are strings *)
  | FDict d, (FList _ | FDict _) => Ok (GTypeErr true)          (* unhashable *)
  | FList l, FInt i => Ok (match py_index l i with Some v => GVal v | None => GIndexErr end)
  | FList l, FBool b => Ok (match py_index l (if b then 1 else 0) with Some v => GVal v | None => GIndexErr end)
  | FList l, _ => Ok (GTypeErr true)
  | FStr s, FInt i => Ok (match py_index s i with Some c => GVal (FStr [c]) | None => GIndexErr end)
  | FStr s, FBool b => Ok (match py_index s (if b then 1 else 0) with Some c => GVal (FStr [c]) | None => GIndexErr end)
  | FStr s, _ => Ok (GTypeErr true)
  | (FNil | FBool _ | FInt _ | FDec _ _), _ => Ok (GTypeErr false)
  | FDict _, FDec _ _ => unmodelled
  end.

(** The [_getitem] helper of filtering_filters.py:25, map_filter.py:38,
    sorting_filters.py:32, sum_filter.py:26: missing key/index -> default;
    TypeError -> default when the object is subscriptable, else re-raised. *)
Definition getitem_d (obj key dflt : fval) : res fval :=
  do g <- getitem_raw obj key;;
  match g with
  | GVal v => Ok v
  | GKeyErr | GIndexErr => Ok dflt
  | GTypeErr true => Ok dflt
  | GTypeErr false => PyExc TypeError
  end.

(** Substring test [key in s]. *)
Fixpoint prefixb (p s : str) : bool :=
  match p, s with
  | [], _ => true
  | a :: p', b :: s' => (a =? b)%N && prefixb p' s'
  | _ :: _, [] => false
  end.
Fixpoint str_contains (s p : str) : bool :=
  prefixb p s || match s with [] => false | _ :: s' => str_contains s' p end.

(** find_filters.py:24 [_getitem]: never raises. *)
Definition getitem_find (obj key : fval) : res fval :=
  do g <- getitem_raw obj key;;
  match g with
  | GVal v => Ok v
  | GKeyErr | GIndexErr => Ok FNil
  | GTypeErr _ =>
      match obj, key with
      | FStr s, FStr k => Ok (if str_contains s k then FStr k else FNil)
      | (FInt _ | FBool _), (FInt _ | FBool _) => Ok (FBool (py_eq obj key))
      | _, _ => Ok FNil
      end
  end.

(** sorting_filters.py:170 [_get_numeric_item]: everything -> default None. *)
Definition getitem_numeric (obj key : fval) : res fval :=
  do g <- getitem_raw obj key;;
  match g with GVal v => Ok v | _ => Ok FNil end.

(** What the path [i.k] evaluates to (context.py:114 [get] / 195 [get_item])
    for a string segment [k]; [None] = Undefined.  [size] is answered by
    [len] when the object has no such key; [first]/[last] are not modelled
    (the harness never uses them as property names). *)
Definition path_get (obj : fval) (k : str) : option fval :=
  match obj with
  | FDict d =>
      match assoc k d with
      | Some v => Some v
      | None => if str_eqb k Lit.size then Some (FInt (Z.of_nat (length d))) else None
      end
  | FList l => if str_eqb k Lit.size then Some (FInt (Z.of_nat (length l))) else None
  | FStr s => if str_eqb k Lit.size then Some (FInt (Z.of_nat (length s))) else None
  | _ => None
  end.

(** * Boolean equality of model values and results, for the correspondence run *)

Fixpoint fval_eqb (a b : fval) {struct a} : bool :=
  match a, b with
  | FNil, FNil => true
  | FBool x, FBool y => Bool.eqb x y
  | FInt x, FInt y => x =? y
  | FDec m e, FDec m' e' => q_eqb (dnum m e) (dnum m' e')
  | FStr s, FStr t => str_eqb s t
  | FList l, FList m =>
      (fix go (l m : list fval) {struct l} : bool :=
         match l, m with
         | [], [] => true
         | x :: l', y :: m' => fval_eqb x y && go l' m'
         | _, _ => false
         end) l m
  | FDict d, FDict e =>
      (fix go (d e : list (str * fval)) {struct d} : bool :=
         match d, e with
         | [], [] => true
         | (k, v) :: d', (k', w) :: e' => str_eqb k k' && fval_eqb v w && go d' e'
         | _, _ => false
         end) d e
  | _, _ => false
  end.

Definition rfval_eqb : res fval -> res fval -> bool := res_eqb_nopos fval_eqb.
